(* Tags: a field carries the tags of every field defined under a condition that names it -- for every
   reachable state (so the fields selected by a tag always include the fields they depend on). *)
From Coq Require Import ZArith List Bool Lia Permutation.
Require Import Rig.Model.Base Rig.Model.BitField Rig.Spec.BitField.
Require Import Rig.Proofs.BitFieldBits Rig.Proofs.BitFieldTree Rig.Proofs.BitFieldAssign
               Rig.Proofs.BitFieldAdd Rig.Proofs.BitFieldKeys Rig.Proofs.BitFieldReach.
Import ListNotations.
Open Scope Z_scope.

(* ------------------------------------------------------------------ every required identifier names a field above *)
Definition anc (t : tree) : Prop :=
  forall e, In e (entries t) -> forall k v, In (k, v) (e_path e) ->
    exists e', In e' (entries t) /\ e_name e' = k /\ incl (e_path e') (e_path e).

Lemma tree_add_anc t : forall i fid fv p t',
  tree_add t i fid fv = Ok t' ->
  exists path, In (p ++ path, (i, fid)) (flat t' p) /\
    forall k v, In (k, v) path -> exists f q, In (p ++ q, (k, f)) (flat t p) /\ incl q path.
Proof.
  induction t as [fs cs IH] using tree_ind'. intros i fid fv p t' H.
  cbn [tree_add] in H.
  destruct (has_ident i (potential_fields (Node fs cs) fv)); [discriminate|].
  destruct fv as [|kv0 fv0].
  - inversion H; subst. exists []. split; [|intros ? ? []].
    cbn [flat]. apply in_or_app. left. rewrite app_nil_r. apply in_map_iff. exists (i, fid).
    split; [reflexivity|]. apply in_or_app. right. now left.
  - set (fv := kv0 :: fv0) in *.
    destruct (meetable fs fv) as [|m0 meet0] eqn:Em; [discriminate|].
    set (meet := m0 :: meet0) in *.
    assert (Hmeetfs : forall k v, In (k, v) meet -> exists f, In (p ++ [], (k, f)) (flat (Node fs cs) p)).
    { intros k v Hin. assert (Hm : In (k, v) (meetable fs fv)) by (rewrite Em; exact Hin).
      apply meetable_In in Hm. destruct Hm as [[f Hf] _]. exists f.
      cbn [flat]. apply in_or_app. left. rewrite app_nil_r. apply in_map_iff. exists (k, f). auto. }
    match type of H with bind ?u _ = _ => destruct u as [cs'| | |] eqn:Eu end; simpl in H; try discriminate.
    inversion H; subst t'. clear H.
    apply upd_first_spec in Eu.
    destruct Eu as [[l1 [[req c] [a' [l2 [E1 [E2 [E3 E4]]]]]]]|[a [E1 E2]]].
    + simpl in E2. apply fvals_eqb_eq in E2. subst req.
      destruct (tree_add c i fid (fv_minus fv meet)) as [c'| | |] eqn:Ec; simpl in E3; try discriminate.
      inversion E3; subst a'. clear E3.
      assert (Hc : In (meet, c) cs) by (subst cs; apply in_or_app; right; now left).
      rewrite Forall_forall in IH. specialize (IH _ Hc). simpl in IH.
      destruct (IH _ _ _ (p ++ meet) _ Ec) as [path' [Hin' Hanc']].
      exists (meet ++ path'). split.
      * cbn [flat]. apply in_or_app. right. apply in_flat_map. exists (meet, c'). split.
        -- subst cs'. apply in_or_app. right. now left.
        -- now rewrite app_assoc.
      * intros k v Hkv. apply in_app_or in Hkv. destruct Hkv as [Hkv|Hkv].
        -- destruct (Hmeetfs k v Hkv) as [f Hf]. exists f, []. split; [exact Hf|intros ? []].
        -- destruct (Hanc' k v Hkv) as [f [q [Hq Hincl]]]. exists f, (meet ++ q). split.
           ++ cbn [flat]. apply in_or_app. right. apply in_flat_map. exists (meet, c). split; [exact Hc|].
              now rewrite app_assoc.
           ++ intros x Hx. apply in_app_or in Hx. apply in_or_app. destruct Hx; [now left|right; now apply Hincl].
    + destruct (fv_minus fv meet) as [|x xs]; [|discriminate]. inversion E1; subst a. clear E1.
      exists meet. split.
      * cbn [flat]. apply in_or_app. right. apply in_flat_map. exists (meet, Node [(i, fid)] []). split.
        -- subst cs'. apply in_or_app. right. now left.
        -- cbn [flat map flat_map]. now left.
      * intros k v Hkv. destruct (Hmeetfs k v Hkv) as [f Hf]. exists f, []. split; [exact Hf|intros ? []].
Qed.

Lemma tree_add_keeps_anc t n i fv t' :
  wf_tree t n -> anc t -> tree_add t i n fv = Ok t' -> anc t'.
Proof.
  intros W HA H.
  destruct (tree_add_wf _ _ _ _ _ W H) as [W' [path [HP Hpath]]].
  destruct (tree_add_anc t i n fv [] t' H) as [path2 [Hin2 Hanc2]]. simpl in Hin2.
  assert (path2 = path).
  { assert (E : (path2, (i, n)) = (path, (i, n))).
    { eapply (wf_same_fid t' (S n)); eauto.
      apply (Permutation_in _ (Permutation_sym HP)). now left. }
    now inversion E. }
  subst path2.
  assert (Hold : forall e, In e (entries t) -> In e (entries t')).
  { intros e He. apply (Permutation_in _ (Permutation_sym HP)). now right. }
  intros e He k v Hkv. apply (Permutation_in _ HP) in He. destruct He as [<-|He].
  - unfold e_path in Hkv. simpl in Hkv. destruct (Hanc2 k v Hkv) as [f [q [Hq Hincl]]]. simpl in Hq.
    exists (q, (k, f)). split; [now apply Hold|]. split; [reflexivity|exact Hincl].
  - destruct (HA e He k v Hkv) as [e' [He' [Hn Hi]]]. exists e'. split; [now apply Hold|auto].
Qed.

(* ------------------------------------------------------------------ get_field_requirements *)
Lemma first_some_In {A B} (f : A -> option B) l b :
  first_some f l = Some b -> exists a, In a l /\ f a = Some b.
Proof.
  induction l as [|a l IH]; simpl; [discriminate|].
  destruct (f a) as [b'|] eqn:E.
  - intros H. inversion H; subst. exists a. auto.
  - intros H. destruct (IH H) as [a' [H1 H2]]. exists a'. auto.
Qed.

Lemma gfr_spec t : forall i fv p r,
  get_field_requirements t i fv = Some r ->
  exists f, In (p ++ r, (i, f)) (flat t p) /\ req_enabled fv r = true.
Proof.
  induction t as [fs cs IH] using tree_ind'. intros i fv p r H. cbn [get_field_requirements] in H.
  destruct (zassoc i fs) as [f|] eqn:Ez.
  - inversion H; subst. exists f. split; [|reflexivity]. cbn [flat]. apply in_or_app. left.
    rewrite app_nil_r. apply in_map_iff. exists (i, f). split; [reflexivity|]. now apply zassoc_In.
  - apply first_some_In in H. destruct H as [[req c] [Hc H]].
    destruct (req_enabled fv req) eqn:Er; [|discriminate].
    destruct (get_field_requirements c i fv) as [sub|] eqn:Es; [|discriminate]. inversion H; subst r.
    rewrite Forall_forall in IH. destruct (IH _ Hc _ _ (p ++ req) _ Es) as [f [Hf He]].
    exists f. split.
    + cbn [flat]. apply in_or_app. right. apply in_flat_map. exists (req, c). split; [exact Hc|].
      now rewrite app_assoc.
    + now rewrite req_enabled_app, Er, He.
Qed.

(* ------------------------------------------------------------------ tag sets *)
Lemma tags_union_In a b x : In x (tags_union a b) <-> In x a \/ In x b.
Proof.
  unfold tags_union. rewrite in_app_iff, filter_In, nodup_In. split.
  - intros [H|[H _]]; auto.
  - intros [H|H]; [now left|].
    destruct (existsb (Z.eqb x) a) eqn:E.
    + left. apply existsb_exists in E. destruct E as [y [Hy E]]. apply Z.eqb_eq in E. now subst.
    + right. split; [exact H|reflexivity].
Qed.

Lemma add_tags_tags s fid tags g x :
  In x (f_tags (sget (add_tags s fid tags) g)) <->
  In x (f_tags (sget s g)) \/ (g = fid /\ (fid < length s)%nat /\ In x tags).
Proof.
  unfold add_tags. rewrite sget_sset.
  destruct (Nat.eqb fid g && Nat.ltb fid (length s))%bool eqn:E.
  - apply andb_true_iff in E. destruct E as [E1 E2]. apply Nat.eqb_eq in E1. apply Nat.ltb_lt in E2. subst g.
    simpl. rewrite tags_union_In. split; [intros [H|H]; auto|intros [H|[_ [_ H]]]; auto].
  - split; [auto|]. intros [H|[-> [H1 H2]]]; [exact H|].
    rewrite Nat.eqb_refl in E. simpl in E. apply Nat.ltb_ge in E. lia.
Qed.

Lemma propagate_tags_spec t fv : forall parents s tags s' e,
  propagate_tags t fv s parents tags = (s', e) ->
  (forall k v, In (k, v) parents -> exists pf, get_field t k fv = Some pf /\ (pf < length s)%nat) ->
  e = None /\
  forall g x, In x (f_tags (sget s' g)) <->
              In x (f_tags (sget s g)) \/
              (In x tags /\ exists k v, In (k, v) parents /\ get_field t k fv = Some g).
Proof.
  induction parents as [|[k0 v0] ps IH]; intros s tags s' e H Hall; simpl in H.
  - inversion H; subst. split; [reflexivity|]. intros g x. split; [auto|].
    intros [H1|[_ [k [v [[] _]]]]]. exact H1.
  - destruct (Hall k0 v0 (or_introl eq_refl)) as [pf [Hg Hb]]. rewrite Hg in H.
    destruct (IH _ _ _ _ H) as [He Htags].
    { intros k v Hin. destruct (Hall k v (or_intror Hin)) as [pf' [Hg' Hb']]. exists pf'.
      split; [exact Hg'|]. destruct (add_tags_same_layout s pf tags) as [L _]. now rewrite L. }
    split; [exact He|]. intros g x. rewrite Htags, add_tags_tags. split.
    + intros [[H1|[-> [_ H1]]]|[H1 [k [v [H2 H3]]]]].
      * now left.
      * right. split; [exact H1|]. exists k0, v0. split; [now left|exact Hg].
      * right. split; [exact H1|]. exists k, v. split; [now right|exact H3].
    + intros [H1|[H1 [k [v [[Heq|H2] H3]]]]].
      * left. now left.
      * inversion Heq; subst k v. left. right. split; [congruence|]. split; [exact Hb|exact H1].
      * right. split; [exact H1|]. exists k, v. auto.
Qed.

Lemma gfr_some t : forall i fv f, get_field t i fv = Some f -> exists r, get_field_requirements t i fv = Some r.
Proof.
  induction t as [fs cs IH] using tree_ind'. intros i fv f H. cbn [get_field get_field_requirements] in *.
  destruct (zassoc i fs); [eauto|].
  induction cs as [|[req c] cs IHcs]; simpl in *; [discriminate|].
  inversion IH as [|? ? Hc Hcs]; subst. simpl in Hc.
  destruct (req_enabled fv req).
  - destruct (get_field c i fv) as [f'|] eqn:Eg.
    + destruct (Hc _ _ _ Eg) as [r Hr]. rewrite Hr. eauto.
    + destruct (get_field_requirements c i fv); [eauto|]. now apply IHcs.
  - now apply IHcs.
Qed.

(* ------------------------------------------------------------------ add_field keeps tags closed *)
Definition TInv (st : state) : Prop := anc (s_tree st) /\ tags_closed (s_tree st) (s_store st).

Lemma depends_on_spec e e' :
  depends_on e e' = true ->
  (exists v, In (e_name e', v) (e_path e)) /\ req_enabled (e_path e) (e_path e') = true /\ e_fid e <> e_fid e'.
Proof.
  unfold depends_on. intros H. apply andb_true_iff in H. destruct H as [H H3].
  apply andb_true_iff in H. destruct H as [H1 H2]. split; [|split; [exact H2|]].
  - apply existsb_exists in H1. destruct H1 as [[k v] [Hin E]]. simpl in E. apply Z.eqb_eq in E. subst k. eauto.
  - apply negb_true_iff in H3. now apply Nat.eqb_neq.
Qed.

Lemma add_field_tinv st fv i len start tags st' e :
  Inv st -> TInv st -> add_field_gen false st fv i len start tags = (st', e) -> TInv st'.
Proof.
  intros [W HI] [HA HT] H. unfold add_field_gen in H.
  destruct (match len with Some l => l <=? 0 | None => false end).
  { inversion H; subst. split; assumption. }
  destruct (match start with Some s => range_bad false (s_len st) s len | None => false end).
  { inversion H; subst. split; assumption. }
  match type of H with (if ?c then _ else _) = _ => destruct c end.
  { inversion H; subst. split; assumption. }
  destruct (tree_add (s_tree st) i (length (s_store st)) fv) as [t'| | |] eqn:Et;
    try (inversion H; subst; split; assumption).
  set (n := length (s_store st)) in *.
  destruct (tree_add_wf _ _ _ _ _ W Et) as [W' [path [HP Hpath]]].
  pose proof (tree_add_keeps_anc _ _ _ _ _ W HA Et) as HA'.
  set (tg := nodup Z.eq_dec tags) in *.
  set (s1 := s_store st ++ [mkField len start tg 1]) in *.
  assert (Hlen1 : length s1 = S n) by (subst s1 n; rewrite app_length; simpl; lia).
  assert (Hin : forall e0, In e0 (entries t') <-> e0 = (path, (i, n)) \/ In e0 (entries (s_tree st))).
  { intros e0. split; intros He.
    - apply (Permutation_in _ HP) in He. destruct He; auto.
    - apply (Permutation_in _ (Permutation_sym HP)). destruct He; [now left|now right]. }
  assert (Hnew_in : In (path, (i, n)) (entries t')) by (apply Hin; now left).
  assert (Hold1 : forall g, (g < n)%nat -> sget s1 g = sget (s_store st) g).
  { intros g Hg. subst s1. now apply sget_app_old. }
  assert (Hnew1 : f_tags (sget s1 n) = tg) by (subst s1 n; now rewrite sget_app_new).
  (* whatever lies inside the new path is enabled under fv *)
  assert (Hsub : forall q, incl q path -> req_enabled fv q = true).
  { intros q Hq. apply req_enabled_spec. intros k v Hkv. apply Hpath. now apply Hq. }
  assert (Hgetf : forall e0, In e0 (entries t') -> req_enabled fv (e_path e0) = true ->
                    get_field t' (e_name e0) fv = Some (e_fid e0)).
  { intros [q [k f]] He Hen. unfold e_name, e_fid, e_path in *. simpl in *.
    assert (Henab : In (k, f) (enabled_fields t' fv)) by (apply enabled_flat0; eauto).
    destruct (enabled_get_field _ _ _ _ Henab) as [f' Hf']. rewrite Hf'. f_equal.
    eapply enabled_names_unique; eauto. now apply get_field_enabled. }
  assert (Hpath_en : req_enabled fv path = true) by (apply Hsub; apply incl_refl).
  (* the requirements found are the new field's path *)
  destruct (get_field_requirements t' i fv) as [reqs|] eqn:Er.
  2:{ exfalso. pose proof (Hgetf _ Hnew_in Hpath_en) as Hg. unfold e_name, e_fid in Hg. simpl in Hg.
      destruct (gfr_some _ _ _ _ Hg) as [r Hr]. congruence. }
  assert (reqs = path).
  { destruct (gfr_spec t' i fv [] reqs Er) as [f [Hf Hen]]. simpl in Hf.
    pose proof (Hgetf _ Hf Hen) as G1. pose proof (Hgetf _ Hnew_in Hpath_en) as G2.
    unfold e_name, e_fid in G1, G2. simpl in G1, G2. assert (f = n) by congruence. subst f.
    assert (E : (reqs, (i, n)) = (path, (i, n))) by (eapply (wf_same_fid t' (S n)); eauto).
    now inversion E. }
  subst reqs.
  destruct (propagate_tags t' fv s1 path tg) as [s2 e2] eqn:Ep.
  inversion H; subst st' e. clear H. simpl.
  destruct (propagate_tags_spec _ _ _ _ _ _ _ Ep) as [_ Htags].
  { intros k v Hkv. destruct (HA' _ Hnew_in k v Hkv) as [e' [He' [Hn Hi]]].
    unfold e_path in Hi at 2. simpl in Hi.
    pose proof (Hgetf _ He' (Hsub _ Hi)) as Hg. rewrite Hn in Hg. exists (e_fid e'). split; [exact Hg|].
    rewrite Hlen1. apply (wf_bound _ _ W' _ He'). }
  split; [exact HA'|].
  (* a field enabled under fv and named in the new path receives the tags *)
  assert (Hrecv : forall e0 x, In e0 (entries t') -> req_enabled fv (e_path e0) = true ->
                    (exists v, In (e_name e0, v) path) -> In x tg -> In x (f_tags (sget s2 (e_fid e0)))).
  { intros e0 x He Hen [v Hv] Hx. apply Htags. right. split; [exact Hx|].
    exists (e_name e0), v. split; [exact Hv|]. now apply Hgetf. }
  intros e1 e2' x H1 H2 Hd Hx.
  destruct (depends_on_spec _ _ Hd) as [[v2 Hname] [Hreq Hne]].
  apply Hin in H1. apply Hin in H2.
  destruct H1 as [->|H1].
  - (* the new field depends on e2' *)
    unfold e_path in Hname, Hreq. simpl in Hname, Hreq.
    destruct H2 as [->|H2]; [exfalso; now apply Hne|].
    assert (Hx' : In x tg).
    { apply Htags in Hx. unfold e_fid in Hx. simpl in Hx. rewrite Hnew1 in Hx. tauto. }
    apply Hrecv; auto.
    + apply Hin. now right.
    + apply req_enabled_spec. intros k v Hkv. rewrite req_enabled_spec in Hreq.
      apply Hpath. apply zassoc_In. now apply Hreq.
    + eauto.
  - destruct H2 as [->|H2].
    + (* an old field cannot depend on the new one *)
      exfalso. unfold e_name in Hname. simpl in Hname. unfold e_path in Hreq at 2. simpl in Hreq.
      destruct (HA _ H1 _ _ Hname) as [e'' [He'' [Hn'' Hi'']]].
      assert (Hc : compat (e_path e'') path).
      { intros k v1 v2' K1 K2. apply Hi'' in K1. rewrite req_enabled_spec in Hreq.
        apply Hreq in K2. apply zassoc_In in K2.
        eapply (wf_self _ _ W' e1); eauto. apply Hin. now right. }
      assert (E : e_fid e'' = e_fid (path, (i, n))).
      { apply (wf_names _ _ W'); auto. apply Hin. now right. }
      unfold e_fid at 2 in E. simpl in E. pose proof (wf_bound _ _ W _ He''). fold n in H. lia.
    + (* both old *)
      apply Htags in Hx. rewrite Hold1 in Hx by (apply (wf_bound _ _ W _ H1)).
      destruct Hx as [Hx|[Hx [k [v [Hkv Hg]]]]].
      * apply Htags. left. rewrite Hold1 by (apply (wf_bound _ _ W _ H2)).
        apply (HT e1 e2' x H1 H2 Hd Hx).
      * (* e1 received the new tags: it is enabled under fv, hence so is what it depends on *)
        assert (Hen1 : req_enabled fv (e_path e1) = true).
        { apply get_field_enabled in Hg. apply enabled_flat0 in Hg. destruct Hg as [q [Hq Hen]].
          assert (E : (q, (k, e_fid e1)) = e1).
          { eapply (wf_same_fid t' (S n)); eauto. apply Hin. now right. }
          rewrite <- E. exact Hen. }
        apply Hrecv; auto.
        -- apply Hin. now right.
        -- apply req_enabled_spec. intros k' v' Hkv'. rewrite req_enabled_spec in Hreq, Hen1.
           apply Hen1. apply zassoc_In. now apply Hreq.
        -- exists v2. apply Hpath. rewrite req_enabled_spec in Hen1. now apply Hen1.
Qed.

Lemma same_tags_closed t s s' :
  (forall g, f_tags (sget s' g) = f_tags (sget s g)) -> tags_closed t s -> tags_closed t s'.
Proof. intros E HT e e' x H1 H2 Hd Hx. rewrite E in *. apply (HT e e' x H1 H2 Hd Hx). Qed.

Lemma step_tinv st o st' r : Inv st -> TInv st -> step st o = (st', r) -> TInv st'.
Proof.
  intros HI HT H. destruct o; simpl in H; try (inversion H; subst; exact HT).
  - destruct (add_field st (inst_fv st inst) i len start tags) as [s1 e1] eqn:E.
    inversion H; subst. eapply add_field_tinv; eauto.
  - destruct (call st (inst_fv st inst) kw) as [s1 e1] eqn:E. inversion H; subst s1 r. clear H.
    unfold call in E. match type of E with (if ?c then _ else _) = _ => destruct c end; [inversion E; subst; exact HT|].
    destruct (call_check (s_tree st) (s_store st) (kw ++ inst_fv st inst) (kw ++ inst_fv st inst)) as [k|] eqn:Ec;
      [inversion E; subst; exact HT|].
    inversion E; subst st'. destruct HT as [HA HTc]. split; [exact HA|]. simpl.
    destruct (call_update_props (s_tree st) (kw ++ inst_fv st inst) (kw ++ inst_fv st inst) (s_store st)) as [_ G1].
    { intros i v fid fl Hin Hg Hl.
      destruct (call_check_none _ _ _ _ Ec i v Hin) as [fid' [Hg' [_ Hfit]]].
      assert (fid' = fid) by congruence. subst. now apply Hfit. }
    eapply same_tags_closed; [|exact HTc]. intros g. destruct (G1 g) as [_ [_ [C _]]]. exact C.
  - destruct (assign_fields st) as [s1 e1] eqn:E. inversion H; subst s1 r. clear H.
    destruct HI as [W HL]. destruct (assign_fields_inv _ _ _ _ W HL E) as [_ [B [_ [_ [_ [[_ [S2 _]] _]]]]]].
    destruct HT as [HA HTc]. unfold TInv. rewrite B. split; [exact HA|].
    eapply same_tags_closed; [|exact HTc]. intros g. destruct (S2 g) as [_ C]. exact C.
Qed.

Lemma reachable_tags_closed st : reachable st -> tags_closed (s_tree st) (s_store st).
Proof.
  intros R. assert (HT : TInv st); [|exact (proj2 HT)]. induction R.
  - split.
    + intros e [].
    + intros e e' x [].
  - eapply step_tinv; eauto. now apply reachable_inv.
Qed.

(* the fields selected by a tag include every field that a selected field depends on *)
Lemma tag_selection_closed st fv tg i f i' f' p p' :
  reachable st ->
  In (p, (i, f)) (entries (s_tree st)) -> In (p', (i', f')) (entries (s_tree st)) ->
  In (i, f) (filter (has_tag (s_store st) tg) (enabled_fields (s_tree st) fv)) ->
  req_enabled fv p = true ->
  depends_on (p, (i, f)) (p', (i', f')) = true ->
  In (i', f') (filter (has_tag (s_store st) tg) (enabled_fields (s_tree st) fv)).
Proof.
  intros R Hp Hp' Hsel Hen Hd. apply filter_In in Hsel. destruct Hsel as [_ Htag].
  apply filter_In. split.
  - apply enabled_flat0. exists p'. split; [exact Hp'|].
    destruct (depends_on_spec _ _ Hd) as [_ [Hreq _]]. unfold e_path in Hreq. simpl in Hreq.
    apply req_enabled_spec. intros k v Hkv. rewrite req_enabled_spec in Hreq, Hen.
    apply Hen. apply zassoc_In. now apply Hreq.
  - unfold has_tag in *. simpl in *. apply existsb_exists in Htag. destruct Htag as [y [Hy E]].
    apply Z.eqb_eq in E. subst y. apply existsb_exists. exists tg. split; [|apply Z.eqb_refl].
    apply (reachable_tags_closed _ R (p, (i, f)) (p', (i', f')) tg Hp Hp' Hd). exact Hy.
Qed.
