"""C01 -- multicast packets reach exactly the cores of their net's sinks (end to end).

The real pipeline (place -> allocate -> route -> routing_tree_to_tables -> minimise_tables, by hand and through
both wrappers) is run on generated problems; the resulting tables are (i) simulated hop by hop, including
hardware default routing, by an independent Python packet simulator (the oracle), and (ii) handed to the
verified checker `check_delivery` of Model/Network.v evaluated inside Coq, whose soundness theorem
(Props/C01.v) turns every `true` into a kernel-checked proof that the net's packet is delivered exactly to
the expected cores over live links without being dropped and without circulating."""
import json
import lib
import pnr_gen
from lib import zlit, vlist

LEVEL = "proof"
UNITS = ["GenNetwork", "GenTable", "GenTableEnums", "GenRouter", "GenGeometryLinks", "GenGeometry", "GenPipeline"]
PLACERS = ["sequential", "hilbert", "rcm", "breadth_first", "rand", "sa_c", "sa_py"]
VEC = [(1, 0), (1, 1), (0, 1), (-1, 0), (-1, -1), (0, -1)]


def gen_dense(rng):
    """Many nets with few key bits through few chips (a strip of chips with little room on each): the stream
    in which ordered covering merges entries of different nets on one chip, merged entries alias keys of
    entries above them and default-routed hops of one net meet entries of others."""
    w, h = rng.randint(3, 8), rng.randint(1, 2)
    dead_links = []
    if rng.random() < 0.6:          # mesh
        for x in range(w):
            for y in range(h):
                for l, (dx, dy) in enumerate(VEC):
                    if not (0 <= x + dx < w and 0 <= y + dy < h):
                        dead_links.append([x, y, l])
    nv = rng.randint(6, 14)
    vertices = [dict(id="v%d" % i, cores=1, sdram=0) for i in range(nv)]
    ids = [v["id"] for v in vertices]
    nets = []
    for _ in range(rng.randint(6, 16)):
        nets.append(dict(source=rng.choice(ids), sinks=[rng.choice(ids) for _ in range(rng.randint(1, 3))], weight=1.0))
    shift = rng.choice([0, 8, 27])
    if rng.random() < 0.7:
        keys = pnr_gen.ternary_keys(rng, len(nets), shift)      # don't-care bits at arbitrary positions
    else:
        nbits = rng.choice([4, 5]) if len(nets) <= 16 else 5
        vals = rng.sample(range(1 << nbits), len(nets))
        keys = [[v << shift, ((1 << nbits) - 1) << shift] for v in vals]
    return dict(machine=dict(w=w, h=h, dead_chips=[], dead_links=dead_links,
                             cores=-(-nv // (w * h)) + rng.choice([1, 1, 2]), sdram=10000, exc=[]),
                vertices=vertices, nets=nets, constraints=[], keys=keys)


def gen_damaged(rng):
    """A heavily damaged mesh or torus (30-40 % of the links dead, both directions) with few vertices spread by location
    constraints and multi-sink nets: the stream in which the router's dead-link repair has to reconnect several
    subtrees of one net and its A* paths cross subtrees that are still disconnected."""
    w, h = rng.randint(4, 7), rng.randint(4, 7)
    frac = rng.uniform(0.25, 0.4)
    dead_links = []
    for x in range(w):
        for y in range(h):
            for l in (0, 1, 2):
                dx, dy = VEC[l]
                if rng.random() < frac:
                    dead_links.append([x, y, l])
                    dead_links.append([(x + dx) % w, (y + dy) % h, l + 3])
    if rng.random() < 0.5:          # mesh
        for x in range(w):
            for y in range(h):
                for l, (dx, dy) in enumerate(VEC):
                    if not (0 <= x + dx < w and 0 <= y + dy < h) and [x, y, l] not in dead_links:
                        dead_links.append([x, y, l])
    nv = rng.randint(4, 10)
    vertices = [dict(id="v%d" % i, cores=1, sdram=0) for i in range(nv)]
    ids = [v["id"] for v in vertices]
    chips = rng.sample([(x, y) for x in range(w) for y in range(h)], nv)
    cons = [["location", i, list(c)] for i, c in zip(ids, chips)]
    nets = []
    for _ in range(rng.randint(4, 10)):
        src = rng.choice(ids)
        nets.append(dict(source=src, sinks=rng.sample([i for i in ids if i != src], rng.randint(1, min(4, nv - 1))),
                         weight=1.0))
    vals = rng.sample(range(64), len(nets))
    keys = [[v << 8, 63 << 8] for v in vals]
    return dict(machine=dict(w=w, h=h, dead_chips=[], dead_links=dead_links, cores=3, sdram=10000, exc=[]),
                vertices=vertices, nets=nets, constraints=cons, keys=keys)


def gen_case(rng, big=False):
    if rng.random() < 0.15:
        return dict(problem=gen_damaged(rng), mode="manual", placer=rng.choice(["sequential", "hilbert"]),
                    radius=rng.choice([0, 1, 20]), methods=rng.choice([["oc"], ["rd"], []]),
                    target=None, seed=rng.randint(0, 10 ** 6), stream="damaged")
    if big and rng.random() < 0.1:       # thorough tier: machines up to 12x12, more vertices
        p = pnr_gen.gen_problem(rng, max_w=rng.choice([8, 12]), max_h=rng.choice([8, 12]), max_vertices=24)
        return dict(problem=p, mode=rng.choice(["manual", "wrapper", "pnr"]), placer=rng.choice(PLACERS),
                    radius=rng.choice([0, 1, 2, 20]), methods=rng.choice([["rd", "oc"], ["oc"], ["rd"], []]),
                    target=rng.choice([None, None, 3, 1024, "dict"]), seed=rng.randint(0, 10 ** 6), stream="big")
    if rng.random() < 0.5:
        return dict(problem=gen_dense(rng), mode=rng.choice(["manual", "manual", "pnr"]),
                    placer=rng.choice(["sequential", "hilbert", "rand", "breadth_first", "rcm"]),
                    radius=rng.choice([0, 1, 20]), methods=rng.choice([["oc"], ["oc"], ["rd", "oc"], ["oc", "rd"], ["rd"]]),
                    target=rng.choice([None, None, None, None, 3, 5, "dict"]), seed=rng.randint(0, 10 ** 6), stream="dense")
    p = pnr_gen.gen_problem(rng, max_w=rng.choice([3, 4, 6]), max_h=rng.choice([3, 4, 6]), max_vertices=12)
    mode = rng.choice(["manual", "manual", "manual", "wrapper", "pnr"])
    return dict(problem=p, mode=mode, placer=rng.choice(PLACERS), radius=rng.choice([0, 1, 2, 20]),
                methods=rng.choice([["rd", "oc"], ["oc"], ["rd"], ["oc", "rd"], []]),
                target=rng.choice([None, None, 0, 1, 3, 1024, "dict"]), seed=rng.randint(0, 10 ** 6))


# ------------------------------------------------------------------ independent packet simulator (oracle)
def oracle(case, out):
    m = case["problem"]["machine"]
    w, h = m["w"], m["h"]
    dead_chips = set(map(tuple, m["dead_chips"]))
    dead_links = set(map(tuple, m["dead_links"]))
    for n in out["nets"]:
        endpoints = set(map(tuple, n["links"]))
        delivered, crossed, problem = simulate_net(m, out["tables"], n["key"], n["src"], endpoints)
        if problem:
            return "net key 0x%x: %s" % (n["key"], problem)
        exp = sorted(map(tuple, n["cores"]))
        if sorted(delivered) != exp:
            missing = sorted(set(exp) - set(delivered))
            extra = sorted(set(delivered) - set(exp))
            dup = sorted(set(d for d in delivered if delivered.count(d) > 1))
            return "net key 0x%x: cores reached %r differ from the sinks' cores: missing %r, extra %r, twice %r" % (
                n["key"], sorted(delivered), missing, extra, dup)
        left = sorted(c for c in crossed if c in endpoints)
        if left != sorted(endpoints):
            return "net key 0x%x: endpoint links left %r, expected %r" % (n["key"], left, sorted(endpoints))
    return None


def simulate_net(m, tables, key, src, endpoints):
    w, h = m["w"], m["h"]
    dead_chips = set(map(tuple, m["dead_chips"]))
    dead_links = set(map(tuple, m["dead_links"]))
    tbl = {(x, y): t for x, y, t in tables}
    delivered, crossed = [], []
    frontier = [(tuple(src), None)]
    steps = 0
    while frontier:
        (x, y), arrival = frontier.pop()
        steps += 1
        if steps > 10 * w * h + 50:
            return delivered, crossed, "packet circulates (more than %d hops)" % steps
        route = None
        for r, k, msk, _ in tbl.get((x, y), []):
            if key & msk == k:
                route = r
                break
        if route is None:
            if arrival is None:
                return delivered, crossed, "packet dropped at its source chip %r (no entry matches)" % ((x, y),)
            route = 1 << ((arrival + 3) % 6)
        for bit in range(6, 24):
            if (route >> bit) & 1:
                delivered.append((x, y, bit - 6))
        for bit in range(6):
            if not (route >> bit) & 1:
                continue
            crossed.append((x, y, bit))
            if (x, y, bit) in endpoints:
                continue                         # leaves the machine towards the sink's external device
            if (x, y, bit) in dead_links:
                return delivered, crossed, "packet sent down dead link %d of chip %r" % (bit, (x, y))
            nx, ny = (x + VEC[bit][0]) % w, (y + VEC[bit][1]) % h
            if (nx, ny) in dead_chips:
                return delivered, crossed, "packet sent to dead chip %r" % ((nx, ny),)
            frontier.append(((nx, ny), (bit + 3) % 6))
    return delivered, crossed, None


def run(chk, args):
    chk.assumptions += ["net keys are pairwise non-intersecting (distinct values under a common mask)",
                        "a link named by a sink's RouteEndpointConstraint is where the packet leaves the machine; "
                        "its liveness is not required",
                        "pipelines that raise one of the documented mapping errors (insufficient resource, invalid "
                        "constraint, disconnected machine, minimisation failed) map nothing, so there is nothing to deliver"]
    chk.trusted += ["the rig_c_sa annealing kernel (third-party compiled code outside /repo) is exercised but only its "
                    "outputs are validated"]
    chk.regenerate(UNITS)
    chk.prove()
    n = 1600 if chk.tier == "quick" else 12000
    if args.replay:
        rep = json.load(open(args.replay))
        cases = [f["replay"]["case"] for f in rep.get("failures", []) if "case" in f.get("replay", {})]
    else:
        cases = [gen_case(chk.rng, big=chk.tier != "quick") for _ in range(n)]
    corpus = lib.os.path.join(lib.VERIF, "corpus", "C01.json")
    if lib.os.path.exists(corpus):
        cases = json.load(open(corpus)) + cases
    for i, c in enumerate(cases):
        if i % 5 == 3 and "custom_cores" not in c:
            c["custom_cores"] = True       # the caller uses its own name for the core resource
        if i % 4 == 1 and "oneshot" not in c:
            c["oneshot"] = True            # hand-chained stages get the constraints as one-shot iterators
    chunks = [cases[i:i + 10] for i in range(0, len(cases), 10)]
    outs = [o for part in chk.impl_parallel("impl_c01.py", chunks, timeout=3000) for o in part]
    ok_cases = []
    for c, o in zip(cases, outs):
        if o in (["skipped"],):
            continue
        if o == ["hang"]:
            chk.fail_input("pipeline-hang", "the mapping pipeline did not terminate", dict(case=c))
            continue
        chk.count("stream:" + c.get("stream", "general"))
        chk.count("mode:" + c["mode"])
        chk.count("custom-core-resource:" + str(bool(c.get("custom_cores"))))
        chk.count("constraints-as-one-shot-iterators:" + str(bool(c.get("oneshot")) and c.get("mode") == "manual"))
        chk.count("placer:" + c["placer"])
        chk.count("status:" + o["status"] + (":" + o["exc"] if o["status"] == "raised" else ""))
        if o["status"] == "raised":
            chk.note_case(c, False)
            if not o["documented"]:
                chk.count("undocumented-exception:" + o["exc"] + "@" + o["stage"])
            continue
        # the property speaks of EVERY key matched by a net's (key, mask): besides the base key, the key with all
        # don't-care bits set and two pseudo-random fillings of the don't-care bits are injected as well (the Python
        # simulator and the checker inside Coq both see this expanded list)
        probes, every = [], []
        for n_ in o["nets"]:
            free = ~n_["mask"] & 0xffffffff
            fills = {0, free} | {((n_["key"] + 1) * mult + add) & free
                                 for mult, add in ((2654435761, 12345), (40503, 0x9e3779b9), (69069, 1), (1103515245, 7),
                                                   (0x5bd1e995, 0x1b873593), (48271, 0xdeadbeef))}
            for f in sorted(fills):
                probes.append(dict(n_, key=n_["key"] | f))
            # the Python simulator also follows EVERY filling of the don't-care bits that lie among the bits some
            # net specifies (with the remaining don't-care bits all 0 and all 1)
            field = 0
            for n2 in o["nets"]:
                field |= n2["mask"]
            inner = [1 << b for b in range(32) if (free >> b) & 1 and (field >> b) & 1]
            if len(inner) <= 7:
                outer = free & ~field
                for combo in range(1 << len(inner)):
                    f = sum(b for i_, b in enumerate(inner) if (combo >> i_) & 1)
                    every.append(dict(n_, key=n_["key"] | f))
                    if outer:
                        every.append(dict(n_, key=n_["key"] | f | outer))
        chk.count("keys-followed-by-the-simulator", len(every) + len(probes))
        why_every = oracle(c, dict(o, nets=every)) if every else None
        o["nets"] = probes
        nontriv = sum(len(n_["cores"]) + len(n_["links"]) for n_ in o["nets"]) >= 2 and len(o["tables"]) >= 1
        chk.note_case(c, nontriv)
        chk.count("keys-injected", len(o["nets"]))
        chk.count("table-entries", sum(len(t) for _, _, t in o["tables"]))
        why = oracle(c, o) or why_every
        if why:
            chk.fail_input("delivery:" + why.split(":")[1].strip()[:40].replace(" ", "_"), why,
                           dict(case=c, tables=o["tables"], nets=o["nets"]))
        ok_cases.append((c, o))
    if ok_cases:
        chk.sample(dict(case=dict((k, v) for k, v in ok_cases[0][0].items() if k != "problem"),
                        machine=ok_cases[0][0]["problem"]["machine"], nets=ok_cases[0][1]["nets"][:2],
                        tables=ok_cases[0][1]["tables"][:2]))
    # V: the verified checker, inside Coq, on the same real outputs
    if lib.os.path.exists(lib.os.path.join(lib.COQ, "Model", "Network.v")) and chk.model_ok:
        exprs, idx = [], []
        for i, (c, o) in enumerate(ok_cases):
            m = c["problem"]["machine"]
            mach = "{| n_width := %s; n_height := %s; n_dead_chips := %s; n_dead_links := %s |}" % (
                zlit(m["w"]), zlit(m["h"]), vlist("(%s, %s)" % (zlit(x), zlit(y)) for x, y in m["dead_chips"]),
                vlist("((%s, %s), %s)" % (zlit(x), zlit(y), zlit(l)) for x, y, l in m["dead_links"]))
            tabs = vlist("((%s, %s), %s)" % (zlit(x), zlit(y), vlist(
                "mkEntry %s %s %s %s" % (zlit(r), zlit(k), zlit(ms), zlit(s)) for r, k, ms, s in t))
                for x, y, t in o["tables"])
            nets = vlist("(%s, (%s, %s), %s, %s)" % (
                zlit(n_["key"]), zlit(n_["src"][0]), zlit(n_["src"][1]),
                vlist("((%s, %s), %s)" % (zlit(x), zlit(y), zlit(core)) for x, y, core in n_["cores"]),
                vlist("((%s, %s), %s)" % (zlit(x), zlit(y), zlit(l)) for x, y, l in n_["links"])) for n_ in o["nets"])
            exprs.append("forallb (fun n => let '(k, s, cores, links) := n in check_delivery %s %s k s cores links) %s"
                         % (mach, tabs, nets))
            idx.append(i)
        try:
            header = ("From Coq Require Import ZArith List Bool. Import ListNotations. Open Scope Z_scope.\n"
                      "Require Import Rig.Model.Base Rig.Model.Table Rig.Model.Network.\n")
            vals = chk.coq_eval(header, exprs, shard=40)
            bad = [i for i, v in zip(idx, vals) if v is not True]
            for i in bad[:3]:
                c, o = ok_cases[i]
                if oracle(c, o) is None:
                    chk.disagree("check_delivery rejects a mapping that the packet simulator accepts",
                                 dict(case=c, tables=o["tables"], nets=o["nets"]))
            for i, v in zip(idx, vals):
                if v is True and oracle(*ok_cases[i]) is not None:
                    chk.disagree("check_delivery accepts a mapping that the packet simulator rejects",
                                 dict(case=ok_cases[i][0], tables=ok_cases[i][1]["tables"], nets=ok_cases[i][1]["nets"]))
                    break
            chk.traces_validated += len(vals)
            chk.oblige("validator:check_delivery accepted %d/%d real mappings inside Coq" % (len(vals) - len(bad), len(vals)),
                       not [i for i in bad if oracle(*ok_cases[i]) is None])
        except RuntimeError as e:
            chk.oblige("validator:check_delivery evaluates", False, str(e))
    chk.coverage["rule"] = ("random application graphs (<= 12 vertices incl. zero-core device vertices, nets with repeated "
                            "sinks and self loops) on machines <= 6x6 (thorough tier: 10% up to 12x12, <= 24 vertices) (torus/mesh, dead chips, one- and two-directional dead "
                            "links, resource exceptions), constraints (location, same-chip, reservations, route endpoints), "
                            "7 placer configurations x radius {0,1,2,20} x minimisation chains x targets, by hand and through "
                            "both wrappers; plus a dense stream (40%: 6-16 nets with 4-5 key bits among 6-14 one-core vertices on a "
                            "strip of 3..8 x 1..2 chips, full minimisation) where merged entries alias and default routes "
                            "of one net meet entries of others; non-trivial = mapping succeeded with >= 2 expected deliveries; distinct by input hash")
