"""Tie T for C13: the cursor / clamping arithmetic and the statement shapes of SlicedMemoryIO / MemoryIO
(rig/machine_control/machine_controller.py), read with `ast` (nothing is imported) and emitted as Gallina
definitions that coq/Model/MemIO.v CALLS, so every theorem of Props/C13.v is re-proved against the current text.

Translated through the expression/statement translator of tools/py2v.py after rewriting object attributes into
integer variables (self._start_address -> v_start, self._end_address -> v_end, self._offset -> v_off,
self.address -> the body of the `address` property, len(bytes) -> nbytes, sl.start / sl.stop -> x):
  address, __len__                      gen_address, gen_len
  SlicedMemoryIO.__init__               gen_init_end          (the clipped end address)
  seek                                  gen_seek              (1, new offset) | (0, _) for ValueError
  read  (everything before `if n_bytes <= 0: return b''`)    gen_read_plan  = (warnings, bytes asked of the controller)
  write (everything before `if len(bytes) == 0: return 0`)   gen_write_plan = (warnings, bytes handed to the controller)
        -- `bytes = b''` is nbytes = 0, `bytes = bytes[:e]` is nbytes = len of that prefix; the dumper insists
           that these are the only rebindings of `bytes`, so what is written is a PREFIX of the argument
  __getitem__                           gen_slice_start_none / gen_slice_start / gen_slice_stop_none / gen_slice_stop
  MachineController.sdram_alloc_as_filelike                   gen_filelike_end
Every `warnings.warn(<msg>, TruncationWarning, stacklevel=3)` counts one warning.
Checked literally (fail closed, `Unsupported` on any other text): the tails of read/write (transfer through
self._parent, THEN advance the offset by what was transferred, return it), close / __enter__ / __exit__ / flush / tell,
the guard decorators and which methods carry them, the contiguity test and the constructor call of __getitem__,
MemoryIO.__init__ (the root is its own parent, strongly held) / free (sdram_free, THEN _freed = True) /
_perform_read / _perform_write (argument order of the controller calls)."""
import ast
import copy
import os
import sys
import warnings

warnings.simplefilter("ignore")
sys.path.insert(0, os.path.dirname(os.path.abspath(__file__)))
import py2v  # noqa: E402

FILE = "rig/machine_control/machine_controller.py"
REPO = os.environ.get("PYTHONPATH", "/repo").split(os.pathsep)[0]


def U(msg):
    return py2v.Unsupported(msg)


def need(cond, what):
    if not cond:
        raise U(what)


def same(node, text, what):
    """the statement(s) `node` are literally `text`"""
    want = ast.parse(text).body
    got = node if isinstance(node, list) else [node]
    need(len(got) == len(want) and all(ast.dump(g) == ast.dump(w) for g, w in zip(got, want)),
         "%s: expected `%s`, found `%s`" % (what, text.replace("\n", "; "), "; ".join(ast.unparse(g) for g in got)))


def strip_doc(body):
    if body and isinstance(body[0], ast.Expr) and isinstance(body[0].value, ast.Constant) \
            and isinstance(body[0].value.value, str):
        return body[1:]
    return list(body)


def methods(cls):
    out = {}
    for n in cls.body:
        if isinstance(n, (ast.FunctionDef, ast.AsyncFunctionDef, ast.ClassDef)):
            need(n.name not in out, "%s.%s is defined twice" % (cls.name, n.name))
            out[n.name] = n
        elif isinstance(n, (ast.Assign, ast.AugAssign, ast.AnnAssign)):
            raise U("%s: class-level assignment %s" % (cls.name, ast.unparse(n)))
    return out


def decorators(f):
    return [ast.unparse(d) for d in f.decorator_list]


class Rewrite(ast.NodeTransformer):
    """object attributes -> integer variables"""

    def __init__(self, address_expr=None, slice_var=None):
        self.address_expr = address_expr
        self.slice_var = slice_var

    def visit_Attribute(self, node):
        text = ast.unparse(node)
        table = {"self._start_address": "v_start", "self._end_address": "v_end", "self._offset": "v_off"}
        if text in table:
            return ast.copy_location(ast.Name(id=table[text], ctx=ast.Load()), node)
        if text == "self.address" and self.address_expr is not None:
            return copy.deepcopy(self.address_expr)
        if self.slice_var and text in ("sl.start", "sl.stop"):
            return ast.copy_location(ast.Name(id=self.slice_var, ctx=ast.Load()), node)
        raise U("attribute %s in an arithmetic expression" % text)

    def visit_Call(self, node):
        if ast.unparse(node) == "len(bytes)":
            return ast.copy_location(ast.Name(id="nbytes", ctx=ast.Load()), node)
        if isinstance(node.func, ast.Name) and node.func.id in ("max", "min") and not node.keywords:
            return self.generic_visit(node)
        raise U("call %s in an arithmetic expression" % ast.unparse(node))


def is_warn(s):
    if not (isinstance(s, ast.Expr) and isinstance(s.value, ast.Call) and ast.unparse(s.value.func) == "warnings.warn"):
        return False
    c = s.value
    need(len(c.args) == 2 and ast.unparse(c.args[1]) == "TruncationWarning"
         and [(k.arg, ast.unparse(k.value)) for k in c.keywords] == [("stacklevel", "3")],
         "warning is not warnings.warn(<message>, TruncationWarning, stacklevel=3): " + ast.unparse(s))
    return True


def plan(stmts, rw, where, locals_ok):
    """Statements of the straight-line head of read()/write(): `if` without else, assignments to locals,
    warnings; -> rewritten statements in which a warning is `w = w + 1`."""
    out = []
    for s in stmts:
        if is_warn(s):
            out.append(ast.parse("w = w + 1").body[0])
        elif isinstance(s, ast.If):
            need(not s.orelse, "%s: `if` with an else branch: %s" % (where, ast.unparse(s.test)))
            out.append(ast.If(test=rw.visit(copy.deepcopy(s.test)), body=plan(s.body, rw, where, locals_ok), orelse=[]))
        elif isinstance(s, ast.Assign) and len(s.targets) == 1 and isinstance(s.targets[0], ast.Name):
            t = s.targets[0].id
            if t == "bytes":
                # the data may only be replaced by b'' or by a prefix of itself
                if ast.unparse(s.value) == "b''":
                    out.append(ast.parse("nbytes = 0").body[0])
                else:
                    v = s.value
                    need(isinstance(v, ast.Subscript) and ast.unparse(v.value) == "bytes" and isinstance(v.slice, ast.Slice)
                         and v.slice.lower is None and v.slice.step is None and v.slice.upper is not None,
                         "%s: `bytes` rebound to something other than b'' or bytes[:e]: %s" % (where, ast.unparse(s)))
                    e = ast.unparse(rw.visit(copy.deepcopy(v.slice.upper)))
                    out.append(ast.parse("nbytes = (max(0, nbytes + (%s)) if (%s) < 0 else min((%s), nbytes))" % (e, e, e)).body[0])
            else:
                need(t in locals_ok, "%s: assignment to %s" % (where, t))
                out.append(ast.Assign(targets=[ast.Name(id=t, ctx=ast.Store())], value=rw.visit(copy.deepcopy(s.value)),
                                      lineno=s.lineno))
        else:
            raise U("%s: statement %s" % (where, ast.unparse(s)[:80]))
    return out


def scratch_ok(head, names, where):
    """a scratch local (new_n_bytes in read, n_bytes in write) is read only inside the top-level `if` that assigns
    it, after the assignment; the dumper then initialises it to 0 so that the branches can be joined"""
    for s in head:
        for nm in names:
            loads = [n for n in ast.walk(s) if isinstance(n, ast.Name) and n.id == nm and isinstance(n.ctx, ast.Load)]
            stores = [n for n in ast.walk(s) if isinstance(n, ast.Name) and n.id == nm and isinstance(n.ctx, ast.Store)]
            if loads:
                need(stores and min(x.lineno for x in stores) < min(x.lineno for x in loads),
                     "%s: %s is read where it may not have been assigned" % (where, nm))
    return [ast.parse("%s = 0" % nm).body[0] for nm in sorted(names)]


def define(coq, params, stmts, typ, where, line):
    mod = ast.Module(body=stmts, type_ignores=[])
    ast.fix_missing_locations(mod)
    free = {n.id for n in ast.walk(mod) if isinstance(n, ast.Name)} - py2v.bound_names(stmts) - {"max", "min"}
    need(free <= set(params), "%s: mentions %r, the model passes only %r" % (where, sorted(free - set(params)), params))
    f = py2v.Fn(None, dict(name=where, params={p: "Z" for p in params}, ret={"Z * Z": "Z2"}.get(typ, typ)), {})
    for p in params:
        f.types[p] = "Z"
    text = f.block(list(mod.body), None)
    return "(* %s, line %d *)\nDefinition %s %s : %s :=\n  %s.\n" % (
        where, line, coq, " ".join("(%s : Z)" % py2v.ident(p) for p in params), typ, text)


def ret(expr_text):
    return ast.parse("return " + expr_text).body[0]


def main():
    with open(os.path.join(REPO, FILE)) as f:
        tree = ast.parse(f.read())
    top = {}
    for n in tree.body:
        if isinstance(n, (ast.FunctionDef, ast.ClassDef)):
            need(n.name not in top or n.name not in ("SlicedMemoryIO", "MemoryIO", "_if_not_closed", "_if_not_freed",
                                                      "TruncationWarning", "MachineController"),
                 "%s is defined twice" % n.name)
            top[n.name] = n
    out = ["(* GENERATED by tools/dump_c13.py from the text of %s of the current /repo -- do not edit. *)" % FILE,
           "From Coq Require Import ZArith Bool.", "Open Scope Z_scope.", ""]

    # ------------------------------------------------------------------ the guards
    for name, cond in (("_if_not_closed", "self.closed or self._parent._freed"), ("_if_not_freed", "self._freed")):
        g = top[name]
        b = strip_doc(g.body)
        need(len(b) == 2 and isinstance(b[0], ast.FunctionDef) and b[0].name == "f_", name + ": shape of the decorator")
        same(strip_doc(b[0].body), "if %s:\n    raise OSError\nreturn f(self, *args, **kwargs)" % cond, name + ".f_")
        same(b[1], "return f_", name)
        need(ast.unparse(b[0].args) == "self, *args, **kwargs", name + ".f_ parameters")
        need(decorators(b[0]) == ["add_signature_to_docstring(f)", "functools.wraps(f)"], name + ".f_ decorators")
    tw = top["TruncationWarning"]
    need([ast.unparse(x) for x in tw.bases] == ["RuntimeWarning"] and len(strip_doc(tw.body)) == 0 or
         [ast.unparse(x) for x in tw.bases] == ["RuntimeWarning"], "TruncationWarning is not a RuntimeWarning")

    S = top["SlicedMemoryIO"]
    need([ast.unparse(x) for x in S.bases] == ["object"], "bases of SlicedMemoryIO")
    m = methods(S)
    want = {"__init__": [], "close": [], "__getitem__": ["_if_not_closed"], "__len__": [], "__enter__": [],
            "__exit__": [], "read": ["_if_not_closed"], "write": ["_if_not_closed"], "flush": ["_if_not_closed"],
            "tell": ["_if_not_closed"], "address": ["property", "_if_not_closed"], "seek": ["_if_not_closed"]}
    need(set(m) == set(want), "methods of SlicedMemoryIO are %r" % sorted(m))
    for k, d in want.items():
        need(decorators(m[k]) == d, "SlicedMemoryIO.%s is decorated with %r, the model assumes %r" % (k, decorators(m[k]), d))
    out.append("(* methods guarded by _if_not_closed (`if self.closed or self._parent._freed: raise OSError`):\n"
               "   __getitem__ read write flush tell address seek; NOT guarded: close __len__ __enter__ __exit__ *)")

    # ------------------------------------------------------------------ address, __len__, tell, flush, close, with
    b = strip_doc(m["address"].body)
    need(len(b) == 1 and isinstance(b[0], ast.Return), "address: body")
    address_expr = Rewrite().visit(copy.deepcopy(b[0].value))
    out.append(define("gen_address", ["v_start", "v_off"], [ast.Return(value=copy.deepcopy(address_expr))], "Z",
                      "SlicedMemoryIO.address", m["address"].lineno))
    b = strip_doc(m["__len__"].body)
    need(len(b) == 1 and isinstance(b[0], ast.Return), "__len__: body")
    out.append(define("gen_len", ["v_start", "v_end"], [ast.Return(value=Rewrite().visit(copy.deepcopy(b[0].value)))], "Z",
                      "SlicedMemoryIO.__len__", m["__len__"].lineno))
    same(strip_doc(m["tell"].body), "return self._offset", "tell")
    same(strip_doc(m["flush"].body), "pass", "flush")
    same(strip_doc(m["close"].body), "if not self.closed:\n    self.flush()\n    self.closed = True", "close")
    same(strip_doc(m["__enter__"].body), "return self", "__enter__")
    same(strip_doc(m["__exit__"].body), "self.close()", "__exit__")
    need(ast.unparse(m["__exit__"].args) == "self, exception_type, exception_value, traceback", "__exit__ parameters")

    # ------------------------------------------------------------------ __init__
    need(ast.unparse(m["__init__"].args) == "self, parent, start_address, end_address", "SlicedMemoryIO.__init__ parameters")
    b = strip_doc(m["__init__"].body)
    need(len(b) == 5, "SlicedMemoryIO.__init__: %d statements" % len(b))
    same(b[0:3], "self.closed = False\nself._parent = parent\nself._start_address = start_address", "SlicedMemoryIO.__init__")
    same(b[4], "self._offset = 0", "SlicedMemoryIO.__init__")
    need(isinstance(b[3], ast.Assign) and ast.unparse(b[3].targets[0]) == "self._end_address", "SlicedMemoryIO.__init__: end address")
    out.append(define("gen_init_end", ["start_address", "end_address"], [ast.Return(value=copy.deepcopy(b[3].value))], "Z",
                      "SlicedMemoryIO.__init__", b[3].lineno))

    # ------------------------------------------------------------------ seek
    need(ast.unparse(m["seek"].args) == "self, n_bytes, from_what=os.SEEK_SET", "seek parameters")
    b = strip_doc(m["seek"].body)
    need(len(b) == 1 and isinstance(b[0], ast.If), "seek: body is not one if/elif chain")
    node, branches = b[0], []
    while True:
        branches.append((node.test, node.body))
        if len(node.orelse) == 1 and isinstance(node.orelse[0], ast.If):
            node = node.orelse[0]
        else:
            last = node.orelse
            break
    need(len(last) == 1 and isinstance(last[0], ast.Raise) and ast.unparse(last[0].exc).startswith("ValueError("),
         "seek: the final else does not raise ValueError")
    rw = Rewrite()
    chain = None
    for test, body in reversed(branches):
        need(len(body) == 1, "seek: branch body")
        s = body[0]
        if isinstance(s, ast.Assign):
            need(ast.unparse(s.targets[0]) == "self._offset", "seek: assigns " + ast.unparse(s.targets[0]))
            val = rw.visit(copy.deepcopy(s.value))
        elif isinstance(s, ast.AugAssign):
            need(ast.unparse(s.target) == "self._offset" and isinstance(s.op, ast.Add), "seek: " + ast.unparse(s))
            val = ast.BinOp(left=ast.Name(id="v_off", ctx=ast.Load()), op=ast.Add(), right=rw.visit(copy.deepcopy(s.value)))
        else:
            raise U("seek: statement " + ast.unparse(s))
        r = ast.Return(value=ast.Tuple(elts=[ast.Constant(value=1), val], ctx=ast.Load()))
        chain = [ast.If(test=copy.deepcopy(test), body=[r],
                        orelse=chain if chain is not None else [ret("(0, v_off)")])]
    out.append(define("gen_seek", ["v_start", "v_end", "v_off", "n_bytes", "from_what"], chain, "Z * Z",
                      "SlicedMemoryIO.seek", m["seek"].lineno))
    out.append("(* os.SEEK_SET, the default of from_what, is 0 *)\n")
    need(os.SEEK_SET == 0, "os.SEEK_SET")

    # ------------------------------------------------------------------ read
    need(ast.unparse(m["read"].args) == "self, n_bytes=-1", "read parameters")
    b = strip_doc(m["read"].body)
    k = [i for i, s in enumerate(b) if isinstance(s, ast.If) and ast.unparse(s) == "if n_bytes <= 0:\n    return b''"]
    need(len(k) == 1, "read: no single `if n_bytes <= 0: return b''`")
    same(b[k[0] + 1:], "data = self._parent._perform_read(self.address, n_bytes)\nself._offset += n_bytes\nreturn data",
         "read: the transfer, then the advance of the offset")
    rw = Rewrite(address_expr)
    stmts = ([ast.parse("w = 0").body[0]] + scratch_ok(b[:k[0]], {"new_n_bytes"}, "read")
             + plan(b[:k[0]], rw, "read", {"n_bytes", "new_n_bytes"}) + [ret("(w, n_bytes)")])
    out.append(define("gen_read_plan", ["v_start", "v_end", "v_off", "n_bytes"], stmts, "Z * Z",
                      "SlicedMemoryIO.read", m["read"].lineno))

    # ------------------------------------------------------------------ write
    need(ast.unparse(m["write"].args) == "self, bytes", "write parameters")
    b = strip_doc(m["write"].body)
    k = [i for i, s in enumerate(b) if isinstance(s, ast.If) and ast.unparse(s) == "if len(bytes) == 0:\n    return 0"]
    need(len(k) == 1, "write: no single `if len(bytes) == 0: return 0`")
    same(b[k[0] + 1:], "self._parent._perform_write(self.address, bytes)\nself._offset += len(bytes)\nreturn len(bytes)",
         "write: the transfer, then the advance of the offset")
    stmts = ([ast.parse("w = 0").body[0]] + scratch_ok(b[:k[0]], {"n_bytes"}, "write")
             + plan(b[:k[0]], rw, "write", {"n_bytes"}) + [ret("(w, nbytes)")])
    out.append(define("gen_write_plan", ["v_start", "v_end", "v_off", "nbytes"], stmts, "Z * Z",
                      "SlicedMemoryIO.write", m["write"].lineno))

    # ------------------------------------------------------------------ __getitem__
    need(ast.unparse(m["__getitem__"].args) == "self, sl", "__getitem__ parameters")
    b = strip_doc(m["__getitem__"].body)
    need(len(b) == 1 and isinstance(b[0], ast.If) and
         ast.unparse(b[0].test) == "isinstance(sl, slice) and (sl.step is None or sl.step == 1)",
         "__getitem__: the contiguity test")
    need(len(b[0].orelse) == 1 and isinstance(b[0].orelse[0], ast.Raise)
         and ast.unparse(b[0].orelse[0].exc).startswith("ValueError("), "__getitem__: else does not raise ValueError")
    body = b[0].body
    need(len(body) == 3, "__getitem__: %d statements in the slice branch" % len(body))
    same(body[2], "return SlicedMemoryIO(self._parent, start_address, end_address)", "__getitem__: the new view")
    for stmt, attr, target, params in ((body[0], "sl.start", "start_address", ["v_start", "v_end", "x"]),
                                       (body[1], "sl.stop", "end_address", ["v_start", "v_end", "start_address", "x"])):
        need(isinstance(stmt, ast.If) and ast.unparse(stmt.test) == attr + " is None" and len(stmt.body) == 1
             and isinstance(stmt.body[0], ast.Assign) and ast.unparse(stmt.body[0].targets[0]) == target
             and len(stmt.orelse) == 1 and isinstance(stmt.orelse[0], ast.If),
             "__getitem__: shape of the %s chain" % attr)
        rw = Rewrite(None, "x")
        none_val = rw.visit(copy.deepcopy(stmt.body[0].value))
        inner = copy.deepcopy(stmt.orelse[0])

        def conv(node):
            need(isinstance(node, ast.If) and len(node.body) == 1 and isinstance(node.body[0], ast.Assign)
                 and ast.unparse(node.body[0].targets[0]) == target, "__getitem__: branch of the %s chain" % attr)
            if len(node.orelse) == 1 and isinstance(node.orelse[0], ast.If):
                other = [conv(node.orelse[0])]
            else:
                need(len(node.orelse) == 1 and isinstance(node.orelse[0], ast.Assign)
                     and ast.unparse(node.orelse[0].targets[0]) == target, "__getitem__: else of the %s chain" % attr)
                other = [ast.Return(value=rw.visit(node.orelse[0].value))]
            return ast.If(test=rw.visit(node.test), body=[ast.Return(value=rw.visit(node.body[0].value))], orelse=other)
        short = "start" if target == "start_address" else "stop"
        out.append(define("gen_slice_%s_none" % short, params[:-1], [ast.Return(value=none_val)], "Z",
                          "SlicedMemoryIO.__getitem__ (%s is None)" % attr, stmt.lineno))
        out.append(define("gen_slice_%s" % short, params, [conv(inner)], "Z",
                          "SlicedMemoryIO.__getitem__ (%s given)" % attr, inner.lineno))

    # ------------------------------------------------------------------ MemoryIO
    M = top["MemoryIO"]
    need([ast.unparse(x) for x in M.bases] == ["SlicedMemoryIO"], "bases of MemoryIO")
    mm = methods(M)
    wantm = {"__init__": [], "free": ["_if_not_freed"], "_perform_read": ["_if_not_freed"], "_perform_write": ["_if_not_freed"]}
    need(set(mm) == set(wantm), "methods of MemoryIO are %r (an override of a SlicedMemoryIO method is not modelled)" % sorted(mm))
    for k2, d in wantm.items():
        need(decorators(mm[k2]) == d, "MemoryIO.%s is decorated with %r" % (k2, decorators(mm[k2])))
    need(ast.unparse(mm["__init__"].args) == "self, machine_controller, x, y, start_address, end_address", "MemoryIO.__init__ parameters")
    same(strip_doc(mm["__init__"].body),
         "super(MemoryIO, self).__init__(parent=self, start_address=start_address, end_address=end_address)\n"
         "self._x = x\nself._y = y\nself._machine_controller = machine_controller\nself._freed = False", "MemoryIO.__init__")
    same(strip_doc(mm["free"].body),
         "self._machine_controller.sdram_free(self._start_address, self._x, self._y)\nself._freed = True", "MemoryIO.free")
    same(strip_doc(mm["_perform_read"].body), "return self._machine_controller.read(addr, size, self._x, self._y, 0)", "_perform_read")
    same(strip_doc(mm["_perform_write"].body), "return self._machine_controller.write(addr, data, self._x, self._y, 0)", "_perform_write")
    need(ast.unparse(mm["_perform_read"].args) == "self, addr, size" and ast.unparse(mm["_perform_write"].args) == "self, addr, data",
         "_perform_read/_perform_write parameters")

    # ------------------------------------------------------------------ the entry point that makes the views
    mc = methods_of_controller(top["MachineController"])
    f = mc["sdram_alloc_as_filelike"]
    need(ast.unparse(f.args) == "self, size, tag=0, x=Required, y=Required, app_id=Required, clear=False",
         "sdram_alloc_as_filelike parameters")
    b = strip_doc(f.body)
    need(len(b) == 2, "sdram_alloc_as_filelike: %d statements" % len(b))
    same(b[0], "start_address = self.sdram_alloc(size, tag, x, y, app_id, clear)", "sdram_alloc_as_filelike")
    r = b[1]
    need(isinstance(r, ast.Return) and isinstance(r.value, ast.Call) and ast.unparse(r.value.func) == "MemoryIO"
         and len(r.value.args) == 5 and not r.value.keywords
         and [ast.unparse(a) for a in r.value.args[:4]] == ["self", "x", "y", "start_address"],
         "sdram_alloc_as_filelike does not return MemoryIO(self, x, y, start_address, <end>)")
    out.append(define("gen_filelike_end", ["start_address", "size"], [ast.Return(value=copy.deepcopy(r.value.args[4]))], "Z",
                      "MachineController.sdram_alloc_as_filelike", r.lineno))
    sys.stdout.write("\n".join(out))


def methods_of_controller(cls):
    out = {}
    for n in cls.body:
        if isinstance(n, ast.FunctionDef) and n.name == "sdram_alloc_as_filelike":
            need(n.name not in out, "sdram_alloc_as_filelike is defined twice")
            out[n.name] = n
    need("sdram_alloc_as_filelike" in out, "MachineController.sdram_alloc_as_filelike not found")
    return out


if __name__ == "__main__":
    try:
        main()
    except py2v.Unsupported as e:
        sys.stderr.write("Unsupported: %s\n" % e)
        sys.exit(2)
