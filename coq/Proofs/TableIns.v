(* _get_insertion_index: on a table sorted by generality the binary search followed by the linear
   scan returns the first position whose generality is >= g (it inserts ABOVE entries of equal
   generality); the fuel of the model's binary search is never the reason it stops. *)
From Coq Require Import ZArith List Bool Lia Arith.
Require Import Rig.Model.Base Rig.Model.Table.
Import ListNotations.
Open Scope Z_scope.

Fixpoint sortedz (l : list Z) : Prop :=
  match l with
  | [] => True
  | x :: r => (forall y, In y r -> x <= y) /\ sortedz r
  end.

Lemma sortedz_nth : forall l i j, sortedz l -> (i <= j)%nat -> (j < length l)%nat ->
  nth i l 0 <= nth j l 0.
Proof.
  induction l as [| x r IH]; intros i j Hs Hij Hj; simpl in Hj; [lia |].
  destruct Hs as [Hx Hr]. destruct i as [| i'], j as [| j']; simpl.
  - lia.
  - apply Hx. apply nth_In. lia.
  - lia.
  - apply IH; [exact Hr | lia | lia].
Qed.

Lemma sortedz_app : forall a b, sortedz (a ++ b) ->
  sortedz a /\ sortedz b /\ (forall x y, In x a -> In y b -> x <= y).
Proof.
  induction a as [| x a IH]; intros b H; simpl in *.
  - split; [exact I | split; [exact H | intros x y []]].
  - destruct H as [Hx Hr]. destruct (IH b Hr) as [Ha [Hb Hab]].
    split; [split; [intros y Hy; apply Hx; apply in_or_app; left; exact Hy | exact Ha] |].
    split; [exact Hb |]. intros x' y [<- | Hx'] Hy; [apply Hx; apply in_or_app; right; exact Hy |].
    apply Hab; assumption.
Qed.

(* the specification: the table splits at idx into generalities < g and generalities >= g *)
Definition ins_spec (gens : list Z) (g : Z) (idx : nat) : Prop :=
  (idx <= length gens)%nat
  /\ Forall (fun x => x < g) (firstn idx gens)
  /\ Forall (fun x => g <= x) (skipn idx gens).

Lemma ins_spec_mono : forall gens g g' i i',
  ins_spec gens g i -> ins_spec gens g' i' -> g' <= g -> (i' <= i)%nat.
Proof.
  intros gens g g' i i' [Hi [Hlt Hge]] [Hi' [Hlt' Hge']] Hgg.
  destruct (le_lt_dec i' i) as [H | H]; [exact H | exfalso].
  (* the element at position i is below g' <= g and at least g *)
  assert (Hin1 : In (nth i gens 0) (firstn i' gens)).
  { rewrite <- (firstn_skipn i' gens) at 1. rewrite app_nth1 by (rewrite firstn_length; lia).
    apply nth_In. rewrite firstn_length. lia. }
  assert (Hin2 : In (nth i gens 0) (skipn i gens)).
  { rewrite <- (firstn_skipn i gens) at 1. rewrite app_nth2 by (rewrite firstn_length; lia).
    rewrite firstn_length. replace (i - Nat.min i (length gens))%nat with 0%nat by lia.
    destruct (skipn i gens) as [| y r] eqn:Hs.
    - assert (Hl : length (skipn i gens) = 0%nat) by (rewrite Hs; reflexivity).
      rewrite skipn_length in Hl. lia.
    - left. reflexivity. }
  rewrite Forall_forall in Hlt', Hge. pose proof (Hlt' _ Hin1). pose proof (Hge _ Hin2). lia.
Qed.

(* ------------------------------------------------------------------------------------------------ *)
(** * The binary search *)

Lemma bsearch_post : forall fuel gens G bottom pos top,
  sortedz gens ->
  (bottom < top)%nat -> (top <= length gens)%nat -> pos = (bottom + (top - bottom) / 2)%nat ->
  (top - bottom <= S fuel)%nat ->
  (forall i, (i < bottom)%nat -> nth i gens 0 <= G) ->
  let r := bsearch fuel gens G bottom pos top in
  (r < length gens)%nat /\ (forall i, (i < r)%nat -> nth i gens 0 <= G).
Proof.
  induction fuel as [| f IH]; intros gens G bottom pos top Hs Hbt Htop Hpos Hfuel Hinv; cbn [bsearch]; cbv zeta.
  - assert (top = S bottom) by lia. subst top.
    replace (S bottom - bottom)%nat with 1%nat in Hpos by lia. simpl in Hpos.
    replace pos with bottom by lia. split; [lia | exact Hinv].
  - assert (Hpt : (pos < top)%nat).
    { subst pos. assert ((top - bottom) / 2 < top - bottom)%nat by (apply Nat.div_lt; lia). lia. }
    assert (Hbp : (bottom <= pos)%nat) by lia.
    destruct (negb (nth pos gens 0 =? G) && (Nat.ltb bottom pos && Nat.ltb pos top)) eqn:Hc.
    + apply andb_true_iff in Hc. destruct Hc as [Hne Hc]. apply andb_true_iff in Hc. destruct Hc as [Hb _].
      apply Nat.ltb_lt in Hb.
      destruct (nth pos gens 0 <? G) eqn:Hlt.
      * apply Z.ltb_lt in Hlt. apply IH; try assumption; try reflexivity; try lia.
        intros i Hi. pose proof (sortedz_nth gens i pos Hs ltac:(lia) ltac:(lia)). lia.
      * apply IH; try assumption; try reflexivity; try lia.
    + split; [lia |].
      apply andb_false_iff in Hc. destruct Hc as [Heq | Hc].
      * apply negb_false_iff in Heq. apply Z.eqb_eq in Heq.
        intros i Hi. pose proof (sortedz_nth gens i pos Hs ltac:(lia) ltac:(lia)). lia.
      * apply andb_false_iff in Hc. destruct Hc as [Hc | Hc].
        -- apply Nat.ltb_ge in Hc. intros i Hi. apply Hinv. lia.
        -- apply Nat.ltb_ge in Hc. lia.
Qed.

Lemma bsearch_stop : forall f gens G b t, bsearch f gens G b b t = b.
Proof.
  intros f gens G b t. destruct f; cbn [bsearch]; cbv zeta; [reflexivity |].
  rewrite Nat.ltb_irrefl. rewrite andb_false_l, andb_false_r. reflexivity.
Qed.

(* more fuel than the length of the table changes nothing: the bound is not a restriction *)
Lemma bsearch_fuel : forall fuel fuel' gens G bottom pos top,
  (bottom < top)%nat -> pos = (bottom + (top - bottom) / 2)%nat ->
  (top - bottom <= S fuel)%nat -> (top - bottom <= S fuel')%nat ->
  bsearch fuel gens G bottom pos top = bsearch fuel' gens G bottom pos top.
Proof.
  induction fuel as [| f IH]; intros fuel' gens G bottom pos top Hbt Hpos Hf Hf'.
  - assert (top = S bottom) by lia. subst top.
    replace (S bottom - bottom)%nat with 1%nat in Hpos by lia.
    change (1 / 2)%nat with 0%nat in Hpos. rewrite Nat.add_0_r in Hpos. subst pos.
    rewrite !bsearch_stop. reflexivity.
  - assert (Hpt : (pos < top)%nat).
    { subst pos. assert ((top - bottom) / 2 < top - bottom)%nat by (apply Nat.div_lt; lia). lia. }
    destruct fuel' as [| f'].
    + assert (top = S bottom) by lia. subst top.
      replace (S bottom - bottom)%nat with 1%nat in Hpos by lia.
      change (1 / 2)%nat with 0%nat in Hpos. rewrite Nat.add_0_r in Hpos. subst pos.
      rewrite !bsearch_stop. reflexivity.
    + cbn [bsearch]; cbv zeta.
      destruct (negb (nth pos gens 0 =? G) && (Nat.ltb bottom pos && Nat.ltb pos top)) eqn:Hc; [| reflexivity].
      apply andb_true_iff in Hc. destruct Hc as [_ Hc]. apply andb_true_iff in Hc. destruct Hc as [Hb _].
      apply Nat.ltb_lt in Hb.
      destruct (nth pos gens 0 <? G); apply IH; try reflexivity; lia.
Qed.

(* ------------------------------------------------------------------------------------------------ *)
(** * The linear scan *)

Lemma scan_le_post : forall l G pos,
  exists l1 l2, l = l1 ++ l2 /\ scan_le l G pos = (pos + length l1)%nat
                /\ Forall (fun x => x <= G) l1
                /\ match l2 with [] => True | y :: _ => G < y end.
Proof.
  induction l as [| x l IH]; intros G pos; simpl.
  - exists [], []. simpl. split; [reflexivity | split; [lia | split; [constructor | exact I]]].
  - destruct (x <=? G) eqn:Hc.
    + apply Z.leb_le in Hc. destruct (IH G (S pos)) as [l1 [l2 [Hl [Hs [Hf Hh]]]]].
      exists (x :: l1), l2. simpl. split; [rewrite Hl; reflexivity |].
      split; [rewrite Hs; lia | split; [constructor; assumption | exact Hh]].
    + apply Z.leb_gt in Hc. exists [], (x :: l). simpl.
      split; [reflexivity | split; [lia | split; [constructor | exact Hc]]].
Qed.

(* ------------------------------------------------------------------------------------------------ *)
(** * insertion_index meets its specification on sorted tables *)

Lemma Forall_nth_lt : forall (l : list Z) (P : Z -> Prop) n,
  (n <= length l)%nat -> (forall i, (i < n)%nat -> P (nth i l 0)) -> Forall P (firstn n l).
Proof.
  induction l as [| x l IH]; intros P n Hn H.
  - rewrite firstn_nil. constructor.
  - destruct n as [| n']; [constructor |]. simpl. constructor.
    + apply (H 0%nat). lia.
    + apply IH; [simpl in Hn; lia |]. intros i Hi. apply (H (S i)). lia.
Qed.

Lemma firstn_len_app : forall {A} (a b : list A), firstn (length a) (a ++ b) = a.
Proof. intros A a b. induction a as [| x a IH]; simpl; [destruct b; reflexivity | rewrite IH; reflexivity]. Qed.

Lemma skipn_len_app : forall {A} (a b : list A), skipn (length a) (a ++ b) = b.
Proof. intros A a b. induction a as [| x a IH]; simpl; [reflexivity | exact IH]. Qed.

Theorem insertion_index_spec : forall gens g,
  sortedz gens -> ins_spec gens g (insertion_index gens g).
Proof.
  intros gens g Hs. unfold insertion_index.
  destruct gens as [| g0 gr].
  - unfold ins_spec. simpl. split; [lia | split; constructor].
  - remember (g0 :: gr) as gens eqn:Hg.
    assert (Hlen : (0 < length gens)%nat) by (subst gens; simpl; lia).
    remember (length gens) as n eqn:Hn.
    destruct (bsearch_post n gens (g - 1) 0 (n / 2) n Hs) as [Hr Hpre]; try lia.
    { rewrite Nat.sub_0_r. reflexivity. }
    remember (bsearch n gens (g - 1) 0 (n / 2) n) as pos eqn:Hpos.
    destruct (scan_le_post (skipn pos gens) (g - 1) pos) as [l1 [l2 [Hl [Hsc [Hf Hh]]]]].
    rewrite Hsc.
    assert (Hsplit : gens = (firstn pos gens ++ l1) ++ l2).
    { rewrite <- app_assoc, <- Hl. symmetry. apply firstn_skipn. }
    assert (HlenA : length (firstn pos gens ++ l1) = (pos + length l1)%nat).
    { rewrite app_length, firstn_length. lia. }
    unfold ins_spec. rewrite <- HlenA.
    assert (HFa : Forall (fun x => x < g) (firstn pos gens ++ l1)).
    { apply Forall_app. split.
      - apply Forall_nth_lt; [lia |]. intros i Hi. pose proof (Hpre i Hi). lia.
      - eapply Forall_impl; [| exact Hf]. intros x Hx. simpl in Hx. lia. }
    remember (firstn pos gens ++ l1) as A eqn:HA. clear HA HlenA Hl Hsc Hpre Hpos Hg.
    rewrite Hsplit in Hs |- *. rewrite firstn_len_app, skipn_len_app, app_length.
    split; [lia | split; [exact HFa |]].
    destruct l2 as [| y r]; [constructor |].
    apply sortedz_app in Hs. destruct Hs as [_ [[Hy _] _]].
    constructor; [lia |]. apply Forall_forall. intros z Hz. pose proof (Hy z Hz). lia.
Qed.

(* the model's bound on the binary search (the length of the table) is never what stops it: any
   larger bound gives the same insertion index *)
Theorem insertion_index_fuel : forall gens G extra,
  gens <> [] ->
  bsearch (length gens) gens G 0 (length gens / 2) (length gens)
  = bsearch (length gens + extra) gens G 0 (length gens / 2) (length gens).
Proof.
  intros gens G extra Hne.
  assert (Hlen : (0 < length gens)%nat) by (destruct gens; [contradiction | simpl; lia]).
  apply bsearch_fuel; try lia. rewrite Nat.sub_0_r. reflexivity.
Qed.
