(* C07: concrete instances -- the hypotheses of the theorems are satisfiable, the guards are needed, the
   code as found (before fix dbd83a4) cut read replies. *)
From Coq Require Import ZArith List Bool Lia String.
Require Import Rig.Generated.GenMemOps Rig.Generated.GenSCP Rig.Model.Base Rig.Model.Machine Rig.Model.MemOps
  Rig.Model.MemOpsState Rig.Spec.MemOps.
Require Rig.Model.SCP.
Import ListNotations.
Open Scope Z_scope.
Open Scope string_scope.

Definition ex_M : machine := pattern_machine 3 [].
Definition ex_nbr := torus_nbr 8 8.

(* an unaligned 37-byte read with a 16-byte buffer: three commands, byte / byte / byte units *)
Lemma ex_read_instance :
  1 <= 16 < 2 ^ 32 /\ 0 <= 1001 /\ 0 <= 37 /\ 1001 + 37 <= 2 ^ 32 /\
  match sc_read (mk_env 16 ex_nbr) ex_M (1, 2) 0 1001 37 with
  | Ok (tr, out) => Some (List.length tr, out)
  | _ => None
  end = Some (3%nat, mem_range (ex_M (1, 2)) 1001 37).
Proof. vm_compute. repeat split; try discriminate; reflexivity. Qed.

(* a word-aligned 40-byte write with a 16-byte buffer: word, word, word units; the bytes on both sides of the
   range keep their values.  (The results are projected to first-order data before they are computed: the
   normal form of a memory *function* is not something to ask vm_compute for.) *)
Lemma ex_write_instance :
  match sc_write (mk_env 16 ex_nbr) ex_M (1, 2) 0 1000 (pattern_data 1 40) with
  | Ok (tr, M') =>
      Some (map (fun r => match rq_cmd r with CWrite a n t _ => (a, n, t) | _ => (0, 0, 0) end) tr,
            mem_range (M' (1, 2)) 999 42)
  | _ => None
  end =
  Some ([(1000, 16, DataType_word); (1016, 16, DataType_word); (1032, 8, DataType_word)],
        ex_M (1, 2) 999 :: pattern_data 1 40 ++ [ex_M (1, 2) 1040]).
Proof. vm_compute. reflexivity. Qed.

(* the link functions with a buffer below one word never finish: the model's fuel runs out *)
Lemma ex_link_guard_needed :
  mc_read_link (mk_env 3 ex_nbr) ex_M (1, 2) 4096 8 0 = OutOfFuel /\
  mc_write_link (mk_env 3 ex_nbr) ex_M (1, 2) 4096 0 (pattern_data 1 4) = OutOfFuel.
Proof. vm_compute. split; reflexivity. Qed.

(* buffer size 0: read / write never finish either *)
Lemma ex_buffer_guard_needed :
  sc_read (mk_env 0 ex_nbr) ex_M (1, 2) 0 4096 1 = OutOfFuel /\
  sc_write (mk_env 0 ex_nbr) ex_M (1, 2) 0 4096 [7] = OutOfFuel.
Proof. vm_compute. split; reflexivity. Qed.

(* error branches: negative length (bytearray raises), an address beyond 32 bits (struct.error) *)
Lemma ex_error_branches :
  sc_read (mk_env 16 ex_nbr) ex_M (1, 2) 0 4096 (-1) = OtherError /\
  sc_read (mk_env 16 ex_nbr) ex_M (1, 2) 0 (2 ^ 32) 4 = OtherError /\
  sc_write (mk_env 16 ex_nbr) ex_M (1, 2) 0 (-1) [1; 2; 3] = OtherError /\
  mc_fill (mk_env 16 ex_nbr) ex_M (1, 2) 0 4097 256 3 = OtherError /\
  mc_read_struct (mk_env 16 ex_nbr) ex_M (1, 2) 0 "no_such_field" = OtherError.
Proof. vm_compute. repeat split; reflexivity. Qed.

(* the code as found: receive length 2^ceil(log2(buffer + 8)); a machine advertising 8 bytes has the reply of a
   full 8-byte read chunk (22 bytes on the wire) cut to 16 bytes and the callback's slice assignment raises *)
Lemma ex_recv_length_orig :
  exists buffer M c core address length cs,
    1 <= buffer < 2 ^ 32 /\ 0 <= address /\ 0 <= length /\ address + length <= 2 ^ 32 /\
    read_chunks address length buffer = Ok cs /\
    read_run {| e_buffer := buffer; e_rl := receive_length_orig buffer; e_nbr := ex_nbr |} M c core cs
             (repeat 0 (Z.to_nat length)) = OtherError.
Proof.
  exists 8, ex_M, (0, 0), 0, 256, 8. eexists.
  split; [split; [discriminate | reflexivity]|]. split; [discriminate|]. split; [discriminate|].
  split; [discriminate|]. split; [vm_compute; reflexivity|]. vm_compute. reflexivity.
Qed.

(* a struct field, a per-core field, both fill branches, a link transfer *)
Lemma ex_field_instances :
  field_find "vcpu_base" sv_fields = Some (sv_vcpu_base_offset, 4) /\
  field_find "app_name" vcpu_fields = Some (72, 16) /\
  fill_uses_write 4097 3 = true /\ fill_uses_write 4096 8 = false /\
  match mc_fill (mk_env 16 ex_nbr) ex_M (1, 2) 0 4096 287454020 8 with
  | Ok (tr, M') => Some (List.length tr, mem_range (M' (1, 2)) 4096 8)
  | _ => None
  end = Some (1%nat, [68; 51; 34; 17; 68; 51; 34; 17]) /\
  match mc_read_link (mk_env 18 ex_nbr) ex_M (1, 2) 4096 40 1 with
  | Ok (tr, out) => Some (List.length tr, out)
  | _ => None
  end = Some (3%nat, mem_range (ex_M (2, 3)) 4096 40).
Proof. vm_compute. repeat split; reflexivity. Qed.

(* a burst across the wrap of the 16-bit sequence counter: the connection's generator stands at 65534, window 2,
   four chunks get the sequence numbers 65534, 65535, 0, 1; two transmissions time out and are repeated, the replies
   complete the chunks in the order 1, 0, 3, 2 -- and the 16-byte read over it is exact *)
Definition ex_wrap_conn : SCP.conn := {| SCP.k_seq := 65534; SCP.k_ntx := 0; SCP.k_now := 0; SCP.k_buf := [] |}.
Definition ex_wrap_cf : SCP.config := SCP.Cf 2 3 10 [] [].
(* each datagram names the transmission that caused it (d_src): 1, 0, then 5 and 4 (the retransmissions) *)
Definition ex_wrap_events : list SCP.event :=
  [SCP.Ev [SCP.Dg rc_ok 65535 1] 1; SCP.Ev [SCP.Dg rc_ok 65534 0] 2; SCP.Ev [] 13;
   SCP.Ev [SCP.Dg rc_ok 1 5; SCP.Dg rc_ok 0 4] 14; SCP.Ev [] 30].

Lemma ex_wrap_instance :
  (let '(tr, oc, k', _) := SCP.burst ex_wrap_cf (burst_cmds 4) ex_wrap_events ex_wrap_conn in
   (callback_ids tr, oc, SCP.k_seq k', own_replies ([] ++ tr) tr,
    flat_map (fun o => match o with SCP.OSend _ c s _ => [(c, s)] | _ => [] end) tr)) =
  ([1; 0; 3; 2], SCP.Returned, 2, true, [(0, 65534); (1, 65535); (2, 0); (3, 1); (2, 0); (3, 1)]) /\
  match sc_read_burst ex_wrap_cf ex_wrap_events ex_wrap_conn [] (mk_env 4 ex_nbr) ex_M (1, 2) 0 4097 16 with
  | Ok (tr, out) => Some (map (fun r => match rq_cmd r with CRead a _ _ => a | _ => 0 end) tr, out)
  | _ => None
  end = Some ([4101; 4097; 4109; 4105], mem_range (ex_M (1, 2)) 4097 16).
Proof. vm_compute. split; reflexivity. Qed.

(* without own replies: the callback of chunk 1 is handed a reply that chunk 0's command caused (what C06's refuted
   clause allows when a duplicate outlives its sequence number): both chunks have the same size, nothing is raised,
   and the read returns chunk 0's bytes in chunk 1's place -- the C07 face of C06's finding seq-wrap-stale-duplicate *)
Lemma ex_other_reply :
  exists cs hist tr,
    read_chunks 4096 8 4 = Ok cs /\ own_replies hist tr = false /\ covers cs (map fst (served cs hist tr)) /\
    match read_run_served (mk_env 4 ex_nbr) ex_M (1, 2) 0 (served cs hist tr) (repeat 0 8) with
    | Ok (_, out) => Some out
    | _ => None
    end = Some (mem_range (ex_M (1, 2)) 4096 4 ++ mem_range (ex_M (1, 2)) 4096 4)%list /\
    (mem_range (ex_M (1, 2)) 4096 4 ++ mem_range (ex_M (1, 2)) 4096 4)%list <> mem_range (ex_M (1, 2)) 4096 8.
Proof.
  eexists. exists [SCP.OSend 0 0 0 0; SCP.OSend 1 0 0 5; SCP.OSend 2 1 1 6],
                  [SCP.OCallback 0 (SCP.Dg rc_ok 0 0); SCP.OCallback 1 (SCP.Dg rc_ok 0 1)].
  split; [vm_compute; reflexivity|]. split; [vm_compute; reflexivity|]. split.
  - vm_compute. split; intros x Hx; cbn in Hx |- *; tauto.
  - split; [vm_compute; reflexivity | vm_compute; discriminate].
Qed.

(* a controller re-booted with a struct file in which sv sits elsewhere and two fields have changed places reads
   the field at its NEW address *)
Definition ex_moved : sfile :=
  {| sf_sv_base := 4110450176; sf_sv := [("utmp0", (116, 4)); ("utmp1", (112, 4)); ("vcpu_base", (208, 4))];
     sf_vcpu_size := 128; sf_vcpu := [("user0", (124, 4))] |}.

Lemma ex_reboot_instance :
  match st_run_op (ctl_boot ex_moved ctl_new) (mk_env 16 ex_nbr) ex_M (1, 2) (OpReadStruct 0 "utmp0") with
  | Ok (tr, out, _) => Some (map (fun r => match rq_cmd r with CRead a _ _ => a | _ => 0 end) tr, out)
  | _ => None
  end = Some ([4110450176 + 116], mem_range (ex_M (1, 2)) (4110450176 + 116) 4) /\
  match st_run_op ctl_new (mk_env 16 ex_nbr) ex_M (1, 2) (OpReadStruct 0 "utmp0") with
  | Ok (tr, out, _) => Some (map (fun r => match rq_cmd r with CRead a _ _ => a | _ => 0 end) tr)
  | _ => None
  end = Some [sv_struct_base + 112].
Proof. vm_compute. split; reflexivity. Qed.

(* a write whose chunk commands are executed in reverse order and then all once more (permuted and repeated) *)
Lemma ex_write_permuted_repeated :
  match sc_write_order (mk_env 16 ex_nbr) ex_M (1, 2) 0 1001 (pattern_data 1 37) (fun cs => (rev cs ++ cs)%list) with
  | Ok (tr, M') => Some (List.length tr, mem_range (M' (1, 2)) 1000 39)
  | _ => None
  end = Some (6%nat, (ex_M (1, 2) 1000 :: pattern_data 1 37 ++ [ex_M (1, 2) 1038])%list).
Proof. vm_compute. reflexivity. Qed.
