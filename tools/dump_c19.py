"""Dump the live SpiNN-5 board tables of rig.geometry / rig.links as Coq literals (unit GenBoardTables).

Run under /venv/bin/python with PYTHONPATH=<repo>.  Fails (non-zero exit) when an object does not have
the form the model expects, so that the check reports a broken translation rather than a wrong table."""
import sys
import os

sys.path.insert(0, os.path.dirname(os.path.abspath(__file__)))
import dumplib as D  # noqa: E402

import numpy as np  # noqa: E402
from rig import geometry  # noqa: E402
from rig.links import Links  # noqa: E402


C19_FUNCTIONS = ("standard_system_dimensions", "spinn5_eth_coords", "spinn5_local_eth_coord",
                 "spinn5_chip_coord", "spinn5_fpga_link")
KNOWN_MUTABLE = {"SPINN5_ETH_OFFSET": np.ndarray, "SPINN5_FPGA_LINKS": dict}


def inventory():
    """Fail closed on state the models do not account for: the models of the C19 functions are stateless,
    which is only right while rig/geometry.py keeps no module-level mutable object besides the two constant
    tables, rebinds no global, and the five functions carry no decorator / mutable default / attribute."""
    import ast
    import types
    with open(geometry.__file__.replace(".pyc", ".py")) as f:
        tree = ast.parse(f.read())
    for node in ast.walk(tree):
        if isinstance(node, (ast.Global, ast.Nonlocal)):
            raise SystemExit("rig/geometry.py line %d: `%s %s` (a function rebinds shared state; the stateless "
                             "models of the board geometry functions do not cover it)"
                             % (node.lineno, type(node).__name__.lower(), ", ".join(node.names)))
    immutable = (type(None), bool, int, float, complex, str, bytes, tuple, frozenset, types.ModuleType,
                 types.FunctionType, types.BuiltinFunctionType, type)
    names = []
    for name, val in sorted(vars(geometry).items()):
        if name.startswith("__") or isinstance(val, immutable):
            continue
        if type(val).__module__ == "numpy" and not isinstance(val, np.ndarray):
            continue                                  # numpy scalars / ufuncs
        if name in KNOWN_MUTABLE and isinstance(val, KNOWN_MUTABLE[name]):
            names.append(name)
            continue
        if isinstance(val, type(geometry.Links)):     # classes (Links)
            continue
        raise SystemExit("rig/geometry.py: module-level object %s of type %s is not one of the two constant "
                         "tables the models account for" % (name, type(val).__name__))
    for node in tree.body:
        if isinstance(node, ast.FunctionDef) and node.name in C19_FUNCTIONS:
            if node.decorator_list:
                raise SystemExit("rig/geometry.py: %s is decorated" % node.name)
            for dflt in node.args.defaults + [k for k in node.args.kw_defaults if k is not None]:
                if not (isinstance(dflt, ast.Constant) and isinstance(dflt.value, (int, type(None)))):
                    raise SystemExit("rig/geometry.py: %s has a default argument that is not an integer" % node.name)
            for sub in ast.walk(node):
                tgts = []
                if isinstance(sub, ast.Assign):
                    tgts = sub.targets
                elif isinstance(sub, (ast.AugAssign, ast.AnnAssign)):
                    tgts = [sub.target]
                for t in tgts:
                    for tt in ast.walk(t):
                        if isinstance(tt, (ast.Attribute, ast.Subscript)):
                            raise SystemExit("rig/geometry.py line %d: %s stores into an object" % (sub.lineno, node.name))
    for fn in C19_FUNCTIONS:
        f = getattr(geometry, fn)
        if not isinstance(f, types.FunctionType) or f.__dict__:
            raise SystemExit("rig/geometry.py: %s is not a plain function without attributes" % fn)
    return names


def main():
    mutable = inventory()
    out = [D.HEADER % "dump_c19.py"]
    out.append("(* inventory: module-level mutable objects of rig/geometry.py (no `global` statement, no decorator,\n"
               "   no store into an object in the board geometry functions): %s *)\n" % ", ".join(mutable))
    t = geometry.SPINN5_ETH_OFFSET
    if not isinstance(t, np.ndarray) or t.ndim != 3 or t.shape[2] != 2 or t.dtype.kind != "i":
        raise SystemExit("SPINN5_ETH_OFFSET is not a 3-d integer array with pairs in the last axis")
    out.append("(* rig.geometry.SPINN5_ETH_OFFSET: numpy array indexed [row][column]; each cell a pair *)\n")
    out.append(D.definition("SPINN5_ETH_OFFSET_shape", "list Z", D.zlist(t.shape)))
    rows = [D.lst([D.pair(D.z(c[0]), D.z(c[1])) for c in row]) for row in t]
    out.append(D.definition("SPINN5_ETH_OFFSET", "list (list (Z * Z))", "[" + ";\n   ".join(rows) + "]"))
    out.append("(* numpy lookup TABLE[i][j] for indices inside the array (0 <= i < shape[0], 0 <= j < shape[1]);\n"
               "   the translated kernels only index with `... % 12` and Props/C19.v proves that the dumped\n"
               "   array is 12 x 12, so the filler for indices outside the array (IndexError in numpy) is\n"
               "   never produced. *)\n")
    out.append(D.definition("SPINN5_ETH_OFFSET_at (i j : Z)", "Z * Z",
                            "nth (Z.to_nat j) (nth (Z.to_nat i) SPINN5_ETH_OFFSET []) (0, 0)"))
    f = geometry.SPINN5_FPGA_LINKS
    if not isinstance(f, dict):
        raise SystemExit("SPINN5_FPGA_LINKS is not a dict")
    items = []
    for k, v in f.items():
        if len(k) != 3 or len(v) != 2:
            raise SystemExit("SPINN5_FPGA_LINKS entry %r: %r is not (x, y, link): (fpga, link)" % (k, v))
        items.append(D.pair("(%s, %s, %s)" % tuple(D.z(a) for a in k), D.pair(D.z(v[0]), D.z(v[1]))))
    out.append("(* rig.geometry.SPINN5_FPGA_LINKS: dict {(x, y, link): (fpga, link number)} in iteration order *)\n")
    out.append(D.definition("SPINN5_FPGA_LINKS", "list ((Z * Z * Z) * (Z * Z))",
                            "[" + ";\n   ".join(items) + "]"))
    out.append("(* rig.links.Links *)\n")
    out.append(D.enum("Links", Links))
    out.append(D.definition("Links_all", "list Z", D.zlist(int(l) for l in Links)))
    out.append("(* Links.to_vector() of every member *)\n")
    out.append(D.definition("Links_to_vector", "list (Z * (Z * Z))", D.lst(
        D.pair(D.z(int(l)), D.pair(D.z(l.to_vector()[0]), D.z(l.to_vector()[1]))) for l in Links)))
    sys.stdout.write("\n".join(out))


main()
