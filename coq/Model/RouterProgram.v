(* C10 -- programs of loads and read-backs whose chip and application id come from nested
   `with controller(x=.., y=.., app_id=..)` blocks: the addressing rule (an argument given explicitly
   wins, otherwise the innermost enclosing block that names it, otherwise app_id 66; x and y have no
   default), the control flow (an exception ends the enclosing `try` block only; leaving a `with` block,
   normally or by an exception, restores the arguments of the enclosing block) and the calls themselves
   (Model/Router.v).  Definitions only.

   That MachineController's context stack implements this rule -- in particular that a block left by an
   exception is popped -- is property C18's; here the rule is what the histories of the correspondence
   run are judged by, and the model predicts which statements execute and what each one does. *)
From Coq Require Import ZArith List Bool.
Require Import Rig.Model.Base Rig.Model.Tables Rig.Model.Router.
Import ListNotations.
Open Scope Z_scope.

Record kwargs := mkKw { kw_x : option Z; kw_y : option Z; kw_app : option Z }.

Inductive stmt : Type :=
| SWith (kw : kwargs) (body : list stmt)
| STry (body : list stmt)
| SLoad (kw : kwargs) (es : list entry) (id : Z)
| SRead (kw : kwargs) (id : Z).

(* the arguments in force: x, y (none at top level) and app_id (initial context: 66) *)
Definition ctx := (option Z * option Z * Z)%type.
Definition ctx0 : ctx := (None, None, 66).

Definition orelse {A} (a b : option A) : option A := match a with Some _ => a | None => b end.

Definition override (c : ctx) (kw : kwargs) : ctx :=
  (orelse (kw_x kw) (fst (fst c)), orelse (kw_y kw) (snd (fst c)),
   match kw_app kw with Some a => a | None => snd c end).

(* outcome of running statements: the statements executed (id and explicit call, in order), the machine,
   whether an exception is propagating *)
Definition pres := (list (Z * hop) * machine * bool)%type.

Definition load_raises (m : machine) (x y a : Z) (es : list entry) : bool :=
  match fst (fst (load_routing_table_entries m es x y a)) with LOk => false | _ => true end.

Definition read_raises (m : machine) (x y : Z) : bool :=
  match fst (get_routing_table_entries m x y) with Ok _ => false | _ => true end.

Fixpoint run_stmt (c : ctx) (m : machine) (s : stmt) {struct s} : pres :=
  let run_list :=
    fix go (c : ctx) (m : machine) (l : list stmt) {struct l} : pres :=
      match l with
      | [] => ([], m, false)
      | s :: l' =>
          let r := run_stmt c m s in
          if snd r then r
          else let r' := go c (snd (fst r)) l' in
               (fst (fst r) ++ fst (fst r'), snd (fst r'), snd r')
      end in
  match s with
  | SWith kw body => run_list (override c kw) m body
  | STry body => let r := run_list c m body in (fst (fst r), snd (fst r), false)
  | SLoad kw es id =>
      match override c kw with
      | (Some x, Some y, a) =>
          ([(id, HLoad x y a es)], snd (fst (load_routing_table_entries m es x y a)), load_raises m x y a es)
      | _ => ([], m, true)                       (* TypeError: a required argument is missing *)
      end
  | SRead kw id =>
      match override c kw with
      | (Some x, Some y, _) => ([(id, HRead x y)], m, read_raises m x y)
      | _ => ([], m, true)
      end
  end.

Fixpoint run_list (c : ctx) (m : machine) (l : list stmt) : pres :=
  match l with
  | [] => ([], m, false)
  | s :: l' =>
      let r := run_stmt c m s in
      if snd r then r
      else let r' := run_list c (snd (fst r)) l' in
           (fst (fst r) ++ fst (fst r'), snd (fst r'), snd r')
  end.

(* a whole program: the driver catches whatever escapes *)
Definition run_program (m : machine) (prog : list stmt) :=
  let r := run_list ctx0 m prog in
  let hops := map snd (fst (fst r)) in
  (map fst (fst (fst r)), history_case m hops).
