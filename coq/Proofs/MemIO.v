(* C13 -- proofs about the executable model of the memory views (Model/MemIO.v): the transfer
   arithmetic of read/write, confinement of every controller access, nesting of slices, dead views,
   truncation warnings, the range of a slice, and the refutations for the code as found.
   The refinement of the fixed-length file is in Proofs/MemIORefine.v.  No axioms. *)
From Coq Require Import ZArith List Bool Lia.
Require Import Rig.Generated.GenMemIO Rig.Model.Base Rig.Model.MemIO Rig.Spec.MemIO.
Import ListNotations.
Open Scope Z_scope.

(* case analysis on one boolean comparison of the goal at a time, innermost first (a comparison
   whose arguments still contain an undecided `if` is left for later), reducing in between *)
Ltac no_if t := lazymatch t with context [if _ then _ else _] => fail | _ => idtac end.
Ltac zcase :=
  match goal with
  | |- context [?a >? ?b] => rewrite (Z.gtb_ltb a b)
  | |- context [?a <? ?b] => no_if a; no_if b; destruct (Z.ltb_spec a b)
  | |- context [?a <=? ?b] => no_if a; no_if b; destruct (Z.leb_spec a b)
  | |- context [?a =? ?b] => no_if a; no_if b; destruct (Z.eqb_spec a b)
  end; cbv zeta beta iota; cbn [andb orb fst snd].
Ltac zcases := repeat zcase.

(* ------------------------------------------------------------------------------------------ *)
(* lists                                                                                        *)
(* ------------------------------------------------------------------------------------------ *)
Lemma zlen_nonneg : forall A (l : list A), 0 <= zlen l.
Proof. intros A l. unfold zlen. lia. Qed.

Lemma zlen_nil : forall A, zlen (@nil A) = 0.
Proof. reflexivity. Qed.

Lemma zlen_firstn : forall A (l : list A) k, 0 <= k -> zlen (firstn (Z.to_nat k) l) = Z.min k (zlen l).
Proof. intros A l k Hk. unfold zlen. rewrite firstn_length. lia. Qed.

Lemma zlen_zero : forall A (l : list A), zlen l = 0 -> l = [].
Proof. intros A l H. destruct l as [|x l]; [reflexivity|]. unfold zlen in H. cbn [length] in H. lia. Qed.

Lemma set_nth_length : forall A i (x : A) l, length (set_nth i x l) = length l.
Proof.
  intros A i x l. revert i. induction l as [|h t IH]; intros i; destruct i as [|j]; cbn [set_nth length];
    try reflexivity. rewrite IH. reflexivity.
Qed.

Lemma set_nth_same : forall A i (x : A) l, nth_error l i = Some x -> set_nth i x l = l.
Proof.
  intros A i x l. revert i. induction l as [|h t IH]; intros i H; destruct i as [|j]; cbn in *;
    try discriminate; try reflexivity.
  - inversion H. reflexivity.
  - rewrite (IH j H). reflexivity.
Qed.

Lemma nth_error_set_nth_eq : forall A i (x : A) l, (i < length l)%nat -> nth_error (set_nth i x l) i = Some x.
Proof.
  intros A i x l. revert i. induction l as [|h t IH]; intros i H; destruct i as [|j]; cbn in *;
    try lia; try reflexivity. apply IH. lia.
Qed.

Lemma nth_error_set_nth_neq : forall A i j (x : A) l, i <> j -> nth_error (set_nth i x l) j = nth_error l j.
Proof.
  intros A i j x l. revert i j. induction l as [|h t IH]; intros i j H; destruct i as [|i']; destruct j as [|j'];
    cbn in *; try reflexivity; try congruence. apply IH. congruence.
Qed.

Lemma Forall_set_nth : forall A (P : A -> Prop) i x l, Forall P l -> P x -> Forall P (set_nth i x l).
Proof.
  intros A P i x l. revert i. induction l as [|h t IH]; intros i Hl Hx; destruct i as [|j]; cbn [set_nth].
  - constructor.
  - constructor.
  - inversion Hl; subst. constructor; assumption.
  - inversion Hl; subst. constructor; [assumption|]. apply IH; assumption.
Qed.

Lemma nth_error_Forall : forall A (P : A -> Prop) l i x, Forall P l -> nth_error l i = Some x -> P x.
Proof.
  intros A P l i x Hl Hn. rewrite Forall_forall in Hl. apply Hl. eapply nth_error_In. exact Hn.
Qed.

(* ------------------------------------------------------------------------------------------ *)
(* read / write: how many bytes move, and when a warning is given                               *)
(* ------------------------------------------------------------------------------------------ *)
Definition read_req (v : view) (n : Z) : Z := if n <? 0 then vlen v - v_off v else n.

Lemma read_plan_spec : forall v n,
  let k := snd (read_plan v n) in
  (0 <? fst (read_plan v n)) = warned (v_off v) (read_req v n) (vlen v)
  /\ (0 < k -> k = transfer (v_off v) (read_req v n) (vlen v))
  /\ (k <= 0 -> transfer (v_off v) (read_req v n) (vlen v) = 0).
Proof.
  intros v n. unfold read_plan, gen_read_plan, read_req, warned, transfer, vlen, gen_len, address, gen_address. cbn [fst snd].
  destruct v as [s e off cl]; cbn [v_start v_end v_off]. cbv zeta.
  zcases; repeat split; intros; try reflexivity; try lia.
Qed.

Lemma gen_write_plan_spec : forall s e off nb,
  0 <= nb ->
  (0 <? fst (gen_write_plan s e off nb)) = warned off nb (e - s)
  /\ snd (gen_write_plan s e off nb) = transfer off nb (e - s).
Proof.
  intros s e off nb Hnb. unfold gen_write_plan, warned, transfer. cbv zeta.
  zcases; split; try reflexivity; lia.
Qed.

Lemma write_plan_spec : forall v bs,
  let b := snd (write_plan v bs) in
  let k := transfer (v_off v) (zlen bs) (vlen v) in
  (0 <? fst (write_plan v bs)) = warned (v_off v) (zlen bs) (vlen v)
  /\ zlen b = k /\ b = firstn (Z.to_nat k) bs.
Proof.
  intros v bs. cbv zeta. unfold write_plan, vlen, gen_len.
  pose proof (zlen_nonneg _ bs) as Hbs.
  destruct (gen_write_plan_spec (v_start v) (v_end v) (v_off v) (zlen bs) Hbs) as (Hw & Hk).
  destruct (gen_write_plan (v_start v) (v_end v) (v_off v) (zlen bs)) as [w k0]. cbn [fst snd] in *.
  subst k0. split; [exact Hw|]. split; [|reflexivity].
  assert (Hle : 0 <= transfer (v_off v) (zlen bs) (v_end v - v_start v) <= zlen bs)
    by (unfold transfer; zcases; lia).
  rewrite zlen_firstn by lia. lia.
Qed.

Lemma transfer_bounds : forall pos req n, 0 < transfer pos req n -> 0 <= pos /\ pos + transfer pos req n <= n.
Proof. intros pos req n. unfold transfer. zcases; lia. Qed.

(* ------------------------------------------------------------------------------------------ *)
(* one method call: accesses inside the view, range unchanged, slices nested                    *)
(* ------------------------------------------------------------------------------------------ *)
Lemma read_calls : forall m v n v' out,
  read m v n = (v', out) ->
  (forall c, In c (o_calls out) -> call_within (v_start v) (v_end v) c)
  /\ v_start v' = v_start v /\ v_end v' = v_end v /\ v_closed v' = v_closed v.
Proof.
  intros m v n v' out H. unfold read in H.
  pose proof (read_plan_spec v n) as Hsp. cbv zeta in Hsp.
  destruct (read_plan v n) as [w k]; cbn [fst snd] in Hsp.
  destruct Hsp as (_ & Hpos & _).
  destruct (k <=? 0) eqn:Ek; inversion H; subst; clear H; cbn [o_calls].
  - split; [intros c []|]. repeat split.
  - apply Z.leb_gt in Ek. specialize (Hpos Ek).
    assert (Hb := transfer_bounds (v_off v) (read_req v n) (vlen v)). rewrite <- Hpos in Hb.
    specialize (Hb Ek). unfold vlen, gen_len in Hb.
    split; [|repeat split].
    intros c [Hc|[]]. subst c. unfold call_within, address, gen_address. lia.
Qed.

Lemma write_calls : forall v bs v' out,
  write v bs = (v', out) ->
  (forall c, In c (o_calls out) -> call_within (v_start v) (v_end v) c)
  /\ v_start v' = v_start v /\ v_end v' = v_end v /\ v_closed v' = v_closed v.
Proof.
  intros v bs v' out H. unfold write in H.
  pose proof (write_plan_spec v bs) as Hsp. cbv zeta in Hsp.
  destruct (write_plan v bs) as [w b]; cbn [fst snd] in Hsp.
  destruct Hsp as (_ & Hlen & _).
  destruct (zlen b =? 0) eqn:Ek; inversion H; subst v' out; clear H; cbn [o_calls].
  - split; [intros c []|]. repeat split.
  - apply Z.eqb_neq in Ek. pose proof (zlen_nonneg _ b) as Hnn.
    assert (Hpos : 0 < transfer (v_off v) (zlen bs) (vlen v)) by lia.
    assert (Hb := transfer_bounds _ _ _ Hpos). unfold vlen, gen_len in Hb, Hlen.
    split; [|repeat split].
    intros c [Hc|[]]. subst c. unfold call_within, address, gen_address. lia.
Qed.

Lemma seek_same_range : forall v n wh v' out,
  seek v n wh = (v', out) ->
  o_calls out = [] /\ v_start v' = v_start v /\ v_end v' = v_end v /\ v_closed v' = v_closed v.
Proof.
  intros v n wh v' out H. unfold seek, gen_seek in H.
  destruct (wh =? 0); [|destruct (wh =? 1); [|destruct (wh =? 2)]]; cbn in H; inversion H; subst; repeat split.
Qed.

Lemma slice_view_nested : forall v a b,
  v_start v <= v_end v ->
  let w := slice_view v a b in
  v_start v <= v_start w /\ v_start w <= v_end w /\ v_end w <= v_end v.
Proof.
  intros v a b Hwf. unfold slice_view, new_view, gen_init_end, slice_start, slice_stop, gen_slice_start, gen_slice_stop, gen_slice_start_none, gen_slice_stop_none. cbn [v_start v_end].
  destruct a as [x|]; destruct b as [y|]; zcases; lia.
Qed.

(* everything vstep guarantees about ranges, in one statement *)
(* the two ways a disturbed read/write ends: as the plain one, or with the view untouched *)
Lemma faulted_cases : forall v r v' nw out,
  faulted v r = (v', nw, out) ->
  (v' = fst r /\ nw = None /\ out = snd r /\ o_calls (snd r) = [])
  \/ (v' = v /\ nw = None /\ out = mkOut (Failed 2) (o_warns (snd r)) [] /\ o_calls (snd r) <> []).
Proof.
  intros v r v' nw out H. unfold faulted in H. destruct (o_calls (snd r)) as [|c cs] eqn:Ec.
  - left. inversion H. repeat split.
  - right. inversion H. repeat split. discriminate.
Qed.

Lemma strict_cases : forall v r v' nw out,
  strict v r = (v', nw, out) ->
  (v' = fst r /\ nw = None /\ out = snd r /\ o_warns (snd r) <= 0)
  \/ (v' = v /\ nw = None /\ out = mkOut (Failed 3) 0 [] /\ 0 < o_warns (snd r)).
Proof.
  intros v r v' nw out H. unfold strict in H. destruct (Z.ltb_spec 0 (o_warns (snd r))) as [Hw|Hw].
  - right. inversion H. repeat split. exact Hw.
  - left. inversion H. repeat split. exact Hw.
Qed.

Lemma vstep_ranges : forall fr m v o v' nw out,
  vstep fr m v o = (v', nw, out) ->
  (forall c, In c (o_calls out) -> call_within (v_start v) (v_end v) c)
  /\ v_start v' = v_start v /\ v_end v' = v_end v
  /\ (v_closed v = true -> v_closed v' = true)
  /\ (forall w, nw = Some w ->
        exists a b step, o = Slice a b step /\ w = slice_view v a b
                         /\ o_res out = Ok (VView (v_start w) (v_end w)) /\ dead fr v = false).
Proof.
  intros fr m v o v' nw out H.
  (* a branch that returns the view unchanged (or only closed), no new view, no call *)
  assert (Hquiet : forall v1 r wn, (v1 = v \/ v1 = set_closed v) ->
            (v', nw, out) = (v1, @None view, mkOut r wn []) ->
            (forall c, In c (o_calls out) -> call_within (v_start v) (v_end v) c)
            /\ v_start v' = v_start v /\ v_end v' = v_end v
            /\ (v_closed v = true -> v_closed v' = true)
            /\ (forall w, nw = Some w ->
                  exists a b step, o = Slice a b step /\ w = slice_view v a b
                         /\ o_res out = Ok (VView (v_start w) (v_end w)) /\ dead fr v = false)).
  { intros v1 r wn Hv1 Heq. inversion Heq; subst v' nw out. cbn [o_calls].
    split; [intros c []|].
    destruct Hv1 as [Hv1|Hv1]; subst v1; cbn [set_closed v_start v_end v_closed];
      (split; [reflexivity|]; split; [reflexivity|]; split; [tauto|]; intros w Hw; discriminate). }
  (* a branch that is a plain seek/read/write *)
  assert (Hplain : forall v1 r,
            (forall c, In c (o_calls r) -> call_within (v_start v) (v_end v) c) ->
            v_start v1 = v_start v -> v_end v1 = v_end v -> v_closed v1 = v_closed v ->
            (v', nw, out) = (v1, @None view, r) ->
            (forall c, In c (o_calls out) -> call_within (v_start v) (v_end v) c)
            /\ v_start v' = v_start v /\ v_end v' = v_end v
            /\ (v_closed v = true -> v_closed v' = true)
            /\ (forall w, nw = Some w ->
                  exists a b step, o = Slice a b step /\ w = slice_view v a b
                         /\ o_res out = Ok (VView (v_start w) (v_end w)) /\ dead fr v = false)).
  { intros v1 r Hc Hs He Hcl Heq. inversion Heq; subst v' nw out.
    split; [assumption|]. split; [assumption|]. split; [assumption|].
    split; [congruence|]. intros w Hw; discriminate. }
  assert (Hclose : close_step fr v = (v', nw, out) ->
            (forall c, In c (o_calls out) -> call_within (v_start v) (v_end v) c)
            /\ v_start v' = v_start v /\ v_end v' = v_end v
            /\ (v_closed v = true -> v_closed v' = true)
            /\ (forall w, nw = Some w ->
                  exists a b step, o = Slice a b step /\ w = slice_view v a b
                         /\ o_res out = Ok (VView (v_start w) (v_end w)) /\ dead fr v = false)).
  { intros Hc. unfold close_step in Hc.
    destruct (v_closed v) eqn:Ec; [symmetry in Hc; apply (Hquiet v _ _ (or_introl eq_refl) Hc)|].
    destruct fr; [symmetry in Hc; apply (Hquiet v _ _ (or_introl eq_refl) Hc)|].
    symmetry in Hc; apply (Hquiet _ _ _ (or_intror eq_refl) Hc). }
  destruct o as [n wh|n|bs|a b step| | | | | |n|bs|n|bs| | ]; cbn [vstep] in H.
  - destruct (dead fr v) eqn:Ed; [symmetry in H; apply (Hquiet v _ _ (or_introl eq_refl) H)|].
    destruct (seek v n wh) as [v1 r] eqn:Es.
    destruct (seek_same_range _ _ _ _ _ Es) as (Hc & Hs & He & Hcl).
    symmetry in H. apply (Hplain v1 r); try assumption. rewrite Hc. intros c [].
  - destruct (dead fr v) eqn:Ed; [symmetry in H; apply (Hquiet v _ _ (or_introl eq_refl) H)|].
    destruct (read m v n) as [v1 r] eqn:Es.
    destruct (read_calls _ _ _ _ _ Es) as (Hc & Hs & He & Hcl).
    symmetry in H. apply (Hplain v1 r); assumption.
  - destruct (dead fr v) eqn:Ed; [symmetry in H; apply (Hquiet v _ _ (or_introl eq_refl) H)|].
    destruct (write v bs) as [v1 r] eqn:Es.
    destruct (write_calls _ _ _ _ Es) as (Hc & Hs & He & Hcl).
    symmetry in H. apply (Hplain v1 r); assumption.
  - destruct (dead fr v) eqn:Ed; [symmetry in H; apply (Hquiet v _ _ (or_introl eq_refl) H)|].
    destruct (contiguous step); [|symmetry in H; apply (Hquiet v _ _ (or_introl eq_refl) H)].
    inversion H; subst v' nw out; clear H. cbn [o_calls o_res ok].
    split; [intros c []|]. split; [reflexivity|]. split; [reflexivity|]. split; [tauto|].
    intros w Hw. injection Hw as Hw. subst w. exists a, b, step.
    split; [reflexivity|]. split; [reflexivity|]. split; reflexivity.
  - destruct (dead fr v) eqn:Ed; symmetry in H; apply (Hquiet v _ _ (or_introl eq_refl) H).
  - symmetry in H; apply (Hquiet v _ _ (or_introl eq_refl) H).
  - destruct (dead fr v) eqn:Ed; symmetry in H; apply (Hquiet v _ _ (or_introl eq_refl) H).
  - destruct (dead fr v) eqn:Ed; symmetry in H; apply (Hquiet v _ _ (or_introl eq_refl) H).
  - apply Hclose. exact H.
  - destruct (dead fr v) eqn:Ed; [symmetry in H; apply (Hquiet v _ _ (or_introl eq_refl) H)|].
    destruct (read m v n) as [v1 r] eqn:Es.
    destruct (read_calls _ _ _ _ _ Es) as (Hc & Hs & He & Hcl).
    destruct (faulted_cases _ _ _ _ _ H) as [(E1 & E2 & E3 & _)|(E1 & E2 & E3 & _)]; cbn [fst snd] in *.
    + apply (Hplain v1 r); try assumption. congruence.
    + apply (Hquiet v (Failed 2) (o_warns r) (or_introl eq_refl)). congruence.
  - destruct (dead fr v) eqn:Ed; [symmetry in H; apply (Hquiet v _ _ (or_introl eq_refl) H)|].
    destruct (write v bs) as [v1 r] eqn:Es.
    destruct (write_calls _ _ _ _ Es) as (Hc & Hs & He & Hcl).
    destruct (faulted_cases _ _ _ _ _ H) as [(E1 & E2 & E3 & _)|(E1 & E2 & E3 & _)]; cbn [fst snd] in *.
    + apply (Hplain v1 r); try assumption. congruence.
    + apply (Hquiet v (Failed 2) (o_warns r) (or_introl eq_refl)). congruence.
  - destruct (dead fr v) eqn:Ed; [symmetry in H; apply (Hquiet v _ _ (or_introl eq_refl) H)|].
    destruct (read m v n) as [v1 r] eqn:Es.
    destruct (read_calls _ _ _ _ _ Es) as (Hc & Hs & He & Hcl).
    destruct (strict_cases _ _ _ _ _ H) as [(E1 & E2 & E3 & _)|(E1 & E2 & E3 & _)]; cbn [fst snd] in *.
    + apply (Hplain v1 r); try assumption. congruence.
    + apply (Hquiet v (Failed 3) 0 (or_introl eq_refl)). congruence.
  - destruct (dead fr v) eqn:Ed; [symmetry in H; apply (Hquiet v _ _ (or_introl eq_refl) H)|].
    destruct (write v bs) as [v1 r] eqn:Es.
    destruct (write_calls _ _ _ _ Es) as (Hc & Hs & He & Hcl).
    destruct (strict_cases _ _ _ _ _ H) as [(E1 & E2 & E3 & _)|(E1 & E2 & E3 & _)]; cbn [fst snd] in *.
    + apply (Hplain v1 r); try assumption. congruence.
    + apply (Hquiet v (Failed 3) 0 (or_introl eq_refl)). congruence.
  - symmetry in H; apply (Hquiet v _ _ (or_introl eq_refl) H).
  - apply Hclose. exact H.
Qed.

(* ------------------------------------------------------------------------------------------ *)
(* histories: every access confined, every slice nested, every view inside the allocation        *)
(* ------------------------------------------------------------------------------------------ *)
Definition inside (lo hi : Z) (v : view) : Prop := lo <= v_start v /\ v_start v <= v_end v /\ v_end v <= hi.

Lemma views_inside_intro : forall l fr m r t,
  l = r :: t -> Forall (inside (v_start r) (v_end r)) l -> views_inside (mkState l fr m).
Proof. intros l fr m r t Hl Hall. unfold views_inside. cbn [st_views]. rewrite Hl in *. exact Hall. Qed.

Lemma init_inside : forall s e m, views_inside (init s e m).
Proof.
  intros s e m. unfold init, views_inside, new_view, gen_init_end. cbn [st_views v_start v_end].
  constructor; [cbn [v_start v_end]; lia | constructor].
Qed.

Lemma vstep_slice_nested : forall fr m v a b step v' nw out s' e',
  v_start v <= v_end v ->
  vstep fr m v (Slice a b step) = (v', nw, out) -> o_res out = Ok (VView s' e') ->
  v_start v <= s' /\ s' <= e' /\ e' <= v_end v.
Proof.
  intros fr m v a b step v' nw out s' e' Hwf H Hres. cbn [vstep] in H.
  destruct (dead fr v) eqn:Ed; [inversion H; subst; discriminate|].
  destruct (contiguous step); [|inversion H; subst; discriminate].
  inversion H; subst v' nw out; clear H. cbn [o_res ok] in Hres. injection Hres as Hs He. subst s' e'.
  apply slice_view_nested. exact Hwf.
Qed.

(* free() during which sdram_free raises: nothing is freed, nothing changes *)
Lemma free_fault_step : forall st st' out,
  step st OFreeFault = (st', out) ->
  st' = st /\ o_calls out = []
  /\ (o_res out = Failed 2 \/ o_res out = Failed 0 \/ o_res out = OtherError).
Proof.
  intros st st' out H. unfold step, step_with in H.
  destruct (st_views st); [|destruct (st_freed st)]; inversion H; subst; cbn; auto.
Qed.

Lemma step_inv : forall st o st' out,
  views_inside st -> step st o = (st', out) ->
  views_inside st' /\ confined_event (st, o, out) /\ nested_event (st, o, out).
Proof.
  intros st o st' out Hin Hstep. unfold step, step_with in Hstep.
  destruct o as [i vo| |].
  3:{ fold (step st OFreeFault) in Hstep. destruct (free_fault_step _ _ _ Hstep) as (E & Ec & _). subst st'.
      split; [exact Hin|]. split; [exact Ec | exact I]. }
  - destruct (nth_error (st_views st) i) as [v|] eqn:Hnth.
    2:{ inversion Hstep; subst st' out. split; [exact Hin|]. split.
        - cbn. intros c [].
        - cbn. destruct vo; try exact I. cbn. intros; discriminate. }
    destruct (vstep (st_freed st) (st_mem st) v vo) as [[v' nw] out0] eqn:Hv.
    inversion Hstep; subst st' out0; clear Hstep.
    destruct (vstep_ranges _ _ _ _ _ _ _ Hv) as (Hcalls & Hs & He & _ & Hnew).
    unfold views_inside in Hin.
    destruct (st_views st) as [|root t] eqn:Hviews; [destruct i; discriminate|].
    assert (Hv_in : inside (v_start root) (v_end root) v) by (eapply nth_error_Forall; eassumption).
    split; [|split].
    + (* the new list of views *)
      assert (Hall : Forall (inside (v_start root) (v_end root)) (set_nth i v' (root :: t) ++ opt_list nw)).
      { apply Forall_app. split.
        - apply Forall_set_nth; [exact Hin|]. unfold inside in *. rewrite Hs, He. exact Hv_in.
        - destruct nw as [w|]; cbn [opt_list]; [|constructor].
          destruct (Hnew w eq_refl) as (a & b & step & _ & Hw & _).
          constructor; [|constructor].
          assert (Hn := slice_view_nested v a b ltac:(unfold inside in Hv_in; lia)). cbv zeta in Hn.
          rewrite <- Hw in Hn. unfold inside in *. lia. }
      destruct i as [|j]; cbn [set_nth app] in Hall |- *.
      * cbn [nth_error] in Hnth. injection Hnth as Hnth. subst v.
        eapply views_inside_intro; [reflexivity|]. rewrite Hs, He. exact Hall.
      * eapply views_inside_intro; [reflexivity|]. exact Hall.
    + cbn. intros c Hc. exists v. rewrite Hviews. split; [exact Hnth|]. apply Hcalls. exact Hc.
    + cbn. destruct vo; try exact I. intros s' e' Hres. exists v. rewrite Hviews. split; [exact Hnth|].
      eapply vstep_slice_nested; [|exact Hv|exact Hres]. unfold inside in Hv_in. lia.
  - destruct (st_views st) as [|root t] eqn:Hviews.
    + inversion Hstep; subst st' out. split; [exact Hin|]. split; [|exact I]. cbn. intros c [].
    + destruct (st_freed st); inversion Hstep; subst st' out; clear Hstep.
      * split; [exact Hin|]. split; [|exact I]. cbn. intros c [].
      * split; [|split; [|exact I]].
        -- unfold views_inside in *. cbn [st_views]. rewrite Hviews in *. exact Hin.
        -- cbn. intros c [Hc|[]]. exists root. rewrite Hviews. split; [reflexivity|]. symmetry. exact Hc.
Qed.

Lemma trace_cons : forall st o rest,
  trace st (o :: rest) = (st, o, snd (step st o)) :: trace (fst (step st o)) rest.
Proof. intros st o rest. unfold trace. cbn [trace_with]. fold step. destruct (step st o); reflexivity. Qed.

Lemma run_cons : forall st o rest, run st (o :: rest) = run (fst (step st o)) rest.
Proof. reflexivity. Qed.

Theorem history_confined : forall ops st,
  views_inside st ->
  Forall (fun e => views_inside (fst (fst e)) /\ confined_event e /\ nested_event e) (trace st ops)
  /\ views_inside (run st ops).
Proof.
  induction ops as [|o rest IH]; intros st Hin.
  - split; [constructor | exact Hin].
  - rewrite trace_cons, run_cons.
    destruct (step st o) as [st' out] eqn:Hstep. cbn [fst snd].
    destruct (step_inv _ _ _ _ Hin Hstep) as (Hin' & Hc & Hn).
    destruct (IH st' Hin') as (Hall & Hfin).
    split; [|exact Hfin]. constructor; [|exact Hall]. cbn [fst]. repeat split; assumption.
Qed.

(* the range of a view never changes, and views are only ever appended *)
Lemma step_ranges_fixed : forall st o st' out i v,
  step st o = (st', out) -> nth_error (st_views st) i = Some v ->
  exists v', nth_error (st_views st') i = Some v' /\ v_start v' = v_start v /\ v_end v' = v_end v
             /\ (dead (st_freed st) v = true -> dead (st_freed st') v' = true).
Proof.
  intros st o st' out i v Hstep Hnth. unfold step, step_with in Hstep.
  destruct o as [j vo| |].
  3:{ fold (step st OFreeFault) in Hstep. destruct (free_fault_step _ _ _ Hstep) as (E & _). subst st'.
      exists v. repeat split; try assumption; tauto. }
  - destruct (nth_error (st_views st) j) as [u|] eqn:Hj.
    2:{ inversion Hstep; subst. exists v. repeat split; try assumption; tauto. }
    destruct (vstep (st_freed st) (st_mem st) u vo) as [[u' nw] out0] eqn:Hv.
    inversion Hstep; subst st' out0; clear Hstep. cbn [st_views st_freed].
    destruct (vstep_ranges _ _ _ _ _ _ _ Hv) as (_ & Hs & He & Hcl & _).
    assert (Hlt : (i < length (st_views st))%nat) by (apply nth_error_Some; congruence).
    rewrite nth_error_app1 by (rewrite set_nth_length; exact Hlt).
    destruct (Nat.eq_dec j i) as [Heq|Hne].
    + subst j. rewrite Hnth in Hj. injection Hj as Hj. subst u.
      rewrite nth_error_set_nth_eq by exact Hlt. exists u'. repeat split; try assumption.
      unfold dead. intros Hd. apply orb_true_iff in Hd. apply orb_true_iff.
      destruct Hd as [Hd|Hd]; [left; apply Hcl; exact Hd | right; exact Hd].
    + rewrite nth_error_set_nth_neq by exact Hne. exists v. repeat split; try assumption; tauto.
  - destruct (st_views st) as [|root t] eqn:Hviews; [destruct i; discriminate|].
    destruct (st_freed st) eqn:Hf; inversion Hstep; subst st' out; clear Hstep; cbn [st_views st_freed];
      rewrite ?Hviews; exists v; repeat split; try assumption; try tauto.
    all: intros _; unfold dead; cbn [st_freed]; rewrite ?Hf; apply orb_true_r.
Qed.

(* ------------------------------------------------------------------------------------------ *)
(* dead views                                                                                   *)
(* ------------------------------------------------------------------------------------------ *)
Lemma dead_vstep : forall fr m v vo,
  dead fr v = true -> guarded vo = true -> vstep fr m v vo = (v, None, err 0).
Proof.
  intros fr m v vo Hd Hg. destruct vo; cbn [guarded] in Hg; try discriminate; cbn [vstep]; rewrite Hd; reflexivity.
Qed.

Lemma dead_step : forall st i v vo,
  nth_error (st_views st) i = Some v -> dead (st_freed st) v = true -> guarded vo = true ->
  step st (OView i vo) = (st, err 0).
Proof.
  intros st i v vo Hnth Hd Hg. unfold step, step_with. rewrite Hnth.
  rewrite (dead_vstep _ _ _ _ Hd Hg). cbn [opt_list o_calls err apply_calls fold_left].
  rewrite app_nil_r. rewrite (set_nth_same _ _ _ _ Hnth). destruct st; reflexivity.
Qed.

Theorem dead_forever : forall ops st i v,
  nth_error (st_views st) i = Some v -> dead (st_freed st) v = true ->
  Forall (fun e => let '(st1, o, out) := e in
                   forall vo, o = OView i vo -> guarded vo = true -> out = err 0)
         (trace st ops).
Proof.
  induction ops as [|o rest IH]; intros st i v Hnth Hd.
  - constructor.
  - rewrite trace_cons. destruct (step st o) as [st' out] eqn:Hstep. cbn [fst snd].
    constructor.
    + intros vo Ho Hg. subst o. rewrite (dead_step _ _ _ _ Hnth Hd Hg) in Hstep.
      inversion Hstep. reflexivity.
    + destruct (step_ranges_fixed _ _ _ _ _ _ Hstep Hnth) as (v' & Hnth' & _ & _ & Hd').
      apply (IH st' i v' Hnth' (Hd' Hd)).
Qed.

Lemma closing_kills : forall st i v vo st' out,
  vo = Close \/ vo = Exit ->
  nth_error (st_views st) i = Some v -> step st (OView i vo) = (st', out) ->
  exists v', nth_error (st_views st') i = Some v' /\ dead (st_freed st') v' = true
             /\ o_calls out = [] /\ (o_res out = Ok VNone \/ o_res out = Failed 0).
Proof.
  intros st i v vo st' out Hvo Hnth Hstep. unfold step, step_with in Hstep. rewrite Hnth in Hstep.
  assert (Hvs : vstep (st_freed st) (st_mem st) v vo = close_step (st_freed st) v)
    by (destruct Hvo; subst vo; reflexivity).
  rewrite Hvs in Hstep. unfold close_step in Hstep.
  assert (Hlt : (i < length (st_views st))%nat) by (apply nth_error_Some; congruence).
  destruct (v_closed v) eqn:Ec; [|destruct (st_freed st) eqn:Ef];
    inversion Hstep; subst st' out; clear Hstep; cbn [st_views st_freed opt_list o_calls o_res ok err];
    rewrite app_nil_r, nth_error_set_nth_eq by exact Hlt; eexists; (split; [reflexivity|]);
    unfold dead; cbn [set_closed v_closed]; rewrite ?Ec, ?Ef; repeat split; auto using orb_true_r.
Qed.

Lemma close_kills : forall st i v st' out,
  nth_error (st_views st) i = Some v -> step st (OView i Close) = (st', out) ->
  exists v', nth_error (st_views st') i = Some v' /\ dead (st_freed st') v' = true
             /\ o_calls out = [] /\ (o_res out = Ok VNone \/ o_res out = Failed 0).
Proof. intros st i v st' out. apply closing_kills. left. reflexivity. Qed.

(* leaving a `with view:` block -- normally or by any exception: __exit__ ignores its arguments --
   leaves the view dead *)
Lemma exit_kills : forall st i v st' out,
  nth_error (st_views st) i = Some v -> step st (OView i Exit) = (st', out) ->
  exists v', nth_error (st_views st') i = Some v' /\ dead (st_freed st') v' = true
             /\ o_calls out = [] /\ (o_res out = Ok VNone \/ o_res out = Failed 0).
Proof. intros st i v st' out. apply closing_kills. right. reflexivity. Qed.


Lemma free_kills : forall st st' out,
  st_views st <> [] -> step st OFree = (st', out) ->
  st_freed st' = true /\ st_views st' = st_views st
  /\ (forall c, In c (o_calls out) -> exists a, c = CFree a).
Proof.
  intros st st' out Hne Hstep. unfold step, step_with in Hstep.
  destruct (st_views st) as [|root t] eqn:Hviews; [congruence|].
  destruct (st_freed st) eqn:Ef; inversion Hstep; subst st' out; clear Hstep; cbn [st_freed st_views o_calls err].
  - repeat split; try assumption. intros c [].
  - repeat split. intros c [Hc|[]]. eexists. symmetry. exact Hc.
Qed.

(* ------------------------------------------------------------------------------------------ *)
(* reads and writes in terms of the bytes that move                                             *)
(* ------------------------------------------------------------------------------------------ *)
Lemma read_transfers : forall m v n v' out,
  read m v n = (v', out) ->
  let k := transfer (v_off v) (read_req v n) (vlen v) in
  o_res out = Ok (VBytes (mem_read m (address v) k))
  /\ v' = set_off v (v_off v + k)
  /\ (0 <? o_warns out) = warned (v_off v) (read_req v n) (vlen v)
  /\ o_calls out = (if 0 <? k then [CRead (address v) k] else []).
Proof.
  intros m v n v' out H. unfold read in H.
  pose proof (read_plan_spec v n) as Hsp. cbv zeta in Hsp.
  destruct (read_plan v n) as [w k0]; cbn [fst snd] in Hsp.
  destruct Hsp as (Hw & Hpos & Hzero). cbv zeta.
  destruct (k0 <=? 0) eqn:Ek; inversion H; subst v' out; clear H; cbn [o_res o_warns o_calls].
  - apply Z.leb_le in Ek. rewrite (Hzero Ek). cbn. repeat split; try assumption.
    destruct v; unfold set_off; cbn. f_equal. lia.
  - apply Z.leb_gt in Ek. rewrite <- (Hpos Ek).
    assert (Hlt : (0 <? k0) = true) by (apply Z.ltb_lt; exact Ek). rewrite Hlt.
    repeat split; assumption.
Qed.

Lemma write_transfers : forall v bs v' out,
  write v bs = (v', out) ->
  let k := transfer (v_off v) (zlen bs) (vlen v) in
  o_res out = Ok (VInt k)
  /\ v' = set_off v (v_off v + k)
  /\ (0 <? o_warns out) = warned (v_off v) (zlen bs) (vlen v)
  /\ o_calls out = (if 0 <? k then [CWrite (address v) (firstn (Z.to_nat k) bs)] else []).
Proof.
  intros v bs v' out H. unfold write in H.
  pose proof (write_plan_spec v bs) as Hsp. cbv zeta in Hsp.
  destruct (write_plan v bs) as [w b]; cbn [fst snd] in Hsp.
  destruct Hsp as (Hw & Hlen & Hb). cbv zeta.
  destruct (zlen b =? 0) eqn:Ek; inversion H; subst v' out; clear H; cbn [o_res o_warns o_calls].
  - apply Z.eqb_eq in Ek. rewrite <- Hlen, Ek. cbn. repeat split; try assumption.
    destruct v; unfold set_off; cbn. f_equal. lia.
  - apply Z.eqb_neq in Ek. pose proof (zlen_nonneg _ b) as Hnn.
    assert (Hlt : (0 <? transfer (v_off v) (zlen bs) (vlen v)) = true) by (apply Z.ltb_lt; lia).
    rewrite Hlt. rewrite <- Hb. rewrite <- Hlen. repeat split; assumption.
Qed.

(* a read/write disturbed by the environment (the controller raises during the transfer, or the
   TruncationWarning is raised as an exception) that fails leaves everything as it was: the view's
   position, the list of views, the memory; and a faulted transfer is reported as failed *)
Lemma disturbed_vstep : forall fr m v vo v' nw out k,
  disturbed vo = true -> vstep fr m v vo = (v', nw, out) -> o_res out = Failed k ->
  v' = v /\ nw = None /\ o_calls out = [].
Proof.
  intros fr m v vo v' nw out k Hd H Hres.
  assert (Hread : forall n, exists x, o_res (snd (read m v n)) = Ok x).
  { intros n. destruct (read m v n) as [v1 r] eqn:Er.
    destruct (read_transfers _ _ _ _ _ Er) as (Hr & _). eexists. exact Hr. }
  assert (Hwrite : forall bs, exists x, o_res (snd (write v bs)) = Ok x).
  { intros bs. destruct (write v bs) as [v1 r] eqn:Er.
    destruct (write_transfers _ _ _ _ Er) as (Hr & _). eexists. exact Hr. }
  destruct vo; cbn [disturbed] in Hd; try discriminate; cbn [vstep] in H;
    (destruct (dead fr v); [inversion H; subst; repeat split|]).
  - destruct (faulted_cases _ _ _ _ _ H) as [(E1 & E2 & E3 & _)|(E1 & E2 & E3 & _)].
    + destruct (Hread n) as (x & Hx). subst out. congruence.
    + subst. repeat split.
  - destruct (faulted_cases _ _ _ _ _ H) as [(E1 & E2 & E3 & _)|(E1 & E2 & E3 & _)].
    + destruct (Hwrite bs) as (x & Hx). subst out. congruence.
    + subst. repeat split.
  - destruct (strict_cases _ _ _ _ _ H) as [(E1 & E2 & E3 & _)|(E1 & E2 & E3 & _)].
    + destruct (Hread n) as (x & Hx). subst out. congruence.
    + subst. repeat split.
  - destruct (strict_cases _ _ _ _ _ H) as [(E1 & E2 & E3 & _)|(E1 & E2 & E3 & _)].
    + destruct (Hwrite bs) as (x & Hx). subst out. congruence.
    + subst. repeat split.
Qed.

Theorem failed_transfer_leaves_state : forall st i vo st' out k,
  disturbed vo = true -> step st (OView i vo) = (st', out) -> o_res out = Failed k ->
  st' = st /\ o_calls out = [].
Proof.
  intros st i vo st' out k Hd Hstep Hres. unfold step, step_with in Hstep.
  destruct (nth_error (st_views st) i) as [v|] eqn:Hnth; [|inversion Hstep; subst; discriminate].
  destruct (vstep (st_freed st) (st_mem st) v vo) as [[v' nw] out0] eqn:Hv.
  inversion Hstep; subst st' out0; clear Hstep.
  destruct (disturbed_vstep _ _ _ _ _ _ _ _ Hd Hv Hres) as (E1 & E2 & E3). subst v' nw.
  rewrite E3. cbn [opt_list apply_calls fold_left]. rewrite app_nil_r, (set_nth_same _ _ _ _ Hnth).
  split; [destruct st; reflexivity | reflexivity].
Qed.

(* when the transport fails: if the plain call would transfer (issue a controller call), the disturbed
   one reports the transport's exception; otherwise it is the plain call *)
Theorem fault_outcome : forall fr m v,
  dead fr v = false ->
  (forall n, let plain := vstep fr m v (Read n) in
     vstep fr m v (FaultRead n) =
       match o_calls (snd plain) with
       | [] => plain
       | _ :: _ => (v, None, mkOut (Failed 2) (o_warns (snd plain)) [])
       end)
  /\ (forall bs, let plain := vstep fr m v (Write bs) in
     vstep fr m v (FaultWrite bs) =
       match o_calls (snd plain) with
       | [] => plain
       | _ :: _ => (v, None, mkOut (Failed 2) (o_warns (snd plain)) [])
       end).
Proof.
  intros fr m v Hd. split; intros x; cbn [vstep]; rewrite Hd; unfold faulted.
  - destruct (read m v x) as [v1 r]. cbn [fst snd]. destruct (o_calls r); reflexivity.
  - destruct (write v x) as [v1 r]. cbn [fst snd]. destruct (o_calls r); reflexivity.
Qed.

Lemma transfer_explicit : forall pos req n,
  (0 <= pos -> transfer pos req n = Z.max 0 (Z.min req (n - pos)))
  /\ (pos < 0 -> transfer pos req n = 0)
  /\ (0 <= req -> 0 <= transfer pos req n <= req)
  /\ (warned pos req n = true <-> transfer pos req n < req).
Proof.
  intros pos req n. unfold warned. split; [|split; [|split; [|apply Z.ltb_lt]]];
    unfold transfer; intros; zcases; lia.
Qed.

Lemma mem_read_length : forall m a k, 0 <= k -> zlen (mem_read m a k) = k.
Proof. intros m a k Hk. unfold mem_read, zlen. rewrite map_length, seq_length. lia. Qed.

(* the sentence of the property about truncation, for read(n) with an explicit count n >= 0 *)
Theorem read_truncation : forall m v n v' out,
  0 <= n -> read m v n = (v', out) ->
  exists k, o_res out = Ok (VBytes (mem_read m (address v) k)) /\ zlen (mem_read m (address v) k) = k
    /\ 0 <= k <= n
    /\ v_off v' = v_off v + k
    /\ (0 <= v_off v -> k = Z.max 0 (Z.min n (vlen v - v_off v)))
    /\ (v_off v < 0 -> k = 0)
    /\ (k < n <-> 0 < o_warns out).
Proof.
  intros m v n v' out Hn H. destruct (read_transfers _ _ _ _ _ H) as (Hres & Hv' & Hw & _). cbv zeta in *.
  assert (Hreq : read_req v n = n) by (unfold read_req; destruct (Z.ltb_spec n 0); [lia|reflexivity]).
  rewrite Hreq in *.
  destruct (transfer_explicit (v_off v) n (vlen v)) as (H1 & H2 & H3 & H4).
  exists (transfer (v_off v) n (vlen v)).
  split; [exact Hres|]. split; [apply mem_read_length; lia|]. split; [lia|].
  split; [subst v'; reflexivity|]. split; [exact H1|]. split; [exact H2|].
  rewrite <- H4, <- Hw. symmetry. apply iff_sym, Z.ltb_lt.
Qed.

(* read() / read(negative): everything from the cursor to the end, no truncation to speak of *)
Theorem read_default : forall m v n v' out,
  n < 0 -> read m v n = (v', out) ->
  let k := if (0 <=? v_off v) && (v_off v <=? vlen v) then vlen v - v_off v else 0 in
  o_res out = Ok (VBytes (mem_read m (address v) k)) /\ v_off v' = v_off v + k
  /\ (0 <= v_off v -> o_warns out <= 0).
Proof.
  intros m v n v' out Hn H. destruct (read_transfers _ _ _ _ _ H) as (Hres & Hv' & Hw & _). cbv zeta in *.
  assert (Hreq : read_req v n = vlen v - v_off v) by (unfold read_req; destruct (Z.ltb_spec n 0); [reflexivity|lia]).
  rewrite Hreq in *.
  assert (Hk : transfer (v_off v) (vlen v - v_off v) (vlen v)
               = if (0 <=? v_off v) && (v_off v <=? vlen v) then vlen v - v_off v else 0).
  { unfold transfer. zcases; cbn [andb]; lia. }
  assert (Hnw : 0 <= v_off v -> warned (v_off v) (vlen v - v_off v) (vlen v) = false).
  { intros Hp. unfold warned, transfer. zcases; lia. }
  rewrite Hk in *. split; [exact Hres|]. split; [subst v'; reflexivity|].
  intros Hp. rewrite (Hnw Hp) in Hw. apply Z.ltb_ge in Hw. exact Hw.
Qed.

Theorem write_truncation : forall v bs v' out,
  write v bs = (v', out) ->
  exists k, o_res out = Ok (VInt k)
    /\ 0 <= k <= zlen bs
    /\ v_off v' = v_off v + k
    /\ o_calls out = (if 0 <? k then [CWrite (address v) (firstn (Z.to_nat k) bs)] else [])
    /\ (0 <= v_off v -> k = Z.max 0 (Z.min (zlen bs) (vlen v - v_off v)))
    /\ (v_off v < 0 -> k = 0)
    /\ (k < zlen bs <-> 0 < o_warns out).
Proof.
  intros v bs v' out H. destruct (write_transfers _ _ _ _ H) as (Hres & Hv' & Hw & Hc). cbv zeta in *.
  pose proof (zlen_nonneg _ bs) as Hn.
  destruct (transfer_explicit (v_off v) (zlen bs) (vlen v)) as (H1 & H2 & H3 & H4).
  exists (transfer (v_off v) (zlen bs) (vlen v)).
  split; [exact Hres|]. split; [lia|]. split; [subst v'; reflexivity|]. split; [exact Hc|].
  split; [exact H1|]. split; [exact H2|].
  rewrite <- H4, <- Hw. symmetry. apply iff_sym, Z.ltb_lt.
Qed.

(* ------------------------------------------------------------------------------------------ *)
(* the range of a slice                                                                         *)
(* ------------------------------------------------------------------------------------------ *)
Theorem slice_range : forall v a b,
  v_start v <= v_end v ->
  let w := slice_view v a b in
  v_start v <= v_start w /\ v_start w <= v_end w /\ v_end w <= v_end v
  /\ v_off w = 0 /\ v_closed w = false
  /\ (forall x, v_start w <= x < v_end w <-> in_slice (vlen v) a b (x - v_start v)).
Proof.
  intros v a b Hwf. cbv zeta.
  destruct (slice_view_nested v a b Hwf) as (H1 & H2 & H3). cbv zeta in *.
  split; [exact H1|]. split; [exact H2|]. split; [exact H3|]. split; [reflexivity|]. split; [reflexivity|].
  intros x. unfold in_slice, named_start, named_stop, vlen, gen_len, slice_view, new_view, gen_init_end, slice_start, slice_stop, gen_slice_start, gen_slice_stop, gen_slice_start_none, gen_slice_stop_none.
  cbn [v_start v_end].
  destruct a as [p|]; destruct b as [q|]; zcases; lia.
Qed.

(* the same bounds as Python's slice(a, b).indices(len) *)
Lemma slice_view_clip : forall v a b,
  v_start v <= v_end v ->
  let w := slice_view v a b in
  v_start w = v_start v + clip_start (vlen v) a
  /\ v_end w = v_start v + Z.max (clip_start (vlen v) a) (clip_stop (vlen v) b).
Proof.
  intros v a b Hwf. unfold slice_view, new_view, gen_init_end, slice_start, slice_stop, gen_slice_start, gen_slice_stop, gen_slice_start_none, gen_slice_stop_none, clip_start, clip_stop, clip, vlen, gen_len.
  cbn [v_start v_end].
  destruct a as [p|]; destruct b as [q|]; zcases; lia.
Qed.

(* the warning counters are never negative *)
Lemma o_warns_nonneg_read : forall m v n, 0 <= o_warns (snd (read m v n)).
Proof.
  intros m v n. unfold read, read_plan.
  assert (Hw : 0 <= fst (gen_read_plan (v_start v) (v_end v) (v_off v) n))
    by (unfold gen_read_plan; cbv zeta; zcases; lia).
  destruct (gen_read_plan (v_start v) (v_end v) (v_off v) n) as [w k]. cbn [fst] in Hw.
  destruct (k <=? 0); cbn [snd o_warns]; exact Hw.
Qed.

Lemma o_warns_nonneg_write : forall v bs, 0 <= o_warns (snd (write v bs)).
Proof.
  intros v bs. unfold write, write_plan.
  assert (Hw : 0 <= fst (gen_write_plan (v_start v) (v_end v) (v_off v) (zlen bs)))
    by (unfold gen_write_plan; cbv zeta; zcases; lia).
  destruct (gen_write_plan (v_start v) (v_end v) (v_off v) (zlen bs)) as [w k]. cbn [fst] in Hw.
  destruct (zlen (firstn (Z.to_nat k) bs) =? 0); cbn [snd o_warns]; exact Hw.
Qed.

(* ------------------------------------------------------------------------------------------ *)
(* the code as found (before the repairs): concrete escapes                                      *)
(* ------------------------------------------------------------------------------------------ *)
Definition hist_write_escape : list op := [OView 0 (Seek 6 0); OView 0 (Write [1; 2; 3; 4; 5; 6; 7; 8])].
Definition hist_negative_seek : list op := [OView 0 (Seek (-4) 0); OView 0 (Read 4)].

(* MemoryIO of 4 bytes at 100: seek(6); write(8 bytes) -- bytes[:-2] leaves 6 bytes, written at 106 *)
Lemma write_escapes_orig : forall m,
  exists st o out a bs,
    In (st, o, out) (trace_orig (init 100 104 m) hist_write_escape)
    /\ In (CWrite a bs) (o_calls out) /\ 104 < a + zlen bs.
Proof.
  intros m. eexists _, _, _, _, _. split; [|split].
  - right. left. reflexivity.
  - left. reflexivity.
  - vm_compute. reflexivity.
Qed.

Lemma write_escapes_orig_not_confined : forall m,
  ~ Forall confined_event (trace_orig (init 100 104 m) hist_write_escape).
Proof.
  intros m H. inversion H as [|e1 l1 _ H1]; subst. inversion H1 as [|e2 l2 H2 _]; subst.
  cbn in H2. destruct (H2 _ (or_introl eq_refl)) as (v & Hv & Hin).
  injection Hv as Hv. subst v. vm_compute in Hin. destruct Hin as (_ & Hbad & _). apply Hbad. reflexivity.
Qed.

(* the same history on the code as it is now stays inside (instance of history_confined) *)
Lemma write_escape_repaired : forall m,
  map (fun e => o_calls (snd e)) (trace (init 100 104 m) hist_write_escape) = [[]; []].
Proof. intros m. reflexivity. Qed.

(* MemoryIO of 4 bytes at 100: seek(-4); read(4) reads [96, 100) *)
Lemma negative_seek_escapes_orig : forall m,
  exists st o out a n,
    In (st, o, out) (trace_orig (init 100 104 m) hist_negative_seek)
    /\ In (CRead a n) (o_calls out) /\ a < 100 /\ 0 < n.
Proof.
  intros m. eexists _, _, _, _, _. split; [|split].
  - right. left. reflexivity.
  - left. reflexivity.
  - vm_compute. split; reflexivity.
Qed.

Lemma negative_seek_repaired : forall m,
  map (fun e => o_calls (snd e)) (trace (init 100 104 m) hist_negative_seek) = [[]; []].
Proof. intros m. reflexivity. Qed.

(* MemoryIO of 10 bytes at 10: close(); then [2:6] of the closed view is a live view that reads *)
Lemma slice_after_close_orig : forall m,
  let st := run_with step_orig (init 10 20 m) [OView 0 Close] in
  (exists v, nth_error (st_views st) 0 = Some v /\ v_closed v = true)
  /\ let st' := fst (step_orig st (OView 0 (Slice (Some 2) (Some 6) None))) in
     o_res (snd (step_orig st (OView 0 (Slice (Some 2) (Some 6) None)))) = Ok (VView 12 16)
     /\ (exists w, nth_error (st_views st') 1 = Some w /\ dead (st_freed st') w = false)
     /\ o_calls (snd (step_orig st' (OView 1 (Read 4)))) = [CRead 12 4].
Proof.
  intros m. cbv zeta. split; [eexists; split; reflexivity|].
  split; [reflexivity|]. split; [eexists; split; reflexivity|reflexivity].
Qed.

(* on the code as it is now the slice fails *)
Lemma slice_after_close_repaired : forall m,
  snd (step (run (init 10 20 m) [OView 0 Close]) (OView 0 (Slice (Some 2) (Some 6) None))) = err 0.
Proof. intros m. reflexivity. Qed.

(* ------------------------------------------------------------------------------------------ *)
(* the hypotheses are satisfiable, and histories do transfer                                     *)
(* ------------------------------------------------------------------------------------------ *)
Definition ex_history : list op :=
  [OView 0 (Write [1; 2; 3]); OView 0 (Slice (Some 1) (Some (-6)) None); OView 1 (Read (-1));
   OView 1 (Slice (Some (-1)) None None); OView 2 (Write [9; 9]); OView 0 (Seek 0 0); OView 0 (Read 4)].

Lemma ex_history_runs :
  views_inside (init 100 110 (fun _ => 0))
  /\ map (fun e => (o_res (snd e), o_calls (snd e))) (trace (init 100 110 (fun _ => 0)) ex_history)
     = [(Ok (VInt 3), [CWrite 100 [1; 2; 3]]); (Ok (VView 101 104), []);
        (Ok (VBytes [2; 3; 0]), [CRead 101 3]); (Ok (VView 103 104), []);
        (Ok (VInt 1), [CWrite 103 [9]]); (Ok VNone, []); (Ok (VBytes [1; 2; 3; 9]), [CRead 100 4])].
Proof. split; [apply init_inside | reflexivity]. Qed.

(* ------------------------------------------------------------------------------------------ *)
(* nothing leaves the allocation                                                                *)
(* ------------------------------------------------------------------------------------------ *)
Lemma trace_root : forall ops st r,
  nth_error (st_views st) 0 = Some r ->
  Forall (fun ev => exists r', nth_error (st_views (fst (fst ev))) 0 = Some r'
                               /\ v_start r' = v_start r /\ v_end r' = v_end r) (trace st ops).
Proof.
  induction ops as [|o rest IH]; intros st r Hr.
  - constructor.
  - rewrite trace_cons. destruct (step st o) as [st' out] eqn:Hstep. cbn [fst snd].
    constructor.
    + exists r. cbn [fst]. repeat split. exact Hr.
    + destruct (step_ranges_fixed _ _ _ _ _ _ Hstep Hr) as (r' & Hr' & Hs & He & _).
      specialize (IH st' r' Hr'). rewrite Hs, He in IH. exact IH.
Qed.

Lemma call_within_mono : forall lo hi v c,
  inside lo hi v -> call_within (v_start v) (v_end v) c -> call_within lo hi c.
Proof. intros lo hi v c Hin Hc. unfold inside in Hin. destruct c; cbn in *; try lia. Qed.

Theorem allocation_confined : forall s e m ops st o out c,
  In (st, o, out) (trace (init s e m) ops) -> In c (o_calls out) ->
  match c with
  | CFree a => a = s
  | _ => call_within s (Z.max s e) c
  end.
Proof.
  intros s e m ops st o out c Hev Hc.
  destruct (history_confined ops (init s e m) (init_inside s e m)) as (Hall & _).
  rewrite Forall_forall in Hall. destruct (Hall _ Hev) as (Hin & Hconf & _). cbn [fst] in Hin.
  pose proof (trace_root ops (init s e m) (new_view s e) eq_refl) as Hroot.
  rewrite Forall_forall in Hroot. destruct (Hroot _ Hev) as (r' & Hr' & Hrs & Hre). cbn [fst] in Hr'.
  cbn [new_view v_start v_end] in Hrs, Hre.
  unfold views_inside in Hin.
  destruct (st_views st) as [|root t] eqn:Hviews; [discriminate|].
  cbn [nth_error] in Hr'. injection Hr' as Hr'. subst r'.
  destruct o as [i vo| |]; cbn in Hconf.
  3:{ rewrite Hconf in Hc. destruct Hc. }
  - destruct (Hconf c Hc) as (v & Hv & Hcw). rewrite Hviews in Hv.
    assert (Hvin : inside (v_start root) (v_end root) v) by (eapply nth_error_Forall; eassumption).
    rewrite Hrs, Hre in Hvin.
    pose proof (call_within_mono _ _ _ _ Hvin Hcw) as Hw.
    destruct c; [exact Hw | exact Hw | cbn in Hcw; contradiction].
  - destruct (Hconf c Hc) as (root' & Hr0 & Hceq). rewrite Hviews in Hr0. cbn in Hr0.
    injection Hr0 as Hr0. subst root' c. exact Hrs.
Qed.

(* ------------------------------------------------------------------------------------------ *)
(* memory outside the allocation is never changed                                               *)
(* ------------------------------------------------------------------------------------------ *)
Definition write_within (lo hi : Z) (c : call) : Prop :=
  match c with CWrite a bs => lo <= a /\ a + zlen bs <= hi | _ => True end.

Lemma apply_calls_outside : forall cs m lo hi x,
  (forall c, In c cs -> write_within lo hi c) -> ~ (lo <= x < hi) -> apply_calls m cs x = m x.
Proof.
  induction cs as [|c cs IH]; intros m lo hi x Hall Hx; [reflexivity|].
  unfold apply_calls. cbn [fold_left]. fold (apply_calls (apply_call m c) cs).
  rewrite (IH _ lo hi x); [|intros c' Hc'; apply Hall; right; exact Hc'|exact Hx].
  specialize (Hall c (or_introl eq_refl)).
  destruct c as [a n|a bs|a]; cbn [apply_call]; try reflexivity.
  unfold mem_write. cbn [write_within] in Hall.
  destruct (Z.leb_spec a x); destruct (Z.ltb_spec x (a + zlen bs)); cbn [andb]; try reflexivity. lia.
Qed.

Lemma step_mem : forall st o,
  st_mem (fst (step st o)) = apply_calls (st_mem st) (o_calls (snd (step st o))).
Proof.
  intros st o. unfold step, step_with. destruct o as [i vo| |].
  - destruct (nth_error (st_views st) i) as [v|]; [|reflexivity].
    destruct (vstep (st_freed st) (st_mem st) v vo) as [[v' nw] out]. reflexivity.
  - destruct (st_views st); [reflexivity|]. destruct (st_freed st); reflexivity.
  - destruct (st_views st); [reflexivity|]. destruct (st_freed st); reflexivity.
Qed.

Lemma run_mem_outside : forall ops st lo hi x,
  (forall ev c, In ev (trace st ops) -> In c (o_calls (snd ev)) -> write_within lo hi c) ->
  ~ (lo <= x < hi) -> st_mem (run st ops) x = st_mem st x.
Proof.
  induction ops as [|o rest IH]; intros st lo hi x Hall Hx; [reflexivity|].
  rewrite run_cons. rewrite trace_cons in Hall.
  rewrite (IH _ lo hi x); [|intros ev c Hev Hc; apply (Hall ev c); [right; exact Hev|exact Hc]|exact Hx].
  rewrite step_mem. apply (apply_calls_outside _ _ lo hi); [|exact Hx].
  intros c Hc. apply (Hall (st, o, snd (step st o)) c); [left; reflexivity|exact Hc].
Qed.

Theorem memory_outside_untouched : forall s e m ops x,
  ~ (s <= x < Z.max s e) -> st_mem (run (init s e m) ops) x = m x.
Proof.
  intros s e m ops x Hx.
  rewrite (run_mem_outside ops (init s e m) s (Z.max s e) x); [reflexivity| |exact Hx].
  intros [[st o] out] c Hev Hc. cbn [snd] in Hc.
  pose proof (allocation_confined s e m ops st o out c Hev Hc) as Hcw.
  destruct c as [a n|a bs|a]; cbn [write_within]; [exact I| |exact I].
  cbn [call_within] in Hcw. lia.
Qed.

(* ------------------------------------------------------------------------------------------ *)
(* the entry point: MachineController.sdram_alloc_as_filelike(size) on a block at `start`        *)
(* ------------------------------------------------------------------------------------------ *)
Theorem filelike_confined : forall start size m ops st o out c,
  0 <= size ->
  In (st, o, out) (trace (alloc_as_filelike start size m) ops) -> In c (o_calls out) ->
  match c with
  | CFree a => a = start
  | _ => call_within start (start + size) c
  end.
Proof.
  intros start size m ops st o out c Hsize Hev Hc. unfold alloc_as_filelike, gen_filelike_end in Hev.
  pose proof (allocation_confined start (start + size) m ops st o out c Hev Hc) as H.
  replace (Z.max start (start + size)) with (start + size) in H by lia. exact H.
Qed.

Lemma filelike_len : forall start size m,
  0 <= size ->
  exists v, st_views (alloc_as_filelike start size m) = [v]
            /\ v_start v = start /\ vlen v = size /\ v_off v = 0 /\ dead false v = false.
Proof.
  intros start size m Hsize. eexists. split; [reflexivity|].
  unfold vlen, gen_len, new_view, gen_init_end, gen_filelike_end. cbn. repeat split; lia.
Qed.

(* ------------------------------------------------------------------------------------------ *)
(* what still answers on a dead view (the clause "every operation fails" is false for these)    *)
(* ------------------------------------------------------------------------------------------ *)
Lemma unguarded_answer_when_dead : forall st i v,
  nth_error (st_views st) i = Some v -> dead (st_freed st) v = true ->
  step st (OView i Len) = (st, ok (VInt (vlen v)))
  /\ step st (OView i Enter) = (st, ok VNone)
  /\ (v_closed v = true ->
        step st (OView i Close) = (st, ok VNone) /\ step st (OView i Exit) = (st, ok VNone)).
Proof.
  intros st i v Hnth Hd.
  assert (Hsame : forall r, (mkState (set_nth i v (st_views st) ++ opt_list None) (st_freed st)
                                     (apply_calls (st_mem st) (o_calls (ok r))), ok r) = (st, ok r)).
  { intros r. cbn [opt_list o_calls ok apply_calls fold_left].
    rewrite app_nil_r, (set_nth_same _ _ _ _ Hnth). destruct st; reflexivity. }
  unfold step, step_with. rewrite Hnth. cbn [vstep]. unfold close_step.
  split; [apply Hsame|]. split; [apply Hsame|].
  intros Hc. rewrite Hc. split; apply Hsame.
Qed.

(* the hypotheses are met: after close() of a fresh MemoryIO of 10 bytes, len() is 10 and close() is None *)
Lemma unguarded_answer_example : forall m,
  let st := run (init 100 110 m) [OView 0 Close] in
  (exists v, nth_error (st_views st) 0 = Some v /\ dead (st_freed st) v = true /\ v_closed v = true)
  /\ snd (step st (OView 0 Len)) = ok (VInt 10) /\ snd (step st (OView 0 Close)) = ok VNone
  /\ snd (step st (OView 0 (Read 1))) = err 0.
Proof. intros m. cbv zeta. split; [eexists; repeat split|]. repeat split. Qed.
