(* C20, the other entry points: what must hold of the controllers of a process, said with the outcome of a boot
   in a fresh process ([boot_alone]) and this call's values ([described_fields]) only.  Definitions only. *)
From Coq Require Import ZArith List Bool String.
Require Import Rig.Generated.GenBoot Rig.Model.Base Rig.Model.Boot Rig.Model.BootCtrl Rig.Spec.Boot.
Import ListNotations.
Open Scope Z_scope.

(* representation invariant of the dictionaries an operation passes *)
Definition op_ok (o : op) : Prop :=
  match o with
  | OpCtrlBoot _ _ _ c => opt_dict_ok (c_overrides c) /\ dict_ok (c_kwargs c)
  | _ => True
  end.

(* The controllers after a sequence of operations: creating a controller appends it; a boot that does not go
   through a controller changes none; a boot through controller k that returns makes k's structs the struct
   file of that call with exactly that call's values, and changes no other controller; a boot that raises
   changes none.  Width and height do not occur. *)
Fixpoint spec_ctrls (ops : list op) (acc : list ctrl) : list ctrl :=
  match ops with
  | [] => acc
  | OpNew h p s :: r => spec_ctrls r (acc ++ [new_ctrl h p s])
  | OpBoot _ :: r => spec_ctrls r acc
  | OpCtrlBoot k _ _ c :: r =>
      match nth_error acc k with
      | None => spec_ctrls r acc
      | Some ct =>
          match o_result (boot_alone (ctrl_call ct c)) with
          | Ok _ => spec_ctrls r (set_nth k (mkctrl (k_host ct) (k_boot_port ct)
                                                    (mksdef (s_size (c_sv c)) (described_fields (ctrl_call ct c)))) acc)
          | _ => spec_ctrls r acc
          end
      end
  end.

Definition boots_through (k : nat) (o : op) : Prop :=
  match o with OpCtrlBoot j _ _ _ => j = k | _ => False end.

Definition state_after (ops : list op) : pstate := fst (run_ops boot_step initial_pstate ops).
