(* Proofs about the executable model of send_scp_burst (Model/SCP.v) against Spec/SCP.v.
   Part 1: a small-step relation [astep] (one socket operation / one callback at a time) that the big-step
   function [run] refines.  Invariants are proved once per small step; the theorems of Props/C06.v follow. *)
From Coq Require Import ZArith List Bool Lia Arith.
Require Import Rig.Generated.GenSCP Rig.Model.Base Rig.Model.SCP Rig.Spec.SCP.
Import ListNotations.
Open Scope Z_scope.

(* ------------------------------------------------------------------------------------------------ *)
(* Small steps                                                                                        *)
(* ------------------------------------------------------------------------------------------------ *)

Record mstate := MS { m_tr : list output; m_k : conn; m_b : bstate }.

Definition set_buf (k : conn) (buf : list dgram) : conn :=
  {| k_seq := k_seq k; k_ntx := k_ntx k; k_now := k_now k; k_buf := buf |}.
Definition bump_ntx (k : conn) : conn :=
  {| k_seq := k_seq k; k_ntx := k_ntx k + 1; k_now := k_now k; k_buf := k_buf k |}.
Definition new_entry (cf : config) (c : cmd) (s now : Z) : entry :=
  {| e_seq := s; e_cmd := c_id c; e_tries := 1; e_timeout := cf_timeout cf + c_extra c;
     e_deadline := now + (cf_timeout cf + c_extra c) |}.
Definition bump (e : entry) (now : Z) : entry :=
  {| e_seq := e_seq e; e_cmd := e_cmd e; e_tries := e_tries e + 1; e_timeout := e_timeout e;
     e_deadline := now + e_timeout e |}.
Definition BS (q : list cmd) (qd : bool) (out : list entry) (cbs : list (Z * dgram)) : bstate :=
  {| b_queue := q; b_queued := qd; b_out := out; b_cbs := cbs |}.

Inductive astep (cf : config) : mstate -> mstate -> Prop :=
| A_send : forall tr k q c out cbs s s',
    Z.of_nat (length out) < cf_window cf ->
    free_seq (S (length out)) (k_seq k) out = Some (s, s') ->
    astep cf (MS tr k (BS (c :: q) true out cbs))
             (MS (tr ++ [OSend (k_ntx k) (c_id c) s (k_now k + dur (cf_iter cf) (c_id c))])
                 {| k_seq := s'; k_ntx := k_ntx k + 1; k_now := k_now k + dur (cf_iter cf) (c_id c);
                    k_buf := k_buf k |}
                 (BS q true (out ++ [new_entry cf c s (k_now k + dur (cf_iter cf) (c_id c))]) cbs))
| A_exhausted : forall tr k out cbs,
    astep cf (MS tr k (BS [] true out cbs)) (MS tr k (BS [] false out cbs))
| A_callback : forall tr k q qd out c d cbs,
    astep cf (MS tr k (BS q qd out ((c, d) :: cbs)))
             (MS (tr ++ [OCallback c d])
                 {| k_seq := k_seq k; k_ntx := k_ntx k; k_now := k_now k + dur (cf_cb cf) c; k_buf := k_buf k |}
                 (BS q qd out cbs))
| A_select : forall tr k b t,
    astep cf (MS tr k b) (MS (tr ++ [OSelect t]) k b)
| A_event : forall tr k b data t,
    astep cf (MS tr k b)
             (MS tr {| k_seq := k_seq k; k_ntx := k_ntx k; k_now := t; k_buf := k_buf k ++ data |} b)
| A_recv_hit : forall tr k q qd out cbs d buf e,
    k_buf k = d :: buf -> d_rc d = rc_ok -> find_entry (d_seq d) out = Some e ->
    astep cf (MS tr k (BS q qd out cbs))
             (MS (tr ++ [ORecv d]) (set_buf k buf)
                 (BS q qd (remove_entry (d_seq d) out) (cbs ++ [(e_cmd e, d)])))
| A_recv_ignored : forall tr k b d buf,
    k_buf k = d :: buf ->
    (d_rc d = rc_ok /\ find_entry (d_seq d) (b_out b) = None) \/
    (d_rc d <> rc_ok /\ is_retryable (d_rc d) = true) ->
    astep cf (MS tr k b) (MS (tr ++ [ORecv d]) (set_buf k buf) b)
| A_resend : forall tr k q qd pre e post cbs,
    e_deadline e < k_now k -> e_tries e < cf_tries cf ->
    astep cf (MS tr k (BS q qd (pre ++ e :: post) cbs))
             (MS (tr ++ [OSend (k_ntx k) (e_cmd e) (e_seq e) (k_now k)]) (bump_ntx k)
                 (BS q qd (pre ++ bump e (k_now k) :: post) cbs)).

Inductive star (cf : config) : mstate -> mstate -> Prop :=
| star_refl : forall m, star cf m m
| star_step : forall m1 m2 m3, astep cf m1 m2 -> star cf m2 m3 -> star cf m1 m3.

Lemma star_trans : forall cf m1 m2 m3, star cf m1 m2 -> star cf m2 m3 -> star cf m1 m3.
Proof.
  intros cf m1 m2 m3 H12. induction H12 as [m | a b c Hab Hbc IH]; intros H23.
  - exact H23.
  - eapply star_step; [exact Hab | apply IH; exact H23].
Qed.

Lemma star_one : forall cf m1 m2, astep cf m1 m2 -> star cf m1 m2.
Proof. intros cf m1 m2 H. eapply star_step; [exact H | apply star_refl]. Qed.

(* how a call can end, in terms of the last small-step state m and the complete trace *)
Inductive ends (cf : config) : outcome -> list output -> mstate -> Prop :=
| E_returned : forall m, running (m_b m) = false -> ends cf Returned (m_tr m) m
| E_timeout : forall m pre e post,
    b_out (m_b m) = pre ++ e :: post -> e_deadline e < k_now (m_k m) -> cf_tries cf <= e_tries e ->
    ends cf (RaisedTimeout (e_cmd e)) (m_tr m) m
| E_fatal : forall m d buf,
    k_buf (m_k m) = d :: buf -> d_rc d <> rc_ok -> is_retryable (d_rc d) = false ->
    ends cf (fatal_outcome (d_rc d) (option_map e_cmd (find_entry (d_seq d) (b_out (m_b m)))))
         (m_tr m ++ [ORecv d]) m
| E_need : forall m, ends cf NeedEvent (m_tr m) m
| E_diverge : forall m, pre cf (m_k m) (m_b m) = None -> ends cf SeqSearchDiverges (m_tr m) m.

(* ------------------------------------------------------------------------------------------------ *)
(* The phases of [run] as sequences of small steps                                                    *)
(* ------------------------------------------------------------------------------------------------ *)

Lemma app_cons_assoc : forall {A} (l : list A) a l', (l ++ [a]) ++ l' = l ++ a :: l'.
Proof. intros A l a l'. rewrite <- app_assoc. reflexivity. Qed.

Lemma star_cast : forall cf m tr tr' k b,
  star cf m (MS tr k b) -> tr = tr' -> star cf m (MS tr' k b).
Proof. intros cf m tr tr' k b H E. subst tr'. exact H. Qed.

Lemma fill_refines : forall cf q qd k out f cbs tr0,
  fill cf q qd k out = Some f ->
  star cf (MS tr0 k (BS q qd out cbs))
          (MS (tr0 ++ f_outputs f) (f_conn f) (BS (f_queue f) (f_queued f) (f_out f) cbs)).
Proof.
  intros cf q. induction q as [|c q IH]; intros qd k out f cbs tr0 Hf; cbn [fill] in Hf.
  - destruct ((Z.of_nat (length out) <? cf_window cf) && qd) eqn:Hc.
    + inversion Hf; subst f; clear Hf. cbn [f_outputs f_conn f_queue f_queued f_out].
      rewrite app_nil_r. apply andb_prop in Hc. destruct Hc as [_ Hq]. subst qd.
      apply star_one. apply A_exhausted.
    + inversion Hf; subst f; clear Hf. cbn [f_outputs f_conn f_queue f_queued f_out].
      rewrite app_nil_r. apply star_refl.
  - destruct ((Z.of_nat (length out) <? cf_window cf) && qd) eqn:Hc.
    + apply andb_prop in Hc. destruct Hc as [Hw Hq]. subst qd. apply Z.ltb_lt in Hw.
      destruct (free_seq (S (length out)) (k_seq k) out) as [[s s']|] eqn:Hs; [|discriminate Hf].
      match type of Hf with
      | match fill cf q true ?k' ?out' with _ => _ end = _ =>
          destruct (fill cf q true k' out') as [r|] eqn:Hr; [|discriminate Hf]
      end.
      inversion Hf; subst f; clear Hf. cbn [f_outputs f_conn f_queue f_queued f_out].
      eapply star_step.
      * apply A_send; [exact Hw | exact Hs].
      * eapply star_cast; [apply (IH _ _ _ _ cbs _ Hr) | apply app_cons_assoc].
    + inversion Hf; subst f; clear Hf. cbn [f_outputs f_conn f_queue f_queued f_out].
      rewrite app_nil_r. apply star_refl.
Qed.

Lemma callbacks_refine : forall cf cbs tr0 k q qd out,
  star cf (MS tr0 k (BS q qd out cbs))
          (MS (tr0 ++ callback_outputs cbs)
              {| k_seq := k_seq k; k_ntx := k_ntx k; k_now := k_now k + callbacks_time cf cbs; k_buf := k_buf k |}
              (BS q qd out [])).
Proof.
  intros cf cbs. induction cbs as [|[c d] cbs IH]; intros tr0 k q qd out.
  - cbn [callback_outputs map callbacks_time]. rewrite app_nil_r, Z.add_0_r. destruct k; apply star_refl.
  - cbn [callback_outputs map fst snd callbacks_time]. eapply star_step; [apply A_callback|].
    eapply star_cast.
    + specialize (IH (tr0 ++ [OCallback c d])
                     {| k_seq := k_seq k; k_ntx := k_ntx k; k_now := k_now k + dur (cf_cb cf) c; k_buf := k_buf k |}
                     q qd out).
      cbn [k_seq k_ntx k_now k_buf] in IH. rewrite <- Z.add_assoc in IH. exact IH.
    + apply app_cons_assoc.
Qed.

Lemma set_buf_buf : forall k buf, k_buf (set_buf k buf) = buf.
Proof. reflexivity. Qed.

(* the receive loop: either it drains the buffer, or it stops in front of a fatal datagram *)
Lemma recv_refines : forall cf buf k out cbs q qd tr0,
  k_buf k = buf ->
  let r := recv_loop buf out cbs in
  (r_fatal r = None ->
     star cf (MS tr0 k (BS q qd out cbs))
             (MS (tr0 ++ r_outputs r) (set_buf k []) (BS q qd (r_out r) (r_cbs r))))
  /\ (forall rc c, r_fatal r = Some (rc, c) ->
        exists tr1 out1 cbs1 d buf',
          star cf (MS tr0 k (BS q qd out cbs)) (MS tr1 (set_buf k (d :: buf')) (BS q qd out1 cbs1))
          /\ tr0 ++ r_outputs r = tr1 ++ [ORecv d]
          /\ d_rc d <> rc_ok /\ is_retryable (d_rc d) = false
          /\ rc = d_rc d /\ c = option_map e_cmd (find_entry (d_seq d) out1)).
Proof.
  intros cf buf. induction buf as [|d buf IH]; intros k out cbs q qd tr0 Hk; cbn zeta.
  - cbn [recv_loop r_fatal r_outputs r_out r_cbs]. split.
    + intros _. rewrite app_nil_r.
      replace (set_buf k []) with k; [apply star_refl|].
      destruct k as [a b c e]; cbn in Hk; subst e; reflexivity.
    + intros rc c H. discriminate H.
  - cbn [recv_loop]. destruct (d_rc d =? rc_ok) eqn:Hok.
    + apply Z.eqb_eq in Hok. destruct (find_entry (d_seq d) out) as [e|] eqn:Hfe.
      * specialize (IH (set_buf k buf) (remove_entry (d_seq d) out) (cbs ++ [(e_cmd e, d)]) q qd
                       (tr0 ++ [ORecv d]) eq_refl).
        cbn zeta in IH. destruct IH as [IH1 IH2].
        cbn [r_fatal r_outputs r_out r_cbs]. split.
        -- intros Hn. eapply star_step.
           ++ apply (A_recv_hit cf tr0 k q qd out cbs d buf e Hk Hok Hfe).
           ++ eapply star_cast; [apply IH1; exact Hn | apply app_cons_assoc].
        -- intros rc c Hf. destruct (IH2 rc c Hf) as (tr1 & out1 & cbs1 & d1 & buf' & Hst & Htr & H1 & H2 & H3 & H4).
           exists tr1, out1, cbs1, d1, buf'. split; [|split; [|repeat split; assumption]].
           ++ eapply star_step; [apply (A_recv_hit cf tr0 k q qd out cbs d buf e Hk Hok Hfe)|exact Hst].
           ++ rewrite <- Htr. symmetry. apply app_cons_assoc.
      * specialize (IH (set_buf k buf) out cbs q qd (tr0 ++ [ORecv d]) eq_refl).
        cbn zeta in IH. destruct IH as [IH1 IH2].
        cbn [r_fatal r_outputs r_out r_cbs].
        assert (Hstep : astep cf (MS tr0 k (BS q qd out cbs))
                              (MS (tr0 ++ [ORecv d]) (set_buf k buf) (BS q qd out cbs))).
        { apply A_recv_ignored; [exact Hk|]. left. split; [exact Hok|exact Hfe]. }
        split.
        -- intros Hn. eapply star_step; [exact Hstep|].
           eapply star_cast; [apply IH1; exact Hn | apply app_cons_assoc].
        -- intros rc c Hf. destruct (IH2 rc c Hf) as (tr1 & out1 & cbs1 & d1 & buf' & Hst & Htr & H1 & H2 & H3 & H4).
           exists tr1, out1, cbs1, d1, buf'. split; [|split; [|repeat split; assumption]].
           ++ eapply star_step; [exact Hstep|exact Hst].
           ++ rewrite <- Htr. symmetry. apply app_cons_assoc.
    + apply Z.eqb_neq in Hok. destruct (is_retryable (d_rc d)) eqn:Hre.
      * specialize (IH (set_buf k buf) out cbs q qd (tr0 ++ [ORecv d]) eq_refl).
        cbn zeta in IH. destruct IH as [IH1 IH2].
        cbn [r_fatal r_outputs r_out r_cbs].
        assert (Hstep : astep cf (MS tr0 k (BS q qd out cbs))
                              (MS (tr0 ++ [ORecv d]) (set_buf k buf) (BS q qd out cbs))).
        { apply A_recv_ignored; [exact Hk|]. right. split; [exact Hok|exact Hre]. }
        split.
        -- intros Hn. eapply star_step; [exact Hstep|].
           eapply star_cast; [apply IH1; exact Hn | apply app_cons_assoc].
        -- intros rc c Hf. destruct (IH2 rc c Hf) as (tr1 & out1 & cbs1 & d1 & buf' & Hst & Htr & H1 & H2 & H3 & H4).
           exists tr1, out1, cbs1, d1, buf'. split; [|split; [|repeat split; assumption]].
           ++ eapply star_step; [exact Hstep|exact Hst].
           ++ rewrite <- Htr. symmetry. apply app_cons_assoc.
      * cbn [r_fatal r_outputs r_out r_cbs]. split.
        -- intros H. discriminate H.
        -- intros rc c Hf. inversion Hf; subst rc c; clear Hf.
           exists tr0, out, cbs, d, buf. split; [|repeat split; try assumption; try reflexivity].
           replace (set_buf k (d :: buf)) with k; [apply star_refl|].
           destruct k as [a b c e]; cbn in Hk; subst e; reflexivity.
Qed.

(* the timeout scan over [todo], the entries before it ([done]) having been dealt with *)
Lemma scan_refines : forall cf todo done k q qd cbs tr0,
  let s := scan cf (k_now k) (k_ntx k) todo in
  star cf (MS tr0 k (BS q qd (done ++ todo) cbs))
          (MS (tr0 ++ s_outputs s)
              {| k_seq := k_seq k; k_ntx := s_ntx s; k_now := k_now k; k_buf := k_buf k |}
              (BS q qd (done ++ s_out s) cbs))
  /\ (forall c, s_timeout s = Some c ->
        exists pre e post, done ++ s_out s = pre ++ e :: post /\ e_cmd e = c /\
                           e_deadline e < k_now k /\ cf_tries cf <= e_tries e).
Proof.
  intros cf todo. induction todo as [|e rest IH]; intros done k q qd cbs tr0; cbn zeta.
  - cbn [scan s_outputs s_ntx s_out s_timeout]. split.
    + rewrite !app_nil_r. destruct k; apply star_refl.
    + intros c H. discriminate H.
  - cbn [scan]. destruct (e_deadline e <? k_now k) eqn:Hd.
    + apply Z.ltb_lt in Hd. destruct (cf_tries cf <=? e_tries e) eqn:Ht.
      * apply Z.leb_le in Ht. cbn [s_outputs s_ntx s_out s_timeout]. split.
        -- rewrite !app_nil_r. destruct k; apply star_refl.
        -- intros c H. inversion H; subst c. exists done, e, rest. repeat split; assumption.
      * apply Z.leb_gt in Ht. cbn [s_outputs s_ntx s_out s_timeout].
        specialize (IH (done ++ [bump e (k_now k)]) (bump_ntx k) q qd cbs
                       (tr0 ++ [OSend (k_ntx k) (e_cmd e) (e_seq e) (k_now k)])).
        cbn zeta in IH. cbn [bump_ntx k_now k_ntx k_seq k_buf] in IH. destruct IH as [IH1 IH2].
        rewrite !app_cons_assoc in IH1. rewrite !app_cons_assoc in IH2.
        split.
        -- eapply star_step.
           ++ apply (A_resend cf tr0 k q qd done e rest cbs Hd Ht).
           ++ exact IH1.
        -- exact IH2.
    + cbn [s_outputs s_ntx s_out s_timeout].
      specialize (IH (done ++ [e]) k q qd cbs tr0). cbn zeta in IH. destruct IH as [IH1 IH2].
      rewrite !app_cons_assoc in IH1. rewrite !app_cons_assoc in IH2.
      split; [exact IH1|exact IH2].
Qed.

Lemma pre_refines : forall cf k b p tr0,
  pre cf k b = Some p ->
  star cf (MS tr0 k b) (MS (tr0 ++ p_outputs p) (p_conn p) (p_state p)).
Proof.
  intros cf k [q qd out cbs] p tr0 Hp. unfold pre in Hp. cbn [b_queue b_queued b_out b_cbs] in Hp.
  destruct (fill cf q qd k out) as [f|] eqn:Hf; [|discriminate Hp].
  inversion Hp; subst p; clear Hp. cbn [p_outputs p_conn p_state].
  eapply star_trans; [apply (fill_refines cf q qd k out f cbs tr0 Hf)|].
  eapply star_trans; [apply callbacks_refine|].
  eapply star_cast; [apply star_one; apply A_select|].
  rewrite <- !app_assoc. reflexivity.
Qed.

Lemma post_refines : forall cf ev k b os res tr0,
  post cf ev k b = (os, res) ->
  match res with
  | Continue k' b' => star cf (MS tr0 k b) (MS (tr0 ++ os) k' b')
  | Stop oc k' => exists m, star cf (MS tr0 k b) m /\ ends cf oc (tr0 ++ os) m
  end.
Proof.
  intros cf ev k [q qd out cbs] os res tr0 Hp. unfold post in Hp.
  cbn [b_queue b_queued b_out b_cbs] in Hp.
  set (k1 := {| k_seq := k_seq k; k_ntx := k_ntx k; k_now := ev_time ev; k_buf := k_buf k ++ ev_data ev |}).
  assert (Hev : astep cf (MS tr0 k (BS q qd out cbs)) (MS tr0 k1 (BS q qd out cbs))) by apply A_event.
  pose proof (recv_refines cf (k_buf k ++ ev_data ev) k1 out cbs q qd tr0 eq_refl) as Hr.
  cbn zeta in Hr. destruct Hr as [Hr1 Hr2].
  remember (recv_loop (k_buf k ++ ev_data ev) out cbs) as r eqn:Er.
  destruct (r_fatal r) as [[rc c]|] eqn:Hfat.
  - inversion Hp; subst os res; clear Hp.
    destruct (Hr2 rc c eq_refl) as (tr1 & out1 & cbs1 & d & buf' & Hst & Htr & Hnok & Hnre & Hrc & Hc).
    exists (MS tr1 (set_buf k1 (d :: buf')) (BS q qd out1 cbs1)). split.
    + eapply star_step; [exact Hev|exact Hst].
    + rewrite Htr, Hrc, Hc.
      apply (E_fatal cf (MS tr1 (set_buf k1 (d :: buf')) (BS q qd out1 cbs1)) d buf');
        [reflexivity|exact Hnok|exact Hnre].
  - specialize (Hr1 eq_refl).
    pose proof (scan_refines cf (r_out r) [] (set_buf k1 []) q qd (r_cbs r) (tr0 ++ r_outputs r)) as Hs.
    cbn zeta in Hs. cbn [set_buf k1 k_now k_ntx k_seq k_buf app] in Hs. destruct Hs as [Hs1 Hs2].
    remember (scan cf (ev_time ev) (k_ntx k) (r_out r)) as s eqn:Es.
    assert (Hall : star cf (MS tr0 k (BS q qd out cbs))
                        (MS (tr0 ++ r_outputs r ++ s_outputs s)
                            {| k_seq := k_seq k; k_ntx := s_ntx s; k_now := ev_time ev; k_buf := [] |}
                            (BS q qd (s_out s) (r_cbs r)))).
    { eapply star_step; [exact Hev|]. eapply star_trans; [exact Hr1|].
      eapply star_cast; [exact Hs1|]. rewrite <- app_assoc. reflexivity. }
    destruct (s_timeout s) as [c|] eqn:Htm.
    + inversion Hp; subst os res; clear Hp.
      destruct (Hs2 c eq_refl) as (pre0 & e & post0 & Heq & Hce & Hdl & Htr).
      eexists. split; [exact Hall|]. subst c.
      apply (E_timeout cf (MS (tr0 ++ r_outputs r ++ s_outputs s)
                              {| k_seq := k_seq k; k_ntx := s_ntx s; k_now := ev_time ev; k_buf := [] |}
                              (BS q qd (s_out s) (r_cbs r))) pre0 e post0); assumption.
    + inversion Hp; subst os res; clear Hp. exact Hall.
Qed.

Lemma run_unfold : forall cf evs k b,
  run cf evs k b =
  if running b then
    match pre cf k b with
    | None => ([], SeqSearchDiverges, k, evs)
    | Some p =>
        match evs with
        | [] => (p_outputs p, NeedEvent, p_conn p, [])
        | ev :: evs' =>
            match post cf ev (p_conn p) (p_state p) with
            | (os, Stop oc k') => (p_outputs p ++ os, oc, k', evs')
            | (os, Continue k' b') =>
                match run cf evs' k' b' with
                | (tr, oc, k'', rest) => (p_outputs p ++ os ++ tr, oc, k'', rest)
                end
            end
        end
    end
  else ([], Returned, k, evs).
Proof. intros cf evs k b. destruct evs; reflexivity. Qed.

(* the big-step function is a sequence of small steps followed by one of the endings *)
Theorem run_refines : forall cf evs k b tr0 tr oc k' rest,
  run cf evs k b = (tr, oc, k', rest) ->
  exists m, star cf (MS tr0 k b) m /\ ends cf oc (tr0 ++ tr) m.
Proof.
  intros cf evs. induction evs as [|ev evs IH]; intros k b tr0 tr oc k' rest Hrun;
    rewrite run_unfold in Hrun.
  - destruct (running b) eqn:Hrn.
    + destruct (pre cf k b) as [p|] eqn:Hp.
      * inversion Hrun; subst tr oc k' rest; clear Hrun.
        exists (MS (tr0 ++ p_outputs p) (p_conn p) (p_state p)). split.
        -- apply pre_refines. exact Hp.
        -- apply (E_need cf (MS (tr0 ++ p_outputs p) (p_conn p) (p_state p))).
      * inversion Hrun; subst tr oc k' rest; clear Hrun. rewrite app_nil_r.
        exists (MS tr0 k b). split; [apply star_refl|apply (E_diverge cf (MS tr0 k b)); exact Hp].
    + inversion Hrun; subst tr oc k' rest; clear Hrun. rewrite app_nil_r.
      exists (MS tr0 k b). split; [apply star_refl|]. apply (E_returned cf (MS tr0 k b)). exact Hrn.
  - destruct (running b) eqn:Hrn.
    + destruct (pre cf k b) as [p|] eqn:Hp.
      * pose proof (pre_refines cf k b p tr0 Hp) as Hpre.
        destruct (post cf ev (p_conn p) (p_state p)) as [os res] eqn:Hpost.
        pose proof (post_refines cf ev (p_conn p) (p_state p) os res (tr0 ++ p_outputs p) Hpost) as Hpo.
        destruct res as [k1 b1|oc1 k1].
        -- destruct (run cf evs k1 b1) as [[[tr2 oc2] k2] rest2] eqn:Hrun2.
           inversion Hrun; subst tr oc k' rest; clear Hrun.
           destruct (IH k1 b1 ((tr0 ++ p_outputs p) ++ os) tr2 oc2 k2 rest2 Hrun2) as (m & Hst & Hend).
           exists m. split.
           ++ eapply star_trans; [exact Hpre|]. eapply star_trans; [exact Hpo|exact Hst].
           ++ rewrite <- !app_assoc in Hend. exact Hend.
        -- inversion Hrun; subst tr oc k' rest; clear Hrun.
           destruct Hpo as (m & Hst & Hend). exists m. split.
           ++ eapply star_trans; [exact Hpre|exact Hst].
           ++ rewrite <- app_assoc in Hend. exact Hend.
      * inversion Hrun; subst tr oc k' rest; clear Hrun. rewrite app_nil_r.
        exists (MS tr0 k b). split; [apply star_refl|apply (E_diverge cf (MS tr0 k b)); exact Hp].
    + inversion Hrun; subst tr oc k' rest; clear Hrun. rewrite app_nil_r.
      exists (MS tr0 k b). split; [apply star_refl|]. apply (E_returned cf (MS tr0 k b)). exact Hrn.
Qed.

(* ------------------------------------------------------------------------------------------------ *)
(* Part 2: counting lemmas                                                                            *)
(* ------------------------------------------------------------------------------------------------ *)

Definition ind (b : bool) : nat := if b then 1%nat else 0%nat.

Lemma occurrences_cons : forall c x l, occurrences c (x :: l) = (ind (Z.eqb x c) + occurrences c l)%nat.
Proof.
  intros c x l. unfold occurrences. cbn [count_occ].
  destruct (Z.eq_dec x c) as [E|E].
  - subst x. rewrite Z.eqb_refl. reflexivity.
  - apply Z.eqb_neq in E. rewrite E. reflexivity.
Qed.

Lemma occurrences_nil : forall c, occurrences c [] = 0%nat.
Proof. reflexivity. Qed.

Lemma occurrences_app : forall c l l', occurrences c (l ++ l') = (occurrences c l + occurrences c l')%nat.
Proof. intros c l l'. unfold occurrences. apply count_occ_app. Qed.

Lemma occurrences_In : forall c l, In c l <-> (1 <= occurrences c l)%nat.
Proof. intros c l. unfold occurrences. rewrite (count_occ_In Z.eq_dec). lia. Qed.

Lemma occurrences_notin : forall c l, ~ In c l <-> occurrences c l = 0%nat.
Proof. intros c l. unfold occurrences. apply count_occ_not_In. Qed.

Lemma n_callbacks_snoc : forall c tr o,
  n_callbacks c (tr ++ [o]) = (n_callbacks c tr + ind (is_callback_of c o))%nat.
Proof.
  intros c tr o. unfold n_callbacks. rewrite filter_app, app_length. cbn [filter].
  destruct (is_callback_of c o); reflexivity.
Qed.

Lemma n_sends_snoc : forall c tr o,
  n_sends c (tr ++ [o]) = (n_sends c tr + ind (is_send_of c o))%nat.
Proof.
  intros c tr o. unfold n_sends. rewrite filter_app, app_length. cbn [filter].
  destruct (is_send_of c o); reflexivity.
Qed.

Lemma n_sends_app : forall c tr tr', n_sends c (tr ++ tr') = (n_sends c tr + n_sends c tr')%nat.
Proof. intros c tr tr'. unfold n_sends. rewrite filter_app, app_length. reflexivity. Qed.

Lemma n_sends_zero_notin : forall c tr, n_sends c tr = 0%nat ->
  forall tx s t, ~ In (OSend tx c s t) tr.
Proof.
  intros c tr H tx s t Hin. unfold n_sends in H.
  assert (Hf : In (OSend tx c s t) (filter (is_send_of c) tr)).
  { apply filter_In. split; [exact Hin|]. cbn. apply Z.eqb_refl. }
  destruct (filter (is_send_of c) tr); [contradiction|discriminate H].
Qed.

(* entries *)
Lemma find_entry_some : forall s out e, find_entry s out = Some e -> In e out /\ e_seq e = s.
Proof.
  intros s out. induction out as [|a out IH]; intros e H; cbn [find_entry] in H.
  - discriminate H.
  - destruct (e_seq a =? s) eqn:E.
    + inversion H; subst a. apply Z.eqb_eq in E. split; [left; reflexivity|exact E].
    + destruct (IH e H) as [H1 H2]. split; [right; exact H1|exact H2].
Qed.

Lemma find_entry_none : forall s out, find_entry s out = None -> forall e, In e out -> e_seq e <> s.
Proof.
  intros s out. induction out as [|a out IH]; intros H e Hin; cbn [find_entry] in H.
  - contradiction.
  - destruct (e_seq a =? s) eqn:E; [discriminate H|]. apply Z.eqb_neq in E.
    destruct Hin as [Ha|Hin]; [subst a; exact E|apply IH; assumption].
Qed.

Lemma remove_entry_In : forall s out e, In e (remove_entry s out) -> In e out.
Proof.
  intros s out. induction out as [|a out IH]; intros e H; cbn [remove_entry] in H.
  - contradiction.
  - destruct (e_seq a =? s).
    + right; exact H.
    + destruct H as [H|H]; [left; exact H|right; apply IH; exact H].
Qed.

Lemma remove_entry_seq : forall s out e,
  NoDup (map e_seq out) -> In e (remove_entry s out) -> e_seq e <> s.
Proof.
  intros s out. induction out as [|a out IH]; intros e Hnd H; cbn [remove_entry] in H.
  - contradiction.
  - cbn [map] in Hnd. inversion Hnd as [|x l Hnotin Hnd']; subst x l.
    destruct (e_seq a =? s) eqn:E.
    + apply Z.eqb_eq in E. intros Heq. apply Hnotin. rewrite E, <- Heq. apply in_map. exact H.
    + destruct H as [H|H].
      * subst a. apply Z.eqb_neq in E. exact E.
      * apply IH; assumption.
Qed.

Lemma remove_entry_seqs_nodup : forall s out, NoDup (map e_seq out) -> NoDup (map e_seq (remove_entry s out)).
Proof.
  intros s out. induction out as [|a out IH]; intros Hnd; cbn [remove_entry].
  - exact Hnd.
  - cbn [map] in Hnd. inversion Hnd as [|x l Hnotin Hnd']; subst x l.
    destruct (e_seq a =? s).
    + exact Hnd'.
    + cbn [map]. constructor.
      * intros Hin. apply Hnotin. apply in_map_iff in Hin. destruct Hin as (e & He & Hin).
        apply in_map_iff. exists e. split; [exact He|]. apply (remove_entry_In s). exact Hin.
      * apply IH. exact Hnd'.
Qed.

Lemma remove_entry_occ : forall c s out e,
  find_entry s out = Some e ->
  occurrences c (map e_cmd out) = (ind (Z.eqb (e_cmd e) c) + occurrences c (map e_cmd (remove_entry s out)))%nat.
Proof.
  intros c s out. induction out as [|a out IH]; intros e H; cbn [find_entry remove_entry] in *.
  - discriminate H.
  - cbn [map]. rewrite occurrences_cons. destruct (e_seq a =? s).
    + inversion H; subst a. reflexivity.
    + cbn [map]. rewrite occurrences_cons. rewrite (IH e H). lia.
Qed.

Lemma remove_entry_length : forall s out, (length (remove_entry s out) <= length out)%nat.
Proof.
  intros s out. induction out as [|a out IH]; cbn [remove_entry length].
  - lia.
  - destruct (e_seq a =? s); cbn [length]; lia.
Qed.

Lemma map_bump_cmd : forall pre e post now,
  map e_cmd (pre ++ bump e now :: post) = map e_cmd (pre ++ e :: post).
Proof. intros. rewrite !map_app. reflexivity. Qed.

Lemma map_bump_seq : forall pre e post now,
  map e_seq (pre ++ bump e now :: post) = map e_seq (pre ++ e :: post).
Proof. intros. rewrite !map_app. reflexivity. Qed.

Lemma in_bump : forall pre e post now x,
  In x (pre ++ bump e now :: post) -> x = bump e now \/ (In x (pre ++ e :: post) /\ x <> e) \/ In x (pre ++ post).
Proof.
  intros pre e post now x H. apply in_app_or in H. destruct H as [H|[H|H]].
  - right. right. apply in_or_app. left. exact H.
  - left. symmetry. exact H.
  - right. right. apply in_or_app. right. exact H.
Qed.

(* injectivity on a list without duplicates under f *)
Lemma nodup_map_inj : forall {A} (f : A -> Z) l a b,
  NoDup (map f l) -> In a l -> In b l -> f a = f b -> a = b.
Proof.
  intros A f l. induction l as [|x l IH]; intros a b Hnd Ha Hb Hf.
  - contradiction.
  - cbn [map] in Hnd. inversion Hnd as [|y l' Hnotin Hnd']; subst y l'.
    destruct Ha as [Ha|Ha]; destruct Hb as [Hb|Hb].
    + subst; reflexivity.
    + subst x. exfalso. apply Hnotin. rewrite Hf. apply in_map. exact Hb.
    + subst x. exfalso. apply Hnotin. rewrite <- Hf. apply in_map. exact Ha.
    + apply IH; assumption.
Qed.

(* a list equal to something with a last element *)
Lemma snoc_split : forall {A} (tr : list A) o pre x post,
  tr ++ [o] = pre ++ x :: post ->
  (post = [] /\ pre = tr /\ x = o) \/ (exists post', post = post' ++ [o] /\ tr = pre ++ x :: post').
Proof.
  intros A tr o pre x post H.
  destruct (@exists_last _ (x :: post)) as (l' & a & Hl); [discriminate|].
  destruct post as [|y post].
  - left. change (pre ++ [x]) with (pre ++ [x]) in H. apply app_inj_tail in H. destruct H as [H1 H2].
    repeat split; congruence.
  - right. destruct (@exists_last _ (y :: post)) as (p' & b & Hp); [discriminate|].
    rewrite Hp in H. exists p'. rewrite app_comm_cons in H. rewrite app_assoc in H.
    apply app_inj_tail in H. destruct H as [H1 H2]. subst b. split; [exact Hp|exact H1].
Qed.

(* ------------------------------------------------------------------------------------------------ *)
(* Part 3: the invariant of a call (on the call's own trace)                                          *)
(* ------------------------------------------------------------------------------------------------ *)

(* where each command instance is: called back, waiting to be called back, outstanding, or queued *)
Definition cnt (c : Z) (m : mstate) : nat :=
  (n_callbacks c (m_tr m) + occurrences c (map fst (b_cbs (m_b m)))
   + occurrences c (map e_cmd (b_out (m_b m))) + occurrences c (ids (b_queue (m_b m))))%nat.

Lemma astep_cnt : forall cf m m' c, astep cf m m' -> cnt c m' = cnt c m.
Proof.
  intros cf m m' c H. inversion H; subst; unfold cnt; cbn [m_tr m_b b_cbs b_out b_queue BS].
  - (* send *) rewrite n_callbacks_snoc. cbn [is_callback_of ind]. rewrite map_app, occurrences_app.
    cbn [map new_entry e_cmd ids]. rewrite !occurrences_cons, occurrences_nil. fold (ids q). lia.
  - reflexivity.
  - (* callback *) rewrite n_callbacks_snoc. cbn [is_callback_of map fst]. rewrite occurrences_cons. lia.
  - rewrite n_callbacks_snoc. cbn [is_callback_of ind]. lia.
  - reflexivity.
  - (* recv hit *) rewrite n_callbacks_snoc. cbn [is_callback_of ind].
    rewrite map_app, occurrences_app. cbn [map fst]. rewrite occurrences_cons, occurrences_nil.
    match goal with Hf : find_entry _ _ = Some _ |- _ => rewrite (remove_entry_occ c _ _ _ Hf) end. lia.
  - rewrite n_callbacks_snoc. cbn [is_callback_of ind]. lia.
  - (* resend *) rewrite n_callbacks_snoc. cbn [is_callback_of ind]. rewrite map_bump_cmd. lia.
Qed.

Definition unanswered_entry (tr : list output) (e : entry) : Prop :=
  exists pre tx t post,
    tr = pre ++ OSend tx (e_cmd e) (e_seq e) t :: post /\ n_sends (e_cmd e) pre = 0%nat /\
    forall d, In (ORecv d) post -> d_rc d = rc_ok -> d_seq d <> e_seq e.

Record Inv (cf : config) (cmds : list cmd) (m : mstate) : Prop := {
  I_count : forall c, cnt c m = occurrences c (ids cmds);
  I_flag : b_queued (m_b m) = false -> b_queue (m_b m) = [];
  I_suffix : exists done, cmds = done ++ b_queue (m_b m);
  I_tries : forall e, In e (b_out (m_b m)) ->
              Z.of_nat (n_sends (e_cmd e) (m_tr m)) = e_tries e /\ 1 <= e_tries e <= cf_tries cf;
  I_unsent : forall c, In c (ids (b_queue (m_b m))) -> n_sends c (m_tr m) = 0%nat;
  I_bound : forall c, Z.of_nat (n_sends c (m_tr m)) <= cf_tries cf;
  I_last : forall e, In e (b_out (m_b m)) ->
             last_send (e_cmd e) (m_tr m) = Some (e_deadline e - e_timeout e) /\
             e_timeout e = cf_timeout cf + extra_of cmds (e_cmd e);
  I_spaced : retransmissions_spaced cf cmds (m_tr m);
  I_open : open_after (m_tr m) = map (fun e => (e_cmd e, e_seq e)) (b_out (m_b m));
  I_seqs : NoDup (map e_seq (b_out (m_b m)));
  I_window : window_respected (cf_window cf) (m_tr m);
  I_len : Z.of_nat (length (b_out (m_b m))) <= cf_window cf;
  I_unans : forall e, In e (b_out (m_b m)) -> unanswered_entry (m_tr m) e;
  I_nofatal : forall d, In (ORecv d) (m_tr m) -> d_rc d = rc_ok \/ is_retryable (d_rc d) = true }.

(* --- consequences of the conservation law when command identities are distinct *)
Lemma total_le_1 : forall cmds c, NoDup (ids cmds) -> (occurrences c (ids cmds) <= 1)%nat.
Proof. intros cmds c Hnd. unfold occurrences. apply (NoDup_count_occ Z.eq_dec). exact Hnd. Qed.

Lemma D_queue_out : forall cf cmds m c, NoDup (ids cmds) -> Inv cf cmds m ->
  In c (ids (b_queue (m_b m))) -> ~ In c (map e_cmd (b_out (m_b m))).
Proof.
  intros cf cmds m c Hnd HI Hq Ho. pose proof (I_count _ _ _ HI c) as Hc.
  pose proof (total_le_1 cmds c Hnd) as Ht.
  apply occurrences_In in Hq. apply occurrences_In in Ho. unfold cnt in Hc. lia.
Qed.

Lemma D_out_nodup : forall cf cmds m, NoDup (ids cmds) -> Inv cf cmds m -> NoDup (map e_cmd (b_out (m_b m))).
Proof.
  intros cf cmds m Hnd HI. apply (NoDup_count_occ Z.eq_dec). intros c.
  pose proof (I_count _ _ _ HI c) as Hc. pose proof (total_le_1 cmds c Hnd) as Ht.
  unfold cnt, occurrences in *. lia.
Qed.

Lemma D_queue_nodup : forall cf cmds m, NoDup (ids cmds) -> Inv cf cmds m -> NoDup (ids (b_queue (m_b m))).
Proof.
  intros cf cmds m Hnd HI. apply (NoDup_count_occ Z.eq_dec). intros c.
  pose proof (I_count _ _ _ HI c) as Hc. pose proof (total_le_1 cmds c Hnd) as Ht.
  unfold cnt, occurrences in *. lia.
Qed.

Lemma extra_of_suffix : forall done c q,
  NoDup (ids (done ++ c :: q)) -> extra_of (done ++ c :: q) (c_id c) = c_extra c.
Proof.
  intros done c q Hnd. unfold extra_of.
  induction done as [|x done IH].
  - cbn [app find]. rewrite Z.eqb_refl. reflexivity.
  - cbn [app find]. unfold ids in Hnd. cbn [app map] in Hnd.
    inversion Hnd as [|y l Hnotin Hnd']; subst y l.
    destruct (c_id x =? c_id c) eqn:E.
    + apply Z.eqb_eq in E. exfalso. apply Hnotin. rewrite E, map_app. apply in_or_app. right. left. reflexivity.
    + apply IH. exact Hnd'.
Qed.

(* --- how the trace predicates change when one output is appended *)
Lemma last_send_app : forall c a b,
  last_send c (a ++ b) = match last_send c b with Some t => Some t | None => last_send c a end.
Proof.
  intros c a b. induction a as [|o a IH]; cbn [app last_send].
  - destruct (last_send c b); reflexivity.
  - rewrite IH. destruct (last_send c b); reflexivity.
Qed.

Lemma last_send_snoc_other : forall c tr o, is_send_of c o = false -> last_send c (tr ++ [o]) = last_send c tr.
Proof.
  intros c tr o H. rewrite last_send_app. cbn [last_send].
  destruct o as [tx c' s t| | |]; try reflexivity. cbn [is_send_of] in H. rewrite H. reflexivity.
Qed.

Lemma last_send_snoc_same : forall c tr tx s t, last_send c (tr ++ [OSend tx c s t]) = Some t.
Proof. intros c tr tx s t. rewrite last_send_app. cbn [last_send]. rewrite Z.eqb_refl. reflexivity. Qed.

Lemma last_send_none : forall c tr, n_sends c tr = 0%nat -> last_send c tr = None.
Proof.
  intros c tr. induction tr as [|o tr IH]; intros H.
  - reflexivity.
  - change (o :: tr) with ([o] ++ tr) in H. rewrite n_sends_app in H.
    cbn [last_send]. rewrite IH by lia.
    destruct o as [tx c' s t| | |]; try reflexivity.
    unfold n_sends in H. cbn [filter is_send_of] in H. destruct (c' =? c); [cbn in H; lia|reflexivity].
Qed.

Lemma spaced_snoc : forall cf cmds tr o,
  retransmissions_spaced cf cmds tr ->
  (forall tx c s t t0, o = OSend tx c s t -> last_send c tr = Some t0 ->
                       t0 + (cf_timeout cf + extra_of cmds c) < t) ->
  retransmissions_spaced cf cmds (tr ++ [o]).
Proof.
  intros cf cmds tr o Hsp Hnew pre tx c s t post t0 Heq Hl.
  apply snoc_split in Heq. destruct Heq as [(Hp & Hpre & Ho)|(post' & Hp & Htr)].
  - subst pre o. apply (Hnew tx c s t t0 eq_refl Hl).
  - apply (Hsp pre tx c s t post' t0 Htr Hl).
Qed.

Lemma open_after_snoc : forall tr o, open_after (tr ++ [o]) = open_step (open_after tr) o.
Proof. intros tr o. unfold open_after. rewrite fold_left_app. reflexivity. Qed.

Lemma window_snoc : forall w tr o,
  window_respected w tr -> Z.of_nat (length (open_after (tr ++ [o]))) <= w ->
  window_respected w (tr ++ [o]).
Proof.
  intros w tr o Hw Hn pre post Heq.
  destruct post as [|x post].
  - rewrite app_nil_r in Heq. subst pre. exact Hn.
  - destruct (@exists_last _ (x :: post)) as (p' & b & Hp); [discriminate|].
    rewrite Hp in Heq. rewrite app_assoc in Heq. apply app_inj_tail in Heq. destruct Heq as [H1 H2].
    apply (Hw pre p'). exact H1.
Qed.

Lemma unanswered_snoc : forall tr o e,
  unanswered_entry tr e ->
  (forall d, o = ORecv d -> d_rc d = rc_ok -> d_seq d <> e_seq e) ->
  unanswered_entry (tr ++ [o]) e.
Proof.
  intros tr o e (pre & tx & t & post & Heq & Hz & Hno) Ho.
  exists pre, tx, t, (post ++ [o]). split; [|split].
  - rewrite Heq. rewrite <- app_assoc. reflexivity.
  - exact Hz.
  - intros d Hin Hok. apply in_app_or in Hin. destruct Hin as [Hin|[Hin|[]]].
    + apply Hno; assumption.
    + apply Ho; [exact Hin|exact Hok].
Qed.

Lemma open_proj_filter_miss : forall s out,
  (forall e, In e out -> e_seq e <> s) ->
  filter (fun p : Z * Z => negb (snd p =? s)) (map (fun e => (e_cmd e, e_seq e)) out)
  = map (fun e => (e_cmd e, e_seq e)) out.
Proof.
  intros s out. induction out as [|a out IH]; intros H; [reflexivity|].
  cbn [map filter snd]. assert (Ha : e_seq a <> s) by (apply H; left; reflexivity).
  apply Z.eqb_neq in Ha. rewrite Ha. cbn [negb]. f_equal. apply IH.
  intros e Hin. apply H. right. exact Hin.
Qed.

Lemma open_proj_filter_hit : forall s out e,
  NoDup (map e_seq out) -> find_entry s out = Some e ->
  filter (fun p : Z * Z => negb (snd p =? s)) (map (fun e => (e_cmd e, e_seq e)) out)
  = map (fun e => (e_cmd e, e_seq e)) (remove_entry s out).
Proof.
  intros s out. induction out as [|a out IH]; intros e Hnd Hf; cbn [find_entry] in Hf.
  - discriminate Hf.
  - cbn [map] in Hnd. inversion Hnd as [|x l Hnotin Hnd']; subst x l.
    cbn [map filter snd remove_entry]. destruct (e_seq a =? s) eqn:E; cbn [negb].
    + apply Z.eqb_eq in E.
      apply open_proj_filter_miss. intros e' Hin Heq. apply Hnotin. rewrite E, <- Heq.
      apply in_map. exact Hin.
    + cbn [map]. f_equal. apply (IH e Hnd' Hf).
Qed.

Lemma open_proj_existsb : forall c out,
  existsb (fun p : Z * Z => fst p =? c) (map (fun e => (e_cmd e, e_seq e)) out) = true <-> In c (map e_cmd out).
Proof.
  intros c out. rewrite existsb_exists. split.
  - intros (p & Hin & Hp). apply in_map_iff in Hin. destruct Hin as (e & He & Hin). subst p.
    cbn [fst] in Hp. apply Z.eqb_eq in Hp. subst c. apply in_map. exact Hin.
  - intros Hin. apply in_map_iff in Hin. destruct Hin as (e & He & Hin).
    exists (e_cmd e, e_seq e). split.
    + apply in_map_iff. exists e. split; [reflexivity|exact Hin].
    + cbn [fst]. apply Z.eqb_eq. exact He.
Qed.

Lemma free_seq_spec : forall fuel s0 out s s',
  free_seq fuel s0 out = Some (s, s') -> find_entry s out = None /\ s' = seq_next s.
Proof.
  intros fuel. induction fuel as [|f IH]; intros s0 out s s' H; cbn [free_seq] in H.
  - discriminate H.
  - unfold seq_taken in H. destruct (find_entry s0 out) eqn:E.
    + apply (IH _ _ _ _ H).
    + inversion H; subst. split; [exact E|reflexivity].
Qed.

(* --- preservation of the invariant by every small step *)

Lemma in_recv_snoc : forall tr o d, In (ORecv d) (tr ++ [o]) -> In (ORecv d) tr \/ o = ORecv d.
Proof. intros tr o d H. apply in_app_or in H. destruct H as [H|[H|[]]]; [left; exact H|right; exact H]. Qed.

(* appending an output that is neither a send nor a receive, the table of outstanding commands and the queue
   being unchanged *)
Lemma inv_quiet : forall cf cmds tr k k' b b' o,
  Inv cf cmds (MS tr k b) ->
  (forall c, is_send_of c o = false) -> (forall d, o <> ORecv d) ->
  open_step (open_after tr) o = open_after tr ->
  b_out b' = b_out b -> b_queue b' = b_queue b -> b_queued b' = b_queued b ->
  (forall c, cnt c (MS (tr ++ [o]) k' b') = cnt c (MS tr k b)) ->
  Inv cf cmds (MS (tr ++ [o]) k' b').
Proof.
  intros cf cmds tr k k' b b' o HI Hns Hnr Hop Hout Hq Hqd Hcnt.
  destruct HI as [Ic If Is It Iu Ib Il Isp Io Isq Iw Iln Iun Inf].
  cbn [m_tr m_b] in *.
  constructor; cbn [m_tr m_b]; rewrite ?Hout, ?Hq, ?Hqd.
  - intros c. rewrite Hcnt. apply Ic.
  - exact If.
  - exact Is.
  - intros e He. rewrite n_sends_snoc, Hns. cbn [ind]. rewrite Nat.add_0_r. apply It. exact He.
  - intros c Hc. rewrite n_sends_snoc, Hns. cbn [ind]. rewrite Nat.add_0_r. apply Iu. exact Hc.
  - intros c. rewrite n_sends_snoc, Hns. cbn [ind]. rewrite Nat.add_0_r. apply Ib.
  - intros e He. rewrite last_send_snoc_other by apply Hns. apply Il. exact He.
  - apply spaced_snoc; [exact Isp|]. intros tx c s t t0 Ho. exfalso.
    specialize (Hns c). subst o. cbn [is_send_of] in Hns. rewrite Z.eqb_refl in Hns. discriminate Hns.
  - rewrite open_after_snoc, Hop. exact Io.
  - exact Isq.
  - apply window_snoc; [exact Iw|]. rewrite open_after_snoc, Hop, Io, map_length. exact Iln.
  - exact Iln.
  - intros e He. apply unanswered_snoc; [apply Iun; exact He|]. intros d Hd. exfalso. apply (Hnr d Hd).
  - intros d Hd. apply in_recv_snoc in Hd. destruct Hd as [Hd|Hd]; [apply Inf; exact Hd|exfalso; apply (Hnr d Hd)].
Qed.


Lemma nodup_snoc : forall (l : list Z) x, NoDup l -> ~ In x l -> NoDup (l ++ [x]).
Proof.
  intros l x. induction l as [|a l IH]; intros Hnd Hx.
  - constructor; [intros []|constructor].
  - inversion Hnd as [|y l' Hn Hnd']; subst y l'. cbn [app]. constructor.
    + intros Hin. apply in_app_or in Hin. destruct Hin as [Hin|[Hin|[]]].
      * apply Hn. exact Hin.
      * apply Hx. left. symmetry. exact Hin.
    + apply IH; [exact Hnd'|]. intros Hin. apply Hx. right. exact Hin.
Qed.

Lemma in_bump2 : forall pre e post now x,
  In x (pre ++ bump e now :: post) -> x = bump e now \/ In x (pre ++ post).
Proof.
  intros pre e post now x H. apply in_app_or in H. destruct H as [H|[H|H]].
  - right. apply in_or_app. left. exact H.
  - left. symmetry. exact H.
  - right. apply in_or_app. right. exact H.
Qed.

Lemma in_mid_weaken : forall {A} (pre post : list A) e x, In x (pre ++ post) -> In x (pre ++ e :: post).
Proof.
  intros A pre post e x H. apply in_app_or in H. apply in_or_app.
  destruct H as [H|H]; [left; exact H|right; right; exact H].
Qed.

Lemma nodup_mid_neq : forall (f : entry -> Z) pre e post x,
  NoDup (map f (pre ++ e :: post)) -> In x (pre ++ post) -> f x <> f e.
Proof.
  intros f pre e post x Hnd Hin Heq. rewrite map_app in Hnd. cbn [map] in Hnd.
  apply NoDup_remove_2 in Hnd. apply Hnd. rewrite <- map_app, <- Heq. apply in_map. exact Hin.
Qed.

Lemma send_other : forall c c' tx s t, c' <> c -> is_send_of c (OSend tx c' s t) = false.
Proof. intros c c' tx s t H. cbn [is_send_of]. apply Z.eqb_neq. exact H. Qed.

Lemma send_same : forall c tx s t, is_send_of c (OSend tx c s t) = true.
Proof. intros. cbn [is_send_of]. apply Z.eqb_refl. Qed.

Theorem astep_inv : forall cf cmds m m',
  config_ok cf -> NoDup (ids cmds) -> Inv cf cmds m -> astep cf m m' -> Inv cf cmds m'.
Proof.
  intros cf cmds m m' Hcf Hnd HI Hst.
  assert (Hcnt : forall c, cnt c m' = occurrences c (ids cmds)).
  { intros c. rewrite (astep_cnt cf m m' c Hst). apply (I_count _ _ _ HI). }
  destruct Hcf as [[Hw1 Hw2] Ht1].
  inversion Hst; subst.
  - (* ---------------------------------------------------------------- first transmission *)
    rename H into Hwin, H0 into Hfs.
    pose proof (D_queue_out cf cmds _ (c_id c) Hnd HI) as F1. cbn [m_b b_queue b_out BS ids map] in F1.
    specialize (F1 (or_introl eq_refl)).
    pose proof (D_queue_nodup cf cmds _ Hnd HI) as F2. cbn [m_b b_queue BS ids map] in F2.
    inversion F2 as [|x l F2a F2b]; subst x l. fold (ids q) in F2a, F2b.
    pose proof (I_unsent _ _ _ HI (c_id c)) as F3. cbn [m_b b_queue m_tr BS ids map] in F3.
    specialize (F3 (or_introl eq_refl)).
    destruct (free_seq_spec _ _ _ _ _ Hfs) as [F4 _].
    destruct (I_suffix _ _ _ HI) as [done Hdone]. cbn [m_b b_queue BS] in Hdone.
    assert (F5 : extra_of cmds (c_id c) = c_extra c).
    { rewrite Hdone. apply extra_of_suffix. rewrite <- Hdone. exact Hnd. }
    destruct HI as [Ic If Is It Iu Ib Il Isp Io Isq Iw Iln Iun Inf].
    cbn [m_tr m_b b_out b_queue b_queued b_cbs BS] in *.
    constructor; cbn [m_tr m_b b_out b_queue b_queued b_cbs BS].
    + exact Hcnt.
    + intros H; discriminate H.
    + exists (done ++ [c]). rewrite <- app_assoc. exact Hdone.
    + intros e He. apply in_app_or in He. destruct He as [He|[He|[]]].
      * rewrite n_sends_snoc, send_other, Nat.add_0_r; [apply It; exact He|].
        intros Heq. apply F1. rewrite Heq. apply in_map. exact He.
      * subst e. cbn [new_entry e_cmd e_tries]. rewrite n_sends_snoc, send_same, F3. cbn. lia.
    + intros c' Hc'. rewrite n_sends_snoc, send_other, Nat.add_0_r.
      * apply Iu. right. exact Hc'.
      * intros Heq. apply F2a. rewrite Heq. exact Hc'.
    + intros c'. rewrite n_sends_snoc. destruct (Z.eq_dec (c_id c) c') as [E|E].
      * subst c'. rewrite send_same, F3. cbn. lia.
      * rewrite send_other by exact E. rewrite Nat.add_0_r. apply Ib.
    + intros e He. apply in_app_or in He. destruct He as [He|[He|[]]].
      * rewrite last_send_snoc_other; [apply Il; exact He|]. apply send_other.
        intros Heq. apply F1. rewrite Heq. apply in_map. exact He.
      * subst e. cbn [new_entry e_cmd e_deadline e_timeout]. rewrite last_send_snoc_same. split.
        -- f_equal. lia.
        -- rewrite F5. reflexivity.
    + apply spaced_snoc; [exact Isp|]. intros tx c0 s0 t t0 Ho Hl. inversion Ho; subst.
      rewrite (last_send_none _ _ F3) in Hl. discriminate Hl.
    + rewrite open_after_snoc, Io. cbn [open_step].
      destruct (existsb (fun p : Z * Z => fst p =? c_id c) (map (fun e => (e_cmd e, e_seq e)) out)) eqn:Ex.
      * exfalso. apply F1. apply open_proj_existsb. exact Ex.
      * rewrite map_app. reflexivity.
    + rewrite map_app. cbn [map new_entry e_seq]. apply nodup_snoc; [exact Isq|].
      intros Hin. apply in_map_iff in Hin. destruct Hin as (e & He & Hin).
      apply (find_entry_none _ _ F4 e Hin He).
    + apply window_snoc; [exact Iw|]. rewrite open_after_snoc, Io. cbn [open_step].
      destruct (existsb (fun p : Z * Z => fst p =? c_id c) (map (fun e => (e_cmd e, e_seq e)) out)) eqn:Ex.
      * rewrite map_length. lia.
      * rewrite app_length, map_length. cbn [length]. lia.
    + rewrite app_length. cbn [length]. lia.
    + intros e He. apply in_app_or in He. destruct He as [He|[He|[]]].
      * apply unanswered_snoc; [apply Iun; exact He|]. intros d Hd. discriminate Hd.
      * subst e. exists tr, (k_ntx k), (k_now k + dur (cf_iter cf) (c_id c)), []. cbn [new_entry e_cmd e_seq].
        split; [reflexivity|]. split; [exact F3|]. intros d [].
    + intros d Hd. apply in_recv_snoc in Hd. destruct Hd as [Hd|Hd]; [apply Inf; exact Hd|discriminate Hd].
  - (* ---------------------------------------------------------------- iterator exhausted *)
    destruct HI as [Ic If Is It Iu Ib Il Isp Io Isq Iw Iln Iun Inf].
    cbn [m_tr m_b b_out b_queue b_queued b_cbs BS] in *.
    constructor; cbn [m_tr m_b b_out b_queue b_queued b_cbs BS]; try assumption.
    intros _. reflexivity.
  - (* ---------------------------------------------------------------- callback *)
    apply (inv_quiet cf cmds tr k _ (BS q qd out ((c, d) :: cbs)) (BS q qd out cbs) (OCallback c d) HI);
      try reflexivity.
    + intros d0 H. discriminate H.
    + intros c0. rewrite <- (astep_cnt cf _ _ c0 Hst). reflexivity.
  - (* ---------------------------------------------------------------- select *)
    apply (inv_quiet cf cmds tr k k b b (OSelect t) HI); try reflexivity.
    + intros d0 H. discriminate H.
    + intros c0. rewrite <- (astep_cnt cf _ _ c0 Hst). reflexivity.
  - (* ---------------------------------------------------------------- event *)
    destruct HI as [Ic If Is It Iu Ib Il Isp Io Isq Iw Iln Iun Inf].
    constructor; cbn [m_tr m_b] in *; try assumption.
  - (* ---------------------------------------------------------------- reply accepted *)
    rename H into Hbuf, H0 into Hok, H1 into Hfe.
    destruct HI as [Ic If Is It Iu Ib Il Isp Io Isq Iw Iln Iun Inf].
    cbn [m_tr m_b b_out b_queue b_queued b_cbs BS] in *.
    constructor; cbn [m_tr m_b b_out b_queue b_queued b_cbs BS].
    + exact Hcnt.
    + exact If.
    + exact Is.
    + intros e0 He. apply remove_entry_In in He. rewrite n_sends_snoc. cbn [is_send_of ind].
      rewrite Nat.add_0_r. apply It. exact He.
    + intros c0 Hc. rewrite n_sends_snoc. cbn [is_send_of ind]. rewrite Nat.add_0_r. apply Iu. exact Hc.
    + intros c0. rewrite n_sends_snoc. cbn [is_send_of ind]. rewrite Nat.add_0_r. apply Ib.
    + intros e0 He. apply remove_entry_In in He. rewrite last_send_snoc_other by reflexivity. apply Il. exact He.
    + apply spaced_snoc; [exact Isp|]. intros tx c0 s0 t t0 Ho. discriminate Ho.
    + rewrite open_after_snoc, Io. cbn [open_step]. apply Z.eqb_eq in Hok. rewrite Hok.
      apply (open_proj_filter_hit _ _ e Isq Hfe).
    + apply remove_entry_seqs_nodup. exact Isq.
    + apply window_snoc; [exact Iw|]. rewrite open_after_snoc, Io. cbn [open_step].
      apply Z.eqb_eq in Hok. rewrite Hok. rewrite (open_proj_filter_hit _ _ e Isq Hfe), map_length.
      pose proof (remove_entry_length (d_seq d) out). lia.
    + pose proof (remove_entry_length (d_seq d) out). lia.
    + intros e0 He. apply unanswered_snoc; [apply Iun; apply (remove_entry_In _ _ _ He)|].
      intros d0 Hd _. inversion Hd; subst d0. intros Heq. apply (remove_entry_seq _ _ _ Isq He). symmetry. exact Heq.
    + intros d0 Hd. apply in_recv_snoc in Hd. destruct Hd as [Hd|Hd]; [apply Inf; exact Hd|].
      inversion Hd; subst d0. left. exact Hok.
  - (* ---------------------------------------------------------------- datagram ignored *)
    rename H into Hbuf, H0 into Hwhy.
    destruct HI as [Ic If Is It Iu Ib Il Isp Io Isq Iw Iln Iun Inf].
    cbn [m_tr m_b] in *.
    assert (Hop : open_step (open_after tr) (ORecv d) = open_after tr).
    { cbn [open_step]. destruct Hwhy as [[Hok Hnone]|[Hnok _]].
      - apply Z.eqb_eq in Hok. rewrite Hok, Io. apply open_proj_filter_miss. apply find_entry_none. exact Hnone.
      - apply Z.eqb_neq in Hnok. rewrite Hnok. reflexivity. }
    constructor; cbn [m_tr m_b].
    + exact Hcnt.
    + exact If.
    + exact Is.
    + intros e0 He. rewrite n_sends_snoc. cbn [is_send_of ind]. rewrite Nat.add_0_r. apply It. exact He.
    + intros c0 Hc. rewrite n_sends_snoc. cbn [is_send_of ind]. rewrite Nat.add_0_r. apply Iu. exact Hc.
    + intros c0. rewrite n_sends_snoc. cbn [is_send_of ind]. rewrite Nat.add_0_r. apply Ib.
    + intros e0 He. rewrite last_send_snoc_other by reflexivity. apply Il. exact He.
    + apply spaced_snoc; [exact Isp|]. intros tx c0 s0 t t0 Ho. discriminate Ho.
    + rewrite open_after_snoc, Hop. exact Io.
    + exact Isq.
    + apply window_snoc; [exact Iw|]. rewrite open_after_snoc, Hop, Io, map_length. exact Iln.
    + exact Iln.
    + intros e0 He. apply unanswered_snoc; [apply Iun; exact He|].
      intros d0 Hd Hok0. inversion Hd; subst d0. destruct Hwhy as [[Hok Hnone]|[Hnok _]].
      * intros Heq. apply (find_entry_none _ _ Hnone e0 He). symmetry. exact Heq.
      * contradiction.
    + intros d0 Hd. apply in_recv_snoc in Hd. destruct Hd as [Hd|Hd]; [apply Inf; exact Hd|].
      inversion Hd; subst d0. destruct Hwhy as [[Hok _]|[_ Hre]]; [left; exact Hok|right; exact Hre].
  - (* ---------------------------------------------------------------- retransmission *)
    rename H into Hdl, H0 into Htr.
    pose proof (D_out_nodup cf cmds _ Hnd HI) as Fnd. cbn [m_b b_out BS] in Fnd.
    assert (Fq : forall c0, In c0 (ids q) -> c0 <> e_cmd e).
    { intros c0 Hc Heq. apply (D_queue_out cf cmds _ c0 Hnd HI Hc). cbn [m_b b_out BS].
      rewrite Heq. apply in_map. apply in_or_app. right. left. reflexivity. }
    assert (Fe : In e (pre ++ e :: post)) by (apply in_or_app; right; left; reflexivity).
    destruct HI as [Ic If Is It Iu Ib Il Isp Io Isq Iw Iln Iun Inf].
    cbn [m_tr m_b b_out b_queue b_queued b_cbs BS] in *.
    destruct (It e Fe) as [Hte [Hte1 Hte2]].
    destruct (Il e Fe) as [Hle Hto].
    constructor; cbn [m_tr m_b b_out b_queue b_queued b_cbs BS].
    + exact Hcnt.
    + exact If.
    + exact Is.
    + intros x Hx. apply in_bump2 in Hx. destruct Hx as [Hx|Hx].
      * subst x. cbn [bump e_cmd e_tries]. rewrite n_sends_snoc, send_same. cbn [ind]. lia.
      * rewrite n_sends_snoc, send_other, Nat.add_0_r.
        -- apply It. apply in_mid_weaken. exact Hx.
        -- intros Heq. apply (nodup_mid_neq e_cmd pre e post x Fnd Hx). symmetry. exact Heq.
    + intros c0 Hc. rewrite n_sends_snoc, send_other, Nat.add_0_r; [apply Iu; exact Hc|].
      intros Heq. apply (Fq c0 Hc). symmetry. exact Heq.
    + intros c0. rewrite n_sends_snoc. destruct (Z.eq_dec (e_cmd e) c0) as [E|E].
      * subst c0. rewrite send_same. cbn [ind]. lia.
      * rewrite send_other by exact E. rewrite Nat.add_0_r. apply Ib.
    + intros x Hx. apply in_bump2 in Hx. destruct Hx as [Hx|Hx].
      * subst x. cbn [bump e_cmd e_deadline e_timeout]. rewrite last_send_snoc_same. split; [f_equal; lia|exact Hto].
      * rewrite last_send_snoc_other.
        -- apply Il. apply in_mid_weaken. exact Hx.
        -- apply send_other. intros Heq. apply (nodup_mid_neq e_cmd pre e post x Fnd Hx). symmetry. exact Heq.
    + apply spaced_snoc; [exact Isp|]. intros tx c0 s0 t t0 Ho Hl. inversion Ho; subst.
      rewrite Hle in Hl. inversion Hl; subst t0. rewrite <- Hto. lia.
    + rewrite open_after_snoc, Io. cbn [open_step].
      destruct (existsb (fun p : Z * Z => fst p =? e_cmd e) (map (fun e0 => (e_cmd e0, e_seq e0)) (pre ++ e :: post))) eqn:Ex.
      * rewrite !map_app. reflexivity.
      * exfalso. assert (Hin : In (e_cmd e) (map e_cmd (pre ++ e :: post))) by (apply in_map; exact Fe).
        apply open_proj_existsb in Hin. rewrite Hin in Ex. discriminate Ex.
    + rewrite map_bump_seq. exact Isq.
    + apply window_snoc; [exact Iw|]. rewrite open_after_snoc, Io. cbn [open_step].
      destruct (existsb (fun p : Z * Z => fst p =? e_cmd e) (map (fun e0 => (e_cmd e0, e_seq e0)) (pre ++ e :: post))) eqn:Ex.
      * rewrite map_length. exact Iln.
      * exfalso. assert (Hin : In (e_cmd e) (map e_cmd (pre ++ e :: post))) by (apply in_map; exact Fe).
        apply open_proj_existsb in Hin. rewrite Hin in Ex. discriminate Ex.
    + rewrite app_length in *. cbn [length] in *. exact Iln.
    + intros x Hx. apply in_bump2 in Hx. destruct Hx as [Hx|Hx].
      * subst x. apply unanswered_snoc; [|intros d0 Hd; discriminate Hd].
        destruct (Iun e Fe) as (p1 & tx & t & p2 & H1 & H2 & H3).
        exists p1, tx, t, p2. cbn [bump e_cmd e_seq]. repeat split; assumption.
      * apply unanswered_snoc; [apply Iun; apply in_mid_weaken; exact Hx|]. intros d0 Hd. discriminate Hd.
    + intros d Hd. apply in_recv_snoc in Hd. destruct Hd as [Hd|Hd]; [apply Inf; exact Hd|discriminate Hd].
Qed.

Lemma star_inv : forall cf cmds m m',
  config_ok cf -> NoDup (ids cmds) -> star cf m m' -> Inv cf cmds m -> Inv cf cmds m'.
Proof.
  intros cf cmds m m' Hcf Hnd Hst. induction Hst as [m|m1 m2 m3 H12 H23 IH]; intros HI.
  - exact HI.
  - apply IH. apply (astep_inv cf cmds m1 m2 Hcf Hnd HI H12).
Qed.

Lemma inv_init : forall cf cmds k, config_ok cf -> Inv cf cmds (MS [] k (bstate0 cmds)).
Proof.
  intros cf cmds k [[Hw1 Hw2] Ht]. assert (Hw : 0 <= cf_window cf) by lia. constructor; cbn [m_tr m_b bstate0 b_out b_queue b_queued b_cbs].
  - intros c. unfold cnt. cbn [m_tr m_b bstate0 b_out b_queue b_queued b_cbs map]. reflexivity.
  - intros H; discriminate H.
  - exists []. reflexivity.
  - intros e [].
  - intros c _. reflexivity.
  - intros c. cbn. lia.
  - intros e [].
  - intros pre tx c s t post t0 H. destruct pre; discriminate H.
  - reflexivity.
  - constructor.
  - intros pre post H. destruct pre; [cbn; exact Hw|discriminate H].
  - cbn. exact Hw.
  - intros e [].
  - intros d [].
Qed.

(* every call: the final small-step state satisfies the invariant *)
Lemma burst_inv : forall cf cmds evs k tr oc k' rest,
  config_ok cf -> NoDup (ids cmds) ->
  burst cf cmds evs k = (tr, oc, k', rest) ->
  exists m, Inv cf cmds m /\ ends cf oc tr m.
Proof.
  intros cf cmds evs k tr oc k' rest Hcf Hnd Hb. unfold burst in Hb.
  destruct (run_refines cf evs k (bstate0 cmds) [] tr oc k' rest Hb) as (m & Hst & Hend).
  exists m. split; [|exact Hend].
  apply (star_inv cf cmds _ m Hcf Hnd Hst). apply inv_init. exact Hcf.
Qed.

(* ------------------------------------------------------------------------------------------------ *)
(* Part 4: the theorems on the call's own trace                                                       *)
(* ------------------------------------------------------------------------------------------------ *)

Lemma ends_trace : forall cf oc tr m, ends cf oc tr m -> tr = m_tr m \/ exists d, tr = m_tr m ++ [ORecv d].
Proof. intros cf oc tr m H. inversion H; subst; try (left; reflexivity). right. exists d. reflexivity. Qed.

(* --- conservation alone (no hypothesis on the command identities or the configuration) *)
Definition flag_ok (m : mstate) : Prop := b_queued (m_b m) = false -> b_queue (m_b m) = [].

Lemma astep_flag : forall cf m m', astep cf m m' -> flag_ok m -> flag_ok m'.
Proof.
  intros cf m m' H Hf. unfold flag_ok in *. inversion H; subst; cbn [m_b b_queued b_queue BS] in *;
    try exact Hf; try (intros E; discriminate E).
  intros _. reflexivity.
Qed.

Lemma star_cnt_flag : forall cf m m' c, star cf m m' -> flag_ok m -> cnt c m' = cnt c m /\ flag_ok m'.
Proof.
  intros cf m m' c H. induction H as [m|m1 m2 m3 H12 H23 IH]; intros Hf.
  - split; [reflexivity|exact Hf].
  - destruct (IH (astep_flag cf m1 m2 H12 Hf)) as [E F]. split; [|exact F].
    rewrite E. apply (astep_cnt cf m1 m2 c H12).
Qed.

Lemma cnt_init : forall cmds k c, cnt c (MS [] k (bstate0 cmds)) = occurrences c (ids cmds).
Proof. intros. unfold cnt. cbn [m_tr m_b bstate0 b_out b_queue b_queued b_cbs map]. reflexivity. Qed.

Lemma burst_cnt : forall cf cmds evs k tr oc k' rest,
  burst cf cmds evs k = (tr, oc, k', rest) ->
  exists m, ends cf oc tr m /\ flag_ok m /\ forall c, cnt c m = occurrences c (ids cmds).
Proof.
  intros cf cmds evs k tr oc k' rest Hb. unfold burst in Hb.
  destruct (run_refines cf evs k (bstate0 cmds) [] tr oc k' rest Hb) as (m & Hst & Hend).
  exists m. split; [exact Hend|].
  assert (F0 : flag_ok (MS [] k (bstate0 cmds))) by (intros E; discriminate E).
  split.
  - apply (star_cnt_flag cf _ m 0 Hst F0).
  - intros c. destruct (star_cnt_flag cf _ m c Hst F0) as [E _]. rewrite E. apply cnt_init.
Qed.

(* completion: a call that returns has invoked the callback of every command exactly once *)
Theorem completion : forall cf cmds evs k tr k' rest,
  burst cf cmds evs k = (tr, Returned, k', rest) ->
  forall c, n_callbacks c tr = occurrences c (ids cmds).
Proof.
  intros cf cmds evs k tr k' rest Hb c.
  destruct (burst_cnt cf cmds evs k tr Returned k' rest Hb) as (m & Hend & Hf & Hc).
  inversion Hend as [m0 Hrun| | | |]; subst.
  - rewrite <- (Hc c). unfold cnt. unfold running in Hrun.
    destruct (b_queued (m_b m)) eqn:Eq; [discriminate Hrun|].
    destruct (b_out (m_b m)) eqn:Eo; [|discriminate Hrun].
    destruct (b_cbs (m_b m)) eqn:Ec; [|discriminate Hrun].
    rewrite (Hf Eq). cbn. lia.
  - exfalso. match goal with E : fatal_outcome _ _ = Returned |- _ => unfold fatal_outcome in E;
      destruct (existsb _ all_return_codes && negb (existsb _ fatal_codes)); discriminate E end.
Qed.

(* whatever the outcome, no callback is invoked more often than its command occurs in the burst *)
Theorem callback_at_most_once : forall cf cmds evs k tr oc k' rest,
  burst cf cmds evs k = (tr, oc, k', rest) ->
  forall c, (n_callbacks c tr <= occurrences c (ids cmds))%nat.
Proof.
  intros cf cmds evs k tr oc k' rest Hb c.
  destruct (burst_cnt cf cmds evs k tr oc k' rest Hb) as (m & Hend & Hf & Hc).
  rewrite <- (Hc c). unfold cnt.
  destruct (ends_trace cf oc tr m Hend) as [E|[d E]]; subst tr.
  - lia.
  - rewrite n_callbacks_snoc. cbn [is_callback_of ind]. lia.
Qed.

(* --- return codes: the generated tables are consistent *)
Lemma fatal_outcome_fatal : forall rc c, fatal_rc rc -> fatal_outcome rc c = RaisedFatal rc c.
Proof.
  intros rc c [Hnok Hnre]. unfold fatal_outcome.
  destruct (existsb (Z.eqb rc) all_return_codes) eqn:Ek; [|reflexivity].
  apply existsb_exists in Ek. destruct Ek as (x & Hin & Hx). apply Z.eqb_eq in Hx. subst x.
  cbn [all_return_codes In] in Hin.
  repeat (destruct Hin as [Hin|Hin];
          [subst rc; first [exfalso; apply Hnok; reflexivity
                           |vm_compute in Hnre; discriminate Hnre
                           |vm_compute; reflexivity]|]).
  contradiction.
Qed.

(* --- no fatal code among the datagrams consumed before the last small-step state *)
Definition nofatal (m : mstate) : Prop :=
  forall d, In (ORecv d) (m_tr m) -> d_rc d = rc_ok \/ is_retryable (d_rc d) = true.

Lemma astep_nofatal : forall cf m m', astep cf m m' -> nofatal m -> nofatal m'.
Proof.
  intros cf m m' H Hn. unfold nofatal in *. inversion H; subst; cbn [m_tr] in *; try exact Hn;
    intros d0 Hd; apply in_recv_snoc in Hd; destruct Hd as [Hd|Hd]; try (apply Hn; exact Hd);
    try discriminate Hd.
  - inversion Hd; subst d0. left. assumption.
  - inversion Hd; subst d0.
    match goal with Hw : _ \/ _ |- _ => destruct Hw as [[Hok _]|[_ Hre]] end; [left; exact Hok|right; exact Hre].
Qed.

Lemma star_nofatal : forall cf m m', star cf m m' -> nofatal m -> nofatal m'.
Proof.
  intros cf m m' H. induction H as [m|m1 m2 m3 H12 H23 IH]; intros Hn; [exact Hn|].
  apply IH. apply (astep_nofatal cf m1 m2 H12 Hn).
Qed.

Lemma burst_nofatal : forall cf cmds evs k tr oc k' rest,
  burst cf cmds evs k = (tr, oc, k', rest) ->
  exists m, ends cf oc tr m /\ nofatal m.
Proof.
  intros cf cmds evs k tr oc k' rest Hb. unfold burst in Hb.
  destruct (run_refines cf evs k (bstate0 cmds) [] tr oc k' rest Hb) as (m & Hst & Hend).
  exists m. split; [exact Hend|]. apply (star_nofatal cf _ m Hst). intros d [].
Qed.

Lemma ends_not_fatal_trace : forall cf oc tr m,
  ends cf oc tr m -> (forall rc c, oc <> fatal_outcome rc c) -> tr = m_tr m.
Proof.
  intros cf oc tr m H Hn. inversion H; subst; try reflexivity. exfalso. apply (Hn _ _ eq_refl).
Qed.

(* a fatal return code raises the fatal-return-code error, at once *)
Theorem fatal_raises : forall cf cmds evs k tr oc k' rest,
  burst cf cmds evs k = (tr, oc, k', rest) ->
  forall d, In (ORecv d) tr -> fatal_rc (d_rc d) ->
  exists tr1 c, tr = tr1 ++ [ORecv d] /\ oc = RaisedFatal (d_rc d) c /\
                (forall d', In (ORecv d') tr1 -> ~ fatal_rc (d_rc d')).
Proof.
  intros cf cmds evs k tr oc k' rest Hb d Hin Hfat.
  destruct (burst_nofatal cf cmds evs k tr oc k' rest Hb) as (m & Hend & Hnf).
  assert (Hclean : forall d', In (ORecv d') (m_tr m) -> ~ fatal_rc (d_rc d')).
  { intros d' Hd' [H1 H2]. destruct (Hnf d' Hd') as [E|E]; [contradiction|]. rewrite E in H2. discriminate H2. }
  inversion Hend; subst; try (exfalso; apply (Hclean d Hin Hfat)).
  apply in_recv_snoc in Hin. destruct Hin as [Hin|Hin]; [exfalso; apply (Hclean d Hin Hfat)|].
  inversion Hin; subst d0.
  exists (m_tr m), (option_map e_cmd (find_entry (d_seq d) (b_out (m_b m)))).
  split; [reflexivity|]. split; [apply fatal_outcome_fatal; exact Hfat|exact Hclean].
Qed.

(* and that error is raised for no other reason *)
Theorem fatal_only_from_datagram : forall cf cmds evs k tr rc c k' rest,
  burst cf cmds evs k = (tr, RaisedFatal rc c, k', rest) ->
  exists tr1 d, tr = tr1 ++ [ORecv d] /\ d_rc d = rc /\ fatal_rc rc.
Proof.
  intros cf cmds evs k tr rc c k' rest Hb.
  destruct (burst_nofatal cf cmds evs k tr _ k' rest Hb) as (m & Hend & _).
  inversion Hend as [| |m0 d buf Hbuf Hnok Hnre Hoc| |]; subst.
  assert (Hf : fatal_rc (d_rc d)) by (split; assumption).
  rewrite (fatal_outcome_fatal _ _ Hf) in Hoc. inversion Hoc; subst.
  exists (m_tr m), d. repeat split; try reflexivity; assumption.
Qed.

(* FatalReturnCodeError can always be constructed: its KeyError branch is unreachable with these tables *)
Theorem no_key_error : forall cf cmds evs k tr rc k' rest,
  burst cf cmds evs k <> (tr, RaisedKeyError rc, k', rest).
Proof.
  intros cf cmds evs k tr rc k' rest Hb.
  destruct (burst_nofatal cf cmds evs k tr _ k' rest Hb) as (m & Hend & _).
  inversion Hend as [| |m0 d buf Hbuf Hnok Hnre Hoc| |]; subst.
  assert (Hf : fatal_rc (d_rc d)) by (split; assumption).
  rewrite (fatal_outcome_fatal _ _ Hf) in Hoc. discriminate Hoc.
Qed.

(* --- window, tries, spacing, the timeout error *)
Lemma open_step_recv_length : forall op d, (length (open_step op (ORecv d)) <= length op)%nat.
Proof.
  intros op d. cbn [open_step]. destruct (d_rc d =? rc_ok); [|lia].
  induction op as [|p op IH]; cbn [filter length]; [lia|].
  destruct (negb (snd p =? d_seq d)); cbn [length]; lia.
Qed.

Theorem window_inv : forall cf cmds evs k tr oc k' rest,
  config_ok cf -> NoDup (ids cmds) ->
  burst cf cmds evs k = (tr, oc, k', rest) ->
  window_respected (cf_window cf) tr.
Proof.
  intros cf cmds evs k tr oc k' rest Hcf Hnd Hb.
  destruct (burst_inv cf cmds evs k tr oc k' rest Hcf Hnd Hb) as (m & HI & Hend).
  destruct (ends_trace cf oc tr m Hend) as [E|[d E]]; subst tr.
  - apply (I_window _ _ _ HI).
  - apply window_snoc; [apply (I_window _ _ _ HI)|].
    rewrite open_after_snoc. pose proof (open_step_recv_length (open_after (m_tr m)) d) as Hl.
    rewrite (I_open _ _ _ HI) in *. rewrite map_length in Hl. pose proof (I_len _ _ _ HI). lia.
Qed.

Theorem tries_inv : forall cf cmds evs k tr oc k' rest,
  config_ok cf -> NoDup (ids cmds) ->
  burst cf cmds evs k = (tr, oc, k', rest) ->
  (forall c, Z.of_nat (n_sends c tr) <= cf_tries cf) /\ retransmissions_spaced cf cmds tr.
Proof.
  intros cf cmds evs k tr oc k' rest Hcf Hnd Hb.
  destruct (burst_inv cf cmds evs k tr oc k' rest Hcf Hnd Hb) as (m & HI & Hend).
  destruct (ends_trace cf oc tr m Hend) as [E|[d E]]; subst tr.
  - split; [apply (I_bound _ _ _ HI)|apply (I_spaced _ _ _ HI)].
  - split.
    + intros c. rewrite n_sends_snoc. cbn [is_send_of ind]. rewrite Nat.add_0_r. apply (I_bound _ _ _ HI).
    + apply spaced_snoc; [apply (I_spaced _ _ _ HI)|]. intros tx c s t t0 H. discriminate H.
Qed.

Theorem timeout_exact : forall cf cmds evs k tr c k' rest,
  config_ok cf -> NoDup (ids cmds) ->
  burst cf cmds evs k = (tr, RaisedTimeout c, k', rest) ->
  In c (ids cmds) /\ Z.of_nat (n_sends c tr) = cf_tries cf /\ never_answered c tr.
Proof.
  intros cf cmds evs k tr c k' rest Hcf Hnd Hb.
  destruct (burst_inv cf cmds evs k tr _ k' rest Hcf Hnd Hb) as (m & HI & Hend).
  inversion Hend as [|m0 pre e post Hout Hdl Htr Hc| m0 d buf Hbuf Hnok Hnre Hoc | |]; subst.
  - assert (He : In e (b_out (m_b m))) by (rewrite Hout; apply in_or_app; right; left; reflexivity).
    split; [|split].
    + apply occurrences_In. rewrite <- (I_count _ _ _ HI (e_cmd e)). unfold cnt.
      assert (H1 : (1 <= occurrences (e_cmd e) (map e_cmd (b_out (m_b m))))%nat).
      { apply occurrences_In. apply in_map. exact He. }
      lia.
    + destruct (I_tries _ _ _ HI e He) as [H1 [H2 H3]]. lia.
    + destruct (I_unans _ _ _ HI e He) as (p1 & tx & t & p2 & H1 & H2 & H3).
      exists p1, tx, (e_seq e), t, p2. repeat split; assumption.
  - exfalso. unfold fatal_outcome in Hoc.
    destruct (existsb (Z.eqb (d_rc d)) all_return_codes && negb (existsb (Z.eqb (d_rc d)) fatal_codes));
      discriminate Hoc.
Qed.

Corollary completion_exactly_once : forall cf cmds evs k tr k' rest,
  NoDup (ids cmds) ->
  burst cf cmds evs k = (tr, Returned, k', rest) ->
  (forall c, In c (ids cmds) -> n_callbacks c tr = 1%nat) /\
  (forall c, ~ In c (ids cmds) -> n_callbacks c tr = 0%nat).
Proof.
  intros cf cmds evs k tr k' rest Hnd Hb. pose proof (completion cf cmds evs k tr k' rest Hb) as Hc. split.
  - intros c Hin. rewrite Hc. pose proof (total_le_1 cmds c Hnd). apply occurrences_In in Hin. lia.
  - intros c Hin. rewrite Hc. apply occurrences_notin. exact Hin.
Qed.
