"""C13 -- file-like memory views: theorems (Props/C13.v) + correspondence of the Gallina model with
rig's MemoryIO/SlicedMemoryIO on operation histories + an independent bounded-file oracle.

A case is a history: {"start", "end": arguments of MemoryIO; "lo", "mem": the bytes behind the fake
controller (window [lo, lo+len(mem)), 8 bytes of padding on each side of the allocation);
"ops": [[vid, "seek", n, whence|None], [vid, "read", n|None], [vid, "write", [bytes]],
[vid, "slice", a|None, b|None, step|None, newid|None], [vid, "tell"|"len"|"address"|"flush"|"close"],
["free"], and the environment: [vid, "fread", n|None] / [vid, "fwrite", [bytes]] = read/write during which the
controller raises (transport fault), [vid, "sread", n|None] / [vid, "swrite", [bytes]] = read/write with
TruncationWarning turned into an exception, [vid, "enter"] / [vid, "exit", None|"body"|"truncation"|"prev"] =
a `with view:` block entered / left normally or by an exception]}.  Views are numbered in order of creation (0 = the MemoryIO); `newid` is the number the
generator gave to the view a slice is expected to create (None when the slice is expected to fail)."""
import itertools
import json
import lib
from lib import zlit, vlist, vopt

LEVEL = "proof"
UNITS = ["GenMemIO"]
PAD = 8


# ------------------------------------------------------------------ generator
def _near(rng, n):
    return rng.choice([0, 1, -1, 2, n, n - 1, n + 1, n + 2, -n, -n - 1, -n + 1, n // 2,
                       rng.randint(-n - 3, n + 3), rng.randint(-n - 3, n + 3), rng.randint(-50, 60)])


def gen_case(rng, malformed=False, maxops=25):
    length = rng.choice([0, 0, 1, 2, 3, 4, 5, 8, 13, 16, 40] + [rng.randint(0, 40) for _ in range(9)])
    start = rng.choice([0, 1, 7, 100, 0x60000000, 0x61000003, 0xfffffff0, rng.randint(0, 2 ** 32)])
    end = start + length
    if rng.random() < 0.04:
        end, length = start - rng.randint(1, 9), 0         # end before start: an empty view at start
    lo = start - PAD
    mem = [rng.randrange(256) for _ in range(length + 2 * PAD)]
    views = [dict(n=length, closed=False, depth=0)]
    freed = False
    ops = []
    entered = []
    for _ in range(rng.randint(1, maxops)):
        held = [j for j, x in enumerate(views) if not x.get("dropped")]
        vid = held[-1] if rng.random() < 0.45 else rng.choice(held)
        if views[vid]["n"] == 0 and rng.random() < 0.6:        # prefer views that can transfer something
            vid = rng.choice(held)
        v = views[vid]
        n = v["n"]
        k = rng.choices(["seek", "read", "write", "slice", "tell", "len", "address", "flush", "close", "free",
                         "enter", "exit"],
                        [22, 18, 18, 13, 5, 4, 3, 2, 1.5, 0.9, 2.0, 0.8])[0]
        if entered and rng.random() < 0.12:
            k, vid = "exit", rng.choice(entered)
            v = views[vid]
            n = v["n"]
        mode = rng.choices(["", "f", "s"], [86, 8, 6])[0] if k in ("read", "write") else ""
        if k == "free" and views[0].get("dropped"):
            k = "tell"
        if len(held) > 1 and vid not in entered and rng.random() < 0.035:
            # the caller forgets a view (often the root or an intermediate slice) and carries on with the others
            vid = rng.choice([j for j in held[:-1] if j not in entered] or [vid])
            views[vid]["dropped"] = True
            ops.append([vid, "drop"])
            continue
        if k == "seek":
            wh = rng.choice([None, 0, 0, 1, 1, 2, 2, 2])
            if malformed and rng.random() < 0.3:
                wh = rng.choice([3, -1, 7])
            ops.append([vid, "seek", _near(rng, n), wh])
        elif k == "read":
            ops.append([vid, mode + "read", rng.choice([None, None, -1, -5, 0, 1, 2, n, n + 1, rng.randint(0, n + 4),
                                                        rng.randint(0, n + 4)])])
        elif k == "write":
            ln = min(45, rng.choice([0, 1, 2, 3, n, n + 1, rng.randint(0, n + 5), rng.randint(0, n + 5)]))
            ops.append([vid, mode + "write", [rng.randrange(256) for _ in range(ln)]])
        elif k == "slice":
            a = None if rng.random() < 0.2 else _near(rng, n)
            b = None if rng.random() < 0.2 else _near(rng, n)
            if n > 1 and rng.random() < 0.5:                   # a proper, non-empty sub-range, named either way
                x, y = sorted(rng.sample(range(n + 1), 2))
                a = rng.choice([x, x - n]) if x < n else x
                b = rng.choice([y, y - n]) if y < n else rng.choice([y, None, y + 3])
            step = None if rng.random() < 0.9 else 1
            if malformed and rng.random() < 0.4:
                step = rng.choice([2, -1, 0, 3])
            if malformed and rng.random() < 0.15:
                ops.append([vid, "index", rng.randint(-3, n + 2)])     # view[k]: not a slice at all
                continue
            will = (step in (None, 1)) and not (v["closed"] or freed)
            newid = len(views) if will else None
            ops.append([vid, "slice", a, b, step, newid])
            if will:
                s, e, _ = slice(a, b).indices(n)
                views.append(dict(n=max(0, e - s), closed=False, depth=v["depth"] + 1))
        elif k == "free":
            if rng.random() < 0.3 and not freed:
                ops.append(["ffree"])                              # sdram_free raises: nothing is freed
            else:
                ops.append(["free"])
                freed = True
        elif k == "enter":
            ops.append([vid, "enter"])
            entered.append(vid)
        elif k == "exit":
            ops.append([vid, "exit", rng.choice([None, None, "body", "truncation", "prev"])])
            if vid in entered:
                entered.remove(vid)
            v["closed"] = True
        else:
            ops.append([vid, k])
            if k == "close":
                v["closed"] = True
    case = dict(start=start, end=end, lo=lo, mem=mem, ops=ops, kind="malformed" if malformed else "valid")
    if end >= start and rng.random() < 0.15:
        case["via"] = "filelike"                # made by MachineController.sdram_alloc_as_filelike(end - start)
        case["context"] = rng.random() < 0.5    # chip / app_id from a `with mc(x=, y=, app_id=)` context
    return case


def enum_cases():
    """thorough tier: every history of 3 operations from a fixed alphabet on MemoryIO of length 0..3,
    followed by read-everything probes through the root and through the slice (if one was made)"""
    alpha = [[0, "seek", -1, 0], [0, "seek", 1, 0], [0, "seek", 5, 0], [0, "seek", -1, 1], [0, "seek", 2, 1],
             [0, "seek", -1, 2], [0, "seek", 1, 2], [0, "seek", 0, 2],
             [0, "read", None], [0, "read", 0], [0, "read", 2], [0, "read", 9],
             [0, "write", []], [0, "write", [201]], [0, "write", [202, 203, 204, 205, 206]],
             [0, "slice", 1, None, None, 1], [0, "slice", -2, -1, None, 1], [0, "slice", 2, 1, None, 1],
             [0, "tell"], [0, "close"], ["free"],
             [-1, "write", [211, 212]], [-1, "seek", 1, None], [-1, "read", None]]
    out = []
    for length in range(4):
        for combo in itertools.product(alpha, repeat=3):
            ops = []
            nviews, dead0 = 1, False
            for o in combo:
                o = list(o)
                if o[0] == -1:
                    o[0] = nviews - 1
                if len(o) > 1 and o[1] == "slice":
                    o[5] = None if dead0 else nviews
                    if not dead0:
                        nviews += 1
                if o == ["free"] or o[1:] == ["close"] and o[0] == 0:
                    dead0 = True
                ops.append(o)
            ops += [[0, "seek", 0, 0], [0, "read", None]]
            if nviews > 1:
                ops += [[nviews - 1, "seek", 0, 0], [nviews - 1, "read", None]]
            out.append(dict(start=100, end=100 + length, lo=100 - PAD,
                            mem=[(17 * i + 3) % 256 for i in range(length + 2 * PAD)], ops=ops, kind="enum"))
    return out


# ------------------------------------------------------------------ Coq literals
def coq_op(o):
    if o[0] == "free":
        return "OFree"
    if o[0] == "ffree":
        return "OFreeFault"
    k = o[1]
    if k == "seek":
        vo = "Seek %s %s" % (zlit(o[2]), zlit(0 if o[3] is None else o[3]))
    elif k in ("read", "fread", "sread"):
        vo = "%s %s" % (dict(read="Read", fread="FaultRead", sread="StrictRead")[k], zlit(-1 if o[2] is None else o[2]))
    elif k in ("write", "fwrite", "swrite"):
        vo = "%s %s" % (dict(write="Write", fwrite="FaultWrite", swrite="StrictWrite")[k], vlist(str(b) for b in o[2]))
    elif k == "slice":
        vo = "Slice %s %s %s" % (vopt(o[2], zlit), vopt(o[3], zlit), vopt(o[4], zlit))
    elif k == "index":
        vo = "Slice None None (Some (0))"       # a non-slice key takes the branch of a non-contiguous slice
    else:
        vo = dict(tell="Tell", len="Len", address="Address", flush="Flush", close="Close", enter="Enter",
                  exit="Exit")[k]
    return "OView %d (%s)" % (o[0], vo)


def is_drop(o):
    """the caller dropping its reference to a view: not an operation of the views (the model has no such notion)"""
    return len(o) > 1 and o[1] == "drop"


def coq_case(c):
    if c.get("via") == "filelike":
        return "observe_filelike %s %s %s %s %s" % (zlit(c["start"]), zlit(c["end"] - c["start"]), zlit(c["lo"]),
                                                    vlist(str(b) for b in c["mem"]),
                                                    vlist(coq_op(o) for o in c["ops"] if not is_drop(o)))
    return "observe_case %s %s %s %s %s" % (zlit(c["start"]), zlit(c["end"]), zlit(c["lo"]),
                                            vlist(str(b) for b in c["mem"]),
                                            vlist(coq_op(o) for o in c["ops"] if not is_drop(o)))


def canon_model(v):
    obs, final = v
    out = []
    def ccall(c):
        return {"CRead": lambda: ["r", c[1], c[2]], "CWrite": lambda: ["w", c[1], list(c[2])],
                "CFree": lambda: ["f", c[1]]}[c[0]]()

    for res, nw, calls, probe, att in obs:
        if res[0] == "Ok":
            x = res[1]
            if x[0] == "@":                     # a nullary constructor in argument position
                x = (x[1],)
            r = {"VNone": lambda: ["none"], "VInt": lambda: ["int", x[1]], "VAddr": lambda: ["addr", x[1]],
                 "VBytes": lambda: ["bytes", list(x[1])], "VView": lambda: ["view", x[1], x[2]]}[x[0]]()
        elif res[0] == "Failed":
            r = ["err", res[1]]
        else:
            r = ["model-" + res[0]]
        out.append([r, nw, [ccall(c) for c in calls], None if probe is None else probe[1], [ccall(c) for c in att]])
    return [out, list(final)]


def canon_impl(o, ops):
    out = []
    for op, (res, nw, calls, probe, att) in zip(ops, o[1]):
        if is_drop(op):
            continue
        r = res[:3] if res[0] == "view" else (["other"] if res[0] == "other" else res)
        out.append([r, nw, calls, probe, att])
    return [out, o[2]]


# ------------------------------------------------------------------ independent oracle
def oracle(c, out):
    """Decide the sentences of C13 on what the implementation did, from the history alone: an independent
    fixed-length file (bytearray) with one cursor per view, run on the same history, plus confinement of
    every access the fake controller saw.  -> list of (key, what)."""
    if out[0] == "hang":
        return [("hang", "an operation on a memory view did not terminate within the time limit")]
    base = c["start"]
    total = max(0, c["end"] - c["start"])
    memd = {c["lo"] + i: b for i, b in enumerate(c["mem"])}
    data = bytearray(memd.get(base + i, 0) for i in range(total))      # the file
    views = [dict(lo=0, hi=total, pos=0, closed=False)]                # windows of the file
    freed = False
    bad = []

    def fail(key, what, i):
        bad.append((key, "op %d %r: %s" % (i, c["ops"][i], what)))

    for i, (o, (res, nwarn, calls, probe, att)) in enumerate(zip(c["ops"], out[1])):
        if res[0] == "noview":
            if len(o) > 5 and o[1] == "slice" and o[5] is not None:
                views.append(None)      # a slice of a view that was never made: never made either
            continue
        if o[0] == "ffree":
            # sdram_free raised: the block is still allocated, so nothing about the views changes
            for cl in calls:
                fail("controller-args" if cl[0] == "args" else "free-accesses-memory", "free() issued %r" % (cl,), i)
            continue
        if is_drop(o):
            continue                    # forgetting a view is not an operation: the other views carry on
        if o[0] == "free":
            if not freed and res[0] != "none":
                fail("free-fails", "free() of a live allocation gave %r" % (res,), i)
            freed = True
            for cl in calls:
                if cl[0] != "f":
                    fail("controller-args" if cl[0] == "args" else "free-accesses-memory", "free() issued %r" % (cl,), i)
            continue
        vid, kind, mode = o[0], o[1], ""
        if kind in ("fread", "fwrite", "sread", "swrite"):
            kind, mode = kind[1:], kind[0]      # the same method, with the environment misbehaving
        v = views[vid]
        if v is None:
            if kind == "slice" and len(o) > 5 and o[5] is not None:
                views.append(None)
            continue
        n = v["hi"] - v["lo"]
        vs, ve = base + v["lo"], base + v["hi"]
        # confinement: whatever the operation, whatever its outcome
        for cl in calls + att:                  # (att: the access during which the controller raised)
            if cl[0] == "args":
                fail("controller-args", "controller called for chip/core %r, the view is on (1, 2), core 0" % (cl[1:],), i)
                continue
            if cl[0] == "f":
                fail("view-op-frees", "issued sdram_free", i)
                continue
            ln = cl[2] if cl[0] == "r" else len(cl[2])
            if ln < 0 or (ln > 0 and not (vs <= cl[1] and cl[1] + ln <= ve)):
                fail("escape-" + ("read" if cl[0] == "r" else "write"),
                     "access [%d, %d) outside the view's range [%d, %d)" % (cl[1], cl[1] + ln, vs, ve), i)
            if cl[0] == "w" and kind != "write" or cl[0] == "r" and kind != "read":
                fail("stray-access", "%s issued %r" % (kind, cl[:2]), i)
        dead = v["closed"] or freed
        failed = res[0] in ("err", "other")
        if dead:
            if kind in ("seek", "read", "write", "tell", "flush", "address", "slice", "index"):
                if not failed:
                    key = ("slice-after-close" if v["closed"] else "slice-after-free") if kind == "slice" \
                        else "alive-after-" + ("close" if v["closed"] else "free")
                    fail(key, "%s on a %s view succeeded with %r" % (
                        kind, "closed" if v["closed"] else "freed", res), i)
                if calls or att:
                    fail("access-after-" + ("close" if v["closed"] else "free"), "issued %r" % (calls + att,), i)
            continue                            # (the generator numbers no view for a slice of a dead view)
        pos = v["pos"]
        label = kind
        if res[0] == "other" or res == ["err", 0]:
            # an open view of an allocated block refuses to work: nothing was closed, nothing was freed
            fail("fails-without-close-or-free", "%s on an open view of an allocation that was not freed raised %s"
                 % (kind, "OSError" if res[0] == "err" else res[1]), i)
            if kind == "slice" and len(o) > 5 and o[5] is not None:
                views.append(None)
            if kind in ("close", "exit"):
                v["closed"] = True
            continue
        if mode == "f" and att:
            # the transport failed during the transfer: nothing was transferred, so the position stays
            # and nothing may be reported as transferred
            label = "failed-" + kind
            if (res[0] == "bytes" and res[1]) or (res[0] == "int" and res[1] > 0):
                fail("failed-transfer-reported", "the controller raised during the %s, yet it returned %r" % (
                    kind, res), i)
        elif mode == "s" and res == ["err", 3]:
            # the TruncationWarning was raised as an exception: the call did not happen
            label = "refused-" + kind
            if calls:
                fail("transfer-then-raise", "%s raised TruncationWarning after issuing %r" % (kind, calls), i)
            # ... and it may be refused only if bytes really would have been cut (a bounded file does not fail
            # on read(0) / write(b''), nor on a request that fits); positions before 0 have no file counterpart
            # for the default read, so that one is not judged
            req = (-1 if o[2] is None else o[2]) if kind == "read" else len(o[2])
            avail = max(0, n - pos) if pos >= 0 else 0
            if (req >= 0 and min(req, avail) == req) or (req < 0 and pos >= 0):
                fail("spurious-truncation-error", "%s of %s bytes at position %d of %d raised TruncationWarning under "
                     "the `error` filter although nothing would have been cut" % (
                         kind, "all remaining" if req < 0 else req, pos, n), i)
        elif kind == "seek":
            wh = 0 if o[3] is None else o[3]
            if wh not in (0, 1, 2):
                continue                        # from_what outside 0/1/2: the property says nothing
            if failed:
                fail("seek-fails", "seek on a live view gave %r" % (res,), i)
            v["pos"] = {0: o[2], 1: pos + o[2], 2: n + o[2]}[wh]           # a file's SEEK_END: len + n
            if wh == 2 and o[2] != 0 and probe is not None and probe == n - o[2] and probe != v["pos"]:
                fail("seek-end-sign", "seek(%d, 2) on a view of %d bytes left tell() == %d; a file's "
                     "position is %d" % (o[2], n, probe, v["pos"]), i)
                v["pos"] = probe                # resynchronise: report this finding once, keep checking
        elif kind == "read":
            req = -1 if o[2] is None else o[2]
            avail = max(0, n - pos) if pos >= 0 else 0
            k = avail if req < 0 else min(req, avail)
            exp = list(data[v["lo"] + pos: v["lo"] + pos + k]) if k > 0 else []
            if res != ["bytes", exp]:
                fail("read-data", "read(%r) at position %d of %d returned %r, the file holds %r" % (
                    o[2], pos, n, res, exp), i)
            if req >= 0 and k < req and 0 <= pos and nwarn < 1:
                fail("truncation-not-warned", "read(%d) at position %d of %d transferred %d bytes without a "
                     "TruncationWarning" % (req, pos, n, k), i)
            v["pos"] = pos + k
        elif kind == "write":
            bs = o[2]
            avail = max(0, n - pos) if pos >= 0 else 0
            k = min(len(bs), avail)
            if res != ["int", k]:
                fail("write-count", "write of %d bytes at position %d of %d returned %r, a file of that length "
                     "takes %d" % (len(bs), pos, n, res, k), i)
            if k > 0:
                data[v["lo"] + pos: v["lo"] + pos + k] = bytes(bytearray(bs[:k]))
            if k < len(bs) and 0 <= pos and nwarn < 1:
                fail("truncation-not-warned", "write of %d bytes at position %d of %d transferred %d bytes "
                     "without a TruncationWarning" % (len(bs), pos, n, k), i)
            v["pos"] = pos + k
        elif kind == "index":
            continue                            # view[k] on a live view: the property says nothing
        elif kind == "slice":
            step = o[4]
            if step not in (None, 1):
                continue                        # non-contiguous slice: the property says nothing
            s, e, _ = slice(o[2], o[3]).indices(n)              # Python's own clipping of a slice of n items
            e = max(s, e)
            nv = dict(lo=v["lo"] + s, hi=v["lo"] + e, pos=0, closed=False)
            if res[0] != "view":
                fail("slice-fails", "slicing a live view gave %r" % (res,), i)
                if o[5] is not None:
                    views.append(None)
                continue
            if res[3] != e - s:
                fail("slice-length", "view[%r:%r] of %d bytes has len() %d, the clipped sub-range has %d" % (
                    o[2], o[3], n, res[3], e - s), i)
            if o[5] is not None:
                views.append(nv)                # (the probe is the sliced view's position: unchanged)
        elif kind == "tell":
            if res != ["int", pos]:
                fail("tell", "tell() gave %r at position %d" % (res, pos), i)
        elif kind == "len":
            if res != ["int", n]:
                fail("len", "len() gave %r for a view of %d bytes" % (res, n), i)
        elif kind == "address":
            if failed:                          # (its value is compared with the model only: not a file operation)
                fail("address-fails", "address of a live view gave %r" % (res,), i)
        elif kind == "flush":
            if failed:
                fail("flush-fails", "flush on a live view gave %r" % (res,), i)
        elif kind == "close" or kind == "exit":     # leaving a with block, however it is left, closes the view
            if failed:
                fail(kind + "-fails", "%s of a live view gave %r" % (kind, res), i)
            v["closed"] = True
            continue
        elif kind == "enter":
            if failed:
                fail("enter-fails", "entering a with block on a live view gave %r" % (res,), i)
        if probe is None:
            fail("live-view-fails", "tell() after %s on a live view failed" % label, i)
        elif probe != v["pos"]:
            fail("position-after-" + label, "tell() == %d after %s, the file's position is %d" % (
                probe, label, v["pos"]), i)
            v["pos"] = probe
    # the memory afterwards: the file inside the allocation, untouched outside
    exp = [data[a - base] if base <= a < base + total else memd[a] for a in range(c["lo"], c["lo"] + len(c["mem"]))]
    if out[2] != exp or out[3]:
        diff = [c["lo"] + j for j, (x, y) in enumerate(zip(out[2], exp)) if x != y] + list(out[3])
        outside = [a for a in diff if not (base <= a < base + total)]
        bad.append(("memory-outside-changed" if outside else "memory-differs",
                    "memory after the history differs from the file at addresses %r (allocation [%d, %d))" % (
                        diff[:8], base, base + total)))
    return bad


def features(c, out):
    f = set()
    ntransfer = 0
    for o, (res, nwarn, calls, probe, att) in zip(c["ops"], out[1]):
        if calls and calls[0][0] in "rw":
            ntransfer += 1
        if att:
            f.add("free-fault" if att[0][0] == "f" else "transport-fault")
        if is_drop(o):
            f.add("view-dropped")
        if res == ["err", 3]:
            f.add("truncation-raised")
        if len(o) > 1 and o[1] == "exit" and res == ["none"]:
            f.add("with-left-" + ("normally" if o[2] is None else "by-exception"))
        if nwarn:
            f.add("truncated")
        if res == ["err", 0]:
            f.add("dead-op")
        if probe is not None and probe < 0:
            f.add("negative-cursor")
        if len(o) > 1 and o[1] == "slice" and res[0] == "view":
            f.add("slice")
            if res[3] == 0:
                f.add("empty-slice")
            if o[0] > 0:
                f.add("slice-of-slice")
        if len(o) > 1 and o[1] == "seek" and o[3] == 2 and o[2] != 0:
            f.add("seek-end")
    if ntransfer:
        f.add("transfer")
    return f, ntransfer


# ------------------------------------------------------------------ the check
def run(chk, args):
    chk.trusted += ["the recording fake machine controller of harness/impl_c13.py (byte memory: read returns the "
                    "bytes last written, exactly `length` of them) stands for MachineController.read/write/"
                    "sdram_free, whose own behaviour is C07's subject"]
    chk.assumptions += ["start/end addresses, seek offsets, read counts and slice bounds are Python ints; written "
                        "data are bytes", "the controller's read returns exactly the number of bytes asked for",
                        "views are used from one thread",
                        "a transport fault is atomic: the (fake) controller's read/write/sdram_free either happens or "
                        "raises having done nothing (partial chunked writes are C07's subject)"]
    chk.regenerate(UNITS)
    built = chk.prove()
    corpus_path = lib.os.path.join(lib.VERIF, "corpus", "C13.json")
    if args.replay:
        rp = json.load(open(args.replay))
        cases = [f["replay"]["case"] for f in rp.get("failures", []) if "case" in f.get("replay", {})]
        cases += [b["replay"]["case"] for b in rp.get("no_longer_checks", []) if "case" in b.get("replay", {})]
    else:
        n = 3000 if chk.tier == "quick" else 40000
        cases = [gen_case(chk.rng, malformed=(i % 8 == 7)) for i in range(n)]
        if chk.tier != "quick":
            cases += enum_cases()
        if lib.os.path.exists(corpus_path):
            cases = json.load(open(corpus_path)) + cases
    # implementation
    chunks = [cases[i:i + 500] for i in range(0, len(cases), 500)]
    outs = [o for part in chk.impl_parallel("impl_c13.py", chunks) for o in part]
    keep = [i for i, o in enumerate(outs) if o[0] != "skipped"]
    cases, outs = [cases[i] for i in keep], [outs[i] for i in keep]
    reported = {}
    for c, o in zip(cases, outs):
        chk.count("kind:" + c.get("kind", "?"))
        chk.count("made-by:" + (c.get("via", "MemoryIO") + ("+context" if c.get("context") else "")))
        if o[0] == "ok":
            f, nt = features(c, o)
            for x in f:
                chk.count("cases-with:" + x)
            chk.count("len:%s" % ("0" if c["end"] <= c["start"] else "1-8" if c["end"] - c["start"] <= 8 else "9-40"))
            chk.count("ops", len(c["ops"]))
            for op in c["ops"]:
                chk.count("op:" + (op[0] if isinstance(op[0], str) else op[1]))
            chk.note_case(c, nt >= 1 and ("slice" in f or any(len(op) > 1 and op[1] == "seek" for op in c["ops"])))
        else:
            chk.note_case(c, False)
        seen = set()
        for key, why in oracle(c, o):
            if key in seen:
                continue
            seen.add(key)
            reported[key] = reported.get(key, 0) + 1
            chk.count("oracle:" + key)
            if reported[key] <= 5:              # a few replays per kind of failure are enough
                chk.fail_input(key, why, dict(case=c, observed=o))
    if cases:
        mid = len(cases) // 2
        chk.sample(dict(case=cases[mid], implementation=outs[mid]))
    # model
    if built and chk.model_ok and cases:
        try:
            header = ("From Coq Require Import ZArith List. Import ListNotations. Open Scope Z_scope.\n"
                      "Require Import Rig.Model.Base Rig.Model.MemIO.\n")
            vals = chk.coq_eval(header, [coq_case(c) for c in cases], shard=250)
            nops = 0
            for c, o, v in zip(cases, outs, vals):
                if o[0] != "ok":
                    continue
                chk.traces_validated += 1
                nops += len(c["ops"])
                cm, ci = canon_model(v), canon_impl(o, c["ops"])
                if cm != ci:
                    j = next((j for j, (x, y) in enumerate(zip(cm[0], ci[0])) if x != y), None)
                    kept = [op for op in c["ops"] if not is_drop(op)]
                    what = ("final memory differs" if j is None else
                            "op %r (number %d not counting drops): model %r, implementation %r" % (
                                kept[j], j, cm[0][j], ci[0][j]))
                    chk.disagree("MemoryIO history: " + what, dict(case=c, observed=o))
                    break
            else:
                chk.oblige("correspondence:memio (%d histories, %d operations: every return value, warning count, "
                           "exception class, controller access, access attempted when the transport failed, tell() after each "
                           "operation, final memory)"
                           % (chk.traces_validated, nops), True)
        except RuntimeError as e:
            chk.oblige("correspondence:model-evaluates", False, str(e))
    elif not built:
        chk.oblige("correspondence:model-evaluates", False, "Props/C13.vo did not build")
    chk.coverage["rule"] = ("random histories on MemoryIO(start, end) with length 0-40 (4% with end < start), any base "
                            "address, <= 25 operations drawn from seek (from start/current/end, offsets around "
                            "-len..len+3 and beyond), read (default, negative, 0..len+4), write (0..len+5 bytes), "
                            "slice (None/negative/reversed/out-of-range bounds, of any view created so far), "
                            "tell/len/address/flush, close, free, reads/writes during which the controller raises (8%) or "
                            "with TruncationWarning turned into an exception (6%), with-blocks entered and left "
                            "normally / by an exception; every 8th history also has bad from_what / "
                            "non-contiguous slices; preceded by the fixed histories of corpus/C13.json; thorough adds "
                            "every 3-operation history over a 24-operation alphabet on lengths 0-3. non-trivial = "
                            "at least one controller transfer and at least one seek or slice; distinct by hash of "
                            "the whole history")
