"""A simulated SpiNNaker machine for property C09 (application loading).  Runs under /venv/bin/python;
self-contained: nothing of rig is imported here.  The wire layout of SCP datagrams, the command numbers,
the nearest-neighbour flood-fill packet fields, the signal fields, the region words and the sv / vcpu
offsets are written down here from the SC&MP / SARK documentation, independently of rig's packets.py,
consts.py, regions.py and of the Gallina model (coq/Model/Load.v), whose machine semantics the trace
validator of harness/c09.py compares with this simulator reply by reply.

Ground truth (`spec`), all integers:
  buffer   SCP data buffer size reported by sver
  base     sv->sdram_sys (where a flood-filled image is assembled)
  vcpu     sv->vcpu_base (default)
  vcpus    [[x, y, vcpu_base], ...]    optional: chips whose sv->vcpu_base differs from the default
  chips    [[x, y, [[state, app_id, [image bytes]] * 18]], ...]
  sched    [[[x, y], ...], ...]   for the k-th flood fill (k-th FFS received) the chips that miss it:
                                  such a chip ignores every packet of that fill (an exhausted schedule
                                  means nobody misses)

Documented command semantics implemented (everything else is answered RC_CMD):
  sver (0)       arg1 = p2p address / cpus, arg2 = (version << 16) | buffer, data = b"SC&MP/SpiNNaker"
  read (2)       arg1 = address, arg2 = length <= buffer; memory of the chip: the sv struct (sdram_sys,
                 vcpu_base), the vcpu blocks (cpu_state, app_id per core), zero elsewhere; (255, 255) is
                 answered by the first chip
  nnp (20)       arg1[31:24] = NN command:
                   FFS 6   arg1[23:16] = fill id, arg1[15:8] = announced number of blocks: every chip that
                           does not miss this fill starts a new fill (forgetting an unfinished one)
                   FFCS 7  arg1[17:0] = core mask, arg2 = region word: a chip inside the region ORs the
                           mask into the fill's core selection
                   FFE 15  arg1[7:0] = fill id, arg2[31:24] = app id, arg2[23:18] = flags (bit 0 = wait):
                           a chip whose current fill has this id, received exactly the announced number
                           of blocks and saw no error copies the assembled image to every selected core,
                           which then runs under the app id (state `wait` when the wait flag is set, else
                           `run`); in any case the fill is over
  ffd (23)       arg1[7:0] = fill id, arg2[23:16] = block number, arg2[15:8] = number of words - 1,
                 arg3 = load address, data: a chip whose current fill has this id accepts the block when it
                 is the next one (0, 1, 2, ...), its address continues the image and the packet holds the
                 announced number of words; anything else marks the fill as failed
  signal (22)    arg1 = 1 (point to point, diagnostic): arg2[21:20] = 2 counts the cores whose state is
                 arg2[19:16] and whose app id agrees with arg2[7:0] under the mask arg2[15:8]; reply arg1
                 arg1 = 0 / 2 (multicast / nearest neighbour): signal arg2[23:16]; `start` (3) moves every
                 core in `wait` whose app id agrees with arg2[7:0] under the mask arg2[15:8] to `run`
                 (other signals are accepted and have no effect here)
"""
import struct
import zlib

CMD_VER, CMD_READ, CMD_NNP, CMD_SIG, CMD_FFD = 0, 2, 20, 22, 23
RC_OK, RC_LEN, RC_CMD, RC_ROUTE = 0x80, 0x81, 0x83, 0x87
NN_FFS, NN_FFCS, NN_FFE = 6, 7, 15
STATE_WAIT, STATE_RUN = 5, 7
SIG_START = 3
SV_BASE = 0xf5007f00
SV_SDRAM_SYS = 0xc8
SV_VCPU_BASE = 0xcc
VCPU_SIZE = 128
VCPU_CPU_STATE = 0x2e
VCPU_APP_ID = 0x2f
N_CORES = 18


def in_region(region, x, y):
    """Is chip (x, y) inside the region denoted by the 32-bit region word?  ("Managing Big SpiNNaker
    Machines": level in bits 17:16, block corner in bits 31:24 / 23:18, sixteen sub-block bits.)"""
    level = (region >> 16) & 3
    shift = 6 - 2 * level                  # log2 of the side of a sub-block
    side = 4 << shift                      # side of the block
    bx = (region >> 24) & 0xff
    by = (region >> 16) & 0xfc
    if x < bx or x >= bx + side or y < by or y >= by + side:
        return False
    if bx % side or by % side:
        return False
    bit = ((x >> shift) & 3) + 4 * ((y >> shift) & 3)
    return bool((region >> bit) & 1)


class Fill(object):
    def __init__(self, pid, n, addr):
        self.pid, self.n, self.mask = pid, n, 0
        self.next, self.addr, self.data, self.err = 0, addr, bytearray(), False


class SimMachine(object):
    def __init__(self, spec):
        self.buffer = spec["buffer"]
        self.base = spec["base"]
        self.vcpu = spec["vcpu"]
        self.vcpus = {(x, y): v for x, y, v in spec.get("vcpus", [])}
        self.order = [(x, y) for x, y, _ in spec["chips"]]
        self.cores = {(x, y): [[s, a, bytes(bytearray(img))] for s, a, img in cs] for x, y, cs in spec["chips"]}
        self.fills = {c: None for c in self.order}
        self.sched = [set(tuple(c) for c in miss) for miss in spec.get("sched", [])]
        self.deaf = set()
        self.log = []          # every request, decoded from the wire, with the reply's arg1 and data
        self.fill_log = []     # per FFS: the chips that missed it and a summary of every core just before

    # ------------------------------------------------------------------ observation
    def snapshot(self):
        return [[x, y, [[s, a, list(bytearray(img))] for s, a, img in self.cores[(x, y)]]] for x, y in self.order]

    def summary(self):
        """[x, y, [[state, app, crc32(image), len(image)] * 18]] for every chip (cheap ground truth)"""
        return [[x, y, [[s, a, zlib.crc32(img) & 0xffffffff, len(img)] for s, a, img in self.cores[(x, y)]]]
                for x, y in self.order]

    # ------------------------------------------------------------------ memory
    def read(self, chip, addr, n):
        vcpu = self.vcpus.get(chip, self.vcpu)
        out = bytearray(n)
        sv = struct.pack("<I", self.base), struct.pack("<I", vcpu)
        for i in range(n):
            a = addr + i
            if SV_BASE + SV_SDRAM_SYS <= a < SV_BASE + SV_SDRAM_SYS + 4:
                out[i] = bytearray(sv[0])[a - SV_BASE - SV_SDRAM_SYS]
            elif SV_BASE + SV_VCPU_BASE <= a < SV_BASE + SV_VCPU_BASE + 4:
                out[i] = bytearray(sv[1])[a - SV_BASE - SV_VCPU_BASE]
            elif vcpu <= a < vcpu + VCPU_SIZE * N_CORES:
                p, off = divmod(a - vcpu, VCPU_SIZE)
                if off == VCPU_CPU_STATE:
                    out[i] = self.cores[chip][p][0] & 0xff
                elif off == VCPU_APP_ID:
                    out[i] = self.cores[chip][p][1] & 0xff
        return bytes(out)

    # ------------------------------------------------------------------ flood fill
    def listening(self):
        return [c for c in self.order if c not in self.deaf]

    def nn(self, a1, a2, a3):
        op = (a1 >> 24) & 0xff
        if op == NN_FFS:
            self.deaf = self.sched.pop(0) if self.sched else set()
            self.fill_log.append(dict(missed=sorted(self.deaf), before=self.summary()))
            for c in self.listening():
                self.fills[c] = Fill((a1 >> 16) & 0xff, (a1 >> 8) & 0xff, self.base)
        elif op == NN_FFCS:
            for c in self.listening():
                f = self.fills[c]
                if f is not None and in_region(a2, c[0], c[1]):
                    f.mask |= a1 & 0x3ffff
        elif op == NN_FFE:
            pid, app, flags = a1 & 0xff, (a2 >> 24) & 0xff, (a2 >> 18) & 0x3f
            for c in self.listening():
                f = self.fills[c]
                self.fills[c] = None
                if f is not None and f.pid == pid and not f.err and f.next == f.n:
                    image = bytes(f.data)
                    for p in range(N_CORES):
                        if (f.mask >> p) & 1:
                            self.cores[c][p] = [STATE_WAIT if flags & 1 else STATE_RUN, app, image]

    def ffd(self, a1, a2, a3, data):
        pid, block, words = a1 & 0xff, (a2 >> 16) & 0xff, ((a2 >> 8) & 0xff) + 1
        for c in self.listening():
            f = self.fills[c]
            if f is None or f.pid != pid:
                continue
            if block == f.next and a3 == f.addr and len(data) >= 4 * words:
                f.data += data[:4 * words]
                f.next += 1
                f.addr += 4 * words
            else:
                f.err = True

    # ------------------------------------------------------------------ signals
    def signal(self, a1, a2, a3):
        mask, app = (a2 >> 8) & 0xff, a2 & 0xff
        match = lambda core: (core[1] & mask) == (app & mask)
        if a1 == 1:
            if (a2 >> 20) & 3 == 2:
                state = (a2 >> 16) & 0xf
                return sum(1 for c in self.order for core in self.cores[c] if core[0] == state and match(core))
            return 0
        if (a2 >> 16) & 0xff == SIG_START:
            for c in self.order:
                for core in self.cores[c]:
                    if core[0] == STATE_WAIT and match(core):
                        core[0] = STATE_RUN
        return 0

    # ------------------------------------------------------------------ one datagram
    def handle(self, dgram):
        """-> list of reply datagrams"""
        if len(dgram) < 14:
            return []
        flags, tag, dpc, spc, dy, dx, sy, sx = struct.unpack_from("<8B", dgram, 2)
        cmd, seq = struct.unpack_from("<2H", dgram, 10)
        body = dgram[14:]
        args = list(struct.unpack_from("<3I", body + b"\0" * 12, 0))
        data = bytes(body[12:])
        p = dpc & 0x1f

        def reply(rc, rargs=(), rdata=b""):
            hdr = struct.pack("<2x8B", 0x07, tag, spc, dpc, sy, sx, dy, dx)
            return [hdr + struct.pack("<2H", rc, seq) + b"".join(struct.pack("<I", a & 0xffffffff) for a in rargs)
                    + rdata]
        entry = [dx, dy, p, cmd, args[0], args[1], args[2], list(bytearray(data)), 0, []]
        self.log.append(entry)
        if (dx, dy) == (255, 255):
            chip = self.order[0] if self.order else None
        else:
            chip = (dx, dy)
        if chip not in self.cores:
            entry[8] = -1
            return reply(RC_ROUTE)
        if cmd == CMD_VER:
            entry[8] = self.buffer
            return reply(RC_OK, ((chip[0] << 24) | (chip[1] << 16) | p, (133 << 16) | self.buffer, 1400000000),
                         b"SC&MP/SpiNNaker\0")
        if cmd == CMD_READ:
            if args[1] > self.buffer:
                entry[8] = -1
                return reply(RC_LEN)
            out = self.read(chip, args[0], args[1])
            entry[9] = list(bytearray(out))
            return reply(RC_OK, (), out)
        if cmd == CMD_NNP:
            self.nn(*args)
            return reply(RC_OK, (0, 0, 0))
        if cmd == CMD_FFD:
            self.ffd(args[0], args[1], args[2], data)
            return reply(RC_OK, (0, 0, 0))
        if cmd == CMD_SIG:
            n = self.signal(*args)
            entry[8] = n
            return reply(RC_OK, (n, 0, 0))
        entry[8] = -1
        return reply(RC_CMD)


# ---------------------------------------------------------------------- fakes for scp_connection
class FakeSocket(object):
    def __init__(self, net):
        self.net = net

    def connect(self, addr):
        pass

    def setblocking(self, flag):
        pass

    def settimeout(self, t):
        pass

    def fileno(self):
        return 99

    def close(self):
        pass

    def send(self, data):
        self.net.queue.extend(self.net.machine.handle(bytes(data)))
        return len(data)

    def recv(self, n):
        if not self.net.queue:
            raise BlockingIOError()
        return self.net.queue.pop(0)[:n]


class Net(object):
    """Stands in for the modules `socket`, `select`, `time` as seen by rig.machine_control.scp_connection
    (and for `time` as seen by machine_controller): requests are answered at once by the simulated machine,
    the clock is virtual."""
    AF_INET = 2
    SOCK_DGRAM = 2
    error = OSError

    def __init__(self, machine):
        self.machine = machine
        self.queue = []
        self.now = 1000.0

    def socket(self, *a, **k):
        return FakeSocket(self)

    def select(self, r, w, x, timeout=None):
        if self.queue:
            return (list(r), [], [])
        self.now += (timeout or 0.0) + 1e-3
        return ([], [], [])

    def time(self):
        return self.now

    def sleep(self, dt):
        self.now += dt

    def install(self, scp_connection_module, machine_controller_module):
        scp_connection_module.socket = self
        scp_connection_module.select = self
        scp_connection_module.time = self
        machine_controller_module.time = self
