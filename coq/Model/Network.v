(* Executable model of a SpiNNaker machine executing multicast routing tables: what happens to ONE packet
   with a given key injected at a chip.  Definitions only; proofs are in Proofs/Network*.v.

   This is a model of the HARDWARE (the thing rig's tables are loaded into), not of rig code, so its
   constants are fixed here and not regenerated:
     - link l in 0..5 of chip (x, y) leads to ((x + dx) mod w, (y + dy) mod h) with (dx, dy) = [link_vec l]
       (east, north-east, north, west, south-west, south) and is entered on the far side through port
       [opposite l] = (l + 3) mod 6;
     - bit b of an entry's route word: b in 0..5 sends a copy down link b, b in 6..23 delivers a copy to
       core b - 6 of the chip; higher bits do not exist;
     - a packet that matches no entry of a chip's table is "default routed": if it came in through link l
       it leaves through [opposite l]; if it was injected by a core of the chip it is dropped.
   That rig's Links / Routes enumerations use exactly this numbering is proved, against the enumerations
   dumped from the live modules on every run (Generated/GenNetwork.v), in Proofs/Network.v
   ([rig_numbering_is_hardware]).

   The tables are those of Model/Table.v ([entry], [lookup] = first entry with  k land mask = key);
   [tables] is an association list chip -> table, the first binding of a chip counts, a chip without a
   binding has the empty table.

   A link named in [endpoints] (the links of the net's route-endpoint sinks) is where the packet leaves
   the machine towards an external device: a copy sent down it is recorded and not propagated, and the
   link need not be live. *)
From Coq Require Import ZArith List Bool.
Require Import Rig.Model.Base Rig.Model.Table.
Import ListNotations.
Open Scope Z_scope.

Record nmachine := { n_width : Z; n_height : Z; n_dead_chips : list chip; n_dead_links : list (chip * Z) }.

(* ------------------------------------------------------------------------------------------------ *)
(** * Geometry and route words *)

Definition link_vec (l : Z) : Z * Z :=
  if l =? 0 then (1, 0) else if l =? 1 then (1, 1) else if l =? 2 then (0, 1)
  else if l =? 3 then (-1, 0) else if l =? 4 then (-1, -1) else (0, -1).

Definition opposite (l : Z) : Z := (l + 3) mod 6.

Definition neighbour (m : nmachine) (c : chip) (l : Z) : chip :=
  ((fst c + fst (link_vec l)) mod n_width m, (snd c + snd (link_vec l)) mod n_height m).

Definition link_ids : list Z := [0; 1; 2; 3; 4; 5].
Definition core_bits : list Z := [6; 7; 8; 9; 10; 11; 12; 13; 14; 15; 16; 17; 18; 19; 20; 21; 22; 23].

(* the links / cores named by a route word, in increasing order *)
Definition route_links (r : Z) : list Z := filter (Z.testbit r) link_ids.
Definition route_cores (r : Z) : list Z := map (fun b => b - 6) (filter (Z.testbit r) core_bits).

Definition table_at (tables : list (chip * table)) (c : chip) : table :=
  match cassoc c tables with Some t => t | None => [] end.

(* The route word applied to a packet with key [key] at chip [c] that arrived through [arrival]
   ([None] = injected by a core of [c]); [None] = the packet is dropped. *)
Definition route_at (tables : list (chip * table)) (key : Z) (c : chip) (arrival : option Z) : option Z :=
  match lookup (table_at tables c) key with
  | Some e => Some (e_route e)
  | None =>
      match arrival with
      | Some l => Some (Z.shiftl 1 (opposite l))
      | None => None
      end
  end.

Definition cl_eqb (a b : chip * Z) : bool := chip_eqb (fst a) (fst b) && (snd a =? snd b).
Definition cl_mem (x : chip * Z) (l : list (chip * Z)) : bool := existsb (cl_eqb x) l.

(* ------------------------------------------------------------------------------------------------ *)
(** * Propagation *)

(* The copies sent down the links [ls] of chip [c]: [None] if one of them is sent down a dead link or to a
   dead chip, else (endpoint links left through, packets arriving at neighbours). *)
Fixpoint send_links (m : nmachine) (endpoints : list (chip * Z)) (c : chip) (ls : list Z)
  : option (list (chip * Z) * list (chip * option Z)) :=
  match ls with
  | [] => Some ([], [])
  | l :: ls' =>
      match send_links m endpoints c ls' with
      | None => None
      | Some (es, fr) =>
          if cl_mem (c, l) endpoints then Some ((c, l) :: es, fr)
          else if cl_mem (c, l) (n_dead_links m) then None
          else if chip_mem (neighbour m c l) (n_dead_chips m) then None
          else Some (es, (neighbour m c l, Some (opposite l)) :: fr)
      end
  end.

(* Work-list propagation of the packets of [frontier] (chip, arrival port).  One unit of fuel per packet
   copy processed.  Result: (cores that received a copy, with multiplicity; endpoint links left through,
   with multiplicity), or [None] if a copy was dropped, sent down a dead link or to a dead chip, or the
   fuel ran out (which is what happens when a packet circulates). *)
Fixpoint run (fuel : nat) (m : nmachine) (tables : list (chip * table)) (key : Z)
         (endpoints : list (chip * Z)) (frontier : list (chip * option Z)) {struct fuel}
  : option (list (chip * Z) * list (chip * Z)) :=
  match frontier with
  | [] => Some ([], [])
  | (c, a) :: rest =>
      match fuel with
      | O => None
      | S f =>
          match route_at tables key c a with
          | None => None
          | Some r =>
              match send_links m endpoints c (route_links r) with
              | None => None
              | Some (es, fr) =>
                  match run f m tables key endpoints (fr ++ rest) with
                  | None => None
                  | Some (ds', es') => (Some (map (pair c) (route_cores r) ++ ds', es ++ es'))
                  end
              end
          end
      end
  end.

(* ------------------------------------------------------------------------------------------------ *)
(** * The checker *)

Fixpoint cl_nodup (l : list (chip * Z)) : bool :=
  match l with [] => true | x :: l' => negb (cl_mem x l') && cl_nodup l' end.

(* both lists duplicate free, same length, every member of [a] in [b]: equal as sets *)
Definition cl_same_set (a b : list (chip * Z)) : bool :=
  cl_nodup a && cl_nodup b && (Nat.eqb (length a) (length b)) && forallb (fun x => cl_mem x b) a.

Definition delivery_fuel (m : nmachine) : nat := Z.to_nat (8 * n_width m * n_height m + 16).

(* A packet with [key] injected at chip [src] reaches exactly the cores [cores] (each once), leaves exactly
   through the endpoint links [links] (each once), and nothing else happens to it. *)
Definition check_delivery (m : nmachine) (tables : list (chip * table)) (key : Z) (src : chip)
           (cores : list (chip * Z)) (links : list (chip * Z)) : bool :=
  match run (delivery_fuel m) m tables key links [(src, None)] with
  | Some (ds, es) => cl_same_set ds cores && cl_same_set es links
  | None => false
  end.

(* ------------------------------------------------------------------------------------------------ *)
(** * Routing trees (the shape of rig's RoutingTree, per chip) and a checker for them *)

(* The node of chip [c]: the cores of [c] that are sinks, the endpoint links taken at [c], and the
   subtrees with the link that leads to each. *)
Inductive rtree := RNode (c : chip) (cores : list Z) (exits : list Z) (children : list (Z * rtree)).

Definition root (t : rtree) : chip := match t with RNode c _ _ _ => c end.

Definition kids_flat {A} (f : rtree -> list A) : list (Z * rtree) -> list A :=
  fix go (ks : list (Z * rtree)) : list A :=
    match ks with [] => [] | (_, t) :: ks' => f t ++ go ks' end.

Fixpoint tree_cores (t : rtree) : list (chip * Z) :=
  match t with RNode c cores _ kids => map (pair c) cores ++ kids_flat (fun t' => tree_cores t') kids end.
Fixpoint tree_exits (t : rtree) : list (chip * Z) :=
  match t with RNode c _ exits kids => map (pair c) exits ++ kids_flat (fun t' => tree_exits t') kids end.

Definition kids_allb (p : Z -> rtree -> bool) : list (Z * rtree) -> bool :=
  fix go (ks : list (Z * rtree)) : bool :=
    match ks with [] => true | (l, t) :: ks' => p l t && go ks' end.

Definition z_same_set (a b : list Z) : bool :=
  znodup a && znodup b && Nat.eqb (length a) (length b) && forallb (fun x => zmem x b) a.

(* boolean version of Spec/Network.tree_ok *)
Fixpoint tree_okb (m : nmachine) (tables : list (chip * table)) (key : Z) (endpoints : list (chip * Z))
         (arrival : option Z) (t : rtree) {struct t} : bool :=
  match t with
  | RNode c cores exits kids =>
      match route_at tables key c arrival with
      | None => false
      | Some r =>
          z_same_set (route_cores r) cores
          && z_same_set (route_links r) (exits ++ map fst kids)
          && forallb (fun l => cl_mem (c, l) endpoints) exits
          && kids_allb (fun l t' =>
                          negb (cl_mem (c, l) endpoints) && negb (cl_mem (c, l) (n_dead_links m))
                          && chip_eqb (root t') (neighbour m c l)
                          && negb (chip_mem (root t') (n_dead_chips m))
                          && tree_okb m tables key endpoints (Some (opposite l)) t') kids
      end
  end.
