(* C10 -- proofs about Model/Tables.v, part 2: the tables are what the visits say *)
From Coq Require Import ZArith List Bool Lia.
Require Import Rig.Model.Base Rig.Generated.GenRouter Rig.Model.Tables Rig.Spec.Tables Rig.Proofs.Tables.
Import ListNotations.
Open Scope Z_scope.

(* ------------------------------------------------------------------------------------------------ *)
(** * equality tests, sets *)

Lemma t_chip_eqb_eq : forall a b : chip, chip_eqb a b = true <-> a = b.
Proof.
  intros [a1 a2] [b1 b2]. unfold chip_eqb. cbn [fst snd]. rewrite andb_true_iff, !Z.eqb_eq.
  split; [intros [-> ->]; reflexivity|intros H; injection H; auto].
Qed.

Lemma t_chip_eqb_refl : forall a, chip_eqb a a = true.
Proof. intros. apply t_chip_eqb_eq. reflexivity. Qed.

Lemma t_chip_eqb_neq : forall a b : chip, a <> b -> chip_eqb a b = false.
Proof. intros a b H. destruct (chip_eqb a b) eqn:E; [apply t_chip_eqb_eq in E; contradiction|reflexivity]. Qed.

Lemma km_eqb_eq : forall a b : km, km_eqb a b = true <-> a = b.
Proof.
  intros [a1 a2] [b1 b2]. unfold km_eqb. cbn [fst snd]. rewrite andb_true_iff, !Z.eqb_eq.
  split; [intros [-> ->]; reflexivity|intros H; injection H; auto].
Qed.

Lemma km_eqb_refl : forall a, km_eqb a a = true.
Proof. intros. apply km_eqb_eq. reflexivity. Qed.

Lemma km_eqb_neq : forall a b : km, a <> b -> km_eqb a b = false.
Proof. intros a b H. destruct (km_eqb a b) eqn:E; [apply km_eqb_eq in E; contradiction|reflexivity]. Qed.

Lemma zlist_eqb_eq : forall a b, zlist_eqb a b = true <-> a = b.
Proof.
  induction a as [|x a IH]; intros [|y b]; simpl; split; intros H; try reflexivity; try discriminate.
  - apply andb_prop in H. destruct H as [H1 H2]. apply Z.eqb_eq in H1. apply IH in H2. subst. reflexivity.
  - injection H as -> ->. rewrite Z.eqb_refl. apply IH. reflexivity.
Qed.

Lemma set_add_In : forall x y s, In x (set_add y s) <-> x = y \/ In x s.
Proof.
  intros x y s. induction s as [|z s IH]; simpl.
  - intuition.
  - destruct (y <? z); [simpl; intuition|].
    destruct (Z.eqb_spec y z) as [->|Hne]; simpl; [intuition|]. rewrite IH. intuition.
Qed.

Lemma set_of_list_In : forall l x, In x (set_of_list l) <-> In x l.
Proof.
  induction l as [|y l IH]; intros x; simpl; [reflexivity|].
  rewrite set_add_In, IH. intuition.
Qed.

(* the out set of a node: the routes of the children that have one *)
Lemma out_set_In : forall kids r, In r (out_set kids) <-> exists t, In (Some r, t) kids.
Proof.
  intros kids r. unfold out_set. rewrite set_of_list_In. unfold kid_routes. rewrite in_flat_map. split.
  - intros [[o t] [Hin Hr]]. cbn [fst] in Hr. destruct o as [r'|]; [|contradiction].
    destruct Hr as [->|[]]. exists t. exact Hin.
  - intros [t Hin]. exists (Some r, t). split; [exact Hin|left; reflexivity].
Qed.

(* ------------------------------------------------------------------------------------------------ *)
(** * the ordered dictionaries *)

Definition cm_of (rs : rstate) (c : chip) : kmmap := match cassoc c rs with Some m => m | None => [] end.

Lemma cassoc_cset_same : forall (l : rstate) c v, cassoc c (cset c v l) = Some v.
Proof.
  induction l as [|[c' v'] l IH]; intros c v; simpl; [rewrite t_chip_eqb_refl; reflexivity|].
  destruct (chip_eqb c c') eqn:E; simpl; rewrite ?t_chip_eqb_refl, ?E; [reflexivity|apply IH].
Qed.

Lemma cassoc_cset_other : forall (l : rstate) c c2 v, c2 <> c -> cassoc c2 (cset c v l) = cassoc c2 l.
Proof.
  induction l as [|[c' v'] l IH]; intros c c2 v H; simpl.
  - rewrite t_chip_eqb_neq by exact H. reflexivity.
  - destruct (chip_eqb c c') eqn:E; simpl.
    + apply t_chip_eqb_eq in E. subst c'. rewrite t_chip_eqb_neq by exact H. reflexivity.
    + destruct (chip_eqb c2 c'); [reflexivity|apply IH; exact H].
Qed.

Lemma cset_keys : forall (l : rstate) c v,
  map fst (cset c v l) = if existsb (chip_eqb c) (map fst l) then map fst l else map fst l ++ [c].
Proof.
  induction l as [|[c' v'] l IH]; intros c v; simpl; [reflexivity|].
  destruct (chip_eqb c c') eqn:E; simpl.
  - apply t_chip_eqb_eq in E. subst. reflexivity.
  - rewrite IH. destruct (existsb (chip_eqb c) (map fst l)); reflexivity.
Qed.

Lemma kmassoc_kmset_same : forall (l : kmmap) k v, kmassoc k (kmset k v l) = Some v.
Proof.
  induction l as [|[k' v'] l IH]; intros k v; simpl; [rewrite km_eqb_refl; reflexivity|].
  destruct (km_eqb k k') eqn:E; simpl; rewrite ?km_eqb_refl, ?E; [reflexivity|apply IH].
Qed.

Lemma kmassoc_kmset_other : forall (l : kmmap) k k2 v, k2 <> k -> kmassoc k2 (kmset k v l) = kmassoc k2 l.
Proof.
  induction l as [|[k' v'] l IH]; intros k k2 v H; simpl.
  - rewrite km_eqb_neq by exact H. reflexivity.
  - destruct (km_eqb k k') eqn:E; simpl.
    + apply km_eqb_eq in E. subst k'. rewrite km_eqb_neq by exact H. reflexivity.
    + destruct (km_eqb k2 k'); [reflexivity|apply IH; exact H].
Qed.

Lemma kmset_keys : forall (l : kmmap) k v,
  map fst (kmset k v l) = if existsb (km_eqb k) (map fst l) then map fst l else map fst l ++ [k].
Proof.
  induction l as [|[k' v'] l IH]; intros k v; simpl; [reflexivity|].
  destruct (km_eqb k k') eqn:E; simpl.
  - apply km_eqb_eq in E. subst. reflexivity.
  - rewrite IH. destruct (existsb (km_eqb k) (map fst l)); reflexivity.
Qed.

Lemma cm_of_cset_same : forall rs c v, cm_of (cset c v rs) c = v.
Proof. intros. unfold cm_of. rewrite cassoc_cset_same. reflexivity. Qed.

Lemma cm_of_cset_other : forall rs c c2 v, c2 <> c -> cm_of (cset c v rs) c2 = cm_of rs c2.
Proof. intros. unfold cm_of. rewrite cassoc_cset_other by assumption. reflexivity. Qed.

(* ------------------------------------------------------------------------------------------------ *)
(** * first occurrences *)

Lemma first_occ_snoc : forall {A} (eqb : A -> A -> bool) l x,
  first_occ eqb (l ++ [x])
  = if existsb (eqb x) (first_occ eqb l) then first_occ eqb l else first_occ eqb l ++ [x].
Proof. intros. unfold first_occ. rewrite fold_left_app. reflexivity. Qed.

Lemma first_occ_NoDup : forall {A} (eqb : A -> A -> bool) l,
  (forall a b, eqb a b = true <-> a = b) -> NoDup (first_occ eqb l).
Proof.
  intros A eqb l Heq. induction l as [|x l IH] using rev_ind; [constructor|].
  rewrite first_occ_snoc. destruct (existsb (eqb x) (first_occ eqb l)) eqn:E; [exact IH|].
  apply NoDup_app_snoc || idtac.
  assert (Hnin : ~ In x (first_occ eqb l)).
  { intros Hin. assert (existsb (eqb x) (first_occ eqb l) = true).
    { apply existsb_exists. exists x. split; [exact Hin|apply Heq; reflexivity]. }
    congruence. }
  clear E. revert Hnin IH. generalize (first_occ eqb l). intros m. induction m as [|y m IHm]; intros Hnin Hnd.
  - constructor; [intros []|constructor].
  - inversion Hnd as [|? ? Hy Hm]; subst. simpl. constructor.
    + rewrite in_app_iff. intros [H|[H|[]]]; [contradiction|]. subst. apply Hnin. left. reflexivity.
    + apply IHm; [intros H; apply Hnin; right; exact H|exact Hm].
Qed.

(* ------------------------------------------------------------------------------------------------ *)
(** * the fold over visits *)

Fixpoint kfold (vs : list kvisit) (rs : rstate) : tres rstate :=
  match vs with
  | [] => ROk rs
  | v :: vs' =>
      match visit_step (fst (kv_km v)) (snd (kv_km v)) (snd v) rs with
      | ROk rs' => kfold vs' rs'
      | e => e
      end
  end.

Lemma kfold_app : forall a b rs,
  kfold (a ++ b) rs = match kfold a rs with ROk rs' => kfold b rs' | e => e end.
Proof.
  induction a as [|v a IH]; intros b rs; [reflexivity|].
  cbn [app kfold]. destruct (visit_step _ _ _ rs); try reflexivity. apply IH.
Qed.

Lemma visits_fold_kfold : forall vs key mask rs,
  visits_fold key mask vs rs = kfold (map (fun v => ((key, mask), v)) vs) rs.
Proof.
  induction vs as [|v vs IH]; intros key mask rs; [reflexivity|].
  cbn [visits_fold map kfold kv_km fst snd]. destruct (visit_step key mask v rs); try reflexivity. apply IH.
Qed.

Lemma tres_eta : forall (r : tres rstate), match r with ROk a => ROk a | e => e end = r.
Proof. intros []; reflexivity. Qed.

Lemma nets_fold_kfold : forall routes net_keys rs,
  inputs_ok routes net_keys -> nets_fold net_keys routes rs = kfold (all_visits routes net_keys) rs.
Proof.
  induction routes as [|[n t] routes IH]; intros net_keys rs H; [reflexivity|].
  inversion H as [|? ? [[k Hk] [Hn Hw]] Hrest]; subst. cbn [fst snd] in Hk, Hn, Hw.
  cbn [nets_fold]. unfold all_visits. cbn [flat_map fst snd]. fold (all_visits routes net_keys).
  rewrite Hk. destruct k as [key mask].
  destruct t as [c kids|v]; [|contradiction].
  unfold tree_fold. rewrite (traverse_bfs (TNode c kids) Hn Hw). cbn [fst snd].
  rewrite kfold_app, <- visits_fold_kfold.
  destruct (visits_fold key mask (bfs_order (TNode c kids)) rs); try reflexivity.
  apply IH. exact Hrest.
Qed.

(* ------------------------------------------------------------------------------------------------ *)
(** * directions *)

Definition dir_ok (d : Z) : Prop := d = none_dir \/ 0 <= d < 6.

Lemma in_direction_ok : forall d, dir_ok d -> exists s, in_direction d = Some s.
Proof.
  intros d [->|H]; [exists none_dir; reflexivity|].
  assert (E : d = 0 \/ d = 1 \/ d = 2 \/ d = 3 \/ d = 4 \/ d = 5) by lia.
  destruct E as [->|[->|[->|[->|[->| ->]]]]]; eexists; reflexivity.
Qed.

Lemma kid_q_In : forall k r t, In (r, t) (kid_q k) -> k = (Some r, t) /\ is_node t.
Proof.
  intros [o t'] r t H. unfold kid_q in H. cbn [fst snd] in H.
  destruct o as [r'|]; [|contradiction]. destruct t' as [c ks|v]; [|contradiction].
  destruct H as [H|[]]. injection H as <- <-. split; [reflexivity|exact I].
Qed.

Lemma level_dirs : forall n d t v, wf_tree t -> dir_ok d -> In v (level n d t) -> dir_ok (fst (fst v)).
Proof.
  induction n as [|n IH]; intros d t v Hw Hd Hin.
  - destruct t as [c kids|x]; [|contradiction]. destruct Hin as [<-|[]]. exact Hd.
  - destruct t as [c kids|x]; [|contradiction].
    rewrite level_S_node in Hin. unfold qlevel in Hin. apply in_flat_map in Hin.
    destruct Hin as [[r t'] [Hq Hin]]. cbn [fst snd] in Hin.
    unfold kids_q in Hq. apply in_flat_map in Hq. destruct Hq as [k [Hk Hq]].
    apply kid_q_In in Hq. destruct Hq as [-> Hnode].
    apply wf_tree_node in Hw. rewrite Forall_forall in Hw. destruct (Hw _ Hk) as [Hko Hwt].
    cbn [snd] in Hwt. unfold kid_ok in Hko. cbn [fst snd] in Hko.
    destruct t' as [c' ks'|x]; [|contradiction].
    destruct Hko as [d' [Hd' Hr]]. injection Hd' as <-.
    apply (IH r (TNode c' ks') v Hwt); [right; exact Hr|exact Hin].
Qed.

Lemma all_visits_dirs : forall routes net_keys v,
  inputs_ok routes net_keys -> In v (all_visits routes net_keys) -> exists s, arrival v = Some s.
Proof.
  intros routes net_keys v H Hin. unfold all_visits in Hin. apply in_flat_map in Hin.
  destruct Hin as [[n t] [Hnt Hin]]. unfold inputs_ok in H. rewrite Forall_forall in H.
  destruct (H _ Hnt) as [[k Hk] [Hn Hw]]. cbn [fst snd] in *. rewrite Hk in Hin.
  apply in_map_iff in Hin. destruct Hin as [w [<- Hw']].
  unfold bfs_order in Hw'. apply in_flat_map in Hw'. destruct Hw' as [i [_ Hl]].
  unfold arrival, kv_dir. cbn [snd]. apply in_direction_ok.
  apply (level_dirs i none_dir t w Hw); [left; reflexivity|exact Hl].
Qed.

(* ------------------------------------------------------------------------------------------------ *)
(** * the invariant *)

Definition at_chip (c : chip) (v : kvisit) : bool := chip_eqb (kv_chip v) c.

Record Inv (V : list kvisit) (rs : rstate) : Prop := {
  inv_chips : map fst rs = first_occ chip_eqb (map kv_chip V);
  inv_kms : forall c, map fst (cm_of rs c) = first_occ km_eqb (map kv_km (filter (at_chip c) V));
  inv_some : forall c k ins outs, kmassoc k (cm_of rs c) = Some (ins, outs) ->
      (forall v, In v V -> at_place c k v -> outs = kv_outs v)
      /\ (forall s, In s ins <-> exists v, In v V /\ at_place c k v /\ arrival v = Some s)
      /\ (exists v, In v V /\ at_place c k v);
  inv_none : forall c k, kmassoc k (cm_of rs c) = None -> forall v, In v V -> ~ at_place c k v
}.

Lemma Inv_nil : Inv [] [].
Proof.
  constructor.
  - reflexivity.
  - intros c. reflexivity.
  - intros c k ins outs H. discriminate.
  - intros c k _ v [].
Qed.

Lemma at_place_dec : forall c k v, at_place c k v \/ ~ at_place c k v.
Proof.
  intros c k v. unfold at_place.
  destruct (chip_eqb (kv_chip v) c) eqn:E1; destruct (km_eqb (kv_km v) k) eqn:E2.
  - apply t_chip_eqb_eq in E1. apply km_eqb_eq in E2. left. split; assumption.
  - right. intros [_ H]. apply km_eqb_eq in H. congruence.
  - right. intros [H _]. apply t_chip_eqb_eq in H. congruence.
  - right. intros [H _]. apply t_chip_eqb_eq in H. congruence.
Qed.

(* one more visit, the dictionary updated with the pair p at its place *)
Lemma Inv_step : forall V rs v p,
  Inv V rs ->
  let c := kv_chip v in
  let k := kv_km v in
  (forall w, In w (V ++ [v]) -> at_place c k w -> snd p = kv_outs w) ->
  (forall s, In s (fst p) <-> exists w, In w (V ++ [v]) /\ at_place c k w /\ arrival w = Some s) ->
  Inv (V ++ [v]) (cset c (kmset k p (cm_of rs c)) rs).
Proof.
  intros V rs v p HI c k Houts Hins. destruct HI as [I1 I2 I3 I4].
  constructor.
  - rewrite cset_keys, map_app. change (map kv_chip [v]) with [c]. rewrite first_occ_snoc, I1. reflexivity.
  - intros c'. destruct (chip_eqb c c') eqn:E.
    + apply t_chip_eqb_eq in E. subst c'. rewrite cm_of_cset_same, kmset_keys.
      rewrite filter_app. cbn [filter]. unfold at_chip at 2. fold c. rewrite t_chip_eqb_refl.
      rewrite map_app. change (map kv_km [v]) with [k]. rewrite first_occ_snoc, <- I2. reflexivity.
    + assert (Hne : c' <> c) by (intros ->; rewrite t_chip_eqb_refl in E; discriminate).
      rewrite cm_of_cset_other by exact Hne.
      rewrite filter_app. cbn [filter]. unfold at_chip at 2. fold c. rewrite E, app_nil_r. apply I2.
  - intros c' k' ins outs Hget.
    destruct (at_place_dec c' k' v) as [Hat|Hnat].
    + destruct Hat as [Hc Hk]. fold c in Hc. fold k in Hk. subst c' k'.
      rewrite cm_of_cset_same, kmassoc_kmset_same in Hget. injection Hget as Hp.
      destruct p as [pi po]. injection Hp as -> ->. cbn [fst snd] in *.
      split; [exact Houts|]. split; [exact Hins|].
      exists v. split; [apply in_or_app; right; left; reflexivity|split; reflexivity].
    + assert (Hget' : kmassoc k' (cm_of rs c') = Some (ins, outs)).
      { destruct (chip_eqb c c') eqn:E.
        - apply t_chip_eqb_eq in E. subst c'. rewrite cm_of_cset_same in Hget.
          rewrite kmassoc_kmset_other in Hget; [exact Hget|].
          intros ->. apply Hnat. split; reflexivity.
        - rewrite cm_of_cset_other in Hget; [exact Hget|].
          intros ->. rewrite t_chip_eqb_refl in E. discriminate. }
      destruct (I3 _ _ _ _ Hget') as [A [B C]].
      split; [|split].
      * intros w Hw Hat. apply in_app_or in Hw. destruct Hw as [Hw|[<-|[]]]; [apply A; assumption|contradiction].
      * intros s. rewrite B. split; intros [w [Hw [Hat Har]]]; exists w.
        -- split; [apply in_or_app; left; exact Hw|split; assumption].
        -- apply in_app_or in Hw. destruct Hw as [Hw|[<-|[]]]; [|contradiction].
           split; [exact Hw|split; assumption].
      * destruct C as [w [Hw Hat]]. exists w. split; [apply in_or_app; left; exact Hw|exact Hat].
  - intros c' k' Hget w Hw Hat.
    destruct (at_place_dec c' k' v) as [Hatv|Hnat].
    + destruct Hatv as [Hc Hk]. fold c in Hc. fold k in Hk. subst c' k'.
      rewrite cm_of_cset_same, kmassoc_kmset_same in Hget. discriminate.
    + assert (Hget' : kmassoc k' (cm_of rs c') = None).
      { destruct (chip_eqb c c') eqn:E.
        - apply t_chip_eqb_eq in E. subst c'. rewrite cm_of_cset_same in Hget.
          rewrite kmassoc_kmset_other in Hget; [exact Hget|].
          intros ->. apply Hnat. split; reflexivity.
        - rewrite cm_of_cset_other in Hget; [exact Hget|].
          intros ->. rewrite t_chip_eqb_refl in E. discriminate. }
      apply in_app_or in Hw. destruct Hw as [Hw|[<-|[]]]; [|contradiction].
      exact (I4 _ _ Hget' w Hw Hat).
Qed.

Lemma first_conflict_more : forall V v k m c, first_conflict V k m c -> first_conflict (V ++ [v]) k m c.
Proof.
  intros V v k m c [V1 [u [V2 [-> H]]]]. exists V1, u, (V2 ++ [v]). split; [|exact H].
  rewrite <- app_assoc. reflexivity.
Qed.

Lemma kfold_snoc : forall V v rs,
  kfold (V ++ [v]) rs
  = match kfold V rs with
    | ROk rs' => visit_step (fst (kv_km v)) (snd (kv_km v)) (snd v) rs'
    | e => e
    end.
Proof.
  intros V v rs. rewrite kfold_app. destruct (kfold V rs); try reflexivity.
  cbn [kfold]. destruct (visit_step _ _ _ _); reflexivity.
Qed.

(* the outcome of the fold over any sequence of visits whose directions have an opposite *)
Lemma kfold_spec : forall V,
  (forall v, In v V -> exists s, arrival v = Some s) ->
  (exists rs, kfold V [] = ROk rs /\ Inv V rs /\ ~ conflict V)
  \/ (exists k m c, kfold V [] = RMultisource k m c /\ first_conflict V k m c).
Proof.
  induction V as [|v V IH] using rev_ind; intros Hdir.
  - left. exists []. split; [reflexivity|]. split; [exact Inv_nil|].
    intros [u [w [[] _]]].
  - assert (HdirV : forall w, In w V -> exists s, arrival w = Some s).
    { intros w Hw. apply Hdir. apply in_or_app. left. exact Hw. }
    destruct (Hdir v ltac:(apply in_or_app; right; left; reflexivity)) as [ind Hind].
    rewrite kfold_snoc.
    destruct (IH HdirV) as [[rs [Hk [HI Hnc]]]|[k [m [c [Hk Hfc]]]]].
    2:{ right. exists k, m, c. rewrite Hk. split; [reflexivity|apply first_conflict_more; exact Hfc]. }
    rewrite Hk.
    destruct v as [[key mask] [[d c] outs]].
    unfold arrival, kv_dir in Hind. cbn [fst snd] in Hind.
    unfold visit_step. cbn [kv_km fst snd]. rewrite Hind. fold (cm_of rs c).
    set (v := ((key, mask), (d, c, outs))) in *.
    destruct (kmassoc (key, mask) (cm_of rs c)) as [[ins outs0]|] eqn:Hget.
    + destruct (inv_some V rs HI _ _ _ _ Hget) as [A [B C]].
      destruct (zlist_eqb outs0 outs) eqn:Eo.
      * apply zlist_eqb_eq in Eo. subst outs0.
        left. eexists. split; [reflexivity|]. split.
        -- apply (Inv_step V rs v (set_add ind ins, outs) HI); cbn [fst snd].
           ++ intros w Hw Hat. apply in_app_or in Hw. destruct Hw as [Hw|[<-|[]]]; [|reflexivity].
              apply A; assumption.
           ++ intros s. rewrite set_add_In, B. split.
              ** intros [->|[w [Hw [Hat Har]]]].
                 --- exists v. split; [apply in_or_app; right; left; reflexivity|].
                     split; [split; reflexivity|exact Hind].
                 --- exists w. split; [apply in_or_app; left; exact Hw|split; assumption].
              ** intros [w [Hw [Hat Har]]]. apply in_app_or in Hw. destruct Hw as [Hw|[<-|[]]].
                 --- right. exists w. split; [exact Hw|split; assumption].
                 --- left. unfold arrival, kv_dir, v in Har. cbn [fst snd] in Har. congruence.
        -- intros [u [w [Hu [Hw [Hsp Hne]]]]].
           assert (Hout : forall z, In z (V ++ [v]) -> at_place c (key, mask) z -> outs = kv_outs z).
           { intros z Hz Hat. apply in_app_or in Hz. destruct Hz as [Hz|[<-|[]]]; [apply A; assumption|reflexivity]. }
           apply in_app_or in Hu. apply in_app_or in Hw.
           destruct Hu as [Hu|[<-|[]]]; destruct Hw as [Hw|[<-|[]]].
           ++ apply Hnc. exists u, w. repeat split; try assumption; apply Hsp.
           ++ apply Hne. destruct Hsp as [Hc Hkm].
              rewrite <- (A u Hu (conj Hc Hkm)). reflexivity.
           ++ apply Hne. destruct Hsp as [Hc Hkm].
              rewrite <- (A w Hw (conj (eq_sym Hc) (eq_sym Hkm))). reflexivity.
           ++ apply Hne. reflexivity.
      * right. exists key, mask, c. split; [reflexivity|].
        exists V, v, []. split; [reflexivity|]. split; [exact Hnc|]. split; [split; reflexivity|].
        destruct C as [u [Hu Hat]]. exists u. split; [exact Hu|]. split.
        -- destruct Hat as [Hc Hkm]. split; [exact Hc|exact Hkm].
        -- rewrite <- (A u Hu Hat). intros Heq. change (kv_outs v) with outs in Heq. subst outs0.
           rewrite (proj2 (zlist_eqb_eq outs outs) eq_refl) in Eo. discriminate.
    + pose proof (inv_none V rs HI _ _ Hget) as N.
      left. eexists. split; [reflexivity|]. split.
      * apply (Inv_step V rs v ([ind], outs) HI); cbn [fst snd].
        -- intros w Hw Hat. apply in_app_or in Hw. destruct Hw as [Hw|[<-|[]]]; [|reflexivity].
           exfalso. exact (N w Hw Hat).
        -- intros s. split.
           ++ intros [<-|[]]. exists v. split; [apply in_or_app; right; left; reflexivity|].
              split; [split; reflexivity|exact Hind].
           ++ intros [w [Hw [Hat Har]]]. apply in_app_or in Hw. destruct Hw as [Hw|[<-|[]]].
              ** exfalso. exact (N w Hw Hat).
              ** left. unfold arrival, kv_dir, v in Har. cbn [fst snd] in Har. congruence.
      * intros [u [w [Hu [Hw [Hsp Hne]]]]].
        apply in_app_or in Hu. apply in_app_or in Hw.
        destruct Hu as [Hu|[<-|[]]]; destruct Hw as [Hw|[<-|[]]].
        -- apply Hnc. exists u, w. repeat split; try assumption; apply Hsp.
        -- destruct Hsp as [Hc Hkm]. exact (N u Hu (conj Hc Hkm)).
        -- destruct Hsp as [Hc Hkm]. exact (N w Hw (conj (eq_sym Hc) (eq_sym Hkm))).
        -- apply Hne. reflexivity.
Qed.

(* ------------------------------------------------------------------------------------------------ *)
(** * routing_tree_to_tables *)

Lemma cassoc_tables_of : forall rs c,
  cassoc c (tables_of rs) = match cassoc c rs with Some cm => Some (entries_of cm) | None => None end.
Proof.
  induction rs as [|[c' cm] rs IH]; intros c; [reflexivity|].
  cbn [tables_of map cassoc fst snd]. destruct (chip_eqb c c'); [reflexivity|]. apply IH.
Qed.

Lemma tables_of_keys : forall rs, map fst (tables_of rs) = map fst rs.
Proof. intros rs. unfold tables_of. rewrite map_map. reflexivity. Qed.

Lemma entries_of_kms : forall cm, map (fun e => (e_key e, e_mask e)) (entries_of cm) = map fst cm.
Proof.
  intros cm. unfold entries_of. rewrite map_map. apply map_ext. intros [[k m] p]. reflexivity.
Qed.

Lemma kmassoc_In_NoDup : forall (cm : kmmap) k p, NoDup (map fst cm) -> In (k, p) cm -> kmassoc k cm = Some p.
Proof.
  induction cm as [|[k' p'] cm IH]; intros k p Hnd Hin; [contradiction|].
  cbn [map fst] in Hnd. inversion Hnd as [|? ? Hnin Hnd']; subst.
  cbn [kmassoc]. destruct Hin as [Heq|Hin].
  - injection Heq as -> ->. rewrite km_eqb_refl. reflexivity.
  - destruct (km_eqb k k') eqn:E.
    + apply km_eqb_eq in E. subst k'. exfalso. apply Hnin. apply in_map_iff. exists (k, p). split; [reflexivity|exact Hin].
    + apply IH; assumption.
Qed.

Theorem tables_of_trees : forall routes net_keys,
  inputs_ok routes net_keys ->
  match routing_tree_to_tables routes net_keys with
  | ROk T => tables_spec (all_visits routes net_keys) T /\ ~ conflict (all_visits routes net_keys)
  | RMultisource k m c => first_conflict (all_visits routes net_keys) k m c
  | ROther => False
  | RFuel => False
  end.
Proof.
  intros routes net_keys Hin. unfold routing_tree_to_tables.
  rewrite (nets_fold_kfold routes net_keys [] Hin).
  set (V := all_visits routes net_keys).
  destruct (kfold_spec V (fun v Hv => all_visits_dirs routes net_keys v Hin Hv))
    as [[rs [Hk [HI Hnc]]]|[k [m [c [Hk Hfc]]]]]; rewrite Hk; [|exact Hfc].
  split; [|exact Hnc].
  destruct HI as [I1 I2 I3 I4]. split.
  - rewrite tables_of_keys. exact I1.
  - intros c es Hc. rewrite cassoc_tables_of in Hc.
    destruct (cassoc c rs) as [cm|] eqn:Ecm; [|discriminate]. injection Hc as <-.
    assert (Ecm' : cm_of rs c = cm) by (unfold cm_of; rewrite Ecm; reflexivity).
    split.
    + rewrite entries_of_kms, <- Ecm'. apply I2.
    + intros e He. unfold entries_of in He. apply in_map_iff in He.
      destruct He as [[[key mask] [ins outs]] [<- Hkv]]. cbn [fst snd e_route e_key e_mask e_sources].
      assert (Hget : kmassoc (key, mask) (cm_of rs c) = Some (ins, outs)).
      { rewrite Ecm'. apply kmassoc_In_NoDup; [|exact Hkv].
        rewrite <- Ecm', I2. apply first_occ_NoDup. exact km_eqb_eq. }
      destruct (I3 _ _ _ _ Hget) as [A [B _]]. split; [exact A|exact B].
Qed.

(* MultisourceRouteError precisely when two visits of a chip with equal key and mask fork differently *)
Theorem multisource_iff : forall routes net_keys,
  inputs_ok routes net_keys ->
  ((exists k m c, routing_tree_to_tables routes net_keys = RMultisource k m c)
   <-> conflict (all_visits routes net_keys)).
Proof.
  intros routes net_keys Hin. pose proof (tables_of_trees routes net_keys Hin) as H.
  destruct (routing_tree_to_tables routes net_keys) as [T|k m c| |]; try contradiction.
  - destruct H as [_ Hnc]. split; [intros [k [m [c Hx]]]; discriminate|intros Hc; contradiction].
  - split; [|intros _; exists k, m, c; reflexivity].
    intros _. destruct H as [V1 [v [V2 [-> [_ [_ [u [Hu [Hsp Hne]]]]]]]]].
    exists u, v. split; [apply in_or_app; left; exact Hu|].
    split; [apply in_or_app; right; left; reflexivity|]. split; assumption.
Qed.

(* the visits are the nodes of the trees: membership, stated without reference to the traversal *)
Lemma level_node_in : forall n d t v,
  In v (level n d t) -> exists d' c' kids', node_in d t d' c' kids' /\ v = (d', c', out_set kids').
Proof.
  induction n as [|n IH]; intros d t v Hin; destruct t as [c kids|x]; try contradiction.
  - destruct Hin as [<-|[]]. exists d, c, kids. split; [constructor|reflexivity].
  - rewrite level_S_node in Hin. unfold qlevel in Hin. apply in_flat_map in Hin.
    destruct Hin as [[r t'] [Hq Hin]]. cbn [fst snd] in Hin.
    unfold kids_q in Hq. apply in_flat_map in Hq. destruct Hq as [k [Hk Hq]].
    apply kid_q_In in Hq. destruct Hq as [-> _].
    destruct (IH r t' v Hin) as [d' [c' [kids' [Hn ->]]]].
    exists d', c', kids'. split; [|reflexivity]. eapply node_below; eassumption.
Qed.

Lemma node_in_level : forall d t d' c' kids',
  node_in d t d' c' kids' -> exists n, (n < tsize t)%nat /\ In (d', c', out_set kids') (level n d t).
Proof.
  intros d t d' c' kids' H. induction H as [d c kids|d c kids r t d' c' kids' Hk Hn IH].
  - exists O. split; [apply tsize_pos|left; reflexivity].
  - destruct IH as [n [Hlt Hin]]. exists (S n). split.
    + rewrite tsize_node. clear - Hk Hlt. induction kids as [|k ks IHk]; [contradiction|].
      cbn [kids_size]. destruct Hk as [->|Hk]; [cbn [snd]; lia|]. specialize (IHk Hk). lia.
    + rewrite level_S_node. unfold qlevel. apply in_flat_map.
      destruct t as [c2 k2|x]; [|inversion Hn].
      exists (r, TNode c2 k2). split; [|exact Hin].
      unfold kids_q. apply in_flat_map. exists (Some r, TNode c2 k2). split; [exact Hk|left; reflexivity].
Qed.

Theorem bfs_order_nodes : forall t v,
  In v (bfs_order t) <-> exists d c kids, node_in none_dir t d c kids /\ v = (d, c, out_set kids).
Proof.
  intros t v. unfold bfs_order. rewrite in_flat_map. split.
  - intros [n [_ Hin]]. apply (level_node_in n none_dir t v Hin).
  - intros [d [c [kids [Hn ->]]]]. destruct (node_in_level _ _ _ _ _ Hn) as [n [Hlt Hin]].
    exists n. split; [apply in_seq; lia|exact Hin].
Qed.

(* ------------------------------------------------------------------------------------------------ *)
(** * audit follow-up: the opposite table, canonical sets *)

(* the link by which a packet enters is (d + 3) mod 6 for a hop in direction d (the generated
   Routes.opposite table says nothing else); a root has none; a core route has no opposite *)
Lemma in_direction_link : forall d, 0 <= d < 6 -> in_direction d = Some ((d + 3) mod 6).
Proof.
  intros d H. assert (E : d = 0 \/ d = 1 \/ d = 2 \/ d = 3 \/ d = 4 \/ d = 5) by lia.
  destruct E as [->|[->|[->|[->|[->| ->]]]]]; reflexivity.
Qed.

Lemma in_direction_root : in_direction none_dir = Some none_dir.
Proof. reflexivity. Qed.

Lemma in_direction_core : forall d, 6 <= d < 24 -> in_direction d = None.
Proof.
  intros d H.
  assert (E : d = 6 \/ d = 7 \/ d = 8 \/ d = 9 \/ d = 10 \/ d = 11 \/ d = 12 \/ d = 13 \/ d = 14 \/ d = 15 \/
              d = 16 \/ d = 17 \/ d = 18 \/ d = 19 \/ d = 20 \/ d = 21 \/ d = 22 \/ d = 23) by lia.
  repeat (destruct E as [->|E]; [reflexivity|]). subst. reflexivity.
Qed.

From Coq Require Import Sorted.

Lemma set_add_sorted : forall x s, StronglySorted Z.lt s -> StronglySorted Z.lt (set_add x s).
Proof.
  intros x s. induction s as [|y s IH]; intros H; cbn [set_add].
  - constructor; constructor.
  - inversion H as [|? ? Hs Hy]; subst.
    destruct (Z.ltb_spec x y) as [Hlt|Hge].
    + constructor; [exact H|]. constructor; [exact Hlt|].
      rewrite Forall_forall in *. intros z Hz. specialize (Hy z Hz). lia.
    + destruct (Z.eqb_spec x y) as [->|Hne]; [exact H|].
      constructor; [apply IH; exact Hs|].
      rewrite Forall_forall in *. intros z Hz. apply set_add_In in Hz. destruct Hz as [->|Hz]; [lia|apply Hy; exact Hz].
Qed.

Lemma set_of_list_sorted : forall l, StronglySorted Z.lt (set_of_list l).
Proof. induction l as [|x l IH]; [constructor|]. cbn [set_of_list fold_right]. apply set_add_sorted. exact IH. Qed.

(* two strictly increasing lists with the same members are the same list *)
Lemma sorted_ext : forall a b,
  StronglySorted Z.lt a -> StronglySorted Z.lt b -> (forall x, In x a <-> In x b) -> a = b.
Proof.
  induction a as [|x a IH]; intros b Ha Hb H.
  - destruct b as [|y b]; [reflexivity|]. exfalso. apply (proj2 (H y)). left. reflexivity.
  - destruct b as [|y b]; [exfalso; apply (proj1 (H x)); left; reflexivity|].
    inversion Ha as [|? ? Ha' Hxa]; subst. inversion Hb as [|? ? Hb' Hyb]; subst.
    rewrite Forall_forall in Hxa, Hyb.
    assert (x = y).
    { destruct (proj1 (H x) (or_introl eq_refl)) as [E|Hin]; [symmetry; exact E|].
      destruct (proj2 (H y) (or_introl eq_refl)) as [E|Hin2]; [exact E|].
      specialize (Hyb x Hin). specialize (Hxa y Hin2). lia. }
    subst y. f_equal. apply IH; try assumption.
    intros z. split; intros Hz.
    + destruct (proj1 (H z) (or_intror Hz)) as [E|Hin]; [|exact Hin]. subst z. specialize (Hxa x Hz). lia.
    + destruct (proj2 (H z) (or_intror Hz)) as [E|Hin]; [|exact Hin]. subst z. specialize (Hyb x Hz). lia.
Qed.

(* out sets are canonical: comparing them as lists (which is what [conflict] and [tables_spec] do, and what
   the model's zlist_eqb does for Python's set comparison) is comparing them as sets *)
Theorem out_set_canonical : forall k1 k2,
  StronglySorted Z.lt (out_set k1)
  /\ (out_set k1 = out_set k2 <-> forall r, In r (out_set k1) <-> In r (out_set k2)).
Proof.
  intros k1 k2. split; [apply set_of_list_sorted|]. split.
  - intros ->. reflexivity.
  - intros H. apply sorted_ext; [apply set_of_list_sorted|apply set_of_list_sorted|exact H].
Qed.
