(* Proofs for property C14, part 1: bytes and bit fields, the `info` reply, the P2P table,
   get_system_info. *)
From Coq Require Import ZArith String Ascii List Bool Lia FinFun.
Require Import Rig.Generated.GenProbe Rig.Model.Base Rig.Model.Probe Rig.Spec.Probe.
Import ListNotations.
Open Scope Z_scope.

Ltac Zify.zify_post_hook ::= Z.to_euclidean_division_equations.

(* ------------------------------------------------------------------------------------------------ *)
(* little-endian integers                                                                            *)

Lemma le_encode_length : forall n v, length (le_encode n v) = n.
Proof. induction n; intros; simpl; auto. Qed.

Lemma le_decode_encode : forall n v, 0 <= v < 256 ^ Z.of_nat n -> le_decode (le_encode n v) = v.
Proof.
  induction n as [|n IH]; intros v Hv.
  - simpl in *. lia.
  - rewrite Nat2Z.inj_succ, Z.pow_succ_r in Hv by lia.
    cbn [le_encode le_decode]. rewrite IH.
    + pose proof (Z.div_mod v 256). lia.
    + split.
      * apply Z.div_pos; lia.
      * apply Z.div_lt_upper_bound; lia.
Qed.

Lemma le_encode_bytes : forall n v, Forall is_byte (le_encode n v).
Proof.
  induction n; intros; simpl; constructor; auto.
  unfold is_byte. apply Z.mod_pos_bound. lia.
Qed.

(* ------------------------------------------------------------------------------------------------ *)
(* bit fields                                                                                        *)

Lemma land_ones_mod : forall a n, 0 <= n -> Z.land a (Z.ones n) = a mod 2 ^ n.
Proof. intros. apply Z.land_ones; auto. Qed.

Lemma land_pow2 : forall a n, 0 <= n ->
  Z.land a (2 ^ n) = if Z.testbit a n then 2 ^ n else 0.
Proof.
  intros a n Hn. apply Z.bits_inj'. intros m Hm.
  rewrite Z.land_spec, Z.pow2_bits_eqb by lia.
  destruct (Z.eqb_spec n m) as [->|Hne].
  - destruct (Z.testbit a m) eqn:E; simpl.
    + rewrite Z.pow2_bits_true; auto.
    + rewrite Z.bits_0. reflexivity.
  - rewrite andb_false_r. destruct (Z.testbit a n).
    + rewrite Z.pow2_bits_false; auto.
    + rewrite Z.bits_0; auto.
Qed.

Lemma testbit_divmod : forall a n, 0 <= n -> Z.testbit a n = negb ((a / 2 ^ n) mod 2 =? 0).
Proof.
  intros a n Hn. pose proof (Z.testbit_spec' a n Hn) as H.
  destruct (Z.testbit a n); simpl in H; rewrite <- H; reflexivity.
Qed.

(* ------------------------------------------------------------------------------------------------ *)
(* struct unpacking                                                                                  *)

Lemma le_decode_single : forall b, le_decode [b] = b.
Proof. intros. simpl. lia. Qed.

Lemma unpack_items_bytes : forall (st : list Z) its rest,
  unpack_items (repeat (FInt 1) (length st) ++ its) (st ++ rest) = map UInt st ++ unpack_items its rest.
Proof.
  induction st as [|b st IH]; intros its rest.
  - reflexivity.
  - cbn [length repeat app unpack_items firstn skipn map].
    rewrite le_decode_single. f_equal. apply IH.
Qed.

Lemma ints_of_app : forall a b la lb,
  ints_of a = Some la -> ints_of b = Some lb -> ints_of (a ++ b) = Some (la ++ lb).
Proof.
  induction a as [|x a IH]; intros b la lb Ha Hb.
  - simpl in *. inversion Ha. auto.
  - destruct x; simpl in *; try discriminate.
    destruct (ints_of a) eqn:E; simpl in Ha; try discriminate. inversion Ha; subst.
    rewrite (IH b l lb eq_refl Hb). reflexivity.
Qed.

Lemma ints_of_map_UInt : forall l, ints_of (map UInt l) = Some l.
Proof. induction l; simpl; auto. rewrite IHl. reflexivity. Qed.

(* ------------------------------------------------------------------------------------------------ *)
(* the `info` reply                                                                                  *)

Lemma app_states_members : forall s, In s app_states -> zmem s appstate_values = true.
Proof.
  intros s H. unfold app_states in H. simpl in H.
  repeat (destruct H as [<-|H]; [reflexivity|]). contradiction.
Qed.

Lemma forallb_members : forall l, Forall (fun s => In s app_states) l ->
  forallb (fun s => zmem s appstate_values) l = true.
Proof.
  induction 1; cbn [forallb]; auto. rewrite app_states_members by assumption. assumption.
Qed.

Lemma info_format_items :
  parse_format ci_data_format = Some (repeat (FInt 1) 18 ++ [FInt 2; FInt 4]).
Proof. reflexivity. Qed.

Lemma unpack_info_data : forall st v ip,
  length st = 18%nat -> length ip = 4%nat ->
  unpack_from_ints ci_data_format (st ++ le_encode 2 v ++ ip) =
  Some (st ++ [le_decode (le_encode 2 v); le_decode ip]).
Proof.
  intros st v ip Hst Hip.
  unfold unpack_from_ints, unpack_from. rewrite info_format_items.
  assert (Hlen : (length (st ++ le_encode 2 v ++ ip) <? items_size (repeat (FInt 1) 18 ++ [FInt 2; FInt 4]))%nat = false).
  { rewrite !app_length, le_encode_length, Hst, Hip. reflexivity. }
  rewrite Hlen. rewrite <- Hst at 1. rewrite unpack_items_bytes.
  destruct ip as [|i0 [|i1 [|i2 [|i3 [|]]]]]; try discriminate.
  cbn [unpack_items le_encode app firstn skipn].
  erewrite ints_of_app; [reflexivity | apply ints_of_map_UInt | reflexivity].
Qed.

Definition a1 (cs : chip_state) : Z := r_arg1 (encode_info cs).

  Lemma a1_eq : forall cs, a1 cs = cs_cores cs + 256 * cs_linkmask cs + 16384 * cs_rtr cs
                     + 33554432 * (if cs_eth_up cs then 1 else 0).
  Proof. reflexivity. Qed.

  Lemma rt_num_cores : forall cs (Hv : cs_valid cs) a2 a3, ci_num_cores (a1 cs) a2 a3 = cs_cores cs.
  Proof.
    intros. destruct Hv as (Hc & _ & _ & Hl & Hr & _).
    unfold ci_num_cores. change 31 with (Z.ones 5). rewrite land_ones_mod by lia.
    rewrite a1_eq. change (2 ^ 5) with 32. destruct (cs_eth_up cs); lia.
  Qed.

  Lemma rt_rtr : forall cs (Hv : cs_valid cs) a2 a3, ci_rtr_block (a1 cs) a2 a3 = cs_rtr cs.
  Proof.
    intros. destruct Hv as (Hc & _ & _ & Hl & Hr & _).
    unfold ci_rtr_block. change 2047 with (Z.ones 11). rewrite land_ones_mod by lia.
    rewrite Z.shiftr_div_pow2 by lia. rewrite a1_eq.
    change (2 ^ 14) with 16384. change (2 ^ 11) with 2048. destruct (cs_eth_up cs); lia.
  Qed.

  Lemma rt_eth : forall cs (Hv : cs_valid cs) a2 a3, ci_ethernet_up (a1 cs) a2 a3 = cs_eth_up cs.
  Proof.
    intros. destruct Hv as (Hc & _ & _ & Hl & Hr & _).
    unfold ci_ethernet_up. rewrite Z.shiftl_1_l. rewrite land_pow2 by lia.
    rewrite testbit_divmod by lia. rewrite a1_eq. change (2 ^ 25) with 33554432.
    destruct (cs_eth_up cs).
    - replace ((cs_cores cs + 256 * cs_linkmask cs + 16384 * cs_rtr cs + 33554432 * 1) / 33554432) with 1 by lia.
      reflexivity.
    - replace ((cs_cores cs + 256 * cs_linkmask cs + 16384 * cs_rtr cs + 33554432 * 0) / 33554432) with 0 by lia.
      reflexivity.
  Qed.

  Lemma rt_link : forall cs (Hv : cs_valid cs) a2 a3 l, In l [0; 1; 2; 3; 4; 5] ->
    ci_link_working (a1 cs) a2 a3 l = Z.testbit (cs_linkmask cs) l.
  Proof.
    intros cs Hv a2 a3 l Hl. destruct Hv as (Hc & _ & _ & Hm & Hr & _).
    unfold ci_link_working. change 1 with (Z.ones 1) at 1. rewrite land_ones_mod by lia.
    assert (H0 : 0 <= l) by (simpl in Hl; lia).
    rewrite Z.shiftr_div_pow2 by lia. rewrite testbit_divmod by lia. rewrite a1_eq.
    assert (He : 0 <= (if cs_eth_up cs then 1 else 0) <= 1) by (destruct (cs_eth_up cs); lia).
    remember (if cs_eth_up cs then 1 else 0) as e.
    change (2 ^ 1) with 2.
    simpl in Hl.
    destruct Hl as [<-|[<-|[<-|[<-|[<-|[<-|[]]]]]]];
      match goal with |- context [2 ^ (8 + ?k)] => let v := eval compute in (2 ^ (8 + k)) in change (2 ^ (8 + k)) with v end;
      match goal with |- context [cs_linkmask cs / 2 ^ ?k] => let v := eval compute in (2 ^ k) in change (2 ^ k) with v end;
      f_equal; f_equal; lia.
  Qed.

  Lemma links_values_eq : links_values = [0; 1; 2; 3; 4; 5].
  Proof. reflexivity. Qed.

  Lemma rt_links : forall cs (Hv : cs_valid cs) a2 a3,
    filter (ci_link_working (a1 cs) a2 a3) links_values =
    filter (fun l => Z.testbit (cs_linkmask cs) l) [0; 1; 2; 3; 4; 5].
  Proof.
    intros. rewrite links_values_eq. apply filter_ext_in. intros l Hl. apply rt_link; auto.
  Qed.

  Lemma rt_eth_chip : forall cs (Hv : cs_valid cs) d19,
    ci_local_ethernet_chip (256 * fst (cs_eth cs) + snd (cs_eth cs)) d19 = cs_eth cs.
  Proof.
    intros. destruct Hv as (_ & _ & _ & _ & _ & _ & _ & Hx & Hy).
    unfold ci_local_ethernet_chip, is_byte in *. change 255 with (Z.ones 8).
    rewrite !land_ones_mod by lia. rewrite !Z.shiftr_div_pow2 by lia.
    change (2 ^ 8) with 256. change (2 ^ 0) with 1.
    destruct (cs_eth cs) as [ex ey]; cbn [fst snd] in *. rewrite Z.div_1_r. f_equal; lia.
  Qed.

  Lemma rt_ip : forall d18 i0 i1 i2 i3,
    is_byte i0 -> is_byte i1 -> is_byte i2 -> is_byte i3 ->
    map (fun i => ci_ip_byte d18 (le_decode [i0; i1; i2; i3]) i) ci_ip_shifts = [i0; i1; i2; i3].
  Proof.
    intros d18 i0 i1 i2 i3 H0 H1 H2 H3. unfold is_byte in *.
    unfold ci_ip_shifts, ci_ip_byte. cbn [map le_decode]. change 255 with (Z.ones 8).
    rewrite !land_ones_mod by lia. rewrite !Z.shiftr_div_pow2 by lia.
    change (2 ^ 8) with 256. change (2 ^ 0) with 1. change (2 ^ 16) with 65536. change (2 ^ 24) with 16777216.
    rewrite Z.div_1_r. repeat (f_equal; [lia|]). f_equal. lia.
  Qed.

  Theorem chip_info_roundtrip : forall cs, cs_valid cs -> decode_info (encode_info cs) = Ok (truth_info cs).
  Proof.
    intros cs Hv. pose proof Hv as (Hc & Hlen & Hst & Hm & Hr & Hiplen & Hip & Hx & Hy).
    unfold decode_info.
    change (r_arg1 (encode_info cs)) with (a1 cs).
    change (r_data (encode_info cs)) with
      (cs_states cs ++ le_encode 2 (256 * fst (cs_eth cs) + snd (cs_eth cs)) ++ cs_ip cs).
    rewrite unpack_info_data by assumption.
    assert (Hv16 : 0 <= 256 * fst (cs_eth cs) + snd (cs_eth cs) < 256 ^ Z.of_nat 2).
    { unfold is_byte in *. change (256 ^ Z.of_nat 2) with 65536. lia. }
    rewrite le_decode_encode by assumption.
    assert (Hsl : slice 0 ci_states_stop (cs_states cs ++ [256 * fst (cs_eth cs) + snd (cs_eth cs); le_decode (cs_ip cs)])
                  = cs_states cs).
    { unfold slice, ci_states_stop. change (Z.to_nat (18 - 0)) with 18%nat. change (Z.to_nat 0) with 0%nat.
      cbn [skipn]. rewrite <- Hlen. rewrite firstn_app, Nat.sub_diag, firstn_all. cbn [firstn]. apply app_nil_r. }
    rewrite Hsl. rewrite forallb_members by assumption.
    assert (H18 : nth 18 (cs_states cs ++ [256 * fst (cs_eth cs) + snd (cs_eth cs); le_decode (cs_ip cs)]) 0
                  = 256 * fst (cs_eth cs) + snd (cs_eth cs)).
    { rewrite app_nth2 by lia. rewrite Hlen. reflexivity. }
    assert (H19 : nth 19 (cs_states cs ++ [256 * fst (cs_eth cs) + snd (cs_eth cs); le_decode (cs_ip cs)]) 0
                  = le_decode (cs_ip cs)).
    { rewrite app_nth2 by lia. rewrite Hlen. reflexivity. }
    rewrite H18, H19.
    rewrite rt_num_cores, rt_rtr, rt_eth, rt_links, rt_eth_chip by assumption.
    unfold truth_info, ci_sdram, ci_sram. f_equal. f_equal.
    - unfold slice. rewrite Z.sub_0_r. reflexivity.
    - unfold ip_text, ci_ip_separator.
      destruct (cs_ip cs) as [|i0 [|i1 [|i2 [|i3 [|]]]]] eqn:E; try discriminate.
      inversion Hip as [|? ? B0 Hip1]; subst. inversion Hip1 as [|? ? B1 Hip2]; subst.
      inversion Hip2 as [|? ? B2 Hip3]; subst. inversion Hip3 as [|? ? B3 _]; subst.
      f_equal.
      transitivity (map dec_string (map (fun i => ci_ip_byte (256 * fst (cs_eth cs) + snd (cs_eth cs))
                                                            (le_decode [i0; i1; i2; i3]) i) ci_ip_shifts)).
      + rewrite map_map. reflexivity.
      + rewrite rt_ip by assumption. reflexivity.
  Qed.

(* ------------------------------------------------------------------------------------------------ *)
(* ranges                                                                                            *)

Lemma In_zrange : forall n e, In e (zrange n) <-> 0 <= e < n.
Proof.
  intros n e. unfold zrange. rewrite in_map_iff. split.
  - intros (k & <- & Hk). apply in_seq in Hk. lia.
  - intros H. exists (Z.to_nat e). split; [lia|]. apply in_seq. lia.
Qed.

Lemma zrange_length : forall n, length (zrange n) = Z.to_nat n.
Proof. intros. unfold zrange. rewrite map_length, seq_length. reflexivity. Qed.

Lemma seq_shift_Z : forall n k j,
  map Z.of_nat (seq (k + j) n) = map (Z.add (Z.of_nat k)) (map Z.of_nat (seq j n)).
Proof.
  induction n as [|n IH]; intros k j; simpl; auto.
  f_equal; [lia|]. replace (S (k + j)) with (k + S j)%nat by lia. apply IH.
Qed.

Lemma zrange_app : forall a b, 0 <= a -> 0 <= b ->
  zrange (a + b) = zrange a ++ map (Z.add a) (zrange b).
Proof.
  intros a b Ha Hb. unfold zrange. rewrite Z2Nat.inj_add by lia.
  rewrite seq_app, map_app. f_equal.
  replace (0 + Z.to_nat a)%nat with (Z.to_nat a + 0)%nat by lia.
  rewrite seq_shift_Z. rewrite Z2Nat.id by lia. reflexivity.
Qed.

Lemma zrange_nil : forall n, n <= 0 -> zrange n = [].
Proof. intros. unfold zrange. replace (Z.to_nat n) with 0%nat by lia. reflexivity. Qed.

(* ------------------------------------------------------------------------------------------------ *)
(* the P2P table                                                                                     *)

Lemma p2p_values_members : forall v, 0 <= v < 8 -> zmem v p2p_entry_values = true.
Proof.
  intros v Hv.
  assert (H : v = 0 \/ v = 1 \/ v = 2 \/ v = 3 \/ v = 4 \/ v = 5 \/ v = 6 \/ v = 7) by lia.
  repeat (destruct H as [->|H]; [reflexivity|]). subst. reflexivity.
Qed.

Lemma unpack_word : forall b0 b1 b2 b3,
  unpack_ints p2p_word_format [b0; b1; b2; b3] = Some [le_decode [b0; b1; b2; b3]].
Proof. reflexivity. Qed.

(* eight three-bit digits *)
Lemma digits_extract : forall r0 r1 r2 r3 r4 r5 r6 r7 e,
  0 <= r0 < 8 -> 0 <= r1 < 8 -> 0 <= r2 < 8 -> 0 <= r3 < 8 ->
  0 <= r4 < 8 -> 0 <= r5 < 8 -> 0 <= r6 < 8 -> 0 <= r7 < 8 ->
  0 <= e < 8 ->
  p2p_entry (r0 + 8 * (r1 + 8 * (r2 + 8 * (r3 + 8 * (r4 + 8 * (r5 + 8 * (r6 + 8 * (r7 + 8 * 0)))))))) e
  = nth (Z.to_nat e) [r0; r1; r2; r3; r4; r5; r6; r7] 0.
Proof.
  intros r0 r1 r2 r3 r4 r5 r6 r7 e H0 H1 H2 H3 H4 H5 H6 H7 He.
  unfold p2p_entry. change 7 with (Z.ones 3). rewrite land_ones_mod by lia.
  rewrite Z.shiftr_div_pow2 by lia. change (2 ^ 3) with 8.
  assert (H : e = 0 \/ e = 1 \/ e = 2 \/ e = 3 \/ e = 4 \/ e = 5 \/ e = 6 \/ e = 7) by lia.
  destruct H as [->|[->|[->|[->|[->|[->|[->| ->]]]]]]];
    match goal with |- context [2 ^ (3 * ?k)] => let v := eval compute in (2 ^ (3 * k)) in change (2 ^ (3 * k)) with v end;
    cbv [nth Z.to_nat Pos.to_nat Pos.iter_op Init.Nat.add]; lia.
Qed.

Lemma p2p_word_unfold : forall route i,
  p2p_word route i =
  route (chip_of_index (8 * i + 0)) + 8 * (route (chip_of_index (8 * i + 1)) + 8 * (route (chip_of_index (8 * i + 2)) + 8 * (
  route (chip_of_index (8 * i + 3)) + 8 * (route (chip_of_index (8 * i + 4)) + 8 * (route (chip_of_index (8 * i + 5)) + 8 * (
  route (chip_of_index (8 * i + 6)) + 8 * (route (chip_of_index (8 * i + 7)) + 8 * 0))))))).
Proof. reflexivity. Qed.

Lemma p2p_word_entry : forall route i e, routes_valid route -> 0 <= e < 8 ->
  p2p_entry (p2p_word route i) e = route (chip_of_index (8 * i + e)).
Proof.
  intros route i e Hr He. rewrite p2p_word_unfold.
  rewrite digits_extract by (auto; apply Hr).
  assert (H : e = 0 \/ e = 1 \/ e = 2 \/ e = 3 \/ e = 4 \/ e = 5 \/ e = 6 \/ e = 7) by lia.
  destruct H as [->|[->|[->|[->|[->|[->|[->| ->]]]]]]]; reflexivity.
Qed.

Lemma p2p_word_bound : forall route i, routes_valid route -> 0 <= p2p_word route i < 16777216.
Proof.
  intros route i Hr. rewrite p2p_word_unfold.
  pose proof (Hr (chip_of_index (8 * i + 0))). pose proof (Hr (chip_of_index (8 * i + 1))).
  pose proof (Hr (chip_of_index (8 * i + 2))). pose proof (Hr (chip_of_index (8 * i + 3))).
  pose proof (Hr (chip_of_index (8 * i + 4))). pose proof (Hr (chip_of_index (8 * i + 5))).
  pose proof (Hr (chip_of_index (8 * i + 6))). pose proof (Hr (chip_of_index (8 * i + 7))).
  lia.
Qed.

Lemma word_bytes : forall W, 0 <= W < 4294967296 ->
  le_decode [(W / 256 ^ 0) mod 256; (W / 256 ^ 1) mod 256; (W / 256 ^ 2) mod 256; (W / 256 ^ 3) mod 256] = W.
Proof.
  intros W HW. cbn [le_decode]. change (256 ^ 0) with 1. change (256 ^ 1) with 256.
  change (256 ^ 2) with 65536. change (256 ^ 3) with 16777216. rewrite Z.div_1_r. lia.
Qed.

(* the four bytes of word i, read at byte offset 4 i *)
Lemma p2p_bytes_of_word : forall route i j, 0 <= i -> 0 <= j < 4 ->
  p2p_byte route (4 * i + j) = (p2p_word route i / 256 ^ j) mod 256.
Proof.
  intros route i j Hi Hj. unfold p2p_byte.
  replace ((4 * i + j) / 4) with i by lia. replace ((4 * i + j) mod 4) with j by lia. reflexivity.
Qed.

Lemma firstn_map_zrange4 : forall (f : Z -> Z) m, 4 <= m ->
  firstn 4 (map f (zrange m)) = [f 0; f 1; f 2; f 3] /\
  skipn 4 (map f (zrange m)) = map (fun j => f (4 + j)) (zrange (m - 4)).
Proof.
  intros f m Hm. replace m with (4 + (m - 4)) at 1 2 by lia.
  rewrite zrange_app by lia. rewrite map_app. change (zrange 4) with [0; 1; 2; 3].
  cbn [map app firstn skipn]. split; [reflexivity|]. rewrite map_map. reflexivity.
Qed.

Definition column_truth (route : chip -> Z) (col row n : Z) : list (chip * Z) :=
  map (fun y => ((col, y), route (col, y))) (map (Z.add row) (zrange n)).

Lemma column_truth_app : forall route col row a b, 0 <= a -> 0 <= b ->
  column_truth route col row (a + b) = column_truth route col row a ++ column_truth route col (row + a) b.
Proof.
  intros. unfold column_truth. rewrite zrange_app by lia. rewrite !map_app. f_equal.
  rewrite !map_map. apply map_ext. intros y. replace (row + (a + y)) with (row + a + y) by lia. reflexivity.
Qed.

Lemma p2p_column_ok : forall route h, routes_valid route -> 0 <= h < 256 ->
  forall fuel col row raw,
  h - row <= 8 * Z.of_nat fuel -> 0 <= row <= h -> 0 <= col < 256 ->
  (row < h -> row mod 8 = 0 /\
              raw = map (fun j => p2p_byte route (128 * col + row / 2 + j)) (zrange (4 * ((h - row + 7) / 8)))) ->
  p2p_column fuel col row h raw = Ok (column_truth route col row (h - row)).
Proof.
  intros route h Hr Hh. induction fuel as [|fuel IH]; intros col row raw Hfuel Hrow Hcol Hraw.
  - assert (row = h) by lia. subst. unfold p2p_column. rewrite Z.ltb_irrefl.
    unfold column_truth. rewrite zrange_nil by lia. reflexivity.
  - cbn [p2p_column]. destruct (row <? h) eqn:Elt.
    2:{ apply Z.ltb_ge in Elt. assert (row = h) by lia. subst.
        unfold column_truth. rewrite zrange_nil by lia. reflexivity. }
    apply Z.ltb_lt in Elt. destruct (Hraw Elt) as [Hmod ->].
    set (i := 32 * col + row / 8).
    assert (Hoff : forall j, 128 * col + row / 2 + j = 4 * i + j) by (intros; unfold i; lia).
    assert (Hm : 4 <= 4 * ((h - row + 7) / 8)) by lia.
    destruct (firstn_map_zrange4 (fun j => p2p_byte route (128 * col + row / 2 + j)) _ Hm) as [Hf Hs].
    unfold slice. change (Z.to_nat (p2p_word_bytes - 0)) with 4%nat. change (Z.to_nat 0) with 0%nat.
    change (Z.to_nat p2p_word_bytes) with 4%nat. rewrite skipn_O. rewrite Hf, Hs. clear Hf Hs.
    rewrite !Hoff. rewrite !p2p_bytes_of_word by (unfold i; lia).
    rewrite unpack_word.
    pose proof (p2p_word_bound route i Hr) as HW.
    rewrite word_bytes by lia.
    set (n := p2p_entries_in_word h row).
    assert (Hn : n = Z.min 8 (h - row)) by reflexivity.
    assert (Hes : map (fun e => ((col, row + e), p2p_entry (p2p_word route i) e)) (zrange n)
                  = column_truth route col row n).
    { unfold column_truth. rewrite map_map. apply map_ext_in. intros e He. apply In_zrange in He.
      rewrite p2p_word_entry by (auto; lia).
      replace (chip_of_index (8 * i + e)) with (col, row + e); [reflexivity|].
      unfold chip_of_index, i. f_equal; lia. }
    rewrite Hes.
    match goal with |- context [forallb ?f (column_truth route col row n)] =>
      assert (Hall : forallb f (column_truth route col row n) = true) end.
    { apply forallb_forall. intros ce Hin. unfold column_truth in Hin. apply in_map_iff in Hin.
      destruct Hin as (y & <- & _). cbn [snd]. apply p2p_values_members. apply Hr. }
    rewrite Hall.
    rewrite (IH col (row + n) _).
    + cbn [bind]. replace (h - row) with (n + (h - row - n)) by lia.
      rewrite column_truth_app by lia. replace (h - (row + n)) with (h - row - n) by lia. reflexivity.
    + lia.
    + lia.
    + lia.
    + intros Hlt. assert (n = 8) by lia. split; [lia|].
      replace (4 * ((h - row + 7) / 8) - 4) with (4 * ((h - (row + n) + 7) / 8)) by lia.
      apply map_ext. intros j. f_equal. lia.
Qed.

Lemma read_dims_ok : forall rd w h, 0 <= w < 256 -> 0 <= h < 256 -> reads_dims rd w h ->
  read_sv_int rd sv_p2p_dims = Ok (256 * w + h).
Proof.
  intros rd w h Hw Hh Hrd. unfold read_sv_int, read_int_field, sv_p2p_dims. cbv beta iota zeta.
  change (("<" ++ String.concat "" (repeat "H" (Z.to_nat 1)))%string) with "<H"%string.
  change (calcsize "<H") with (Some 2). cbv beta iota.
  change (sv_base + 2) with (SV_BASE + SV_P2P_DIMS). unfold reads_dims in Hrd. rewrite Hrd.
  change (unpack "<H" (le_encode 2 (256 * w + h))) with (Some [UInt (le_decode (le_encode 2 (256 * w + h)))]).
  cbv beta iota.
  rewrite le_decode_encode by (change (256 ^ Z.of_nat 2) with 65536; lia).
  reflexivity.
Qed.

Lemma p2p_columns_ok : forall rd route w h, routes_valid route -> 0 <= w < 256 -> 0 <= h < 256 ->
  reads_p2p rd route ->
  forall cols, (forall c, In c cols -> 0 <= c < w) ->
  p2p_columns rd h (p2p_col_words h) cols =
  Ok (flat_map (fun x => map (fun y => ((x, y), route (x, y))) (zrange h)) cols).
Proof.
  intros rd route w h Hr Hw Hh Hrd. induction cols as [|col cols IH]; intros Hin.
  - reflexivity.
  - cbn [p2p_columns flat_map].
    assert (Hc : 0 <= col < w) by (apply Hin; left; reflexivity).
    assert (Haddr : p2p_col_address SPINNAKER_RTR_P2P col = RTR_P2P + 128 * col).
    { unfold p2p_col_address. change SPINNAKER_RTR_P2P with RTR_P2P. lia. }
    rewrite Haddr. unfold p2p_col_words at 1.
    rewrite (Hrd (128 * col) ((h + 7) / 8 * 4)) by lia.
    rewrite (p2p_column_ok route h Hr Hh (S (Z.to_nat h)) col 0).
    + cbn [bind]. rewrite IH by (intros; apply Hin; right; assumption). cbn [bind].
      unfold column_truth. rewrite Z.sub_0_r. f_equal. f_equal. rewrite map_map.
      apply map_ext. intros y. reflexivity.
    + lia.
    + lia.
    + lia.
    + intros _. split; [reflexivity|]. rewrite Z.sub_0_r.
      replace (4 * ((h + 7) / 8)) with ((h + 7) / 8 * 4) by lia.
      apply map_ext. intros j. f_equal. change (0 / 2) with 0. lia.
Qed.

Theorem p2p_roundtrip : forall rd route w h,
  0 <= w < 256 -> 0 <= h < 256 -> routes_valid route -> reads_dims rd w h -> reads_p2p rd route ->
  p2p_table rd = Ok (p2p_truth route w h).
Proof.
  intros rd route w h Hw Hh Hr Hd Hp. unfold p2p_table.
  rewrite (read_dims_ok rd w h) by assumption. cbn [bind].
  assert (Hwd : p2p_width (256 * w + h) = w).
  { unfold p2p_width. change 255 with (Z.ones 8). rewrite land_ones_mod by lia.
    rewrite Z.shiftr_div_pow2 by lia. change (2 ^ 8) with 256. lia. }
  assert (Hht : p2p_height (256 * w + h) = h).
  { unfold p2p_height. change 255 with (Z.ones 8). rewrite land_ones_mod by lia.
    rewrite Z.shiftr_div_pow2 by lia. change (2 ^ 8) with 256. change (2 ^ 0) with 1. rewrite Z.div_1_r. lia. }
  rewrite Hwd, Hht.
  rewrite (p2p_columns_ok rd route w h) by (auto; intros c Hc; apply In_zrange in Hc; lia).
  reflexivity.
Qed.

(* ------------------------------------------------------------------------------------------------ *)
(* get_system_info                                                                                   *)

Lemma In_p2p_truth : forall route w h c e,
  In (c, e) (p2p_truth route w h) <-> (0 <= fst c < w /\ 0 <= snd c < h /\ e = route c).
Proof.
  intros route w h [x y] e. unfold p2p_truth. rewrite in_flat_map. cbn [fst snd]. split.
  - intros (x' & Hx & Hin). apply in_map_iff in Hin. destruct Hin as (y' & Heq & Hy).
    inversion Heq; subst. apply In_zrange in Hx. apply In_zrange in Hy. auto.
  - intros (Hx & Hy & ->). exists x. split; [apply In_zrange; assumption|].
    apply in_map_iff. exists y. split; [reflexivity|apply In_zrange; assumption].
Qed.

Lemma NoDup_app_intro : forall {A} (a b : list A),
  NoDup a -> NoDup b -> (forall x, In x a -> In x b -> False) -> NoDup (a ++ b).
Proof.
  induction a as [|x a IH]; intros b Ha Hb Hd; [assumption|].
  inversion Ha; subst. cbn [app]. constructor.
  - rewrite in_app_iff. intros [H|H]; [contradiction|]. apply (Hd x); [left; reflexivity|assumption].
  - apply IH; auto. intros y Hy1 Hy2. apply (Hd y); [right; assumption|assumption].
Qed.

Lemma NoDup_grid : forall (route : chip -> Z) (ys xs : list Z), NoDup xs -> NoDup ys ->
  NoDup (map fst (flat_map (fun x => map (fun y => ((x, y), route (x, y))) ys) xs)).
Proof.
  intros route ys. induction xs as [|x xs IH]; intros Hx Hy; [constructor|].
  inversion Hx as [|? ? Hnotin Hx']; subst.
  cbn [flat_map]. rewrite map_app. apply NoDup_app_intro.
  - rewrite map_map. cbn [fst]. apply Injective_map_NoDup; [|assumption].
    intros a b Hab. inversion Hab. reflexivity.
  - apply IH; assumption.
  - intros c Hin1 Hin2. rewrite map_map in Hin1. apply in_map_iff in Hin1. destruct Hin1 as (y & <- & _).
    apply in_map_iff in Hin2. destruct Hin2 as ([c' e] & Heq & Hin). cbn [fst] in Heq. subst c'.
    apply in_flat_map in Hin. destruct Hin as (x' & Hx'' & Hin).
    apply in_map_iff in Hin. destruct Hin as (y' & Heq & _). inversion Heq; subst. contradiction.
Qed.

Lemma NoDup_zrange : forall n, NoDup (zrange n).
Proof.
  intros. unfold zrange. apply Injective_map_NoDup; [|apply seq_NoDup].
  intros a b Hab. lia.
Qed.

Lemma NoDup_p2p_truth : forall route w h, NoDup (map fst (p2p_truth route w h)).
Proof. intros. unfold p2p_truth. apply NoDup_grid; apply NoDup_zrange. Qed.

Lemma zmax_fold_ge : forall l a, a <= fold_left Z.max l a /\ (forall x, In x l -> x <= fold_left Z.max l a)
                                 /\ (fold_left Z.max l a = a \/ In (fold_left Z.max l a) l).
Proof.
  induction l as [|b l IH]; intros a; cbn [fold_left].
  - split; [lia|]. split; [intros x []|]. left. reflexivity.
  - destruct (IH (Z.max a b)) as (H1 & H2 & H3). split; [lia|]. split.
    + intros x [<-|Hx]; [lia|]. apply H2. assumption.
    + destruct H3 as [H3|H3].
      * destruct (Z.max_spec a b) as [[_ Hm]|[_ Hm]]; rewrite Hm in *.
        -- right. left. symmetry. assumption.
        -- left. assumption.
      * right. right. assumption.
Qed.

Lemma zmax_list_spec : forall l, l <> [] ->
  exists m, zmax_list l = Some m /\ In m l /\ forall x, In x l -> x <= m.
Proof.
  intros [|a l] Hne; [contradiction|]. cbn [zmax_list].
  destruct (zmax_fold_ge l a) as (H1 & H2 & H3).
  exists (fold_left Z.max l a). split; [reflexivity|]. split.
  - destruct H3 as [->|H3]; [left; reflexivity|right; assumption].
  - intros x [<-|Hx]; auto.
Qed.

Lemma probe_chips_ok : forall answers, answers_valid answers -> forall tbl,
  probe_chips (info_of_machine answers) tbl =
  Ok (flat_map (fun ce => if snd ce =? NO_ROUTE then []
                          else match answers (fst ce) with
                               | Some cs => [(fst ce, truth_info cs)]
                               | None => []
                               end) tbl).
Proof.
  intros answers Hv. induction tbl as [|[c e] tbl IH]; [reflexivity|].
  cbn [probe_chips flat_map fst snd]. change P2PTableEntry_none with NO_ROUTE.
  destruct (e =? NO_ROUTE); [exact IH|].
  unfold info_of_machine at 1. destruct (answers c) as [cs|] eqn:Ea; cbn [option_map].
  - rewrite chip_info_roundtrip by (eapply Hv; eassumption). cbn [bind]. rewrite IH. reflexivity.
  - exact IH.
Qed.

Lemma In_routed : forall route w h c,
  In c (map fst (routed (p2p_truth route w h))) <-> has_route route w h c.
Proof.
  intros route w h c. unfold routed, has_route. rewrite in_map_iff. split.
  - intros ([c' e] & <- & Hin). apply filter_In in Hin. destruct Hin as [Hin Hne].
    apply In_p2p_truth in Hin. cbn [fst snd] in *. destruct Hin as (Hx & Hy & ->).
    change P2PTableEntry_none with NO_ROUTE in Hne. split; [assumption|]. split; [assumption|].
    intros Heq. rewrite Heq, Z.eqb_refl in Hne. discriminate.
  - intros (Hx & Hy & Hne). exists (c, route c). split; [reflexivity|]. apply filter_In. split.
    + apply In_p2p_truth. auto.
    + cbn [snd]. change P2PTableEntry_none with NO_ROUTE. apply Z.eqb_neq in Hne. rewrite Hne. reflexivity.
Qed.

Lemma system_info_of_truth : forall route answers w h,
  answers_valid answers -> (exists c, has_route route w h c) ->
  exists si, system_info_of_table (info_of_machine answers) (p2p_truth route w h) = Ok si /\
    si_chips si = live_chips route answers w h /\
    (forall c, has_route route w h c -> fst c < si_width si /\ snd c < si_height si) /\
    (exists c, has_route route w h c /\ si_width si = fst c + 1) /\
    (exists c, has_route route w h c /\ si_height si = snd c + 1).
Proof.
  intros route answers w h Hv [c0 Hc0]. unfold system_info_of_table.
  set (R := routed (p2p_truth route w h)).
  assert (HR : map fst R <> []).
  { intros Hnil. apply In_routed in Hc0. fold R in Hc0. rewrite Hnil in Hc0. contradiction. }
  assert (HRx : map (fun ce : Z * Z * Z => fst (fst ce)) R <> []).
  { intros Hnil. apply HR. destruct R; [reflexivity|discriminate]. }
  assert (HRy : map (fun ce : Z * Z * Z => snd (fst ce)) R <> []).
  { intros Hnil. apply HR. destruct R; [reflexivity|discriminate]. }
  destruct (zmax_list_spec _ HRx) as (mx & Emx & Hinx & Hmaxx).
  destruct (zmax_list_spec _ HRy) as (my & Emy & Hiny & Hmaxy).
  rewrite Emx, Emy. rewrite probe_chips_ok by assumption. cbn [bind].
  eexists. split; [reflexivity|]. cbn [si_chips si_width si_height]. split; [reflexivity|]. split; [|split].
  - intros c Hc. apply In_routed in Hc. fold R in Hc. apply in_map_iff in Hc. destruct Hc as (ce & <- & Hin).
    split.
    + assert (fst (fst ce) <= mx) by (apply Hmaxx; apply in_map_iff; exists ce; auto). lia.
    + assert (snd (fst ce) <= my) by (apply Hmaxy; apply in_map_iff; exists ce; auto). lia.
  - apply in_map_iff in Hinx. destruct Hinx as (ce & <- & Hin). exists (fst ce). split; [|reflexivity].
    apply In_routed. fold R. apply in_map. assumption.
  - apply in_map_iff in Hiny. destruct Hiny as (ce & <- & Hin). exists (fst ce). split; [|reflexivity].
    apply In_routed. fold R. apply in_map. assumption.
Qed.

Theorem system_info_exact : forall rd route answers w h,
  0 <= w < 256 -> 0 <= h < 256 -> routes_valid route -> reads_dims rd w h -> reads_p2p rd route ->
  answers_valid answers -> (exists c, has_route route w h c) ->
  exists si, system_info rd (info_of_machine answers) = Ok si /\
    si_chips si = live_chips route answers w h /\
    (forall c, has_route route w h c -> fst c < si_width si /\ snd c < si_height si) /\
    (exists c, has_route route w h c /\ si_width si = fst c + 1) /\
    (exists c, has_route route w h c /\ si_height si = snd c + 1).
Proof.
  intros rd route answers w h Hw Hh Hr Hd Hp Hv Hex.
  unfold system_info. rewrite (p2p_roundtrip rd route w h) by assumption. cbn [bind].
  apply system_info_of_truth; assumption.
Qed.

(* what is reported, chip by chip *)
Lemma In_live_chips : forall route answers w h c ci,
  In (c, ci) (live_chips route answers w h) <->
  (has_route route w h c /\ exists cs, answers c = Some cs /\ ci = truth_info cs).
Proof.
  intros route answers w h c ci. unfold live_chips. rewrite in_flat_map. split.
  - intros ([c' e] & Hin & Hc). cbn [fst snd] in Hc. apply In_p2p_truth in Hin. destruct Hin as (Hx & Hy & ->).
    destruct (route c' =? NO_ROUTE) eqn:E; [contradiction|]. apply Z.eqb_neq in E.
    destruct (answers c') as [cs|] eqn:Ea; [|contradiction]. destruct Hc as [Hc|[]]. inversion Hc; subst.
    split; [unfold has_route; auto|]. exists cs. auto.
  - intros ((Hx & Hy & Hne) & cs & Ea & ->). exists (c, route c). split; [apply In_p2p_truth; auto|].
    cbn [fst snd]. apply Z.eqb_neq in Hne. rewrite Hne, Ea. left. reflexivity.
Qed.

Lemma NoDup_flat_map_keys : forall {A B} (f : chip * A -> list (chip * B)) (l : list (chip * A)),
  (forall ce x, In x (f ce) -> fst x = fst ce) -> (forall ce, (length (f ce) <= 1)%nat) ->
  NoDup (map fst l) -> NoDup (map fst (flat_map f l)).
Proof.
  intros A B f l Hk Hlen. induction l as [|ce l IH]; intros Hnd; [constructor|].
  cbn [flat_map]. rewrite map_app. inversion Hnd as [|? ? Hnotin Hnd']; subst. apply NoDup_app_intro.
  - specialize (Hlen ce). destruct (f ce) as [|x [|y r]]; cbn [map]; [constructor|repeat constructor; intros []|simpl in Hlen; lia].
  - apply IH. assumption.
  - intros k Hin1 Hin2. apply in_map_iff in Hin1. destruct Hin1 as (x & <- & Hx).
    apply in_map_iff in Hin2. destruct Hin2 as (y & Heq & Hy). apply in_flat_map in Hy.
    destruct Hy as (ce' & Hce' & Hy). apply Hnotin. rewrite <- (Hk ce x Hx), <- Heq, (Hk ce' y Hy).
    apply in_map. assumption.
Qed.

Lemma NoDup_live_chips : forall route answers w h, NoDup (map fst (live_chips route answers w h)).
Proof.
  intros. unfold live_chips. apply NoDup_flat_map_keys.
  - intros ce x Hx. destruct (snd ce =? NO_ROUTE); [contradiction|].
    destruct (answers (fst ce)); [|contradiction]. destruct Hx as [<-|[]]. reflexivity.
  - intros ce. destruct (snd ce =? NO_ROUTE); [simpl; lia|]. destruct (answers (fst ce)); simpl; lia.
  - apply NoDup_p2p_truth.
Qed.
