"""Drive rig.machine_control.packets on JSON-described cases (runs under /venv/bin/python, PYTHONPATH=/repo).

A field value {"np": T, "v": x} stands for the numpy scalar numpy.T(x).
A packet is the list  [reply_expected, tag, dest_port, dest_cpu, src_port, src_cpu, dest_x, dest_y,
src_x, src_y, data]  (SDP)  followed by  cmd_rc, seq, arg1, arg2, arg3  (SCP; an absent argument is null);
data and byte strings are lists of ints.

cases:  ["enc_sdp", P]            -> ["ok", bytes, decoded(P)] | ["error", class]
        ["enc_scp", Q, n_args]    -> ["ok", bytes, decoded(Q) with n_args] | ["error", class]
        ["dec_sdp", bytes]        -> ["ok", P] | ["error", class]
        ["dec_scp", bytes, n]     -> ["ok", Q] | ["error", class]      (n null: the default n_args)
        ["hist_enc", ...], ["hist_dec", ...]  -> object-reuse histories, see hist_enc / hist_dec
        ["sweep16", field, base Q, lo, hi]     -> digest of the encodings with field = lo..hi-1
        ["sweep16raw", field, base Q, lo, hi, n] -> the encodings themselves (for the oracle)
        ["sweep16dec", pos, base bytes, lo, hi, n] -> digest of the numeric fields decoded with bytes pos, pos+1 = v
"""
import struct

from rig.machine_control.packets import SDPPacket, SCPPacket

H = ["reply_expected", "tag", "dest_port", "dest_cpu", "src_port", "src_cpu", "dest_x", "dest_y",
     "src_x", "src_y"]
S = ["cmd_rc", "seq", "arg1", "arg2", "arg3"]


def conv(x):
    """{"np": "uint8", "v": 200} -> numpy.uint8(200) (a field value given as a numpy scalar); lists elementwise"""
    if isinstance(x, dict):
        import numpy
        return getattr(numpy, x["np"])(x["v"])
    if isinstance(x, list):
        return [conv(y) for y in x]
    return x


def mk_sdp(p, buf=bytes):
    p = conv(p)
    return SDPPacket(**dict(zip(H, p[:10]), data=buf(p[10])))


def mk_scp(q, buf=bytes):
    q = conv(q)
    return SCPPacket(**dict(zip(H + ["data"] + S, q[:10] + [buf(q[10])] + q[11:16])))


def show_sdp(p):
    return [getattr(p, f) for f in H] + [list(p.data)]


def show_scp(q):
    return show_sdp(q) + [getattr(q, f) for f in S]


def err(e):
    return ["error", "struct.error" if isinstance(e, struct.error) else type(e).__name__]


def enc(pkt):
    try:
        b = pkt.bytestring
    except Exception as e:
        return err(e)
    if type(b) is not bytes:
        return ["error", "not-bytes:" + type(b).__name__]
    return ["ok", list(b)]


def dec(cls, show, bs, *n):
    try:
        return ["ok", show(cls.from_bytestring(bytes(bs), *n))]
    except Exception as e:
        return err(e)


def digest(h, bs):
    """Fletcher-style running digest [a, c]: a += b + 1; c += a"""
    a, c = h
    for b in bs:
        a += b + 1
        c += a
    return [a, c]


def sweep_packet(base, f, v):
    """the packet of a sweep: base with field f (an index, or a named group of fields) set from the counter v"""
    q = list(base)
    if f == "ports":
        q[2], q[3], q[4], q[5] = v >> 13, (v >> 8) & 31, (v >> 5) & 7, v & 31
    elif f == "dest_xy":
        q[6], q[7] = v >> 8, v & 255
    elif f == "src_xy":
        q[8], q[9] = v >> 8, v & 255
    else:
        q[f] = v
    return q


# user-defined subclasses: overriding nothing; with a __dict__, with extra slots, with an extra attribute set in
# their own __init__, one level deeper
class SubSDP(SDPPacket):
    pass


class SubSDPSlots(SDPPacket):
    __slots__ = ["note"]


class SubSCP(SCPPacket):
    pass


class SubSCPSlots(SCPPacket):
    __slots__ = ["note", "retries"]


class SubSCPInit(SCPPacket):
    def __init__(self, *args, **kwargs):
        super(SubSCPInit, self).__init__(*args, **kwargs)
        self.note = "application data"


class SubSubSCP(SubSCP):
    pass


SUBS = {c.__name__: c for c in (SubSDP, SubSDPSlots, SubSCP, SubSCPSlots, SubSCPInit, SubSubSCP)}


def sub_case(c):
    """["enc_sub", class name, packet, n_args] / ["dec_sub", class name, bytes, n_args]: as enc_* / dec_* on an
    instance of a user-defined subclass (decoding through the subclass's inherited from_bytestring)"""
    cls = SUBS[c[1]]
    scp = issubclass(cls, SCPPacket)
    show = show_scp if scp else show_sdp
    n = [] if not scp or c[3] is None else [c[3]]
    if c[0] == "dec_sub":
        return dec(cls, show, c[2], *n)
    q = conv(c[2])
    names = H + ["data"] + (S if scp else [])
    pkt = cls(**dict(zip(names, q[:10] + [bytes(q[10])] + (q[11:16] if scp else []))))
    r = enc(pkt)
    return r + [dec(cls, show, r[1], *n)] if r[0] == "ok" else r


def hist_enc(c):
    """["hist_enc", "sdp"|"scp", packet, mutable payload?, ops]: ONE packet object through
    ["enc", n_args] (-> like enc_sdp / enc_scp) | ["set", field index, value, mutable?] (attribute
    assignment) | ["poke", i, v] | ["trunc", n] | ["refill", bytes] | ["extend", bytes] (the bytearray payload
    changed in place).  -> ["hist", [result of every enc step]]"""
    scp = c[1] == "scp"
    pkt = (mk_scp if scp else mk_sdp)(c[2], bytearray if c[3] else bytes)
    names = H + ["data"] + S
    out = []
    for op in c[4]:
        if op[0] == "enc":
            r = enc(pkt)
            if r[0] == "ok":
                r = r + [dec(SCPPacket, show_scp, r[1], op[1]) if scp else dec(SDPPacket, show_sdp, r[1])]
            out.append(r)
        elif op[0] == "set":
            v = conv(op[2])
            if op[1] == 10:
                v = bytearray(v) if op[3] else bytes(v)
            setattr(pkt, names[op[1]], v)
        elif op[0] == "poke":
            pkt.data[op[1]] = op[2]
        elif op[0] == "trunc":
            del pkt.data[op[1]:]
        elif op[0] == "refill":
            pkt.data[:] = bytes(op[1])
        elif op[0] == "extend":
            pkt.data.extend(bytes(op[1]))
        else:
            raise ValueError(op)
    return ["hist", out]


def hist_dec(c):
    """["hist_dec", steps]: ["dec", "sdp"|"scp", bytes, n_args] decodes a datagram into a new object (kept);
    ["mod", object index, field index, value] assigns a field of an earlier decoded object; ["turn", index]
    swaps its source and destination.  -> ["hist", [result of every dec step, shown at once]]"""
    names = H + ["data"] + S
    objs, out, bufs = [], [], []
    for st in c[1]:
        if st[0] == "decbuf":
            # ["decbuf", kind, bytes, n_args, "bytes"|"bytearray"|"memoryview"]: decode from a caller's buffer
            raw = bytes(st[2]) if st[4] == "bytes" else bytearray(st[2])
            bufs.append(raw)
            arg = memoryview(raw) if st[4] == "memoryview" else raw
            try:
                if st[1] == "scp":
                    o = SCPPacket.from_bytestring(arg, *([] if st[3] is None else [st[3]]))
                    out.append(["ok", show_scp(o)])
                else:
                    o = SDPPacket.from_bytestring(arg)
                    out.append(["ok", show_sdp(o)])
                objs.append(o)
            except Exception as e:
                objs.append(None)
                out.append(err(e))
        elif st[0] == "overwrite":
            # the caller reuses its receive buffer (recv_into style): same length, new contents
            raw = bufs[st[1]]
            if isinstance(raw, bytearray):
                raw[:] = bytes(st[2])[:len(raw)].ljust(len(raw), b"\0")
        elif st[0] == "recheck":
            # the packet decoded earlier, looked at again: its fields and its own encoding
            o = objs[st[1]]
            if o is None:
                out.append(["error", "no-object"])
            else:
                out.append(["ok", (show_scp if isinstance(o, SCPPacket) else show_sdp)(o), enc(o)])
        elif st[0] == "dec":
            bufs.append(None)
            try:
                if st[1] == "scp":
                    o = SCPPacket.from_bytestring(bytes(st[2]), *([] if st[3] is None else [st[3]]))
                    out.append(["ok", show_scp(o)])
                else:
                    o = SDPPacket.from_bytestring(bytes(st[2]))
                    out.append(["ok", show_sdp(o)])
                objs.append(o)
            except Exception as e:
                objs.append(None)
                out.append(err(e))
        elif st[0] == "mod":
            o = objs[st[1]]
            if o is not None and (st[2] <= 10 or isinstance(o, SCPPacket)):
                setattr(o, names[st[2]], bytes(st[3]) if st[2] == 10 else st[3])
        elif st[0] == "turn":
            o = objs[st[1]]
            if o is not None:
                o.dest_x, o.src_x = o.src_x, o.dest_x
                o.dest_y, o.src_y = o.src_y, o.dest_y
                o.dest_cpu, o.src_cpu = o.src_cpu, o.dest_cpu
                o.dest_port, o.src_port = o.src_port, o.dest_port
                o.reply_expected = False
                o.tag = 0xff
        else:
            raise ValueError(st)
    return ["hist", out]


def threads_case(c):
    """["threads", [[[packet, expected bytes] ...] per thread], seconds]: every thread encodes its own packets
    in a tight loop; the first encoding that differs from the expected bytes (computed by the harness's
    independent encoder) is returned.  A search: finding nothing proves nothing."""
    import signal
    import sys
    import threading
    import time
    # this case runs for c[2] seconds of wall time on several threads: lift the per-case CPU-time limit of
    # implutil.run_cases accordingly (it is re-armed for the next case)
    signal.setitimer(signal.ITIMER_PROF, 10 * c[2] + 60)
    signal.alarm(int(20 * c[2]) + 300)
    old = sys.getswitchinterval()
    sys.setswitchinterval(1e-6)
    stop = time.time() + c[2]
    found, counts = [], [0] * len(c[1])

    def work(t, items):
        pkts = [(mk_scp(q), bytes(want), q) for q, want in items]
        while not found and time.time() < stop:
            for pkt, want, q in pkts:
                try:
                    got = pkt.bytestring
                except Exception as e:
                    got = err(e)
                counts[t] += 1
                if got != want:
                    found.append([t, q, list(got) if isinstance(got, bytes) else got])
                    return
    ths = [threading.Thread(target=work, args=(t, items)) for t, items in enumerate(c[1])]
    try:
        for th in ths:
            th.start()
        for th in ths:
            th.join()
    finally:
        sys.setswitchinterval(old)
    return ["threads", found[:1], sum(counts)]


def run_case(c):
    k = c[0]
    if k == "threads":
        return threads_case(c)
    if k in ("enc_sub", "dec_sub"):
        return sub_case(c)
    if k == "hist_enc":
        return hist_enc(c)
    if k == "hist_dec":
        return hist_dec(c)
    if k == "enc_sdp":
        r = enc(mk_sdp(c[1]))
        return r + [dec(SDPPacket, show_sdp, r[1])] if r[0] == "ok" else r
    if k == "enc_scp":
        r = enc(mk_scp(c[1]))
        return r + [dec(SCPPacket, show_scp, r[1], c[2])] if r[0] == "ok" else r
    if k == "dec_sdp":
        return dec(SDPPacket, show_sdp, c[1])
    if k == "dec_scp":
        return dec(SCPPacket, show_scp, c[1], *([] if c[2] is None else [c[2]]))
    if k == "sweep16":
        h = [0, 0]
        for v in range(c[3], c[4]):
            q = sweep_packet(c[2], c[1], v)
            r = enc(mk_scp(q))
            h = digest(h, r[1] if r[0] == "ok" else [300])
        return ["digest", h]
    if k == "sweep16dec":
        h = [0, 0]
        bs = list(c[2])
        for v in range(c[3], c[4]):
            bs[c[1]], bs[c[1] + 1] = v & 255, v >> 8
            r = dec(SCPPacket, show_scp, bs, c[5])
            h = digest(h, r[1][1:10] + r[1][11:13] if r[0] == "ok" else [300])
        return ["digest", h]
    if k == "sweep16raw":
        # for the oracle: the encoding (hex) of every packet of the sweep, and True when decoding it with
        # n_args = c[5] gives back exactly the packet (otherwise what decoding gave)
        out = []
        for v in range(c[3], c[4]):
            q = sweep_packet(c[2], c[1], v)
            r = enc(mk_scp(q))
            if r[0] != "ok":
                out.append(None)
                continue
            d = dec(SCPPacket, show_scp, r[1], c[5])
            out.append([bytes(r[1]).hex(), True if d == ["ok", q] else d])
        return ["raw", out]
    raise ValueError("unknown case kind %r" % (k,))


if __name__ == "__main__":
    import implutil
    implutil.run_cases(run_case, per_case_s=20)
