(* C09: load_application.  One attempt (flood fill of the still-unloaded map, verification by count or
   by per-core state reads), the loop invariant, and the theorems about the outcome. *)
From Coq Require Import ZArith List Bool Lia Sorted Permutation.
Require Import Rig.Generated.GenRegions Rig.Generated.GenLoad Rig.Generated.GenLoadShape Rig.Model.Base Rig.Model.Regions Rig.Spec.Regions.
Require Import Rig.Model.Load Rig.Spec.Load.
Require Import Rig.Proofs.Regions Rig.Proofs.LoadBits Rig.Proofs.LoadMachine Rig.Proofs.LoadCtrl Rig.Proofs.LoadFill Rig.Proofs.LoadCount.
Import ListNotations.
Open Scope Z_scope.

Ltac Zify.zify_post_hook ::= Z.to_euclidean_division_equations.

(* ---------------------------------------------------------------- small facts *)
Lemma requested_In : forall cs x y p, requested cs x y p = true <-> In (x, y, p) cs.
Proof.
  intros cs x y p. unfold requested. rewrite existsb_exists. split.
  - intros [c [Hin He]]. apply core_eqb_eq in He. subst c. exact Hin.
  - intros H. exists (x, y, p). split; [exact H|]. apply core_eqb_eq. reflexivity.
Qed.

Lemma NoDup_app_inv : forall A (a b : list A), NoDup (a ++ b) ->
  NoDup a /\ NoDup b /\ forall x, In x a -> ~ In x b.
Proof.
  intros A a b. induction a as [|x a IH]; intros H.
  - split; [constructor|]. split; [exact H|]. intros x [].
  - cbn [app] in H. inversion H as [|? ? Hnin Hnd]; subst. destruct (IH Hnd) as (Ha & Hb & Hd).
    split; [constructor; [intros Hin; apply Hnin; apply in_or_app; left; exact Hin|exact Ha]|].
    split; [exact Hb|]. intros z [->|Hz]; [intros Hin; apply Hnin; apply in_or_app; right; exact Hin|apply Hd; exact Hz].
Qed.

Lemma named_cons : forall b ts r, named ((b, ts) :: r) = map (pair b) (cores_of_targets ts) ++ named r.
Proof. reflexivity. Qed.

Lemma map_snd_pair : forall A B (b : A) (l : list B), map snd (map (pair b) l) = l.
Proof. intros. rewrite map_map. cbn [snd]. apply map_id. Qed.

Lemma ff_flags_true : ff_flags true = 1.
Proof. reflexivity. Qed.

Lemma holds_in_wait : forall bins m aid b c, holds bins m aid STATE_WAIT b c -> in_wait m c.
Proof. intros bins m aid b c [data [_ H]]. exists (mkCore STATE_WAIT aid data). split; [exact H|reflexivity]. Qed.

(* ---------------------------------------------------------------- machine_wf is kept by a fill *)
Lemma machine_wf_kept : forall m m' flags aid,
  machine_wf m -> same_static m m' -> map fst (m_chips m') = map fst (m_chips m) ->
  0 <= aid < 256 ->
  (forall c s', core_at m' c = Some s' ->
     core_at m c = Some s' \/ exists data, s' = loaded_core flags aid data) ->
  machine_wf m'.
Proof.
  intros m m' flags aid (Hnd & Hcores & Hlay & Hvcpu & Hbase & Hbuf & Hbm) (Sa & Sb & Sc) Hk Haid Hc.
  unfold machine_wf. rewrite Hk, Sa, Sb, Sc.
  split; [exact Hnd|]. split; [|repeat split; try assumption; lia].
  intros c s' H. destruct (Hc c s' H) as [Ho|[data ->]]; [apply (Hcores c s' Ho)|].
  unfold loaded_core, core_wf. cbn [cs_state cs_app].
  destruct (Z.odd flags); unfold STATE_WAIT, STATE_RUN; lia.
Qed.

(* ---------------------------------------------------------------- one attempt: the flood fills *)
(* after flood-filling the map [unl]: every named core is either as before (its chip missed the fill, or
   there is no such core) or holds its binary, waiting; every other core is as before *)
Definition fill_post (bins : list (list Z)) (aid st : Z) (unl : appmap) (m0 m1 : machine) : Prop :=
  (forall b c, In (b, c) (named unl) ->
     core_at m1 c = core_at m0 c \/
     (core_at m0 c <> None /\ exists data, nth_error bins (Z.to_nat b) = Some data
                                           /\ core_at m1 c = Some (mkCore st aid data)))
  /\ (forall c, ~ In c (map snd (named unl)) -> core_at m1 c = core_at m0 c).

Lemma flood_fill_aplx_post : forall bins aid wait unl c w c' w',
  ctrl_wf c (w_m w) -> machine_wf (w_m w) -> bins_ok (m_buffer (w_m w)) bins -> 0 <= aid < 256 ->
  NoDup (map snd (named unl)) ->
  flood_fill_aplx bins c w unl aid wait = Ok (c', w') ->
  fill_post bins aid (if wait then STATE_WAIT else STATE_RUN) unl (w_m w) (w_m w') /\ ctrl_wf c' (w_m w') /\ machine_wf (w_m w')
  /\ same_static (w_m w) (w_m w') /\ map fst (m_chips (w_m w')) = map fst (m_chips (w_m w)).
Proof.
  intros bins aid wait unl. induction unl as [|[b ts] r IH]; intros c w c' w' Hc Hm Hbins Haid Hnd H.
  - cbn [flood_fill_aplx] in H. inversion H; subst.
    split; [split; [intros b c0 []|reflexivity]|]. split; [exact Hc|]. split; [exact Hm|]. split; [repeat split|reflexivity].
  - cbn [flood_fill_aplx] in H.
    destruct (nth_error bins (Z.to_nat b)) as [data|] eqn:Eb; [|discriminate].
    apply bind_ok in H. destruct H as [[c1 w1] [Hf H]]. cbn [fst snd] in H.
    assert (Hbin : binary_ok (m_buffer (w_m w)) data).
    { unfold bins_ok in Hbins. rewrite Forall_forall in Hbins. apply Hbins. eapply nth_error_In. exact Eb. }
    assert (Hfl : 0 <= ff_flags wait < 64) by (destruct wait; vm_compute; split; congruence).
    pose proof (fill_one_effect c w aid (ff_flags wait) data ts c1 w1 Hc Hm Hbin Haid Hfl Hf)
      as (E1 & E2 & E3 & E4 & E5 & E6).
    assert (Hlc : loaded_core (ff_flags wait) aid data = mkCore (if wait then STATE_WAIT else STATE_RUN) aid data)
      by (destruct wait; reflexivity).
    rewrite Hlc in E4.
    rewrite named_cons, map_app, map_snd_pair in Hnd.
    destruct (NoDup_app_inv _ _ _ Hnd) as (_ & Hndr & Hdisj).
    assert (Hm1 : machine_wf (w_m w1)).
    { apply (machine_wf_kept (w_m w) (w_m w1) (ff_flags wait) aid Hm E2 E3 Haid).
      intros [[x y] p] s' Hs. rewrite E4 in Hs. destruct (core_at (w_m w) (x, y, p)) as [old|]; [|discriminate].
      cbn [option_map] in Hs. inversion Hs.
      destruct (negb (chip_mem (x, y) (hd [] (m_sched (w_m w)))) && requested (cores_of_targets ts) x y p);
        [right; exists data; symmetry; exact Hlc|left; reflexivity]. }
    assert (Hc1 : ctrl_wf c1 (w_m w1)).
    { destruct E2 as (Sa & _). split; [rewrite E5; pose proof (next_nn_id_range (c_nn c) (proj1 Hc)); lia|].
      right. rewrite E6, Sa. reflexivity. }
    assert (Hbins1 : bins_ok (m_buffer (w_m w1)) bins) by (destruct E2 as (-> & _); exact Hbins).
    specialize (IH c1 w1 c' w' Hc1 Hm1 Hbins1 Haid Hndr H).
    destruct IH as ((P1 & P2) & Hc' & Hm' & St & Hk).
    split; [|split; [exact Hc'|split; [exact Hm'|split]]].
    + split.
      * intros b0 [[x y] p] Hin. rewrite named_cons in Hin. apply in_app_or in Hin. destruct Hin as [Hin|Hin].
        -- apply in_map_iff in Hin. destruct Hin as [c0 [Heq Hin]]. inversion Heq; subst b0 c0. clear Heq.
           rewrite (P2 (x, y, p) (Hdisj _ Hin)). rewrite E4.
           destruct (core_at (w_m w) (x, y, p)) as [old|] eqn:Eo; [|left; reflexivity].
           cbn [option_map].
           destruct (negb (chip_mem (x, y) (hd [] (m_sched (w_m w)))) && requested (cores_of_targets ts) x y p).
           ++ right. split; [discriminate|]. exists data. split; [exact Eb|reflexivity].
           ++ left. reflexivity.
        -- assert (Hnr : requested (cores_of_targets ts) x y p = false).
           { destruct (requested (cores_of_targets ts) x y p) eqn:Er; [|reflexivity]. exfalso.
             apply requested_In in Er. apply (Hdisj _ Er). apply in_map_iff. exists (b0, (x, y, p)). split; [reflexivity|exact Hin]. }
           assert (Hsame : core_at (w_m w1) (x, y, p) = core_at (w_m w) (x, y, p)).
           { rewrite E4, Hnr, andb_false_r. destruct (core_at (w_m w) (x, y, p)); reflexivity. }
           destruct (P1 b0 (x, y, p) Hin) as [Hu|[Hne Hl]].
           ++ left. rewrite Hu. exact Hsame.
           ++ right. rewrite <- Hsame. split; [exact Hne|exact Hl].
      * intros [[x y] p] Hnin. rewrite named_cons, map_app, map_snd_pair in Hnin.
        rewrite P2 by (intros Hin; apply Hnin; apply in_or_app; right; exact Hin).
        assert (Hnr : requested (cores_of_targets ts) x y p = false).
        { destruct (requested (cores_of_targets ts) x y p) eqn:Er; [|reflexivity]. exfalso.
          apply requested_In in Er. apply Hnin. apply in_or_app. left. exact Er. }
        rewrite E4, Hnr, andb_false_r. destruct (core_at (w_m w) (x, y, p)); reflexivity.
    + destruct E2 as (A & B & C). destruct St as (A' & B' & C'). repeat split; congruence.
    + rewrite Hk. exact E3.
Qed.

(* ---------------------------------------------------------------- one attempt: the per-core check *)
Definition state_of (m : machine) (c : core) : Z :=
  match core_at m c with Some s => cs_state s | None => 0 end.

(* the cores the check keeps as "unloaded": those whose state is not `wait` *)
Definition still (m : machine) (c : core) : bool := negb (state_of m c =? STATE_WAIT).

Lemma dest_chip_plain : forall m x y, ~ (x = 255 /\ y = 255) ->
  dest_chip m x y = match cassoc (x, y) (m_chips m) with Some c => Some ((x, y), c) | None => None end.
Proof.
  intros m x y H. unfold dest_chip. destruct ((x =? 255) && (y =? 255)) eqn:E; [|reflexivity].
  apply andb_prop in E. destruct E as [A B]. apply Z.eqb_eq in A, B. exfalso. apply H. split; assumption.
Qed.

Lemma read_cpu_state_inv : forall c w x y p c' w' s,
  ctrl_wf c (w_m w) -> machine_wf (w_m w) -> in_space (x, y, p) -> ~ (x = 255 /\ y = 255) ->
  read_cpu_state c w x y p = Ok (c', w', s) ->
  w_m w' = w_m w /\ ctrl_wf c' (w_m w) /\ s = state_of (w_m w) (x, y, p).
Proof.
  intros c w x y p c' w' s Hc Hm Hsp Hxy H.
  pose proof Hm as (Hnd & Hcores & Hlay & Hvcpu & Hbase & Hbuf & Hbm).
  unfold read_cpu_state in H. apply bind_ok in H. destruct H as [[[c1 w1] vbase] [Hr H]].
  apply read_sv_word_inv in Hr; [|exact Hc|lia].
  destruct Hr as (Hm1 & Hcb1 & Hcn1 & (xy & ch & Hd & Hv) & _).
  rewrite dest_chip_plain in Hd by exact Hxy.
  destruct (cassoc (x, y) (m_chips (w_m w))) as [ch0|] eqn:Ech; [|discriminate].
  inversion Hd; subst xy ch. clear Hd.
  pose proof (cassoc_Some_key _ _ _ Ech) as Hkey.
  rewrite mread_vcpu_base, of_le32_le32 in Hv by exact (Hvcpu _ Hkey). inversion Hv; subst vbase. clear Hv.
  assert (Hc1 : ctrl_wf c1 (w_m w1)).
  { split; [rewrite Hcn1; exact (proj1 Hc)|right; rewrite Hcb1, Hm1; reflexivity]. }
  apply bind_ok in H. destruct H as [[[c2 w2] d] [Hr2 H]]. cbn [fst snd] in H.
  apply read_inv in Hr2; [|exact Hc1|rewrite Hm1; change vcpu_cpu_state_size with 1; lia].
  destruct Hr2 as (Hm2 & Hcb2 & Hcn2 & (xy2 & ch2 & Hd2 & Hdata) & _).
  rewrite Hm1 in *. rewrite dest_chip_plain in Hd2 by exact Hxy. rewrite Ech in Hd2.
  inversion Hd2; subst xy2 ch2. clear Hd2.
  destruct Hsp as (Hx & Hy & Hp).
  rewrite mread_cpu_state in Hdata by (try exact (Hlay _ Hkey); lia). subst d. inversion H; subst c' w' s. clear H.
  split; [exact Hm2|]. split.
  - split; [rewrite Hcn2, Hcn1; exact (proj1 Hc)|right; rewrite Hcb2; reflexivity].
  - unfold state_of, core_at. destruct (p <? 0) eqn:Ep; [apply Z.ltb_lt in Ep; lia|]. rewrite Ech.
    destruct (nth_error (ch_cores ch0) (Z.to_nat p)) as [s0|] eqn:En; [|reflexivity].
    assert (Hw : core_wf s0).
    { apply (Hcores (x, y, p)). unfold core_at. rewrite Ep, Ech. exact En. }
    destruct Hw as [Hw _]. apply Z.mod_small. exact Hw.
Qed.

Lemma check_cores_spec : forall x y ps c w c' w' un,
  ctrl_wf c (w_m w) -> machine_wf (w_m w) -> ~ (x = 255 /\ y = 255) ->
  (forall p, In p ps -> in_space (x, y, p)) ->
  check_cores c w x y ps = Ok (c', w', un) ->
  w_m w' = w_m w /\ ctrl_wf c' (w_m w) /\ un = filter (fun p => still (w_m w) (x, y, p)) ps.
Proof.
  intros x y ps. induction ps as [|p ps IH]; intros c w c' w' un Hc Hm Hxy Hsp H.
  - cbn [check_cores] in H. inversion H; subst. repeat split; try assumption; apply Hc.
  - cbn [check_cores] in H. apply bind_ok in H. destruct H as [[[c1 w1] s] [Hr H]].
    apply read_cpu_state_inv in Hr; try assumption; [|apply Hsp; left; reflexivity].
    destruct Hr as (Hm1 & Hc1 & Hs).
    destruct (is_member s AppState_members); [|discriminate].
    apply bind_ok in H. destruct H as [[[c2 w2] l] [Hrec H]]. cbn [fst snd] in H.
    rewrite <- Hm1 in Hc1. apply IH in Hrec; try assumption; try (rewrite Hm1; assumption).
    + destruct Hrec as (Hm2 & Hc2 & Hl). inversion H; subst c' w' un. clear H. rewrite Hm1 in *.
      split; [exact Hm2|]. split; [exact Hc2|]. cbn [filter]. unfold still at 1. rewrite <- Hs.
      change load_loaded_state with STATE_WAIT. destruct (s =? STATE_WAIT); cbn [negb]; rewrite Hl; reflexivity.
    + intros q Hq. apply Hsp. right. exact Hq.
Qed.

Lemma filter_map_comm : forall A B (g : A -> B) (f : B -> bool) l,
  filter f (map g l) = map g (filter (fun a => f (g a)) l).
Proof.
  intros A B g f l. induction l as [|a l IH]; [reflexivity|]. cbn [map filter].
  destruct (f (g a)); cbn [map]; rewrite IH; reflexivity.
Qed.

Lemma cores_of_targets_cons : forall xy ps r,
  cores_of_targets ((xy, ps) :: r) = map (fun p => (fst xy, snd xy, p)) ps ++ cores_of_targets r.
Proof. reflexivity. Qed.

Lemma check_targets_spec : forall ts c w c' w' un,
  ctrl_wf c (w_m w) -> machine_wf (w_m w) ->
  (forall x y p, In (x, y, p) (cores_of_targets ts) -> in_space (x, y, p) /\ ~ (x = 255 /\ y = 255)) ->
  check_targets c w ts = Ok (c', w', un) ->
  w_m w' = w_m w /\ ctrl_wf c' (w_m w)
  /\ cores_of_targets un = filter (still (w_m w)) (cores_of_targets ts)
  /\ (un = [] \/ cores_of_targets un <> []).
Proof.
  induction ts as [|[[x y] ps] r IH]; intros c w c' w' un Hc Hm Hsp H.
  - cbn [check_targets] in H. inversion H; subst. split; [reflexivity|]. split; [exact Hc|]. split; [reflexivity|left; reflexivity].
  - cbn [check_targets fst snd] in H. apply bind_ok in H. destruct H as [[[c1 w1] u] [Hcc H]].
    destruct ps as [|p0 ps].
    + (* a chip with an empty set of cores *)
      cbn [check_cores] in Hcc. inversion Hcc; subst c1 w1 u. clear Hcc.
      apply bind_ok in H. destruct H as [[[c2 w2] l] [Hrec H]]. cbn [fst snd] in H. inversion H; subst c' w' un. clear H.
      apply IH in Hrec; assumption.
    + assert (Hxy : ~ (x = 255 /\ y = 255)).
      { apply (Hsp x y p0). rewrite cores_of_targets_cons. cbn [fst snd map app]. left. reflexivity. }
      apply check_cores_spec in Hcc; try assumption.
      2:{ intros q Hq. apply (Hsp x y q). rewrite cores_of_targets_cons. apply in_or_app. left.
          apply in_map_iff. exists q. split; [reflexivity|exact Hq]. }
      destruct Hcc as (Hm1 & Hc1 & Hu).
      apply bind_ok in H. destruct H as [[[c2 w2] l] [Hrec H]]. cbn [fst snd] in H.
      rewrite <- Hm1 in Hc1. apply IH in Hrec; try assumption; try (rewrite Hm1; assumption).
      2:{ intros x0 y0 q Hq. apply Hsp. rewrite cores_of_targets_cons. apply in_or_app. right. exact Hq. }
      destruct Hrec as (Hm2 & Hc2 & Hl & Hne). rewrite Hm1 in *.
      rewrite cores_of_targets_cons. cbn [fst snd]. rewrite filter_app, filter_map_comm. rewrite <- Hu.
      destruct u as [|u0 u]; inversion H; subst c' w' un; clear H.
      * split; [exact Hm2|]. split; [exact Hc2|]. split; [cbn [map List.app]; exact Hl|exact Hne].
      * split; [exact Hm2|]. split; [exact Hc2|]. split.
        -- rewrite cores_of_targets_cons. cbn [fst snd]. rewrite Hl. reflexivity.
        -- right. rewrite cores_of_targets_cons. cbn [map List.app]. discriminate.
Qed.

Lemma check_map_spec : forall unl c w c' w' unl1,
  ctrl_wf c (w_m w) -> machine_wf (w_m w) ->
  (forall b x y p, In (b, (x, y, p)) (named unl) -> in_space (x, y, p) /\ ~ (x = 255 /\ y = 255)) ->
  check_map c w unl = Ok (c', w', unl1) ->
  w_m w' = w_m w /\ ctrl_wf c' (w_m w)
  /\ named unl1 = filter (fun bc => still (w_m w) (snd bc)) (named unl)
  /\ (unl1 = [] \/ named unl1 <> []).
Proof.
  induction unl as [|[b ts] r IH]; intros c w c' w' unl1 Hc Hm Hsp H.
  - cbn [check_map] in H. inversion H; subst. split; [reflexivity|]. split; [exact Hc|]. split; [reflexivity|left; reflexivity].
  - cbn [check_map] in H. apply bind_ok in H. destruct H as [[[c1 w1] u] [Hct H]].
    apply check_targets_spec in Hct; try assumption.
    2:{ intros x y p Hin. apply (Hsp b). rewrite named_cons. apply in_or_app. left.
        apply in_map_iff. exists (x, y, p). split; [reflexivity|exact Hin]. }
    destruct Hct as (Hm1 & Hc1 & Hu & Hune).
    apply bind_ok in H. destruct H as [[[c2 w2] l] [Hrec H]]. cbn [fst snd] in H.
    rewrite <- Hm1 in Hc1. apply IH in Hrec; try assumption; try (rewrite Hm1; assumption).
    2:{ intros b0 x y p Hin. apply (Hsp b0). rewrite named_cons. apply in_or_app. right. exact Hin. }
    destruct Hrec as (Hm2 & Hc2 & Hl & Hne). rewrite Hm1 in *.
    rewrite named_cons, filter_app, filter_map_comm. cbn [snd].
    change (fun a : core => still (w_m w) a) with (still (w_m w)).
    destruct u as [|u0 u]; inversion H; subst c' w' unl1; clear H.
    + split; [exact Hm2|]. split; [exact Hc2|]. split; [|exact Hne].
      rewrite <- Hu. cbn [cores_of_targets flat_map map List.app]. exact Hl.
    + split; [exact Hm2|]. split; [exact Hc2|]. split.
      * rewrite named_cons. rewrite <- Hu, Hl. reflexivity.
      * right. rewrite named_cons. destruct Hune as [Hu0|Hu0]; [discriminate|].
        destruct (cores_of_targets (u0 :: u)) as [|c0 cs0]; [congruence|]. cbn [map List.app]. discriminate.
Qed.

(* ---------------------------------------------------------------- count and start signal *)
Lemma mstep_count : forall m aid, 0 <= aid < 256 ->
  mstep m (mkPkt count_x count_y count_p count_cmd count_arg1 (count_arg2 AppState_wait aid) count_arg3 []) =
  match hd_error (m_chips m) with
  | Some _ => (m, RArgs (count_state STATE_WAIT 255 aid (m_chips m)))
  | None => (m, RError)
  end.
Proof.
  intros m aid Haid. destruct (count_fields aid Haid) as (F1 & F2 & F3 & F4).
  unfold mstep. cbn [q_x q_y q_cmd q_a1 q_a2]. unfold dest_chip, count_x, count_y. cbn [Z.eqb Pos.eqb andb].
  destruct (hd_error (m_chips m)) as [[xy ch]|]; [|reflexivity].
  unfold count_cmd, CMD_VER, CMD_READ, CMD_NNP, CMD_FFD, CMD_SIG, count_arg1. cbn [Z.eqb Pos.eqb].
  rewrite F1, F2, F3, F4. reflexivity.
Qed.

Lemma count_cores_wait_inv : forall w aid w' n, 0 <= aid < 256 ->
  count_cores_wait w aid = Ok (w', n) ->
  w_m w' = w_m w /\ n = count_state STATE_WAIT 255 aid (m_chips (w_m w)).
Proof.
  intros w aid w' n Haid H. unfold count_cores_wait in H. apply bind_ok in H. destruct H as [[w1 r] [Hs H]].
  cbn [fst snd] in H. apply send_inv in Hs. destruct Hs as (_ & Hr & Hne & Hm).
  rewrite mstep_count in Hr, Hm by exact Haid.
  destruct (hd_error (m_chips (w_m w))); cbn [fst snd] in Hr, Hm; [|congruence].
  subst r. inversion H; subst. split; [exact Hm|reflexivity].
Qed.

Lemma mstep_start : forall m aid, 0 <= aid < 256 ->
  mstep m (mkPkt signal_x signal_y signal_p signal_cmd (signal_arg1 signal_type_start)
                 (signal_arg2 AppSignal_start aid) signal_arg3 []) =
  match hd_error (m_chips m) with
  | Some _ => (set_chips m (map_cores (start_core 255 aid) (m_chips m)), RArgs 0)
  | None => (m, RError)
  end.
Proof.
  intros m aid Haid. destruct (signal_fields aid Haid) as (F1 & F2 & F3).
  unfold mstep. cbn [q_x q_y q_cmd q_a1 q_a2]. unfold dest_chip, signal_x, signal_y. cbn [Z.eqb Pos.eqb andb].
  destruct (hd_error (m_chips m)) as [[xy ch]|]; [|reflexivity].
  unfold signal_cmd, CMD_VER, CMD_READ, CMD_NNP, CMD_FFD, CMD_SIG, signal_arg1, signal_type_start.
  cbn [Z.eqb Pos.eqb]. rewrite F1, F2, F3. reflexivity.
Qed.

Lemma cassoc_map_cores : forall f cs k,
  cassoc k (map_cores f cs) = option_map (fun ch => mkChip (map f (ch_cores ch)) (ch_fill ch)) (cassoc k cs).
Proof.
  intros f cs k. induction cs as [|[k' ch] cs IH]; [reflexivity|]. cbn [map_cores map fst snd cassoc].
  destruct (chip_eqb k k'); [reflexivity|exact IH].
Qed.

Lemma core_at_map_cores : forall m f c,
  core_at (set_chips m (map_cores f (m_chips m))) c = option_map f (core_at m c).
Proof.
  intros m f [[x y] p]. unfold core_at. cbn [set_chips m_chips]. destruct (p <? 0); [reflexivity|].
  rewrite cassoc_map_cores. destruct (cassoc (x, y) (m_chips m)) as [ch|]; [|reflexivity].
  cbn [option_map ch_cores]. apply nth_error_map.
Qed.

Lemma send_signal_start_inv : forall w aid w', 0 <= aid < 256 ->
  send_signal_start w aid = Ok w' ->
  w_m w' = set_chips (w_m w) (map_cores (start_core 255 aid) (m_chips (w_m w))).
Proof.
  intros w aid w' Haid H. unfold send_signal_start in H. apply send__inv in H. destruct H as (_ & Hm & Hne).
  rewrite mstep_start in Hm, Hne by exact Haid.
  destruct (hd_error (m_chips (w_m w))); cbn [fst snd] in Hm, Hne; [exact Hm|congruence].
Qed.

(* ---------------------------------------------------------------- the loop invariant *)
Record Inv (bins : list (list Z)) (aid : Z) (am : appmap) (m0 m : machine) (unl : appmap) : Prop := mkInv {
  inv_incl : incl (named unl) (named am);
  inv_nodup : NoDup (map snd (named unl));
  inv_named : forall b c, In (b, c) (named am) ->
      (In (b, c) (named unl) /\ ~ in_wait m c)
      \/ (~ In (b, c) (named unl) /\ holds bins m aid STATE_WAIT b c);
  inv_other : forall c, ~ In c (map snd (named am)) -> core_at m c = core_at m0 c;
  inv_wf : machine_wf m;
  inv_static : same_static m0 m }.

Lemma named_unique : forall (l : list (Z * core)) b b' c,
  NoDup (map snd l) -> In (b, c) l -> In (b', c) l -> b = b'.
Proof.
  induction l as [|[b0 c0] l IH]; intros b b' c Hnd H1 H2; [destruct H1|].
  cbn [map snd] in Hnd. inversion Hnd as [|? ? Hnin Hnd']; subst.
  destruct H1 as [H1|H1]; destruct H2 as [H2|H2].
  - congruence.
  - inversion H1; subst. exfalso. apply Hnin. apply in_map_iff. exists (b', c). split; [reflexivity|exact H2].
  - inversion H2; subst. exfalso. apply Hnin. apply in_map_iff. exists (b, c). split; [reflexivity|exact H1].
  - apply (IH b b' c); assumption.
Qed.

Lemma still_spec : forall m c, still m c = true <-> ~ in_wait m c.
Proof.
  intros m c. unfold still, state_of, in_wait. rewrite negb_true_iff, Z.eqb_neq. split.
  - intros H [s [Hat Hs]]. rewrite Hat in H. contradiction.
  - intros H. destruct (core_at m c) as [s|] eqn:E; [|unfold STATE_WAIT; lia].
    intros Hs. apply H. exists s. split; [reflexivity|exact Hs].
Qed.

Lemma Inv_att_ok : forall bins aid am m0 m unl, Inv bins aid am m0 m unl -> att_ok bins aid am (unl, m).
Proof.
  intros bins aid am m0 m unl I. split; [exact (inv_incl _ _ _ _ _ _ I)|]. cbn [fst snd]. intros b c Hin.
  destruct (inv_named _ _ _ _ _ _ I b c Hin) as [[Hu Hnw]|[Hnu Hh]].
  - split; [intros _ Hh; apply Hnw; eapply holds_in_wait; exact Hh|intros _; exact Hu].
  - split; [intros Hu; contradiction|intros Hnh; contradiction].
Qed.

(* ---------------------------------------------------------------- the state after the flood fills of one attempt *)
Lemma after_fills : forall bins aid am m0 m unl m1,
  NoDup (map snd (named am)) -> Inv bins aid am m0 m unl ->
  fill_post bins aid STATE_WAIT unl m m1 ->
  (forall b c, In (b, c) (named am) ->
     (In (b, c) (named unl) /\ (~ in_wait m1 c \/ holds bins m1 aid STATE_WAIT b c))
     \/ (~ In (b, c) (named unl) /\ holds bins m1 aid STATE_WAIT b c))
  /\ (forall c, ~ In c (map snd (named am)) -> core_at m1 c = core_at m0 c).
Proof.
  intros bins aid am m0 m unl m1 Hnd I [P1 P2]. split.
  - intros b c Hin. destruct (inv_named _ _ _ _ _ _ I b c Hin) as [[Hu Hnw]|[Hnu Hh]].
    + left. split; [exact Hu|]. destruct (P1 b c Hu) as [Hsame|[_ [data [Hb Hat]]]].
      * left. intros [s [Hat Hs]]. apply Hnw. exists s. rewrite <- Hsame. split; assumption.
      * right. exists data. split; assumption.
    + right. split; [exact Hnu|].
      assert (Hnot : ~ In c (map snd (named unl))).
      { intros Hc. apply in_map_iff in Hc. destruct Hc as [[b' c'] [Heq Hc]]. cbn [snd] in Heq. subst c'.
        pose proof (inv_incl _ _ _ _ _ _ I _ Hc) as Hc'.
        rewrite (named_unique _ b b' c Hnd Hin Hc') in Hnu. contradiction. }
      destruct Hh as [data [Hb Hat]]. exists data. split; [exact Hb|]. rewrite (P2 c Hnot). exact Hat.
  - intros c Hc. rewrite P2; [apply (inv_other _ _ _ _ _ _ I c Hc)|].
    intros Hin. apply Hc. apply in_map_iff in Hin. destruct Hin as [[b' c'] [Heq Hin]]. cbn [snd] in Heq. subst c'.
    apply in_map_iff. exists (b', c). split; [reflexivity|apply (inv_incl _ _ _ _ _ _ I); exact Hin].
Qed.

(* ---------------------------------------------------------------- the loop *)
Lemma Inv_after_check : forall bins aid am m0 m unl m1 unl1,
  NoDup (map snd (named am)) -> Inv bins aid am m0 m unl ->
  fill_post bins aid STATE_WAIT unl m m1 -> machine_wf m1 -> same_static m m1 ->
  named unl1 = filter (fun bc => still m1 (snd bc)) (named unl) ->
  Inv bins aid am m0 m1 unl1.
Proof.
  intros bins aid am m0 m unl m1 unl1 Hnd I Hpost Hwf Hst Hunl1.
  destruct (after_fills bins aid am m0 m unl m1 Hnd I Hpost) as [A1 A2].
  constructor.
  - intros bc Hin. rewrite Hunl1 in Hin. apply filter_In in Hin. apply (inv_incl _ _ _ _ _ _ I). apply Hin.
  - rewrite Hunl1. apply NoDup_map_filter. exact (inv_nodup _ _ _ _ _ _ I).
  - intros b c Hin. destruct (A1 b c Hin) as [[Hu [Hnw|Hh]]|[Hnu Hh]].
    + left. split; [|exact Hnw]. rewrite Hunl1. apply filter_In. split; [exact Hu|]. cbn [snd]. apply still_spec. exact Hnw.
    + right. split; [|exact Hh]. rewrite Hunl1. intros Hf. apply filter_In in Hf. destruct Hf as [_ Hs]. cbn [snd] in Hs.
      apply still_spec in Hs. apply Hs. eapply holds_in_wait. exact Hh.
    + right. split; [|exact Hh]. rewrite Hunl1. intros Hf. apply filter_In in Hf. destruct Hf as [Hf _]. contradiction.
  - exact A2.
  - exact Hwf.
  - destruct (inv_static _ _ _ _ _ _ I) as (A & B & C). destruct Hst as (A' & B' & C'). repeat split; congruence.
Qed.

Lemma Inv_all_loaded : forall bins aid am m0 m unl m1,
  NoDup (map snd (named am)) -> Inv bins aid am m0 m unl ->
  fill_post bins aid STATE_WAIT unl m m1 -> machine_wf m1 -> same_static m m1 ->
  (forall b c, In (b, c) (named am) -> holds bins m1 aid STATE_WAIT b c) ->
  Inv bins aid am m0 m1 [].
Proof.
  intros bins aid am m0 m unl m1 Hnd I Hpost Hwf Hst Hall.
  destruct (after_fills bins aid am m0 m unl m1 Hnd I Hpost) as [A1 A2].
  constructor.
  - intros bc [].
  - constructor.
  - intros b c Hin. right. split; [intros []|apply Hall; exact Hin].
  - exact A2.
  - exact Hwf.
  - destruct (inv_static _ _ _ _ _ _ I) as (A & B & C). destruct Hst as (A' & B' & C'). repeat split; congruence.
Qed.

Lemma load_loop_spec : forall fuel bins a am m0 c w unl tries atts c' w' unl' atts',
  map_wf am -> bins_ok (m_buffer m0) bins -> 0 <= a_app a < 256 ->
  (a_count a = true -> no_other_waiting m0 am (a_app a)) ->
  ctrl_wf c (w_m w) -> Inv bins (a_app a) am m0 (w_m w) unl ->
  load_loop fuel bins a (core_count am) c w unl tries atts = Ok (c', w', unl', atts') ->
  Inv bins (a_app a) am m0 (w_m w') unl' /\ ctrl_wf c' (w_m w')
  /\ exists new, atts' = new ++ atts
                 /\ Z.of_nat (length new) <= Z.max 0 (a_tries a + 1 - tries)
                 /\ Forall (att_ok bins (a_app a) am) new.
Proof.
  induction fuel as [|k IH]; intros bins a am m0 c w unl tries atts c' w' unl' atts' Hmap Hbins Haid Hcnt Hc I H.
  - cbn [load_loop] in H. destruct (negb (is_empty unl) && load_continue tries (a_tries a)); [discriminate|].
    inversion H; subst. split; [exact I|]. split; [exact Hc|]. exists []. split; [reflexivity|].
    split; [cbn; lia|constructor].
  - cbn [load_loop] in H.
    destruct (negb (is_empty unl) && load_continue tries (a_tries a)) eqn:Econt.
    2:{ inversion H; subst. split; [exact I|]. split; [exact Hc|]. exists []. split; [reflexivity|].
        split; [cbn; lia|constructor]. }
    apply andb_prop in Econt. destruct Econt as [_ Etries]. unfold load_continue in Etries. apply Z.leb_le in Etries.
    destruct Hmap as [Hnd Hsp].
    pose proof (inv_wf _ _ _ _ _ _ I) as Hwf. pose proof (inv_static _ _ _ _ _ _ I) as (Sa & Sb & Sc).
    apply bind_ok in H. destruct H as [[c1 w1] [Hff H]]. cbn [fst snd] in H.
    apply flood_fill_aplx_post in Hff; try assumption; try exact (inv_nodup _ _ _ _ _ _ I); [|rewrite Sa; exact Hbins].
    destruct Hff as (Hpost & Hc1 & Hwf1 & Hst1 & Hk1).
    change (if load_fill_wait then STATE_WAIT else STATE_RUN) with STATE_WAIT in Hpost.
    assert (Hatt : att_ok bins (a_app a) am (unl, w_m w)) by (eapply Inv_att_ok; exact I).
    assert (Hspu : forall b x y p, In (b, (x, y, p)) (named unl) -> in_space (x, y, p) /\ ~ (x = 255 /\ y = 255)).
    { intros b x y p Hin. apply (Hsp b). apply (inv_incl _ _ _ _ _ _ I). exact Hin. }
    (* the recursive call, whatever the new map is *)
    assert (Hrec : forall c2 w2 unl1,
               w_m w2 = w_m w1 -> ctrl_wf c2 (w_m w1) -> Inv bins (a_app a) am m0 (w_m w1) unl1 ->
               load_loop k bins a (core_count am) c2 w2 unl1 (load_next_tries tries) ((unl, w_m w) :: atts)
               = Ok (c', w', unl', atts') ->
               Inv bins (a_app a) am m0 (w_m w') unl' /\ ctrl_wf c' (w_m w')
               /\ exists new, atts' = new ++ atts /\ Z.of_nat (length new) <= Z.max 0 (a_tries a + 1 - tries)
                              /\ Forall (att_ok bins (a_app a) am) new).
    { intros c2 w2 unl1 Hm2 Hc2 I2 Hl. rewrite <- Hm2 in Hc2, I2.
      destruct (IH bins a am m0 c2 w2 unl1 _ _ c' w' unl' atts' (conj Hnd Hsp) Hbins Haid Hcnt Hc2 I2 Hl)
        as (I' & Hc' & new & Hnew & Hlen & Hall).
      split; [exact I'|]. split; [exact Hc'|]. exists (new ++ [(unl, w_m w)]). split; [|split].
      - rewrite Hnew, <- app_assoc. reflexivity.
      - rewrite app_length. cbn [length]. unfold load_next_tries in Hlen. lia.
      - apply Forall_app. split; [exact Hall|constructor; [exact Hatt|constructor]]. }
    (* the per-core check *)
    assert (Hcheck : forall wx, w_m wx = w_m w1 ->
               bind (check_map c1 wx unl) (fun cwm => let '(c2, w2, unl1) := cwm in
                   load_loop k bins a (core_count am) c2 w2 unl1 (load_next_tries tries) ((unl, w_m w) :: atts))
               = Ok (c', w', unl', atts') ->
               Inv bins (a_app a) am m0 (w_m w') unl' /\ ctrl_wf c' (w_m w')
               /\ exists new, atts' = new ++ atts /\ Z.of_nat (length new) <= Z.max 0 (a_tries a + 1 - tries)
                              /\ Forall (att_ok bins (a_app a) am) new).
    { intros wx Hmx Hb. apply bind_ok in Hb. destruct Hb as [[[c2 w2] unl1] [Hcm Hl]].
      rewrite <- Hmx in Hc1, Hwf1.
      apply check_map_spec in Hcm; try assumption. destruct Hcm as (Hm2 & Hc2 & Hunl1 & _). rewrite Hmx in *.
      apply (Hrec c2 w2 unl1 Hm2 Hc2); [|exact Hl].
      apply (Inv_after_check bins (a_app a) am m0 (w_m w) unl (w_m w1) unl1 Hnd I Hpost Hwf1 Hst1 Hunl1). }
    destruct (a_count a) eqn:Ecount.
    + apply bind_ok in H. destruct H as [[w2 bflag] [Hcw H]]. cbn [fst snd] in H.
      apply bind_ok in Hcw. destruct Hcw as [[w3 n] [Hcc Hcw]]. cbn [fst snd] in Hcw. inversion Hcw; subst w2 bflag. clear Hcw.
      apply count_cores_wait_inv in Hcc; [|exact Haid]. destruct Hcc as [Hm3 Hn].
      destruct (core_count am =? n) eqn:Eeq.
      * apply Z.eqb_eq in Eeq. subst n.
        apply (Hrec c1 w3 [] Hm3 Hc1); [|exact H].
        apply (Inv_all_loaded bins (a_app a) am m0 (w_m w) unl (w_m w1) Hnd I Hpost Hwf1 Hst1).
        destruct (after_fills bins (a_app a) am m0 (w_m w) unl (w_m w1) Hnd I Hpost) as [A1 A2].
        apply (count_means_all_loaded bins (w_m w1) am (a_app a) Hwf1 Haid Hnd).
        -- intros b0 c0 Hin. destruct (A1 b0 c0 Hin) as [[_ Hor]|[_ Hh]]; [exact Hor|right; exact Hh].
        -- intros c0 s Hnin Hat. rewrite (A2 c0 Hnin) in Hat. apply (Hcnt eq_refl c0 s Hnin Hat).
        -- exact Eeq.
      * apply (Hcheck w3 Hm3). exact H.
    + cbn [fst snd] in H. apply (Hcheck w1 eq_refl). exact H.
Qed.

(* ---------------------------------------------------------------- load_application *)
Lemma start_loaded : forall aid data, 0 <= aid < 256 ->
  start_core 255 aid (mkCore STATE_WAIT aid data) = mkCore STATE_RUN aid data.
Proof.
  intros aid data Haid. unfold start_core, app_match. cbn [cs_state cs_app cs_image].
  rewrite Z.eqb_refl, Z.eqb_refl. reflexivity.
Qed.

Theorem load_application_spec : forall bins c w am a c' w' out atts,
  machine_wf (w_m w) -> ctrl_wf c (w_m w) -> map_wf am -> bins_ok (m_buffer (w_m w)) bins ->
  0 <= a_app a < 256 ->
  no_requested_waiting (w_m w) am ->
  (a_count a = true -> no_other_waiting (w_m w) am (a_app a)) ->
  load_application bins c w am a = Ok (c', w', out, atts) ->
  match out with
  | Returned =>
      (forall b c0, In (b, c0) (named am) ->
         holds bins (w_m w') (a_app a) (if a_wait a then STATE_WAIT else STATE_RUN) b c0)
      /\ (forall c0, ~ In c0 (map snd (named am)) ->
            core_at (w_m w') c0 =
            option_map (fun s => if a_wait a then s else start_core 255 (a_app a) s) (core_at (w_m w) c0))
  | LoadingError unl =>
      incl (named unl) (named am)
      /\ (forall b c0, In (b, c0) (named am) ->
            (In (b, c0) (named unl) <-> ~ holds bins (w_m w') (a_app a) STATE_WAIT b c0))
      /\ (forall c0, ~ In c0 (map snd (named am)) -> core_at (w_m w') c0 = core_at (w_m w) c0)
  end
  /\ Z.of_nat (length atts) <= Z.max 0 (a_tries a + 1)
  /\ Forall (att_ok bins (a_app a) am) atts.
Proof.
  intros bins c w am a c' w' out atts Hwf Hc Hmap Hbins Haid Hreq Hoth H.
  unfold load_application in H. apply bind_ok in H. destruct H as [[[[c1 w1] unl] atts0] [Hl H]].
  assert (I0 : Inv bins (a_app a) am (w_m w) (w_m w) am).
  { constructor.
    - intros bc Hin. exact Hin.
    - exact (proj1 Hmap).
    - intros b c0 Hin. left. split; [exact Hin|apply (Hreq b c0 Hin)].
    - reflexivity.
    - exact Hwf.
    - repeat split. }
  apply load_loop_spec with (m0 := w_m w) in Hl; try assumption.
  destruct Hl as (I & Hc1 & new & Hnew & Hlen & Hall). rewrite app_nil_r in Hnew. subst atts0.
  unfold load_tries0 in Hlen. rewrite Z.sub_0_r in Hlen.
  assert (Hatts : Z.of_nat (length (rev new)) <= Z.max 0 (a_tries a + 1) /\ Forall (att_ok bins (a_app a) am) (rev new)).
  { rewrite rev_length. split; [exact Hlen|]. apply Forall_rev. exact Hall. }
  destruct unl as [|u0 unl]; cbn [is_empty negb] in H.
  - (* every named core is loaded *)
    assert (Hall1 : forall b c0, In (b, c0) (named am) -> holds bins (w_m w1) (a_app a) STATE_WAIT b c0).
    { intros b c0 Hin. destruct (inv_named _ _ _ _ _ _ I b c0 Hin) as [[[] _]|[_ Hh]]. exact Hh. }
    destruct (a_wait a) eqn:Ew; cbn [negb] in H.
    + inversion H; subst c' w' out atts. split; [|exact Hatts]. split; [exact Hall1|].
      intros c0 Hc0. rewrite (inv_other _ _ _ _ _ _ I c0 Hc0). destruct (core_at (w_m w) c0); reflexivity.
    + apply bind_ok in H. destruct H as [w2 [Hs H]]. inversion H; subst c' w' out atts. clear H.
      apply send_signal_start_inv in Hs; [|exact Haid]. split; [|exact Hatts]. split.
      * intros b c0 Hin. destruct (Hall1 b c0 Hin) as [data [Hb Hat]]. exists data. split; [exact Hb|].
        rewrite Hs, core_at_map_cores, Hat. cbn [option_map]. rewrite start_loaded by exact Haid. reflexivity.
      * intros c0 Hc0. rewrite Hs, core_at_map_cores. rewrite (inv_other _ _ _ _ _ _ I c0 Hc0). reflexivity.
  - inversion H; subst c' w' out atts. clear H. split; [|exact Hatts].
    split; [exact (inv_incl _ _ _ _ _ _ I)|]. split.
    + intros b c0 Hin. exact (proj2 (Inv_att_ok _ _ _ _ _ _ I) b c0 Hin).
    + intros c0 Hc0. exact (inv_other _ _ _ _ _ _ I c0 Hc0).
Qed.

(* ---------------------------------------------------------------- the content of the error *)
Lemma error_cores_named : forall unl, error_cores unl = map snd (named unl).
Proof.
  induction unl as [|[b ts] r IH]; [reflexivity|]. unfold error_cores in *. cbn [flat_map snd].
  rewrite named_cons, map_app, map_snd_pair, IH. reflexivity.
Qed.

(* SpiNNakerLoadingError: the cores its message lists are exactly the requested cores that do not hold their
   binary, each listed once *)
Theorem load_error_names_unloaded : forall bins c w am a c' w' unl atts,
  machine_wf (w_m w) -> ctrl_wf c (w_m w) -> map_wf am -> bins_ok (m_buffer (w_m w)) bins ->
  0 <= a_app a < 256 ->
  no_requested_waiting (w_m w) am ->
  (a_count a = true -> no_other_waiting (w_m w) am (a_app a)) ->
  load_application bins c w am a = Ok (c', w', LoadingError unl, atts) ->
  NoDup (error_cores unl)
  /\ forall c0, In c0 (error_cores unl) <->
                exists b, In (b, c0) (named am) /\ ~ holds bins (w_m w') (a_app a) STATE_WAIT b c0.
Proof.
  intros bins c w am a c' w' unl atts Hwf Hc Hmap Hbins Haid Hreq Hoth H.
  unfold load_application in H. apply bind_ok in H. destruct H as [[[[c1 w1] unl1] atts0] [Hl H]].
  assert (I0 : Inv bins (a_app a) am (w_m w) (w_m w) am).
  { constructor.
    - intros bc Hin. exact Hin.
    - exact (proj1 Hmap).
    - intros b c0 Hin. left. split; [exact Hin|apply (Hreq b c0 Hin)].
    - reflexivity.
    - exact Hwf.
    - repeat split. }
  apply load_loop_spec with (m0 := w_m w) in Hl; try assumption.
  destruct Hl as (I & _ & _).
  destruct unl1 as [|u0 unl1]; cbn [is_empty negb] in H.
  - destruct (negb (a_wait a)); [apply bind_ok in H; destruct H as [w2 [_ H]]|]; inversion H.
  - inversion H; subst c' w' unl atts. clear H. rewrite error_cores_named.
    split; [exact (inv_nodup _ _ _ _ _ _ I)|]. intros c0. split.
    + intros Hin. apply in_map_iff in Hin. destruct Hin as [[b c1'] [Heq Hin]]. cbn [snd] in Heq. subst c1'.
      exists b. pose proof (inv_incl _ _ _ _ _ _ I _ Hin) as Hin'. split; [exact Hin'|].
      apply (proj2 (Inv_att_ok _ _ _ _ _ _ I) b c0 Hin'). exact Hin.
    + intros [b [Hin Hnh]]. apply in_map_iff. exists (b, c0). split; [reflexivity|].
      apply (proj2 (Inv_att_ok _ _ _ _ _ _ I) b c0 Hin). exact Hnh.
Qed.

(* ---------------------------------------------------------------- bare flood_fill_aplx *)
(* what flood_fill_aplx(map, app_id, wait) does to the machine: every named core is as before (its chip missed
   the fill of its binary, or there is no such core) or holds its binary under the app id, waiting iff wait
   was asked, else running; no other core changes *)
Theorem flood_fill_aplx_effect : forall bins aid wait am c w c' w',
  ctrl_wf c (w_m w) -> machine_wf (w_m w) -> bins_ok (m_buffer (w_m w)) bins -> 0 <= aid < 256 ->
  NoDup (map snd (named am)) ->
  flood_fill_aplx bins c w am aid wait = Ok (c', w') ->
  (forall b c0, In (b, c0) (named am) ->
     core_at (w_m w') c0 = core_at (w_m w) c0 \/
     (core_at (w_m w) c0 <> None /\
      holds bins (w_m w') aid (if wait then STATE_WAIT else STATE_RUN) b c0))
  /\ (forall c0, ~ In c0 (map snd (named am)) -> core_at (w_m w') c0 = core_at (w_m w) c0).
Proof.
  intros bins aid wait am c w c' w' Hc Hm Hbins Haid Hnd H.
  destruct (flood_fill_aplx_post bins aid wait am c w c' w' Hc Hm Hbins Haid Hnd H) as ((P1 & P2) & _).
  split; [|exact P2]. intros b c0 Hin. destruct (P1 b c0 Hin) as [Hs|[Hne [data [Hb Hat]]]]; [left; exact Hs|].
  right. split; [exact Hne|]. exists data. split; assumption.
Qed.
