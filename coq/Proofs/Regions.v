(* C12: the RegionCoreTree model against the documented meaning of region words.
   Invariant: the number of emitted pairs selecting a core ([cnt]) is 0 or 1 and add_core adds exactly
   the new core to the set of cores counted once. *)
From Coq Require Import ZArith List Bool Lia Sorted.
Require Import Rig.Generated.GenRegions Rig.Model.Base Rig.Model.Regions Rig.Spec.Regions.
Require Import Rig.Proofs.RegionsBits Rig.Proofs.RegionsLists.
Import ListNotations.
Open Scope Z_scope.
Ltac Zify.zify_post_hook ::= Z.to_euclidean_division_equations.

Definition side (n : nat) : Z := 4 ^ Z.of_nat n.
Definition blk (bx by_ sz x y : Z) : bool :=
  (bx <=? x) && (x <? bx + sz) && (by_ <=? y) && (y <? by_ + sz).
Definition subi (n : nat) (x y : Z) : Z := (x / side n) mod 4 + 4 * ((y / side n) mod 4).
Definition base_ok (n : nat) (bx by_ : Z) : Prop :=
  0 <= bx /\ bx + 4 * side n <= 256 /\ bx mod (4 * side n) = 0 /\
  0 <= by_ /\ by_ + 4 * side n <= 256 /\ by_ mod (4 * side n) = 0.

Definition mkword (bx by_ l m : Z) : Z := (bx * 256 + by_ + l) * 65536 + m.

Lemma decode_word : forall bx by_ l m,
  0 <= bx < 256 -> 0 <= by_ < 256 -> by_ mod 4 = 0 -> 0 <= l <= 3 -> 0 <= m < 65536 ->
  word_level (mkword bx by_ l m) = l /\ word_x (mkword bx by_ l m) = bx /\
  word_y (mkword bx by_ l m) = by_ /\ word_blocks (mkword bx by_ l m) = m /\
  0 <= mkword bx by_ l m < 2 ^ 32.
Proof.
  intros bx by_ l m Hx Hy Hy4 Hl Hm.
  unfold word_y, word_level, word_x, word_blocks, mkword.
  change (2 ^ 16) with 65536. change (2 ^ 24) with 16777216. change (2 ^ 32) with 4294967296.
  repeat split; lia.
Qed.

Lemma side_cases : forall n, (n <= 3)%nat -> side n = 1 \/ side n = 4 \/ side n = 16 \/ side n = 64.
Proof.
  intros n Hn. destruct n as [|[|[|[|n]]]]; try lia; unfold side; simpl Z.of_nat;
    [left | right; left | right; right; left | right; right; right]; reflexivity.
Qed.

Lemma sub_side_level : forall n, (n <= 3)%nat -> sub_side (level_of n) = side n.
Proof.
  intros n Hn. unfold sub_side, level_of, side. f_equal. lia.
Qed.

Lemma local_word : forall n bx by_ m, (n <= 3)%nat -> base_ok n bx by_ -> 0 <= m < 65536 ->
  Z.lor (region_code bx by_ (level_of n)) m = mkword bx by_ (level_of n) m.
Proof.
  intros n bx by_ m Hn Hb Hm. unfold base_ok in Hb.
  destruct (side_cases n Hn) as [Hs | [Hs | [Hs | Hs]]]; rewrite Hs in Hb;
  (rewrite region_code_digits by (unfold level_of; lia));
  (rewrite (lor_high_low _ 16 m) by (change (2 ^ 16) with 65536; lia)); reflexivity.
Qed.

Lemma selects_local : forall n bx by_ m x y, (n <= 3)%nat -> base_ok n bx by_ -> 0 <= m < 65536 ->
  selects (Z.lor (region_code bx by_ (level_of n)) m) x y
  = blk bx by_ (4 * side n) x y && Z.testbit m (subi n x y).
Proof.
  intros n bx by_ m x y Hn Hb Hm. rewrite local_word by assumption.
  unfold base_ok in Hb.
  assert (Hl : 0 <= level_of n <= 3) by (unfold level_of; lia).
  destruct (side_cases n Hn) as [Hs | [Hs | [Hs | Hs]]]; rewrite Hs in Hb;
  (destruct (decode_word bx by_ (level_of n) m) as [D1 [D2 [D3 [D4 _]]]]; try lia);
  unfold selects, subi, blk; rewrite D1, D2, D3, D4, (sub_side_level n Hn), Hs;
  (destruct (Z.testbit m _); [rewrite !andb_true_r | rewrite !andb_false_r; reflexivity]);
  apply eq_true_iff_eq; rewrite !andb_true_iff, !Z.eqb_eq, !Z.leb_le, !Z.ltb_lt; lia.
Qed.

(* ------------------------------------------------------------------------------------------ *)
(* block arithmetic                                                                             *)
(* ------------------------------------------------------------------------------------------ *)
Lemma side_S : forall k, side (S k) = 4 * side k.
Proof. intros k. unfold side. rewrite Nat2Z.inj_succ, Z.pow_succ_r by lia. reflexivity. Qed.

Lemma side_pos : forall n, 0 < side n.
Proof. intros n. unfold side. apply Z.pow_pos_nonneg; lia. Qed.

Lemma subi_range : forall n x y, 0 <= subi n x y < 16.
Proof. intros n x y. unfold subi. pose proof (side_pos n). lia. Qed.

(* the block of child j of a node of height S k with base (bx, by) *)
Definition cbx (k : nat) (bx j : Z) : Z := bx + side (S k) * (j mod 4).
Definition cby (k : nat) (by_ j : Z) : Z := by_ + side (S k) * (j / 4).

Lemma child_base_ok : forall k bx by_ j, (S k <= 3)%nat -> base_ok (S k) bx by_ -> 0 <= j < 16 ->
  base_ok k (cbx k bx j) (cby k by_ j).
Proof.
  intros k bx by_ j Hk Hb Hj. unfold base_ok, cbx, cby in *. rewrite side_S in *.
  destruct (side_cases k ltac:(lia)) as [Hs | [Hs | [Hs | Hs]]]; rewrite Hs in *; lia.
Qed.

Lemma child_blk_in : forall k bx by_ j x y, (S k <= 3)%nat -> base_ok (S k) bx by_ -> 0 <= j < 16 ->
  blk (cbx k bx j) (cby k by_ j) (4 * side k) x y = true ->
  blk bx by_ (4 * side (S k)) x y = true /\ subi (S k) x y = j.
Proof.
  intros k bx by_ j x y Hk Hb Hj. unfold base_ok, cbx, cby, blk, subi in *. rewrite side_S in *.
  rewrite !andb_true_iff, !Z.leb_le, !Z.ltb_lt.
  destruct (side_cases k ltac:(lia)) as [Hs | [Hs | [Hs | Hs]]]; rewrite Hs in *; lia.
Qed.

Lemma child_blk_of : forall k bx by_ x y, (S k <= 3)%nat -> base_ok (S k) bx by_ ->
  blk bx by_ (4 * side (S k)) x y = true ->
  blk (cbx k bx (subi (S k) x y)) (cby k by_ (subi (S k) x y)) (4 * side k) x y = true.
Proof.
  intros k bx by_ x y Hk Hb. unfold base_ok, cbx, cby, blk, subi in *. rewrite side_S in *.
  rewrite !andb_true_iff, !Z.leb_le, !Z.ltb_lt.
  destruct (side_cases k ltac:(lia)) as [Hs | [Hs | [Hs | Hs]]]; rewrite Hs in *; lia.
Qed.

Lemma blk_bounds : forall n bx by_ x y, base_ok n bx by_ -> blk bx by_ (4 * side n) x y = true ->
  0 <= x < 256 /\ 0 <= y < 256.
Proof.
  intros n bx by_ x y Hb. unfold base_ok, blk in *.
  rewrite !andb_true_iff, !Z.leb_le, !Z.ltb_lt. lia.
Qed.

(* at the finest level two chips of one block with the same sub-block index are the same chip *)
Lemma subi_0_inj : forall bx by_ x y x' y', base_ok 0 bx by_ ->
  blk bx by_ (4 * side 0) x y = true -> blk bx by_ (4 * side 0) x' y' = true ->
  subi 0 x' y' = subi 0 x y -> x' = x /\ y' = y.
Proof.
  intros bx by_ x y x' y' Hb. unfold base_ok, blk, subi, side in *. simpl Z.of_nat in *.
  change (4 ^ 0) with 1 in *. rewrite !andb_true_iff, !Z.leb_le, !Z.ltb_lt. lia.
Qed.

(* ------------------------------------------------------------------------------------------ *)
(* well-formed trees, and how often a core is selected by the pairs a tree emits                *)
(* ------------------------------------------------------------------------------------------ *)
Definition child (k : nat) (t : tree (S k)) (j : Z) : option (tree k) :=
  znth j (t_subs t : list (option (tree k))) None.

Definition wf_node (n : nat) {K} (t : node K) : Prop :=
  base_ok n (t_bx t) (t_by t) /\ length (t_sel t) = 18%nat /\
  Forall (fun m => 0 <= m < 65536) (t_sel t).

Fixpoint wf (n : nat) : tree n -> Prop :=
  match n return tree n -> Prop with
  | O => fun t => wf_node O t
  | S k => fun t =>
      wf_node (S k) t /\ length (t_subs t : list (option (tree k))) = 16%nat /\
      forall j c, 0 <= j < 16 -> child k t j = Some c ->
        wf k c /\ t_bx c = cbx k (t_bx t) j /\ t_by c = cby k (t_by t) j
  end.

Lemma wf_node_of : forall n t, wf n t -> wf_node n t.
Proof. intros [|k] t H; [exact H | exact (proj1 H)]. Qed.

Definition inb (n : nat) {K} (t : node K) (x y : Z) : bool := blk (t_bx t) (t_by t) (4 * side n) x y.

Definition cnt (n : nat) (t : tree n) (x y p : Z) : nat := times_selected (regions n t) x y p.

Definition loc (n : nat) (sel : list Z) (x y p : Z) : nat :=
  b2n ((0 <=? p) && (p <? 18) && Z.testbit (znth p sel 0) (subi n x y)).

Definition sub_cnt (k : nat) (t : tree (S k)) (i x y p : Z) : nat :=
  match child k t i with Some c => cnt k c x y p | None => 0%nat end.

Lemma times_selected_cnt_if : forall out x y p,
  times_selected out x y p = cnt_if (fun rc => pair_selects rc x y p) out.
Proof. reflexivity. Qed.

Lemma regions_O : forall (t : tree O),
  regions O t = local_pairs (region_code (t_bx t) (t_by t) (level_of O)) (t_sel t).
Proof. reflexivity. Qed.

Lemma regions_S : forall k (t : tree (S k)),
  regions (S k) t
  = local_pairs (region_code (t_bx t) (t_by t) (level_of (S k))) (t_sel t)
    ++ flat_map (fun i => match child k t i with
                          | Some c => regions k c
                          | None => []
                          end) child_order.
Proof. reflexivity. Qed.

Lemma cnt_local : forall n bx by_ sel x y p, (n <= 3)%nat -> base_ok n bx by_ ->
  length sel = 18%nat -> Forall (fun m => 0 <= m < 65536) sel ->
  times_selected (local_pairs (region_code bx by_ (level_of n)) sel) x y p
  = if blk bx by_ (4 * side n) x y then loc n sel x y p else 0%nat.
Proof.
  intros n bx by_ sel x y p Hn Hb Hlen Hsel.
  rewrite times_selected_cnt_if. unfold local_pairs. rewrite cnt_if_map, cnt_if_py_sorted.
  destruct (group_all (subi n x y) p sel) as [[_ Hok] Hw].
  rewrite (cnt_if_ext _ _ (fun e => blk bx by_ (4 * side n) x y
                                     && (Z.testbit (fst e) (subi n x y) && Z.testbit (snd e) p))).
  - destruct (blk bx by_ (4 * side n) x y).
    + simpl. fold (wgt (subi n x y) p (group 0 sel [])). rewrite Hw, Hlen. reflexivity.
    + apply cnt_if_none. reflexivity.
  - intros e He. unfold pair_selects. simpl fst. simpl snd.
    destruct (Hok e He) as [_ [Hin _]]. rewrite Forall_forall in Hsel.
    rewrite selects_local by (auto). rewrite andb_assoc. reflexivity.
Qed.

Lemma cnt_O : forall t x y p, wf O t ->
  cnt O t x y p = if inb O t x y then loc O (t_sel t) x y p else 0%nat.
Proof.
  intros t x y p [Hb [Hl Hs]]. unfold cnt. rewrite regions_O. apply cnt_local; auto.
Qed.

Lemma cnt_outside : forall n t x y p, (n <= 3)%nat -> wf n t -> inb n t x y = false -> cnt n t x y p = 0%nat.
Proof.
  induction n as [|k IH]; intros t x y p Hn Hwf Hout.
  - rewrite cnt_O by exact Hwf. rewrite Hout. reflexivity.
  - destruct Hwf as [[Hb [Hl Hs]] [Hlen Hch]]. unfold cnt. rewrite regions_S.
    rewrite times_selected_cnt_if, cnt_if_app, <- times_selected_cnt_if.
    rewrite cnt_local by auto. unfold inb in Hout. rewrite Hout, Nat.add_0_l.
    rewrite cnt_if_flat_map. apply nsum_zero. intros j Hj.
    assert (Hj16 : 0 <= j < 16).
    { unfold child_order in Hj. simpl in Hj. lia. }
    destruct (child k t j) as [c|] eqn:Hc; [|reflexivity].
    destruct (Hch j c Hj16 Hc) as [Hwc [Hcx Hcy]].
    apply (IH c x y p ltac:(lia) Hwc).
    unfold inb. rewrite Hcx, Hcy.
    destruct (blk (cbx k (t_bx t) j) (cby k (t_by t) j) (4 * side k) x y) eqn:Hblk; [|reflexivity].
    destruct (child_blk_in k _ _ j x y Hn Hb Hj16 Hblk) as [H1 _]. congruence.
Qed.

Lemma child_order_NoDup : NoDup child_order.
Proof. unfold child_order. repeat (constructor; [simpl; lia|]). constructor. Qed.

Lemma child_order_In : forall j, 0 <= j < 16 -> In j child_order.
Proof. intros j Hj. unfold child_order. simpl. lia. Qed.

Lemma child_order_range : forall j, In j child_order -> 0 <= j < 16.
Proof. intros j Hj. unfold child_order in Hj. simpl in Hj. lia. Qed.

Lemma cnt_S : forall k t x y p, (S k <= 3)%nat -> wf (S k) t ->
  cnt (S k) t x y p
  = if inb (S k) t x y
    then (loc (S k) (t_sel t) x y p + sub_cnt k t (subi (S k) x y) x y p)%nat
    else 0%nat.
Proof.
  intros k t x y p Hn Hwf.
  destruct (inb (S k) t x y) eqn:Hin; [|apply cnt_outside; assumption].
  destruct Hwf as [[Hb [Hl Hs]] [Hlen Hch]]. unfold cnt. rewrite regions_S.
  rewrite times_selected_cnt_if, cnt_if_app, <- times_selected_cnt_if.
  rewrite cnt_local by auto. unfold inb in Hin. rewrite Hin. f_equal.
  rewrite cnt_if_flat_map.
  pose proof (subi_range (S k) x y) as Hi.
  rewrite (nsum_single _ _ _ (subi (S k) x y) child_order_NoDup (child_order_In _ Hi)).
  - unfold sub_cnt. destruct (child k t (subi (S k) x y)); reflexivity.
  - intros j Hj Hne. apply child_order_range in Hj.
    destruct (child k t j) as [c|] eqn:Hc; [|reflexivity].
    destruct (Hch j c Hj Hc) as [Hwc [Hcx Hcy]].
    apply (cnt_outside k c x y p ltac:(lia) Hwc).
    unfold inb. rewrite Hcx, Hcy.
    destruct (blk (cbx k (t_bx t) j) (cby k (t_by t) j) (4 * side k) x y) eqn:Hblk; [|reflexivity].
    destruct (child_blk_in k _ _ j x y Hn Hb Hj Hblk) as [_ H2]. congruence.
Qed.

(* ------------------------------------------------------------------------------------------ *)
(* the generated kernels of add_core, read as block arithmetic                                  *)
(* ------------------------------------------------------------------------------------------ *)
Lemma tree_scale_side : forall n, (n <= 3)%nat -> tree_scale (level_of n) = 4 * side n.
Proof.
  intros n Hn. rewrite tree_scale_digits by (unfold level_of; lia).
  rewrite sub_side_level by exact Hn. reflexivity.
Qed.

Lemma out_of_range_blk : forall n bx by_ x y p, (n <= 3)%nat ->
  add_core_out_of_range x y p bx by_ (tree_scale (level_of n))
  = negb (blk bx by_ (4 * side n) x y && (0 <=? p) && (p <? 18)).
Proof.
  intros n bx by_ x y p Hn. rewrite tree_scale_side by exact Hn.
  unfold add_core_out_of_range, blk. generalize (4 * side n) as sz. intros sz.
  rewrite Z.gtb_ltb, !Z.geb_leb.
  destruct (Z.ltb_spec p 0), (Z.ltb_spec 17 p), (Z.ltb_spec x bx), (Z.leb_spec (bx + sz) x),
    (Z.ltb_spec y by_), (Z.leb_spec (by_ + sz) y), (Z.leb_spec bx x), (Z.ltb_spec x (bx + sz)),
    (Z.leb_spec by_ y), (Z.ltb_spec y (by_ + sz)), (Z.leb_spec 0 p), (Z.ltb_spec p 18);
    simpl; try reflexivity; lia.
Qed.

Lemma sub_index_subi : forall n x y, (n <= 3)%nat -> 0 <= x < 256 -> 0 <= y < 256 ->
  subregion_index x y (tree_shift (level_of n)) = subi n x y.
Proof.
  intros n x y Hn Hx Hy. rewrite subregion_index_digits by (unfold level_of; lia).
  rewrite sub_side_level by exact Hn. reflexivity.
Qed.

Lemma not_selected_bit : forall v i, 0 <= i -> add_core_not_selected v i = negb (Z.testbit v i).
Proof.
  intros v i Hi. unfold add_core_not_selected. rewrite negb_involutive. apply land_bit_eqb. exact Hi.
Qed.

Lemma is_full_spec : forall v n,
  add_core_is_full v (level_of n) = (v =? 65535) && negb (Nat.eqb n 3).
Proof.
  intros v n. unfold add_core_is_full, level_of. f_equal. f_equal.
  destruct (Nat.eqb_spec n 3) as [-> | Hne]; [reflexivity|]. apply Z.eqb_neq. lia.
Qed.

Lemma select_range : forall v i, 0 <= v < 65536 -> 0 <= i < 16 -> 0 <= add_core_select v i < 65536.
Proof.
  intros v i Hv Hi. unfold add_core_select. change 65536 with (2 ^ 16) in *. apply lor_bit_range; assumption.
Qed.

Lemma select_bit : forall v i j, 0 <= i -> Z.testbit (add_core_select v i) j = Z.testbit v j || (i =? j).
Proof. intros v i j Hi. unfold add_core_select. apply testbit_lor_bit. exact Hi. Qed.

(* ------------------------------------------------------------------------------------------ *)
(* the count as a function of the node's own array and of its children                          *)
(* ------------------------------------------------------------------------------------------ *)
Definition rest (n : nat) : tree n -> Z -> Z -> Z -> nat :=
  match n return tree n -> Z -> Z -> Z -> nat with
  | O => fun _ _ _ _ => 0%nat
  | S k => fun t x y p => sub_cnt k t (subi (S k) x y) x y p
  end.

Lemma cnt_gen : forall n t x y p, (n <= 3)%nat -> wf n t ->
  cnt n t x y p = if inb n t x y then (loc n (t_sel t) x y p + rest n t x y p)%nat else 0%nat.
Proof.
  intros [|k] t x y p Hn Hwf.
  - rewrite cnt_O by exact Hwf. simpl rest. rewrite Nat.add_0_r. reflexivity.
  - apply cnt_S; assumption.
Qed.

Lemma rest_set_sel : forall n (t : tree n) s x y p, rest n (set_sel t s) x y p = rest n t x y p.
Proof. intros [|k] t s x y p; reflexivity. Qed.

Lemma wf_set_sel : forall n (t : tree n) s, wf n t -> length s = 18%nat ->
  Forall (fun m => 0 <= m < 65536) s -> wf n (set_sel t s).
Proof.
  intros [|k] t s Hwf Hl Hs.
  - destruct Hwf as [Hb _]. split; [exact Hb|]. split; assumption.
  - destruct Hwf as [[Hb _] [Hlen Hch]]. split; [split; [exact Hb | split; assumption]|].
    split; [exact Hlen | exact Hch].
Qed.

Lemma loc_upd_same : forall n sel p v x y, 0 <= p < 18 -> length sel = 18%nat ->
  loc n (zupd p v sel) x y p = b2n (Z.testbit v (subi n x y)).
Proof.
  intros n sel p v x y Hp Hl. unfold loc. rewrite znth_zupd_eq by lia.
  replace (0 <=? p) with true by (symmetry; apply Z.leb_le; lia).
  replace (p <? 18) with true by (symmetry; apply Z.ltb_lt; lia). reflexivity.
Qed.

Lemma loc_upd_other : forall n sel p p' v x y, 0 <= p -> p' <> p ->
  loc n (zupd p v sel) x y p' = loc n sel x y p'.
Proof.
  intros n sel p p' v x y Hp Hne. unfold loc.
  destruct (Z.leb_spec 0 p') as [H0 | H0]; [|reflexivity].
  rewrite znth_zupd_neq by lia. reflexivity.
Qed.

Lemma loc_le1 : forall n sel x y p, (loc n sel x y p <= 1)%nat.
Proof. intros. unfold loc, b2n. destruct (_ && _); lia. Qed.

Lemma loc_bit : forall n sel x y p, 0 <= p < 18 ->
  loc n sel x y p = b2n (Z.testbit (znth p sel 0) (subi n x y)).
Proof.
  intros n sel x y p Hp. unfold loc.
  replace (0 <=? p) with true by (symmetry; apply Z.leb_le; lia).
  replace (p <? 18) with true by (symmetry; apply Z.ltb_lt; lia). reflexivity.
Qed.

(* ------------------------------------------------------------------------------------------ *)
(* what add_core does to the count                                                              *)
(* ------------------------------------------------------------------------------------------ *)
Definition le1 (n : nat) (t : tree n) : Prop := forall x y p, (cnt n t x y p <= 1)%nat.

Lemma core_eqb_eq : forall a b, core_eqb a b = true <-> a = b.
Proof.
  intros [[x y] p] [[x' y'] p']. unfold core_eqb.
  rewrite !andb_true_iff, !Z.eqb_eq. split; [intros [[-> ->] ->]; reflexivity | intros H; inversion H; auto].
Qed.

(* t1 counts exactly the cores t counts, and (x, y, p) *)
Definition Add1 (n : nat) (t t1 : tree n) (x y p : Z) : Prop :=
  forall x' y' p', cnt n t1 x' y' p' = if core_eqb (x', y', p') (x, y, p) then 1%nat else cnt n t x' y' p'.

Definition add_post (n : nat) (t : tree n) (x y p : Z) (t' : tree n) (full : bool) : Prop :=
  wf n t' /\ t_bx t' = t_bx t /\ t_by t' = t_by t /\
  (full = false -> Add1 n t t' x y p) /\
  (full = true ->
     n <> 3%nat /\
     (forall x' y' p', cnt n t' x' y' p' = if p' =? p then 0%nat else cnt n t x' y' p') /\
     (forall x' y', inb n t x' y' = true -> cnt n t x' y' p = 1%nat \/ (x' = x /\ y' = y))).

Lemma add_post_le1 : forall n t x y p t' full, le1 n t -> add_post n t x y p t' full -> le1 n t'.
Proof.
  intros n t x y p t' full Hle [_ [_ [_ [Hf Ht]]]] x' y' p'. destruct full.
  - destruct (Ht eq_refl) as [_ [H _]]. rewrite H. destruct (p' =? p); [lia | apply Hle].
  - rewrite (Hf eq_refl). destruct (core_eqb _ _); [lia | apply Hle].
Qed.

Lemma finish_after_add : forall n (t t1 : tree n) x y p, (n <= 3)%nat ->
  wf n t1 -> t_bx t1 = t_bx t -> t_by t1 = t_by t -> le1 n t -> Add1 n t t1 x y p -> 0 <= p < 18 ->
  exists t' full, finish (level_of n) t1 p = (t', full) /\ add_post n t x y p t' full.
Proof.
  intros n t t1 x y p Hn Hwf Hbx Hby Hle Hadd Hp.
  assert (Hle1 : le1 n t1).
  { intros x' y' p'. rewrite Hadd. destruct (core_eqb _ _); [lia | apply Hle]. }
  unfold finish. rewrite is_full_spec.
  destruct ((znth p (t_sel t1) 0 =? 65535) && negb (Nat.eqb n 3)) eqn:Hfull.
  - apply andb_true_iff in Hfull. destruct Hfull as [Hv Hn3]. apply Z.eqb_eq in Hv.
    apply negb_true_iff in Hn3. apply Nat.eqb_neq in Hn3.
    pose proof (wf_node_of n t1 Hwf) as [Hb [Hl Hs]].
    eexists. exists true. split; [reflexivity|].
    assert (Hwf' : wf n (set_sel t1 (zupd p 0 (t_sel t1)))).
    { apply wf_set_sel; [exact Hwf | rewrite zupd_length; exact Hl | apply Forall_zupd; [exact Hs | lia]]. }
    (* inside the block the whole array entry is set, so the children hold nothing for p *)
    assert (Hrest : forall x' y', inb n t1 x' y' = true -> rest n t1 x' y' p = 0%nat /\ cnt n t1 x' y' p = 1%nat).
    { intros x' y' Hin. pose proof (Hle1 x' y' p) as H1. rewrite cnt_gen in H1 |- * by assumption.
      rewrite Hin in *. rewrite loc_bit in * by exact Hp. rewrite Hv in *.
      rewrite testbit_65535 in * by apply subi_range. simpl b2n in *. lia. }
    split; [exact Hwf'|]. split; [exact Hbx|]. split; [exact Hby|]. split; [discriminate|]. intros _.
    split; [exact Hn3|]. split.
    + intros x' y' p'. rewrite cnt_gen by assumption. rewrite rest_set_sel.
      assert (Hinb : inb n (set_sel t1 (zupd p 0 (t_sel t1))) x' y' = inb n t1 x' y') by reflexivity.
      rewrite Hinb. simpl t_sel.
      destruct (Z.eqb_spec p' p) as [-> | Hne].
      * destruct (inb n t1 x' y') eqn:Hin; [|reflexivity].
        rewrite loc_upd_same by assumption. rewrite Z.bits_0. destruct (Hrest x' y' Hin) as [-> _]. reflexivity.
      * rewrite loc_upd_other by lia. rewrite <- cnt_gen by assumption.
        rewrite Hadd. destruct (core_eqb (x', y', p') (x, y, p)) eqn:He; [|reflexivity].
        apply core_eqb_eq in He. inversion He. contradiction.
    + intros x' y' Hin. assert (Hin1 : inb n t1 x' y' = true).
      { unfold inb in *. rewrite Hbx, Hby. exact Hin. }
      destruct (Hrest x' y' Hin1) as [_ H1]. rewrite Hadd in H1.
      destruct (core_eqb (x', y', p) (x, y, p)) eqn:He.
      * apply core_eqb_eq in He. inversion He. right. split; reflexivity.
      * left. exact H1.
  - exists t1, false. split; [reflexivity|]. split; [exact Hwf|]. split; [exact Hbx|]. split; [exact Hby|].
    split; [intros _; exact Hadd | discriminate].
Qed.
