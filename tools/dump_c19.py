"""Dump the live SpiNN-5 board tables of rig.geometry / rig.links as Coq literals (unit GenBoardTables).

Run under /venv/bin/python with PYTHONPATH=<repo>.  Fails (non-zero exit) when an object does not have
the form the model expects, so that the check reports a broken translation rather than a wrong table."""
import sys
import os

sys.path.insert(0, os.path.dirname(os.path.abspath(__file__)))
import dumplib as D  # noqa: E402

import numpy as np  # noqa: E402
from rig import geometry  # noqa: E402
from rig.links import Links  # noqa: E402


C19_FUNCTIONS = ("standard_system_dimensions", "spinn5_eth_coords", "spinn5_local_eth_coord",
                 "spinn5_chip_coord", "spinn5_fpga_link")
KNOWN_MUTABLE = {"SPINN5_ETH_OFFSET": np.ndarray, "SPINN5_FPGA_LINKS": dict}


def inventory():
    """Fail closed on state the models do not account for: the models of the C19 functions are stateless,
    which is only right while rig/geometry.py keeps no module-level mutable object besides the two constant
    tables, rebinds no global, and the five functions carry no decorator / mutable default / attribute."""
    import ast
    import types
    with open(geometry.__file__.replace(".pyc", ".py")) as f:
        tree = ast.parse(f.read())
    for node in ast.walk(tree):
        if isinstance(node, (ast.Global, ast.Nonlocal)):
            raise SystemExit("rig/geometry.py line %d: `%s %s` (a function rebinds shared state; the stateless "
                             "models of the board geometry functions do not cover it)"
                             % (node.lineno, type(node).__name__.lower(), ", ".join(node.names)))
    immutable = (type(None), bool, int, float, complex, str, bytes, tuple, frozenset, types.ModuleType,
                 types.FunctionType, types.BuiltinFunctionType, type)
    names = []
    for name, val in sorted(vars(geometry).items()):
        if name.startswith("__") or isinstance(val, immutable):
            continue
        if type(val).__module__ == "numpy" and not isinstance(val, np.ndarray):
            continue                                  # numpy scalars / ufuncs
        if name in KNOWN_MUTABLE and isinstance(val, KNOWN_MUTABLE[name]):
            names.append(name)
            continue
        if isinstance(val, type(geometry.Links)):     # classes (Links)
            continue
        raise SystemExit("rig/geometry.py: module-level object %s of type %s is not one of the two constant "
                         "tables the models account for" % (name, type(val).__name__))
    for node in tree.body:
        if isinstance(node, ast.FunctionDef) and node.name in C19_FUNCTIONS:
            if node.decorator_list:
                raise SystemExit("rig/geometry.py: %s is decorated" % node.name)
            for dflt in node.args.defaults + [k for k in node.args.kw_defaults if k is not None]:
                if not (isinstance(dflt, ast.Constant) and isinstance(dflt.value, (int, type(None)))):
                    raise SystemExit("rig/geometry.py: %s has a default argument that is not an integer" % node.name)
            for sub in ast.walk(node):
                tgts = []
                if isinstance(sub, ast.Assign):
                    tgts = sub.targets
                elif isinstance(sub, (ast.AugAssign, ast.AnnAssign)):
                    tgts = [sub.target]
                for t in tgts:
                    for tt in ast.walk(t):
                        if isinstance(tt, (ast.Attribute, ast.Subscript)):
                            raise SystemExit("rig/geometry.py line %d: %s stores into an object" % (sub.lineno, node.name))
    for fn in C19_FUNCTIONS:
        f = getattr(geometry, fn)
        if not isinstance(f, types.FunctionType) or f.__dict__:
            raise SystemExit("rig/geometry.py: %s is not a plain function without attributes" % fn)
    return names


# ------------------------------------------------------------------ fixed-width (numpy scalar) intermediates
KERNELS = {"spinn5_local_eth_coord": ["x", "y", "w", "h", "root_x", "root_y"],
           "spinn5_chip_coord": ["x", "y", "root_x", "root_y"]}


def steps(fn_name):
    """Coq list of every value that takes part in fixed-width arithmetic when the kernel's arguments are
    numpy integer scalars of one dtype: the result of each operation with an argument-typed operand, and
    each Python-int operand of such an operation (numpy converts it to the dtype and raises if it does not
    fit).  int(...) leaves the dtype (Python int arithmetic is unbounded).  Anything else: fail."""
    import ast
    import py2v
    import units_c19
    spec = [s for s in units_c19.UNITS["GenBoard"]["functions"] if s["name"] == fn_name][0]
    with open(geometry.__file__.replace(".pyc", ".py")) as f:
        node = py2v.find_function(ast.parse(f.read()), fn_name)
    body = [s for s in node.body if not (isinstance(s, ast.Expr) and isinstance(s.value, ast.Constant))]
    params = KERNELS[fn_name]
    if [a.arg for a in node.args.args] != params or len(body) != 2:
        raise SystemExit("%s: not `dx, dy = TABLE[i][j]; return ...`" % fn_name)
    tr = py2v.Fn(node, spec, {})
    for p in params:
        tr.types[p] = "Z"
    asg, ret = body
    if not (isinstance(asg, ast.Assign) and len(asg.targets) == 1 and isinstance(asg.targets[0], ast.Tuple)
            and all(isinstance(t, ast.Name) for t in asg.targets[0].elts) and isinstance(ret, ast.Return)):
        raise SystemExit("%s: not `dx, dy = TABLE[i][j]; return ...`" % fn_name)
    elems = [t.id for t in asg.targets[0].elts]
    out = []

    def walk(e):
        if isinstance(e, ast.Constant) and type(e.value) is int:
            return "weak"
        if isinstance(e, ast.Name):
            if e.id in params:
                return "narrow"
            if e.id in elems:
                return "elem"
            raise SystemExit("%s: name %s" % (fn_name, e.id))
        if isinstance(e, ast.Call) and isinstance(e.func, ast.Name) and e.func.id == "int" and len(e.args) == 1 \
                and not e.keywords:
            walk(e.args[0])
            return "wide"
        if isinstance(e, ast.Tuple):
            for x in e.elts:
                walk(x)
            return "tuple"
        if isinstance(e, ast.UnaryOp) and isinstance(e.op, ast.USub):
            k = walk(e.operand)
            if k == "elem":
                raise SystemExit("%s: arithmetic on a table element outside int()" % fn_name)
            if k == "narrow":
                out.append(tr.as_Z(e))
            return k
        if isinstance(e, ast.BinOp):
            kl, kr = walk(e.left), walk(e.right)
            if "elem" in (kl, kr) or "tuple" in (kl, kr):
                raise SystemExit("%s: arithmetic on a table element outside int()" % fn_name)
            if "narrow" in (kl, kr):
                for side, k in ((e.left, kl), (e.right, kr)):
                    if k != "narrow":
                        out.append(tr.as_Z(side))
                out.append(tr.as_Z(e))
                return "narrow"
            return "wide"
        raise SystemExit("%s line %d: expression outside the subset" % (fn_name, e.lineno))
    v = asg.value
    if not (isinstance(v, ast.Subscript) and isinstance(v.value, ast.Subscript)
            and isinstance(v.value.value, ast.Name) and v.value.value.id == "SPINN5_ETH_OFFSET"):
        raise SystemExit("%s: not a lookup in SPINN5_ETH_OFFSET" % fn_name)
    for idx in (v.value.slice, v.slice):
        if walk(idx) not in ("narrow", "weak"):
            raise SystemExit("%s: table index" % fn_name)
    lookup, _ = tr.expr(v)
    for n in elems:
        tr.types[n] = "Z"
    walk(ret.value)
    return ("Definition %s_steps %s : list Z :=\n  let '(%s) := %s in\n  [%s].\n"
            % (fn_name, " ".join("(%s : Z)" % p for p in params), ", ".join(elems), lookup, ";\n   ".join(out)))


# ------------------------------------------------------------------ shape of the hand-modelled functions
SHAPES = {
    "standard_system_dimensions": "4bbe23d873020c249c483b94",
    "spinn5_eth_coords": "a0a34056db44feb65ec6ee2d",
    "spinn5_fpga_link": "902b2347d2e35e94cced1e82",
}


def shape_digest(fn_name):
    import ast
    import hashlib
    import py2v
    with open(geometry.__file__.replace(".pyc", ".py")) as f:
        node = py2v.find_function(ast.parse(f.read()), fn_name)
    body = [s for s in node.body if not (isinstance(s, ast.Expr) and isinstance(s.value, ast.Constant)
                                         and isinstance(s.value.value, str))]
    text = ast.dump(node.args) + "|" + "|".join(ast.dump(s) for s in body) + "|" + repr(node.decorator_list)
    return hashlib.sha256(text.encode()).hexdigest()[:24]


def check_shapes():
    """Model/Board.v models these three functions by hand (generator, dict lookup, loop with a float square
    root).  Their parameter lists, defaults and statements (comments and docstrings apart) must be the text
    the model was written from; otherwise the model cannot be vouched for and the unit fails."""
    for fn, want in SHAPES.items():
        got = shape_digest(fn)
        if got != want:
            raise SystemExit("rig/geometry.py: the statements of %s are not those Model/Board.v was written from "
                             "(ast digest %s, expected %s)" % (fn, got, want))


def main():
    if "--shapes" in sys.argv:
        print({fn: shape_digest(fn) for fn in SHAPES})
        return
    mutable = inventory()
    check_shapes()
    out = [D.HEADER % "dump_c19.py"]
    out.append("(* inventory: module-level mutable objects of rig/geometry.py (no `global` statement, no decorator,\n"
               "   no store into an object in the board geometry functions): %s *)\n" % ", ".join(mutable))
    t = geometry.SPINN5_ETH_OFFSET
    if not isinstance(t, np.ndarray) or t.ndim != 3 or t.shape[2] != 2 or t.dtype.kind != "i":
        raise SystemExit("SPINN5_ETH_OFFSET is not a 3-d integer array with pairs in the last axis")
    out.append("(* rig.geometry.SPINN5_ETH_OFFSET: numpy array indexed [row][column]; each cell a pair *)\n")
    out.append(D.definition("SPINN5_ETH_OFFSET_shape", "list Z", D.zlist(t.shape)))
    rows = [D.lst([D.pair(D.z(c[0]), D.z(c[1])) for c in row]) for row in t]
    out.append(D.definition("SPINN5_ETH_OFFSET", "list (list (Z * Z))", "[" + ";\n   ".join(rows) + "]"))
    out.append("(* numpy lookup TABLE[i][j] for indices inside the array (0 <= i < shape[0], 0 <= j < shape[1]);\n"
               "   the translated kernels only index with `... % 12` and Props/C19.v proves that the dumped\n"
               "   array is 12 x 12, so the filler for indices outside the array (IndexError in numpy) is\n"
               "   never produced. *)\n")
    out.append(D.definition("SPINN5_ETH_OFFSET_at (i j : Z)", "Z * Z",
                            "nth (Z.to_nat j) (nth (Z.to_nat i) SPINN5_ETH_OFFSET []) (0, 0)"))
    out.append("(* values that take part in fixed-width arithmetic when the arguments are numpy integer scalars *)\n")
    for fn in KERNELS:
        out.append(steps(fn))
    f = geometry.SPINN5_FPGA_LINKS
    if not isinstance(f, dict):
        raise SystemExit("SPINN5_FPGA_LINKS is not a dict")
    items = []
    for k, v in f.items():
        if len(k) != 3 or len(v) != 2:
            raise SystemExit("SPINN5_FPGA_LINKS entry %r: %r is not (x, y, link): (fpga, link)" % (k, v))
        items.append(D.pair("(%s, %s, %s)" % tuple(D.z(a) for a in k), D.pair(D.z(v[0]), D.z(v[1]))))
    out.append("(* rig.geometry.SPINN5_FPGA_LINKS: dict {(x, y, link): (fpga, link number)} in iteration order *)\n")
    out.append(D.definition("SPINN5_FPGA_LINKS", "list ((Z * Z * Z) * (Z * Z))",
                            "[" + ";\n   ".join(items) + "]"))
    out.append("(* rig.links.Links *)\n")
    out.append(D.enum("Links", Links))
    out.append(D.definition("Links_all", "list Z", D.zlist(int(l) for l in Links)))
    out.append("(* Links.to_vector() of every member *)\n")
    out.append(D.definition("Links_to_vector", "list (Z * (Z * Z))", D.lst(
        D.pair(D.z(int(l)), D.pair(D.z(l.to_vector()[0]), D.z(l.to_vector()[1]))) for l in Links)))
    sys.stdout.write("\n".join(out))


main()
