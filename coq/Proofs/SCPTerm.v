(* Proofs about the SCP burst model, part 6: termination.
   Under an honest select (it returns with data or after more than the timeout it was given) every
   iteration but the last consumes a datagram or uses up one of the remaining tries; the free-sequence-number
   search always succeeds when at most 2^16 commands may be outstanding. *)
From Coq Require Import ZArith List Bool Lia Arith.
Require Import Rig.Generated.GenSCP Rig.Model.Base Rig.Model.SCP Rig.Spec.SCP Rig.Proofs.SCP.
Import ListNotations.
Open Scope Z_scope.

Definition slack (cf : config) (out : list entry) : Z :=
  fold_right (fun e a => (cf_tries cf - e_tries e) + a) 0 out.

Definition tries_ok (cf : config) (out : list entry) : Prop :=
  forall e, In e out -> e_tries e <= cf_tries cf.

Definition potential (cf : config) (k : conn) (b : bstate) (evs : list event) : Z :=
  Z.of_nat (datagrams k evs) + slack cf (b_out b) + Z.of_nat (length (b_queue b)) * (cf_tries cf - 1).

Lemma slack_cons : forall cf e a, slack cf (e :: a) = (cf_tries cf - e_tries e) + slack cf a.
Proof. reflexivity. Qed.

Lemma slack_app : forall cf a b, slack cf (a ++ b) = slack cf a + slack cf b.
Proof.
  intros cf a b. induction a as [|e a IH]; [reflexivity|].
  change ((e :: a) ++ b) with (e :: (a ++ b)). rewrite !slack_cons, IH. lia.
Qed.

Lemma slack_nonneg : forall cf out, tries_ok cf out -> 0 <= slack cf out.
Proof.
  intros cf out. induction out as [|e out IH]; intros H; [cbn; lia|].
  rewrite slack_cons. assert (e_tries e <= cf_tries cf) by (apply H; left; reflexivity).
  assert (0 <= slack cf out) by (apply IH; intros x Hx; apply H; right; exact Hx). lia.
Qed.

Lemma tries_ok_app : forall cf a b, tries_ok cf a -> tries_ok cf b -> tries_ok cf (a ++ b).
Proof. intros cf a b Ha Hb e He. apply in_app_or in He. destruct He; [apply Ha|apply Hb]; assumption. Qed.

Lemma slack_remove : forall cf s out,
  tries_ok cf out -> slack cf (remove_entry s out) <= slack cf out /\ tries_ok cf (remove_entry s out).
Proof.
  intros cf s out H. split.
  - induction out as [|e out IH]; cbn [remove_entry]; [lia|].
    assert (He : e_tries e <= cf_tries cf) by (apply H; left; reflexivity).
    assert (H' : tries_ok cf out) by (intros x Hx; apply H; right; exact Hx).
    destruct (e_seq e =? s).
    + rewrite slack_cons. pose proof (slack_nonneg cf out H'). lia.
    + rewrite !slack_cons. specialize (IH H'). lia.
  - intros e He. apply H. apply (remove_entry_In s). exact He.
Qed.

(* ---------------------------------------------------------------------------------------------- *)
(* the phases and the measure                                                                       *)
(* ---------------------------------------------------------------------------------------------- *)

Lemma fill_measure : forall cf q qd k out f,
  fill cf q qd k out = Some f -> tries_ok cf out -> 1 <= cf_tries cf ->
  slack cf (f_out f) + Z.of_nat (length (f_queue f)) * (cf_tries cf - 1)
    = slack cf out + Z.of_nat (length q) * (cf_tries cf - 1)
  /\ tries_ok cf (f_out f)
  /\ k_buf (f_conn f) = k_buf k /\ True
  /\ ((qd = false -> q = []) -> f_queued f = false -> f_queue f = [])
  /\ (exists x, f_out f = out ++ x)
  /\ (1 <= cf_window cf -> (qd = false -> q = []) -> f_out f = [] -> f_queued f = false /\ f_queue f = []).
Proof.
  intros cf q. induction q as [|c q IH]; intros qd k out f Hf Hok Ht; cbn [fill] in Hf.
  - destruct ((Z.of_nat (length out) <? cf_window cf) && qd) eqn:Hc;
      inversion Hf; subst f; clear Hf; cbn [f_out f_queue f_queued f_conn];
      refine (conj _ (conj _ (conj _ (conj _ (conj _ (conj _ _)))))).
    + reflexivity.
    + exact Hok.
    + reflexivity.
    + exact I.
    + intros _ _. reflexivity.
    + exists []. rewrite app_nil_r. reflexivity.
    + intros _ _ _. split; reflexivity.
    + reflexivity.
    + exact Hok.
    + reflexivity.
    + exact I.
    + intros _ _. reflexivity.
    + exists []. rewrite app_nil_r. reflexivity.
    + intros Hw Hfl Ho. split; [|reflexivity].
      apply andb_false_iff in Hc. destruct Hc as [Hc|Hc]; [|exact Hc].
      subst out. cbn in Hc. apply Z.ltb_ge in Hc. lia.
  - destruct ((Z.of_nat (length out) <? cf_window cf) && qd) eqn:Hc.
    + apply andb_prop in Hc. destruct Hc as [Hw Hq]. subst qd.
      destruct (free_seq (S (length out)) (k_seq k) out) as [[s s']|] eqn:Hs; [|discriminate Hf].
      match type of Hf with
      | match fill cf q true ?k' ?out' with _ => _ end = _ =>
          destruct (fill cf q true k' out') as [r|] eqn:Hr; [|discriminate Hf];
          assert (Hok' : tries_ok cf out')
      end.
      { apply tries_ok_app; [exact Hok|]. intros e [He|[]]. subst e. cbn. exact Ht. }
      inversion Hf; subst f; clear Hf. cbn [f_out f_queue f_queued f_conn].
      destruct (IH _ _ _ _ Hr Hok' Ht) as (H1 & H2 & H3 & H4 & H5 & [x H6] & H7).
      cbn [k_buf] in H3.
      rewrite slack_app in H1. rewrite slack_cons in H1. cbn [slack fold_right e_tries] in H1.
      refine (conj _ (conj _ (conj _ (conj _ (conj _ (conj _ _)))))).
      * cbn [length]. lia.
      * exact H2.
      * exact H3.
      * exact H4.
      * intros _ Hq. apply H5; [intros E; discriminate E|exact Hq].
      * eexists. rewrite H6, <- app_assoc. reflexivity.
      * intros _ _ Ho. exfalso. rewrite H6 in Ho. destruct out; discriminate Ho.
    + inversion Hf; subst f; clear Hf. cbn [f_out f_queue f_queued f_conn].
      refine (conj _ (conj _ (conj _ (conj _ (conj _ (conj _ _)))))).
      * reflexivity.
      * exact Hok.
      * reflexivity.
      * exact I.
      * intros Hfl Hq. apply Hfl. exact Hq.
      * exists []. rewrite app_nil_r. reflexivity.
      * intros Hw Hfl Ho.
        assert (Hqd : qd = false).
        { apply andb_false_iff in Hc. destruct Hc as [Hc|Hc]; [|exact Hc].
          subst out. cbn in Hc. apply Z.ltb_ge in Hc. lia. }
        split; [exact Hqd|apply Hfl; exact Hqd].
Qed.

Lemma recv_measure : forall cf buf out cbs,
  r_fatal (recv_loop buf out cbs) = None -> tries_ok cf out ->
  slack cf (r_out (recv_loop buf out cbs)) <= slack cf out
  /\ tries_ok cf (r_out (recv_loop buf out cbs))
  /\ (out = [] -> r_out (recv_loop buf out cbs) = [] /\ r_cbs (recv_loop buf out cbs) = cbs)
  /\ (buf = [] -> r_out (recv_loop buf out cbs) = out /\ r_cbs (recv_loop buf out cbs) = cbs).
Proof.
  intros cf buf. induction buf as [|d buf IH]; intros out cbs Hnf Hok.
  - cbn [recv_loop r_out r_cbs]. repeat split; try reflexivity; try assumption; lia.
  - cbn [recv_loop] in *. destruct (d_rc d =? rc_ok).
    + destruct (find_entry (d_seq d) out) as [e|] eqn:Hfe; cbn [r_out r_cbs r_fatal] in *.
      * destruct (slack_remove cf (d_seq d) out Hok) as [Hs Hok'].
        destruct (IH (remove_entry (d_seq d) out) (cbs ++ [(e_cmd e, d)]) Hnf Hok') as (H1 & H2 & H3 & H4).
        refine (conj _ (conj H2 (conj _ _))).
        -- lia.
        -- intros Ho. subst out. discriminate Hfe.
        -- intros Hb. discriminate Hb.
      * destruct (IH out cbs Hnf Hok) as (H1 & H2 & H3 & H4).
        refine (conj H1 (conj H2 (conj H3 _))). intros Hb. discriminate Hb.
    + destruct (is_retryable (d_rc d)); cbn [r_out r_cbs r_fatal] in *.
      * destruct (IH out cbs Hnf Hok) as (H1 & H2 & H3 & H4).
        refine (conj H1 (conj H2 (conj H3 _))). intros Hb. discriminate Hb.
      * discriminate Hnf.
Qed.

Lemma scan_measure : forall cf now todo ntx,
  s_timeout (scan cf now ntx todo) = None -> tries_ok cf todo ->
  tries_ok cf (s_out (scan cf now ntx todo))
  /\ slack cf (s_out (scan cf now ntx todo)) <= slack cf todo
  /\ ((exists e, In e todo /\ e_deadline e < now) ->
      slack cf (s_out (scan cf now ntx todo)) + 1 <= slack cf todo).
Proof.
  intros cf now todo. induction todo as [|e rest IH]; intros ntx Hnt Hok.
  - cbn [scan s_out]. repeat split; [exact Hok|lia|]. intros (e & [] & _).
  - assert (Hok' : tries_ok cf rest) by (intros x Hx; apply Hok; right; exact Hx).
    cbn [scan] in *. destruct (e_deadline e <? now) eqn:Hd.
    + destruct (cf_tries cf <=? e_tries e) eqn:Ht; cbn [s_out s_timeout] in *; [discriminate Hnt|].
      apply Z.leb_gt in Ht.
      destruct (IH (ntx + 1) Hnt Hok') as (H1 & H2 & H3).
      refine (conj _ (conj _ _)).
      * intros x [Hx|Hx]; [subst x; cbn; lia|apply H1; exact Hx].
      * rewrite !slack_cons. cbn [e_tries]. lia.
      * intros _. rewrite !slack_cons. cbn [e_tries]. lia.
    + cbn [s_out s_timeout] in *. apply Z.ltb_ge in Hd.
      destruct (IH ntx Hnt Hok') as (H1 & H2 & H3).
      refine (conj _ (conj _ _)).
      * intros x [Hx|Hx]; [subst x; apply Hok; left; reflexivity|apply H1; exact Hx].
      * rewrite !slack_cons. lia.
      * intros (x & [Hx|Hx] & Hlt).
        -- subst x. lia.
        -- rewrite !slack_cons. assert (slack cf (s_out (scan cf now ntx rest)) + 1 <= slack cf rest).
           { apply H3. exists x. split; assumption. }
           lia.
Qed.

Lemma min_deadline_witness : forall out e t,
  min_deadline e out < t -> exists x, In x (e :: out) /\ e_deadline x < t.
Proof.
  intros out. induction out as [|e' out IH]; intros e t H; cbn [min_deadline] in H.
  - exists e. split; [left; reflexivity|exact H].
  - destruct (Z.min_spec (e_deadline e) (min_deadline e' out)) as [[Hlt Hm]|[Hge Hm]]; rewrite Hm in H.
    + exists e. split; [left; reflexivity|exact H].
    + destruct (IH e' t H) as (x & Hx & Hd). exists x. split; [right; exact Hx|exact Hd].
Qed.

Lemma datagrams_cons : forall k ev evs,
  datagrams k (ev :: evs) = (length (k_buf k) + (length (ev_data ev) + (datagrams k evs - length (k_buf k))))%nat.
Proof. intros k ev evs. unfold datagrams. cbn [fold_right]. lia. Qed.

(* ---------------------------------------------------------------------------------------------- *)
(* the main induction                                                                               *)
(* ---------------------------------------------------------------------------------------------- *)

Definition tstate_ok (cf : config) (b : bstate) : Prop :=
  tries_ok cf (b_out b) /\ (b_queued b = false -> b_queue b = []).

Lemma potential_nonneg : forall cf k b evs, 1 <= cf_tries cf -> tstate_ok cf b -> 0 <= potential cf k b evs.
Proof.
  intros cf k b evs Ht [Hok _]. unfold potential. pose proof (slack_nonneg cf (b_out b) Hok).
  assert (0 <= Z.of_nat (length (b_queue b)) * (cf_tries cf - 1)) by (apply Z.mul_nonneg_nonneg; lia). lia.
Qed.

(* one iteration: either the call stops, or it is over after this iteration, or the potential drops *)
Lemma step_measure : forall cf ev evs k b p os k2 b2,
  1 <= cf_window cf -> 1 <= cf_tries cf -> tstate_ok cf b ->
  pre cf k b = Some p ->
  (k_buf (p_conn p) ++ ev_data ev <> [] \/ k_now (p_conn p) + p_select p < ev_time ev) ->
  post cf ev (p_conn p) (p_state p) = (os, Continue k2 b2) ->
  tstate_ok cf b2 /\
  (running b2 = false \/ potential cf k2 b2 evs + 1 <= potential cf k b (ev :: evs)).
Proof.
  intros cf ev evs k [q qd out cbs] p os k2 b2 Hw Ht [Hok Hfl] Hp Hhon Hpost.
  cbn [b_out b_queued b_queue] in Hok, Hfl.
  unfold pre in Hp. cbn [b_queue b_queued b_out b_cbs] in Hp.
  destruct (fill cf q qd k out) as [f|] eqn:Hf; [|discriminate Hp].
  inversion Hp; subst p; clear Hp. cbn [p_conn p_state p_select] in *.
  destruct (fill_measure cf q qd k out f Hf Hok Ht) as (F1 & F2 & F3 & F4 & F5 & _ & F7).
  unfold post in Hpost. cbn [b_out b_cbs b_queue b_queued k_buf k_ntx k_seq k_now] in Hpost, Hhon.
  remember (recv_loop (k_buf (f_conn f) ++ ev_data ev) (f_out f) []) as r eqn:Er.
  destruct (r_fatal r) as [[rc0 c0]|] eqn:Hfat; [inversion Hpost|].
  remember (scan cf (ev_time ev) (k_ntx (f_conn f)) (r_out r)) as s eqn:Es.
  destruct (s_timeout s) as [c1|] eqn:Htm; inversion Hpost; subst os k2 b2; clear Hpost.
  rewrite Er in Hfat.
  destruct (recv_measure cf _ _ _ Hfat F2) as (R1 & R2 & R3 & R4). rewrite <- Er in R1, R2, R3, R4.
  rewrite Es in Htm.
  destruct (scan_measure cf _ _ _ Htm R2) as (S1 & S2 & S3). rewrite <- Es in S1, S2, S3.
  split.
  - split; cbn [b_out b_queued b_queue]; [exact S1|]. apply F5. exact Hfl.
  - destruct (f_out f) as [|e0 out0] eqn:Hout.
    + (* nothing outstanding after the fill: this was the last iteration *)
      left. destruct (F7 Hw Hfl eq_refl) as [Hq1 Hq2]. destruct (R3 eq_refl) as [Ro Rc].
      unfold running. cbn [b_queued b_out b_cbs]. rewrite Hq1, Rc.
      assert (Hs : s_out s = []). { rewrite Es, Ro. reflexivity. }
      rewrite Hs. reflexivity.
    + right. unfold potential. cbn [b_out b_queue]. rewrite datagrams_cons.
      unfold datagrams at 1. cbn [k_buf length].
      rewrite F3 in *.
      assert (Hd : (datagrams k evs - length (k_buf k))%nat
                   = fold_right (fun ev n => (length (ev_data ev) + n)%nat) 0%nat evs).
      { unfold datagrams. lia. }
      rewrite Hd.
      destruct Hhon as [Hne|Hlate].
      * (* data arrived: at least one datagram is consumed *)
        assert (Hlen : (1 <= length (k_buf k) + length (ev_data ev))%nat).
        { rewrite <- app_length. destruct (k_buf k ++ ev_data ev); [contradiction|cbn; lia]. }
        lia.
      * (* the select timed out: an outstanding command has expired and is retransmitted *)
        destruct (k_buf k ++ ev_data ev) as [|d0 buf0] eqn:Hbuf.
        -- destruct (R4 eq_refl) as [Ro Rc].
           assert (Hexp : exists x, In x (r_out r) /\ e_deadline x < ev_time ev).
           { rewrite Ro. apply min_deadline_witness. unfold select_timeout in Hlate. cbn [k_now] in Hlate. lia. }
           specialize (S3 Hexp). rewrite Ro in S3. lia.
        -- assert (Hlen : (1 <= length (k_buf k) + length (ev_data ev))%nat).
           { rewrite <- app_length, Hbuf. cbn; lia. }
           lia.
Qed.

Lemma post_stop_not_need : forall cf ev k b os oc k',
  post cf ev k b = (os, Stop oc k') -> oc <> NeedEvent /\ oc <> SeqSearchDiverges.
Proof.
  intros cf ev k b os oc k' H. unfold post in H.
  destruct (r_fatal (recv_loop (k_buf k ++ ev_data ev) (b_out b) (b_cbs b))) as [[rc c]|].
  - inversion H; subst. unfold fatal_outcome.
    destruct (existsb (Z.eqb rc) all_return_codes && negb (existsb (Z.eqb rc) fatal_codes));
      split; discriminate.
  - destruct (s_timeout (scan cf (ev_time ev) (k_ntx k) _)); inversion H; subst; split; discriminate.
Qed.

Lemma run_rest_length : forall cf evs k b tr oc k' rest,
  run cf evs k b = (tr, oc, k', rest) -> (length rest <= length evs)%nat.
Proof.
  intros cf evs. induction evs as [|ev evs IH]; intros k b tr oc k' rest H; rewrite run_unfold in H.
  - destruct (running b); [destruct (pre cf k b)|]; inversion H; subst; cbn; lia.
  - destruct (running b); [destruct (pre cf k b) as [p|]|]; try (inversion H; subst; cbn; lia).
    destruct (post cf ev (p_conn p) (p_state p)) as [os [k1 b1|oc1 k1]].
    + destruct (run cf evs k1 b1) as [[[tr2 oc2] k2] rest2] eqn:Hr. inversion H; subst.
      specialize (IH _ _ _ _ _ _ Hr). cbn [length]. lia.
    + inversion H; subst. cbn [length]. lia.
Qed.

Lemma run_terminates : forall cf evs k b tr oc k' rest,
  1 <= cf_window cf -> 1 <= cf_tries cf -> tstate_ok cf b ->
  select_honest cf evs k b ->
  run cf evs k b = (tr, oc, k', rest) ->
  Z.of_nat (length evs) - Z.of_nat (length rest) <= (if running b then potential cf k b evs + 1 else 0)
  /\ ((running b = true -> potential cf k b evs + 1 <= Z.of_nat (length evs)) -> oc <> NeedEvent).
Proof.
  intros cf evs. induction evs as [|ev evs IH]; intros k b tr oc k' rest Hw Ht Hts Hhon Hrun;
    pose proof (potential_nonneg cf k b) as Hnn; rewrite run_unfold in Hrun.
  - specialize (Hnn [] Ht Hts). destruct (running b) eqn:Hrn.
    + destruct (pre cf k b) as [p|]; inversion Hrun; subst; cbn [length].
      * split; [lia|]. intros H. specialize (H eq_refl). lia.
      * split; [lia|]. intros _. discriminate.
    + inversion Hrun; subst. cbn [length]. split; [lia|]. intros _. discriminate.
  - specialize (Hnn (ev :: evs) Ht Hts). cbn [select_honest] in Hhon. destruct (running b) eqn:Hrn.
    + destruct (pre cf k b) as [p|] eqn:Hp.
      * destruct Hhon as [Hh1 Hh2].
        destruct (post cf ev (p_conn p) (p_state p)) as [os [k1 b1|oc1 k1]] eqn:Hpost.
        -- destruct (run cf evs k1 b1) as [[[tr2 oc2] k2] rest2] eqn:Hr.
           inversion Hrun; subst tr oc k' rest; clear Hrun.
           destruct (step_measure cf ev evs k b p os k1 b1 Hw Ht Hts Hp Hh1 Hpost) as [Hts1 Hdec].
           destruct (IH k1 b1 tr2 oc2 k2 rest2 Hw Ht Hts1 Hh2 Hr) as [C1 C2].
           pose proof (potential_nonneg cf k1 b1 evs Ht Hts1) as Hnn1.
           cbn [length]. rewrite Nat2Z.inj_succ. split.
           ++ destruct (running b1) eqn:Hrn1.
              ** destruct Hdec as [Hdec|Hdec]; [discriminate Hdec|]. lia.
              ** lia.
           ++ intros Hen. specialize (Hen eq_refl).
              apply C2. intros Hrn1. destruct Hdec as [Hdec|Hdec]; [rewrite Hrn1 in Hdec; discriminate Hdec|]. lia.
        -- inversion Hrun; subst tr oc k' rest; clear Hrun. cbn [length]. rewrite Nat2Z.inj_succ. split; [lia|].
           intros _. apply (post_stop_not_need cf ev _ _ os oc1 k1 Hpost).
      * inversion Hrun; subst. split; [lia|]. intros _. discriminate.
    + inversion Hrun; subst. split; [lia|]. intros _. discriminate.
Qed.

(* the call always terminates: with an honest select, once the environment has supplied
   (#datagrams + #commands * (tries - 1) + 1) events the loop has ended; and it never consumes more *)
Theorem termination : forall cf cmds evs k tr oc k' rest,
  config_ok cf ->
  select_honest cf evs k (bstate0 cmds) ->
  burst cf cmds evs k = (tr, oc, k', rest) ->
  Z.of_nat (length evs) - Z.of_nat (length rest)
    <= Z.of_nat (datagrams k evs) + Z.of_nat (length cmds) * (cf_tries cf - 1) + 1
  /\ (Z.of_nat (datagrams k evs) + Z.of_nat (length cmds) * (cf_tries cf - 1) + 1 <= Z.of_nat (length evs) ->
      oc <> NeedEvent).
Proof.
  intros cf cmds evs k tr oc k' rest [[Hw _] Ht] Hhon Hb. unfold burst in Hb.
  assert (Hts : tstate_ok cf (bstate0 cmds)).
  { split; cbn [bstate0 b_out b_queued b_queue]; [intros e []|intros E; discriminate E]. }
  destruct (run_terminates cf evs k (bstate0 cmds) tr oc k' rest Hw Ht Hts Hhon Hb) as [C1 C2].
  assert (Hpot : potential cf k (bstate0 cmds) evs
                 = Z.of_nat (datagrams k evs) + Z.of_nat (length cmds) * (cf_tries cf - 1)).
  { unfold potential. cbn [bstate0 b_out b_queue slack fold_right]. lia. }
  rewrite Hpot in *. cbn [running bstate0 b_queued orb] in C1. split; [exact C1|].
  intros H. apply C2. intros _. exact H.
Qed.

(* ---------------------------------------------------------------------------------------------- *)
(* the search for a free sequence number succeeds                                                   *)
(* ---------------------------------------------------------------------------------------------- *)

Lemma seq_next_mod : forall s, seq_next s = (s + 1) mod 65536.
Proof.
  intros s. unfold seq_next. change seq_mask with (Z.ones 16). rewrite Z.land_ones by lia. reflexivity.
Qed.

Lemma seq_next_range : forall s, 0 <= seq_next s < 65536.
Proof. intros s. rewrite seq_next_mod. apply Z.mod_pos_bound. lia. Qed.

Fixpoint iter_next (i : nat) (s : Z) : Z :=
  match i with O => s | S j => iter_next j (seq_next s) end.

Lemma iter_seq_formula : forall i s0, 0 <= s0 < 65536 ->
  iter_next i s0 = (s0 + Z.of_nat i) mod 65536.
Proof.
  intros i. induction i as [|i IH]; intros s0 Hs.
  - cbn [iter_next]. rewrite Z.add_0_r, Z.mod_small by lia. reflexivity.
  - cbn [iter_next]. rewrite (IH _ (seq_next_range s0)), seq_next_mod.
    rewrite Zplus_mod_idemp_l. f_equal. lia.
Qed.

Lemma free_seq_none : forall fuel s0 out,
  free_seq fuel s0 out = None -> forall i, (i < fuel)%nat -> seq_taken (iter_next i s0) out = true.
Proof.
  intros fuel. induction fuel as [|f IH]; intros s0 out H i Hi; [lia|].
  cbn [free_seq] in H. destruct (seq_taken s0 out) eqn:Et; [|discriminate H].
  destruct i as [|j]; [exact Et|].
  cbn [iter_next]. apply (IH _ _ H). lia.
Qed.

Lemma nodup_map_on : forall (f : nat -> Z) l,
  NoDup l -> (forall x y, In x l -> In y l -> f x = f y -> x = y) -> NoDup (map f l).
Proof.
  intros f l Hnd. induction Hnd as [|a l Hn Hnd IH]; intros Hinj; cbn [map]; constructor.
  - intros Hin. apply in_map_iff in Hin. destruct Hin as (y & Hy & Hin).
    assert (y = a) by (apply Hinj; [right; exact Hin|left; reflexivity|exact Hy]). subst y. contradiction.
  - apply IH. intros x y Hx Hy. apply Hinj; right; assumption.
Qed.

Lemma free_seq_total : forall s0 out,
  0 <= s0 < 65536 -> Z.of_nat (length out) < 65536 -> free_seq (S (length out)) s0 out <> None.
Proof.
  intros s0 out Hs Hlen Hnone.
  pose proof (free_seq_none _ _ _ Hnone) as Htaken.
  set (f := fun i : nat => (s0 + Z.of_nat i) mod 65536).
  assert (Hnd : NoDup (map f (seq 0 (S (length out))))).
  { apply nodup_map_on; [apply seq_NoDup|]. intros x y Hx Hy Hf. apply in_seq in Hx. apply in_seq in Hy.
    unfold f in Hf.
    assert (Hx' : 0 <= Z.of_nat x < 65536) by lia. assert (Hy' : 0 <= Z.of_nat y < 65536) by lia.
    pose proof (Z.div_mod (s0 + Z.of_nat x) 65536) as D1. pose proof (Z.div_mod (s0 + Z.of_nat y) 65536) as D2.
    pose proof (Z.mod_pos_bound (s0 + Z.of_nat x) 65536) as B1.
    pose proof (Z.mod_pos_bound (s0 + Z.of_nat y) 65536) as B2.
    assert (Z.of_nat x = Z.of_nat y) by lia. lia. }
  assert (Hincl : incl (map f (seq 0 (S (length out)))) (map e_seq out)).
  { intros z Hz. apply in_map_iff in Hz. destruct Hz as (i & Hi & Hin). apply in_seq in Hin.
    assert (Ht : seq_taken (iter_next i s0) out = true) by (apply Htaken; lia).
    rewrite (iter_seq_formula i s0 Hs) in Ht. fold (f i) in Ht. rewrite Hi in Ht.
    unfold seq_taken in Ht. destruct (find_entry z out) as [e|] eqn:Hfe; [|discriminate Ht].
    destruct (find_entry_some _ _ _ Hfe) as [He Hse]. rewrite <- Hse. apply in_map. exact He. }
  pose proof (NoDup_incl_length Hnd Hincl) as Hl. rewrite !map_length, seq_length in Hl. lia.
Qed.

Lemma fill_total : forall cf q qd k out,
  cf_window cf <= 65536 -> 0 <= k_seq k < 65536 -> Z.of_nat (length out) <= cf_window cf ->
  fill cf q qd k out <> None.
Proof.
  intros cf q. induction q as [|c q IH]; intros qd k out Hw Hs Hl; cbn [fill].
  - destruct ((Z.of_nat (length out) <? cf_window cf) && qd); discriminate.
  - destruct ((Z.of_nat (length out) <? cf_window cf) && qd) eqn:Hc; [|discriminate].
    apply andb_prop in Hc. destruct Hc as [Hlt _]. apply Z.ltb_lt in Hlt.
    destruct (free_seq (S (length out)) (k_seq k) out) as [[s s']|] eqn:Hfs.
    + destruct (free_seq_spec _ _ _ _ _ Hfs) as [_ Hs'].
      match goal with
      | |- match fill cf q true ?k' ?out' with _ => _ end <> None =>
          pose proof (IH true k' out' Hw) as IH'; destruct (fill cf q true k' out'); [discriminate|]
      end.
      exfalso. apply IH'; [| |reflexivity].
      * cbn [k_seq]. subst s'. apply seq_next_range.
      * rewrite app_length. cbn [length]. lia.
    + exfalso. apply (free_seq_total (k_seq k) out Hs); [lia|exact Hfs].
Qed.

Definition sr (cf : config) (m : mstate) : Prop :=
  Z.of_nat (length (b_out (m_b m))) <= cf_window cf /\ 0 <= k_seq (m_k m) < 65536.

Lemma astep_sr : forall cf m m', astep cf m m' -> sr cf m -> sr cf m'.
Proof.
  intros cf m m' H [H1 H2]. unfold sr in *. inversion H; subst;
    cbn [m_b m_k b_out BS k_seq set_buf bump_ntx] in *; try (split; assumption).
  - split; [rewrite app_length; cbn [length]; lia|].
    match goal with Hf : free_seq _ _ _ = Some _ |- _ => destruct (free_seq_spec _ _ _ _ _ Hf) as [_ E] end.
    subst s'. apply seq_next_range.
  - split; [|exact H2]. pose proof (remove_entry_length (d_seq d) out). lia.
  - split; [|exact H2]. rewrite app_length in *. cbn [length] in *. exact H1.
Qed.

Lemma star_sr : forall cf m m', star cf m m' -> sr cf m -> sr cf m'.
Proof.
  intros cf m m' H. induction H as [m|m1 m2 m3 H12 H23 IH]; intros Hs; [exact Hs|].
  apply IH. apply (astep_sr cf m1 m2 H12 Hs).
Qed.

(* `while seq in outstanding_packets` always exits when the window is at most 2^16 *)
Theorem no_divergence : forall cf cmds evs k tr oc k' rest,
  config_ok cf -> 0 <= k_seq k < 65536 ->
  burst cf cmds evs k = (tr, oc, k', rest) -> oc <> SeqSearchDiverges.
Proof.
  intros cf cmds evs k tr oc k' rest [[Hw1 Hw2] Ht] Hs Hb Hoc. subst oc. unfold burst in Hb.
  destruct (run_refines cf evs k (bstate0 cmds) [] tr _ k' rest Hb) as (m & Hst & Hend).
  assert (Hsr : sr cf m).
  { apply (star_sr cf _ m Hst). split; cbn [m_b m_k bstate0 b_out length]; [lia|exact Hs]. }
  destruct Hsr as [S1 S2].
  inversion Hend as [| |m0 d buf Hbuf Hnok Hnre Hoc| |m0 Hpre]; subst.
  - unfold fatal_outcome in Hoc.
    destruct (existsb (Z.eqb (d_rc d)) all_return_codes && negb (existsb (Z.eqb (d_rc d)) fatal_codes));
      discriminate Hoc.
  - unfold pre in Hpre.
    destruct (fill cf (b_queue (m_b m)) (b_queued (m_b m)) (m_k m) (b_out (m_b m))) eqn:Hf; [discriminate Hpre|].
    apply (fill_total cf _ _ _ _ Hw2 S2 S1 Hf).
Qed.

(* ---------------------------------------------------------------------------------------------- *)
(* the three ways a call can end                                                                     *)
(* ---------------------------------------------------------------------------------------------- *)
Corollary outcome_dichotomy : forall cf cmds evs k tr oc k' rest,
  config_ok cf -> 0 <= k_seq k < 65536 ->
  select_honest cf evs k (bstate0 cmds) ->
  Z.of_nat (datagrams k evs) + Z.of_nat (length cmds) * (cf_tries cf - 1) + 1 <= Z.of_nat (length evs) ->
  burst cf cmds evs k = (tr, oc, k', rest) ->
  oc = Returned \/ (exists c, oc = RaisedTimeout c) \/ (exists rc c, oc = RaisedFatal rc c).
Proof.
  intros cf cmds evs k tr oc k' rest Hcf Hs Hhon Hlen Hb.
  destruct (termination cf cmds evs k tr oc k' rest Hcf Hhon Hb) as [_ Hne]. specialize (Hne Hlen).
  pose proof (no_divergence cf cmds evs k tr oc k' rest Hcf Hs Hb) as Hnd.
  destruct oc as [|c|rc c|rc| |].
  - left. reflexivity.
  - right. left. exists c. reflexivity.
  - right. right. exists rc, c. reflexivity.
  - exfalso. apply (no_key_error cf cmds evs k tr rc k' rest Hb).
  - exfalso. apply Hne. reflexivity.
  - exfalso. apply Hnd. reflexivity.
Qed.
