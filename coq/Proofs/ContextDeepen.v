(* C18 -- kept Context objects, exits by exception, discover_connections as a step, board collections. *)
From Coq Require Import ZArith List Bool String Lia.
Require Import Rig.Model.Base Rig.Generated.GenSignatures Rig.Generated.GenCtxGeometry
               Rig.Generated.GenContextShape Rig.Model.Context
               Rig.Spec.Context Rig.Proofs.Context Rig.Proofs.ContextBlocks Rig.Proofs.ContextStop.
Import ListNotations.
Open Scope string_scope.
Open Scope list_scope.
Open Scope Z_scope.

(* ------------------------------------------------------------------ kept Context objects *)
Lemma slast_mkdict : forall n (kw : list (string * value)), slast n (mkdict kw) = slast n kw.
Proof.
  intros n kw. unfold mkdict.
  rewrite (slast_nodup n (supdate_all kw [])).
  - rewrite sassoc_supdate_all. destruct (slast n kw); reflexivity.
  - apply nodup_keys_supdate_all. constructor.
Qed.

(* A Context object made from kw -- kept in a variable or not, entered on top of ANY stack s, also one that
   already holds the same object, any number of times -- contributes exactly the arguments it was made with:
   inside its block an argument has the value kw gives it, else the value that was in force outside. *)
Theorem kept_context_contributes : forall n kw s,
  stack_lookup n (s ++ [mkdict kw]) = match slast n kw with Some v => Some v | None => stack_lookup n s end.
Proof. intros. rewrite stack_lookup_snoc, slast_mkdict. reflexivity. Qed.

(* leaving a block BY AN EXCEPTION (r = true: raised in the block at any depth, by a rejected call, by an exit
   callback of an inner block, by the connection) restores the stack *)
Theorem exit_by_exception_restores : forall c cls kw blk s ev s',
  run_op c cls (OWith kw blk) s = (ev, s', true) -> s' = s.
Proof.
  intros c cls kw blk s ev s' H. pose proof (exit_restores_with c cls kw blk s) as G.
  rewrite H in G. exact G.
Qed.

Theorem application_exit_by_exception_restores : forall c cls pos kw blk intr s ev s',
  run_op c cls (OApp pos kw blk intr) s = (ev, s', true) -> s' = s.
Proof.
  intros c cls pos kw blk intr s ev s' H. pose proof (exit_restores_app c cls pos kw blk intr s) as G.
  rewrite H in G. exact G.
Qed.

(* ------------------------------------------------------------------ discover_connections as a step *)
Lemma chip_eqb_eq : forall a b : chip, chip_eqb a b = true -> a = b.
Proof.
  intros [a1 a2] [b1 b2] H. unfold chip_eqb in H. simpl in H. apply andb_true_iff in H. destruct H as [H1 H2].
  apply Z.eqb_eq in H1. apply Z.eqb_eq in H2. congruence.
Qed.

Lemma chip_eqb_refl : forall a : chip, chip_eqb a a = true.
Proof. intros [a1 a2]. unfold chip_eqb. simpl. rewrite !Z.eqb_refl. reflexivity. Qed.

Lemma cassoc_app : forall {A} k (l1 l2 : list (chip * A)),
  cassoc k (l1 ++ l2) = match cassoc k l1 with Some v => Some v | None => cassoc k l2 end.
Proof.
  intros A k l1 l2. induction l1 as [|[k0 v0] r IH]; simpl; [reflexivity|].
  destruct (chip_eqb k k0); [reflexivity|exact IH].
Qed.

Lemma discover_add_retains : forall conns e xy k,
  cassoc xy conns = Some k -> cassoc xy (discover_add conns e) = Some k.
Proof.
  intros conns [xy' [ok k']] xy k H. unfold discover_add.
  destruct (cassoc xy' conns); [exact H|]. destruct ok; [|exact H].
  rewrite cassoc_app, H. reflexivity.
Qed.

Lemma discover_fold_retains : forall eth conns xy k,
  cassoc xy conns = Some k -> cassoc xy (fold_left discover_add eth conns) = Some k.
Proof.
  induction eth as [|e r IH]; intros conns xy k H; simpl; [exact H|].
  apply IH. apply discover_add_retains. exact H.
Qed.

Lemma discover_fold_new : forall eth conns xy k,
  cassoc xy conns = None -> cassoc xy (fold_left discover_add eth conns) = Some k ->
  In (xy, (true, k)) eth.
Proof.
  induction eth as [|[xy' [ok k']] r IH]; intros conns xy k Hn Hs; cbn [fold_left In] in *; [congruence|].
  destruct (cassoc xy (discover_add conns (xy', (ok, k')))) as [k2|] eqn:E.
  - (* added by this element *)
    pose proof (discover_fold_retains r _ xy k2 E) as R. rewrite R in Hs. inversion Hs; subst k2.
    unfold discover_add in E.
    destruct (cassoc xy' conns); [congruence|]. destruct ok; [|congruence].
    rewrite cassoc_app, Hn in E. simpl in E.
    destruct (chip_eqb xy xy') eqn:Eq; [|discriminate]. apply chip_eqb_eq in Eq.
    inversion E. subst. left. reflexivity.
  - right. eapply IH; eauto.
Qed.

(* the dimensions are those of the machine as it is now -- whatever was discovered before *)
Theorem discover_dimensions : forall m c,
  c_width (discover_step m c) = Some (dm_w m) /\ c_height (discover_step m c) = Some (dm_h m).
Proof. intros. split; reflexivity. Qed.

Theorem discover_root : forall m c,
  c_root (discover_step m c) = match c_root c with Some r => Some r | None => Some (dm_root m) end.
Proof. reflexivity. Qed.

(* connections already held are retained ... *)
Theorem discover_retains : forall m c xy k,
  cassoc xy (c_conns c) = Some k -> cassoc xy (c_conns (discover_step m c)) = Some k.
Proof. intros. simpl. apply discover_fold_retains. assumption. Qed.

(* ... and a connection known afterwards that was not known before belongs to an Ethernet chip of the machine
   as it is now whose connection was kept (its probe answered) *)
Theorem discover_new_are_kept : forall m c xy k,
  cassoc xy (c_conns c) = None -> cassoc xy (c_conns (discover_step m c)) = Some k ->
  In (xy, (true, k)) (dm_eth m).
Proof. intros m c xy k Hn Hs. simpl in Hs. eapply discover_fold_new; eauto. Qed.

(* after a (re-)discovery a command for chip (x, y) leaves by the connection of the chip's own board per the
   CURRENT dimensions when one is known, else by the initial connection *)
Theorem rediscovery_uses_current_dimensions : forall m c x y,
  0 < dm_w m -> 0 < dm_h m ->          (* Python raises ZeroDivisionError on `% 0`; Coq's `mod 0` does not *)
  exists rx ry, c_root (discover_step m c) = Some (rx, ry) /\
    mc_get_connection (discover_step m c) (VInt x) (VInt y)
    = Some (match cassoc (c18_local_eth_coord x y (dm_w m) (dm_h m) rx ry) (c_conns (discover_step m c)) with
            | Some k => k | None => 0 end).
Proof.
  intros m c x y _ _. unfold mc_get_connection. simpl.
  destruct (c_root c) as [[rx ry]|].
  - exists rx, ry. split; [reflexivity|]. simpl.
    destruct (cassoc _ (fold_left discover_add (dm_eth m) (c_conns c))); reflexivity.
  - destruct (dm_root m) as [rx ry]. exists rx, ry. split; [reflexivity|]. simpl.
    destruct (cassoc _ (fold_left discover_add (dm_eth m) (c_conns c))); reflexivity.
Qed.

(* ------------------------------------------------------------------ instances *)
(* a 24x12 machine discovered, then the same controller discovers it again after it shrank to 12x12: chip
   (0, 4) lies on the board of (8, 4) across the torus edge of the machine as it is now; the stale connection 5
   of the old board (20, 4) is not used *)
Definition ex_m1 : dmachine :=
  MkDMachine 24 12 (0, 0) [((0, 0), (true, 1)); ((4, 8), (false, 2)); ((8, 4), (true, 3)); ((12, 0), (true, 4));
                           ((16, 8), (false, 6)); ((20, 4), (true, 5))].
Definition ex_m2 : dmachine :=
  MkDMachine 12 12 (0, 0) [((0, 0), (true, 101)); ((4, 8), (true, 102)); ((8, 4), (true, 103))].
Definition ex_ctl0 : ctl := MkCtl None None None [] [].

Lemma ex_rediscovery_instance :
  flat_ctl (discover_step ex_m2 (discover_step ex_m1 ex_ctl0))
  = (12, 12, [(0, 0)], [((0, 0), 1); ((8, 4), 3); ((12, 0), 4); ((20, 4), 5); ((4, 8), 102)])
  /\ mc_get_connection (discover_step ex_m1 ex_ctl0) (VInt 0) (VInt 4) = Some 5
  /\ mc_get_connection (discover_step ex_m2 (discover_step ex_m1 ex_ctl0)) (VInt 0) (VInt 4) = Some 3.
Proof. repeat split; vm_compute; reflexivity. Qed.

(* several boards given to set_led as a collection (also through a context block): the command goes to the
   first board named, over that board's connection, and the mask word names them all; set_power addresses
   board 0 *)
Lemma ex_board_collection_instance :
  call FUEL ex_ctl "BMP" "set_led" [[("cabinet", VInt 0); ("frame", VInt 0); ("board", VSeq [2; 0; 5])]] [VInt 1] []
  = ([MkWire 1 0 (VInt 0) (VInt 0) (VInt 2) (VInt SCP_led) [] [(FBit, 1%nat, 0, VSeq [2; 0; 5])]], None)
  /\ call FUEL ex_ctl "BMP" "set_power" [[("cabinet", VInt 0); ("frame", VInt 0)]] [VBool true] [("board", VSeq [2; 0; 5])]
  = ([MkWire 0 0 (VInt 0) (VInt 0) (VInt 0) (VInt SCP_power) [] [(FBit, 1%nat, 0, VSeq [2; 0; 5])]], None).
Proof. split; vm_compute; reflexivity. Qed.

(* ------------------------------------------------------------------ the shape of the source (tie T)
   Generated/GenContextShape.v exists only if rig/utils/contexts.py and the controller functions named in it
   still read, statement by statement, as when the model was written; the facts it states are the ones the
   model implements: merge_stack folds the stack from the oldest context (fold_left), run_op pops after the
   callbacks whatever happened (removelast on every path), discover_step assigns the dimensions afresh,
   set_led addresses first_of the boards and the mask field carries the whole collection. *)
Lemma context_shape_as_modelled :
  ctxshape_merge_oldest_first = true /\ ctxshape_wrapper_steps = [1; 2; 3; 4; 5; 6; 7]
  /\ ctxshape_exit_steps = [1; 2] /\ ctxshape_exit_pop_in_finally = true /\ ctxshape_update_innermost = true
  /\ ctxshape_discover_dims_fresh = true /\ ctxshape_boards_copied = true
  /\ List.length ctxshape_functions = 22%nat.
Proof. repeat split; reflexivity. Qed.

(* one chip refuses one command inside two nested application blocks: the SCPError travels outward, and both
   blocks still send their stop (application_stop holds for every block body and every way of leaving it) *)
Lemma ex_refused_instance :
  run_ops ex_ctl "MC"
    [ OTry [ OApp [VInt 17] [] [ OApp [VInt 30] [] [ OCallRefused "sdram_free" [VInt 4; VInt 1; VInt 2] [] ] false ] false ] ]
    [[("app_id", VInt 66)]]
  = ([EvCall "sdram_free" ([MkWire 1 0 (VInt 1) (VInt 2) (VInt 0) (VInt SCP_alloc_free)
                                   [(0%nat, 0, 255, Alloc_free_sdram_by_ptr)] []], Some ScpErr);
      EvStop ([stop_wire 3 (VInt 30)], None);
      EvStop ([stop_wire 3 (VInt 17)], None)],
     [[("app_id", VInt 66)]], false).
Proof. vm_compute. reflexivity. Qed.
