(* C10 -- build_routing_tables over the modelled routing_tree_to_tables and C04's remove_default_routes *)
From Coq Require Import ZArith List Bool Lia.
Require Import Rig.Model.Base Rig.Generated.GenTablesWrapper Rig.Model.Tables Rig.Model.TablesWrapper.
Require Import Rig.Spec.Tables Rig.Spec.TablesWrapper Rig.Proofs.Tables Rig.Proofs.TablesFold.
Require Rig.Model.Table Rig.Spec.Table Rig.Proofs.Table.
Import ListNotations.
Open Scope Z_scope.

(* ------------------------------------------------------------------------------------------------ *)
(** * remove_default_routes on this model's entries is C04's on their bit-set view *)

Lemma map_rd_filter : forall check t,
  map to_c04 (rd_filter check t) = Table.rd_go check (map to_c04 t).
Proof.
  intros check t. induction t as [|e rest IH]; [reflexivity|].
  cbn [rd_filter map Table.rd_go].
  destruct (Table.is_defaultable check (to_c04 e) (map to_c04 rest)); [exact IH|].
  cbn [map]. rewrite IH. reflexivity.
Qed.

(* every key is routed as before, default routing included (C04's route_eq) *)
Lemma remove_default_routes_route_eq : forall es,
  Spec.Table.route_eq (map to_c04 es) (map to_c04 (remove_default_routes es)).
Proof.
  intros es. unfold remove_default_routes, rdr_check_for_aliases_default.
  rewrite map_rd_filter. apply Proofs.Table.rd_go_route_eq.
  intros Hc. apply negb_false_iff in Hc. apply Proofs.Table.no_alias_shortcut_disjoint. exact Hc.
Qed.

Lemma rd_filter_subseq : forall check t, subseq (rd_filter check t) t.
Proof.
  intros check t. induction t as [|e rest IH]; [constructor|].
  cbn [rd_filter]. destruct (Table.is_defaultable check (to_c04 e) (map to_c04 rest)); constructor; exact IH.
Qed.

Lemma rd_filter_omitted : forall check t e,
  In e t -> ~ In e (rd_filter check t) -> Spec.Table.default_routable (to_c04 e).
Proof.
  intros check t e. induction t as [|x rest IH]; intros Hin Hnin; [contradiction|].
  cbn [rd_filter] in Hnin.
  destruct (Table.is_defaultable check (to_c04 x) (map to_c04 rest)) eqn:Hd.
  - destruct Hin as [->|Hin]; [|exact (IH Hin Hnin)].
    apply Proofs.Table.is_defaultable_spec in Hd. exact (proj1 Hd).
  - destruct Hin as [->|Hin]; [exfalso; apply Hnin; left; reflexivity|].
    apply IH; [exact Hin|]. intros H. apply Hnin. right. exact H.
Qed.

(* what remove_default_routes does to one table: the entries kept are kept as they are and in order;
   an entry is left out only if its packets come from exactly one link and go exactly to the opposite
   link, which is what the router does with a packet that matches no entry; and every 32-bit key is
   routed as before *)
Theorem remove_default_routes_spec : forall es,
  subseq (remove_default_routes es) es
  /\ (forall e, In e es -> ~ In e (remove_default_routes es) -> Spec.Table.default_routable (to_c04 e))
  /\ Spec.Table.route_eq (map to_c04 es) (map to_c04 (remove_default_routes es)).
Proof.
  intros es. split; [apply rd_filter_subseq|]. split; [|apply remove_default_routes_route_eq].
  intros e. apply rd_filter_omitted.
Qed.

(* ------------------------------------------------------------------------------------------------ *)
(** * routing_tree_to_tables never returns an empty table for a chip *)

Definition all_nonempty (rs : rstate) : Prop := Forall (fun cv => snd cv <> []) rs.

Lemma kmset_nonempty : forall cm k v, kmset k v cm <> [].
Proof. intros [|[k' v'] cm] k v; simpl; [discriminate|]. destruct (km_eqb k k'); discriminate. Qed.

Lemma cset_all_nonempty : forall rs c v, all_nonempty rs -> v <> [] -> all_nonempty (cset c v rs).
Proof.
  induction rs as [|[c' v'] rs IH]; intros c v H Hv; simpl.
  - constructor; [exact Hv|constructor].
  - inversion H as [|? ? H1 H2]; subst. destruct (chip_eqb c c').
    + constructor; [exact Hv|exact H2].
    + constructor; [exact H1|apply IH; assumption].
Qed.

Lemma visit_step_nonempty : forall key mask v rs rs',
  all_nonempty rs -> visit_step key mask v rs = ROk rs' -> all_nonempty rs'.
Proof.
  intros key mask [[d c] outs] rs rs' H Hs. unfold visit_step in Hs.
  destruct (in_direction d) as [ind|]; [|discriminate].
  destruct (kmassoc (key, mask) _) as [[ins outs0]|].
  - destruct (zlist_eqb outs0 outs); [|discriminate]. injection Hs as <-.
    apply cset_all_nonempty; [exact H|apply kmset_nonempty].
  - injection Hs as <-. apply cset_all_nonempty; [exact H|apply kmset_nonempty].
Qed.

Lemma visits_fold_nonempty : forall vs key mask rs rs',
  all_nonempty rs -> visits_fold key mask vs rs = ROk rs' -> all_nonempty rs'.
Proof.
  induction vs as [|v vs IH]; intros key mask rs rs' H Hf; cbn [visits_fold] in Hf.
  - injection Hf as <-. exact H.
  - destruct (visit_step key mask v rs) as [rs1| | |] eqn:Hs; try discriminate.
    apply (IH key mask rs1 rs'); [eapply visit_step_nonempty; eassumption|exact Hf].
Qed.

Lemma nets_fold_nonempty : forall routes net_keys rs rs',
  all_nonempty rs -> nets_fold net_keys routes rs = ROk rs' -> all_nonempty rs'.
Proof.
  induction routes as [|[n t] routes IH]; intros net_keys rs rs' H Hf; cbn [nets_fold] in Hf.
  - injection Hf as <-. exact H.
  - destruct (zassoc n net_keys) as [[key mask]|]; [|discriminate].
    destruct t as [c kids|v]; [|discriminate].
    destruct (tree_fold key mask (TNode c kids) rs) as [rs1| | |] eqn:Ht; try discriminate.
    apply (IH net_keys rs1 rs'); [|exact Hf].
    unfold tree_fold in Ht.
    destruct (visits_fold key mask (fst (traverse (TNode c kids))) rs) as [rs2| | |] eqn:Hv; try discriminate.
    destruct (snd (traverse (TNode c kids))); try discriminate. injection Ht as <-.
    eapply visits_fold_nonempty; eassumption.
Qed.

Lemma tables_nonempty : forall routes net_keys T,
  routing_tree_to_tables routes net_keys = ROk T -> Forall (fun ce => nonempty (snd ce) = true) T.
Proof.
  intros routes net_keys T H. unfold routing_tree_to_tables in H.
  destruct (nets_fold net_keys routes []) as [rs| | |] eqn:Hf; try discriminate. injection H as <-.
  pose proof (nets_fold_nonempty routes net_keys [] rs (Forall_nil _) Hf) as Hne.
  unfold tables_of. apply Forall_forall. intros ce Hin. apply in_map_iff in Hin.
  destruct Hin as [[c cm] [<- Hin]]. cbn [fst snd].
  unfold all_nonempty in Hne. rewrite Forall_forall in Hne. specialize (Hne _ Hin). cbn [snd] in Hne.
  destruct cm; [contradiction|reflexivity].
Qed.

(* ------------------------------------------------------------------------------------------------ *)
(** * build_routing_tables *)

Lemma filter_all_true : forall {A} (f : A -> bool) l, Forall (fun x => f x = true) l -> filter f l = l.
Proof.
  intros A f l H. induction H as [|x l Hx Hl IH]; [reflexivity|]. cbn [filter]. rewrite Hx, IH. reflexivity.
Qed.

(* omit_default_routes=False: the deprecated entry point IS routing_tree_to_tables -- same tables, same
   order, same error -- for all inputs whatsoever *)
Theorem brt_false_eq : forall routes net_keys,
  build_routing_tables routes net_keys false = routing_tree_to_tables routes net_keys.
Proof.
  intros routes net_keys. unfold build_routing_tables.
  destruct (routing_tree_to_tables routes net_keys) as [T| | |] eqn:H; try reflexivity.
  f_equal. pose proof (tables_nonempty routes net_keys T H) as Hne.
  assert (Hmap : map (fun ce : chip * list entry => (fst ce, snd ce)) T = T).
  { clear. induction T as [|[c es] T IH]; [reflexivity|]. cbn [map fst snd]. rewrite IH. reflexivity. }
  cbv beta iota. rewrite Hmap. apply filter_all_true. exact Hne.
Qed.

(* the error is that of routing_tree_to_tables, whatever the flag *)
Theorem brt_error : forall routes net_keys omit k m c,
  build_routing_tables routes net_keys omit = RMultisource k m c
  <-> routing_tree_to_tables routes net_keys = RMultisource k m c.
Proof.
  intros routes net_keys omit k m c. unfold build_routing_tables.
  destruct (routing_tree_to_tables routes net_keys); split; intros H; try discriminate; exact H.
Qed.

Lemma cassoc_filter_map : forall (f : list entry -> list entry) (T : list (chip * list entry)) c,
  NoDup (map fst T) ->
  table_at (filter (fun ce => nonempty (snd ce)) (map (fun ce => (fst ce, f (snd ce))) T)) c
  = match cassoc c T with Some es => f es | None => [] end.
Proof.
  intros f T c. induction T as [|[c' es] T IH]; intros Hnd; [reflexivity|].
  cbn [map fst] in Hnd. inversion Hnd as [|? ? Hnin Hnd']; subst.
  cbn [map filter fst snd cassoc]. unfold table_at in *.
  destruct (chip_eqb c c') eqn:E.
  - apply t_chip_eqb_eq in E. subst c'.
    destruct (f es) as [|x r] eqn:Hf; cbn [nonempty].
    + rewrite (IH Hnd').
      destruct (cassoc c T) as [es2|] eqn:Hc2; [|reflexivity].
      exfalso. apply Hnin. clear - Hc2. induction T as [|[c2 e2] T IH]; [discriminate|].
      cbn [cassoc] in Hc2. cbn [map fst]. destruct (chip_eqb c c2) eqn:E2.
      * apply t_chip_eqb_eq in E2. left. symmetry. exact E2.
      * right. apply IH. exact Hc2.
    + cbn [cassoc]. rewrite t_chip_eqb_refl. reflexivity.
  - destruct (nonempty (f es)); [cbn [cassoc fst]; rewrite E|]; apply (IH Hnd').
Qed.

(* omit_default_routes=True on well-formed inputs: it succeeds exactly when routing_tree_to_tables does, and
   then every chip's table is remove_default_routes of the table routing_tree_to_tables gives it (a chip
   whose table becomes empty is left out of the dictionary); the chips keep their order *)
Theorem brt_true_spec : forall routes net_keys,
  inputs_ok routes net_keys ->
  match routing_tree_to_tables routes net_keys with
  | ROk T =>
      exists T', build_routing_tables routes net_keys true = ROk T'
                 /\ (forall c, table_at T' c = remove_default_routes (table_at T c))
                 /\ subseq (map fst T') (map fst T)
  | RMultisource k m c => build_routing_tables routes net_keys true = RMultisource k m c
  | ROther => False
  | RFuel => False
  end.
Proof.
  intros routes net_keys Hin. pose proof (tables_of_trees routes net_keys Hin) as Hspec.
  unfold build_routing_tables.
  destruct (routing_tree_to_tables routes net_keys) as [T|k m c| |]; try contradiction; [|reflexivity].
  destruct Hspec as [[Hchips _] _].
  assert (Hnd : NoDup (map fst T)) by (rewrite Hchips; apply first_occ_NoDup; exact t_chip_eqb_eq).
  eexists. split; [reflexivity|]. split.
  - intros c. rewrite (cassoc_filter_map remove_default_routes T c Hnd). unfold table_at.
    destruct (cassoc c T); reflexivity.
  - clear. induction T as [|[c es] T IH]; [constructor|].
    cbn [map filter fst snd]. destruct (nonempty (remove_default_routes es)); cbn [map fst]; constructor; exact IH.
Qed.
