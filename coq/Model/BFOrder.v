(* Model of rig/place_and_route/place/breadth_first.py: breadth_first_vertex_order.
   (Model only: the proofs are in Proofs/BFOrder.v so that the model still runs when a proof breaks.)

   What CPython leaves open is made an explicit oracle:
     pick : list vertex -> vertex          the element `unplaced_vertices.pop()` removes from the set it is given
     arr  : list vertex -> list vertex     the order in which the generator expression
                                           `v for v in vertex_neighbours[vertex] if v in unplaced_vertices`
                                           delivers the members it keeps (set iteration order)
   The theorems quantify over every such pair; the correspondence check instantiates them with the choices the real
   run made, read off the order it produced ([pick_real] / [arr_real]: the queue is first-in first-out, so the order in
   which a block of neighbours was appended is the order in which its members come out). *)
From Coq Require Import ZArith List Bool.
Require Import Rig.Model.Base Rig.Model.Place Rig.Spec.Place.
Import ListNotations.
Open Scope Z_scope.

(* A net as the function sees it: iterating over a Net yields the source, then the sinks (rig/netlist.py). *)
Definition bnet := (vertex * list vertex)%type.
Definition net_members (n : bnet) : list vertex := fst n :: snd n.

(* vertex_neighbours[v]: the union of the member sets of every net that has v as its source or among its sinks
   (a set: kept without repetitions; the order of this list is immaterial, [arr] decides what is observed). *)
Definition nbs (nets : list bnet) (v : vertex) : list vertex :=
  dedup (flat_map (fun n => if zmem v (net_members n) then net_members n else []) nets).

Definition zremove (v : vertex) (l : list vertex) : list vertex := filter (fun x => negb (x =? v)) l.

(* while vertex_queue or unplaced_vertices:
       if not vertex_queue: vertex_queue.append(unplaced_vertices.pop())
       vertex = vertex_queue.popleft();  yield vertex
       vertex_queue.extend(v for v in vertex_neighbours[vertex] if v in unplaced_vertices)
       unplaced_vertices.difference_update(vertex_neighbours[vertex])
   One unit of fuel per vertex yielded; Proofs/BFOrder.v shows that [length vs] units are never exhausted
   before both collections are empty (every vertex is in the result). *)
Fixpoint bf_loop (fuel : nat) (pick : list vertex -> vertex) (arr : list vertex -> list vertex)
         (nets : list bnet) (queue unplaced : list vertex) : list vertex :=
  match fuel with
  | O => []
  | S f =>
      match queue with
      | [] =>
          match unplaced with
          | [] => []
          | _ :: _ =>
              let v := pick unplaced in
              let un := zremove v unplaced in
              let N := nbs nets v in
              v :: bf_loop f pick arr nets (arr (filter (fun x => zmem x un) N))
                           (filter (fun x => negb (zmem x N)) un)
          end
      | v :: q =>
          let N := nbs nets v in
          v :: bf_loop f pick arr nets (q ++ arr (filter (fun x => zmem x unplaced) N))
                       (filter (fun x => negb (zmem x N)) unplaced)
      end
  end.

(* breadth_first_vertex_order(vertices_resources, nets): vs = the keys of vertices_resources.
   (`if len(vertices_resources) == 0: return` is the loop's own behaviour on the empty set.) *)
Definition bf_order (pick : list vertex -> vertex) (arr : list vertex -> list vertex)
           (nets : list bnet) (vs : list vertex) : list vertex :=
  bf_loop (length vs) pick arr nets [] vs.

(* The oracles an observed order dictates. *)
Definition pick_real (observed : list vertex) (l : list vertex) : vertex :=
  hd 0 (filter (fun x => zmem x l) observed).
Definition arr_real (observed : list vertex) (l : list vertex) : list vertex :=
  filter (fun x => zmem x l) observed.

Fixpoint zlist_eqb (a b : list vertex) : bool :=
  match a, b with
  | [], [] => true
  | x :: a', y :: b' => (x =? y) && zlist_eqb a' b'
  | _, _ => false
  end.

(* Correspondence, evaluated by the check on every real run: the order the real generator produced is the model's
   output under the choices that order dictates.  The first three conjuncts make those oracles legitimate on every
   set the loop can ask about (sub-sets of vs): without them an order that misses a vertex would dictate an
   "iteration" that drops it (Proofs/BFOrder.v, arr_real_ok_on; the false instance in C02_bf_order_example). *)
Definition bf_order_replayb (nets : list bnet) (vs observed : list vertex) : bool :=
  nodupb observed && forallb (fun v => zmem v vs) observed && forallb (fun v => zmem v observed) vs
  && zlist_eqb (bf_order (pick_real observed) (arr_real observed) nets vs) observed.

(* breadth_first.place = sequential.place with that vertex order (forwarding shape-checked: GenPlaceShape). *)
Definition bf_place_full (pick : list vertex -> vertex) (arr : list vertex -> list vertex)
           (vr : vresources) (nets : list bnet) (m : pmachine) (cs : list pconstr)
           (chip_order : option (list chip)) : result placement :=
  bf_place vr m cs (bf_order pick arr nets (map fst vr)) chip_order.
