(* Bit-level facts about the generated kernels used by ordered covering: generality is a population
   count, and the key/mask of a merge (merge_acc_init / merge_acc_step / merge_key_mask). *)
From Coq Require Import ZArith List Bool Lia.
Require Import Rig.Generated.GenTable.
Require Import Rig.Model.Base Rig.Model.Table Rig.Spec.Table Rig.Proofs.TableCheck.
Import ListNotations.
Open Scope Z_scope.

(* ------------------------------------------------------------------------------------------------ *)
(** * Generality *)

Definition bits32z : list Z := map Z.of_nat (seq 0 32).

Definition popc (f : Z -> bool) : Z :=
  fold_right Z.add 0 (map (fun i => if f i then 1 else 0) bits32z).

Lemma land_bit_eqb : forall x i, 0 <= i ->
  (Z.land x (Z.shiftl 1 i) =? 0) = negb (Z.testbit x i).
Proof.
  intros x i Hi. rewrite Z.shiftl_1_l.
  destruct (Z.testbit x i) eqn:Hx; simpl.
  - apply Z.eqb_neq. intro H0.
    assert (Hb : Z.testbit (Z.land x (2 ^ i)) i = false) by (rewrite H0; apply Z.bits_0).
    rewrite Z.land_spec, Hx, Z.pow2_bits_eqb, Z.eqb_refl in Hb by exact Hi. discriminate.
  - apply Z.eqb_eq. apply Z.bits_inj'. intros j Hj.
    rewrite Z.land_spec, Z.bits_0, Z.pow2_bits_eqb by exact Hi.
    destruct (i =? j) eqn:Hij; [| apply andb_false_r].
    apply Z.eqb_eq in Hij. subst j. rewrite Hx. reflexivity.
Qed.

Lemma bits32z_range : forall i, In i bits32z <-> 0 <= i < 32.
Proof.
  intros i. unfold bits32z. rewrite in_map_iff. split.
  - intros [n [<- Hn]]. apply in_seq in Hn. lia.
  - intros Hi. exists (Z.to_nat i). split; [lia | apply in_seq; lia].
Qed.

Lemma get_generality_popc : forall key mask,
  get_generality key mask = popc (fun i => negb (Z.testbit key i) && negb (Z.testbit mask i)).
Proof.
  intros key mask. unfold get_generality, popc. fold bits32z. f_equal.
  apply map_ext_in. intros i Hi. apply bits32z_range in Hi.
  rewrite land_bit_eqb by lia. rewrite negb_involutive.
  rewrite Z.land_spec, !Z.lnot_spec by lia. reflexivity.
Qed.

Lemma sum01_count : forall (l : list Z) (f : Z -> bool),
  fold_right Z.add 0 (map (fun i => if f i then 1 else 0) l) = Z.of_nat (length (filter f l)).
Proof.
  induction l as [| x l IH]; intros f; simpl; [reflexivity |].
  rewrite IH. destruct (f x); simpl length; lia.
Qed.

(* rig's _get_generality (regenerated each run) computes the specification's generality *)
Theorem gen_of_spec : forall e, gen_of e = spec_generality e.
Proof.
  intros e. unfold gen_of, spec_generality. rewrite get_generality_popc. unfold popc, bits32z.
  apply sum01_count.
Qed.

Lemma sum_map_le : forall (l : list Z) (f g : Z -> Z),
  (forall i, In i l -> f i <= g i) ->
  fold_right Z.add 0 (map f l) <= fold_right Z.add 0 (map g l).
Proof.
  induction l as [| x l IH]; intros f g H; simpl; [lia |].
  pose proof (H x (or_introl eq_refl)). pose proof (IH f g (fun i Hi => H i (or_intror Hi))). lia.
Qed.

Lemma popc_mono : forall f g,
  (forall i, 0 <= i < 32 -> f i = true -> g i = true) -> popc f <= popc g.
Proof.
  intros f g H. unfold popc. apply sum_map_le. intros i Hi. apply bits32z_range in Hi.
  destruct (f i) eqn:Hf; [rewrite (H i Hi Hf); lia | destruct (g i); lia].
Qed.

(* ------------------------------------------------------------------------------------------------ *)
(** * The key and mask of a merge *)

Definition acc_step (acc : Z * Z * Z) (e : entry) : Z * Z * Z :=
  let '(a, b, c) := acc in merge_acc_step a b c (e_key e) (e_mask e).

(* the (key, mask) _Merge.__new__ computes for the entries es *)
Definition merge_km (es : table) : km :=
  let '(any_ones, all_ones, all_selected) := fold_left acc_step es merge_acc_init in
  merge_key_mask any_ones all_ones all_selected.

Definition merge_sources (es : table) : Z := fold_left Z.lor (map e_sources es) 0.

Lemma mk_merge_fields : forall t gens idxs,
  let m := mk_merge t gens idxs in
  m_entries m = idxs /\ (m_key m, m_mask m) = merge_km (members t idxs)
  /\ m_goodness m = len idxs - 1
  /\ m_gen m = get_generality (m_key m) (m_mask m)
  /\ m_ins m = insertion_index gens (get_generality (m_key m) (m_mask m))
  /\ m_sources m = merge_sources (members t idxs).
Proof.
  intros t gens idxs. unfold mk_merge, merge_km, merge_sources.
  change (fun acc e => let '(a, b, c) := acc in merge_acc_step a b c (e_key e) (e_mask e)) with acc_step.
  destruct (fold_left acc_step (members t idxs) merge_acc_init) as [[a b] c].
  destruct (merge_key_mask a b c) as [key mask]. simpl. repeat split; reflexivity.
Qed.

Definition kbit (j : Z) (e : entry) : bool := Z.testbit (e_key e) j.
Definition mbit (j : Z) (e : entry) : bool := Z.testbit (e_mask e) j.

Lemma fold_acc_split : forall es a b c,
  fold_left acc_step es (a, b, c) =
  (fold_left Z.lor (map e_key es) a, fold_left Z.land (map e_key es) b,
   fold_left Z.land (map e_mask es) c).
Proof.
  induction es as [| e es IH]; intros a b c; simpl; [reflexivity |].
  unfold merge_acc_step. rewrite IH. reflexivity.
Qed.

Lemma fold_lor_bits : forall l a j,
  Z.testbit (fold_left Z.lor l a) j = Z.testbit a j || existsb (fun x => Z.testbit x j) l.
Proof.
  induction l as [| x l IH]; intros a j; simpl; [symmetry; apply orb_false_r |].
  rewrite IH, Z.lor_spec, orb_assoc. reflexivity.
Qed.

Lemma fold_land_bits : forall l a j,
  Z.testbit (fold_left Z.land l a) j = Z.testbit a j && forallb (fun x => Z.testbit x j) l.
Proof.
  induction l as [| x l IH]; intros a j; simpl; [symmetry; apply andb_true_r |].
  rewrite IH, Z.land_spec, andb_assoc. reflexivity.
Qed.

Lemma existsb_map : forall {A B} (f : A -> B) (p : B -> bool) l,
  existsb p (map f l) = existsb (fun x => p (f x)) l.
Proof. intros A B f p l. induction l as [| x l IH]; simpl; [reflexivity | rewrite IH; reflexivity]. Qed.

Lemma forallb_map : forall {A B} (f : A -> B) (p : B -> bool) l,
  forallb p (map f l) = forallb (fun x => p (f x)) l.
Proof. intros A B f p l. induction l as [| x l IH]; simpl; [reflexivity | rewrite IH; reflexivity]. Qed.

Lemma testbit_low32 : forall j, 0 <= j -> Z.testbit 4294967295 j = (j <? 32).
Proof.
  intros j Hj. change 4294967295 with (Z.ones 32).
  destruct (j <? 32) eqn:H; [apply Z.ltb_lt in H | apply Z.ltb_ge in H].
  - apply Z.ones_spec_low. lia.
  - apply Z.ones_spec_high. lia.
Qed.

(* the bits of the merged mask and key *)
Definition sel_bit (es : table) (j : Z) : bool := (j <? 32) && forallb (mbit j) es.
Definition all_bit (es : table) (j : Z) : bool := (j <? 32) && forallb (kbit j) es.
Definition any_bit (es : table) (j : Z) : bool := existsb (kbit j) es.

Lemma merge_km_bits : forall es j, 0 <= j ->
  Z.testbit (snd (merge_km es)) j = sel_bit es j && xorb (any_bit es j) (negb (all_bit es j))
  /\ Z.testbit (fst (merge_km es)) j = all_bit es j && Z.testbit (snd (merge_km es)) j.
Proof.
  intros es j Hj. unfold merge_km, merge_acc_init. rewrite fold_acc_split.
  unfold merge_key_mask. cbn [fst snd].
  rewrite !Z.land_spec, Z.lxor_spec, Z.lnot_spec by exact Hj.
  rewrite fold_lor_bits, !fold_land_bits, Z.bits_0, !testbit_low32 by exact Hj.
  rewrite existsb_map, !forallb_map. simpl orb.
  unfold sel_bit, all_bit, any_bit, kbit, mbit. split; reflexivity.
Qed.

(* for a non-empty merge the new mask selects bit j iff every member selects it and all members agree *)
Lemma forallb_existsb_nonempty : forall {A} (p : A -> bool) l, l <> [] -> forallb p l = true -> existsb p l = true.
Proof.
  intros A p l Hne H. destruct l as [| x l]; [contradiction |]. simpl in *.
  apply andb_true_iff in H. destruct H as [Hx _]. rewrite Hx. reflexivity.
Qed.

Lemma merge_mask_bit : forall es j, es <> [] -> 0 <= j ->
  Z.testbit (snd (merge_km es)) j =
  (j <? 32) && forallb (mbit j) es && (forallb (kbit j) es || negb (existsb (kbit j) es)).
Proof.
  intros es j Hne Hj. destruct (merge_km_bits es j Hj) as [H _]. rewrite H.
  unfold sel_bit, all_bit, any_bit.
  destruct (j <? 32); [| reflexivity]. simpl andb.
  destruct (forallb (mbit j) es); [| reflexivity]. simpl andb.
  destruct (forallb (kbit j) es) eqn:Hall.
  - rewrite (forallb_existsb_nonempty _ _ Hne Hall). reflexivity.
  - simpl. destruct (existsb (kbit j) es); reflexivity.
Qed.

Lemma merge_key_bit : forall es j, es <> [] -> 0 <= j ->
  Z.testbit (fst (merge_km es)) j = Z.testbit (snd (merge_km es)) j && forallb (kbit j) es.
Proof.
  intros es j Hne Hj. destruct (merge_km_bits es j Hj) as [_ H]. rewrite H.
  rewrite (merge_mask_bit es j Hne Hj). unfold all_bit.
  destruct (j <? 32), (forallb (mbit j) es), (forallb (kbit j) es), (existsb (kbit j) es); reflexivity.
Qed.

Lemma merge_km_wfb : forall es, es <> [] -> wfb (merge_km es).
Proof.
  intros es Hne j Hj Hk. rewrite (merge_key_bit es j Hne Hj) in Hk.
  apply andb_true_iff in Hk. destruct Hk as [Hm _]. exact Hm.
Qed.

(* F1: the merged key/mask matches every key a member matches *)
Lemma merge_km_covers : forall es e k,
  In e es -> wfb (km_of e) -> matches e k = true -> km_matches (merge_km es) k = true.
Proof.
  intros es e k Hin Hwf Hm.
  assert (Hne : es <> []) by (intro H0; subst es; destruct Hin).
  apply matches_inb; [apply merge_km_wfb; exact Hne |].
  apply (matches_inb (km_of e) k Hwf) in Hm.
  intros j Hj Hmask. rewrite (merge_key_bit es j Hne Hj), Hmask. simpl andb.
  rewrite (merge_mask_bit es j Hne Hj) in Hmask.
  apply andb_true_iff in Hmask. destruct Hmask as [Hmask Hagree].
  apply andb_true_iff in Hmask. destruct Hmask as [_ Hsel].
  rewrite forallb_forall in Hsel.
  rewrite (Hm j Hj (Hsel e Hin)). unfold km_of; cbn [fst].
  destruct (forallb (kbit j) es) eqn:Hall.
  - rewrite forallb_forall in Hall. apply (Hall e Hin).
  - simpl in Hagree. apply negb_true_iff in Hagree.
    destruct (Z.testbit (e_key e) j) eqn:Hk; [| reflexivity].
    assert (Hex : existsb (kbit j) es = true) by (apply existsb_exists; exists e; split; assumption).
    rewrite Hex in Hagree. discriminate.
Qed.

(* F2: a merge of fewer entries is no more general *)
Lemma merge_km_gen_mono : forall es' es,
  es' <> [] -> incl es' es ->
  get_generality (fst (merge_km es')) (snd (merge_km es'))
  <= get_generality (fst (merge_km es)) (snd (merge_km es)).
Proof.
  intros es' es Hne' Hincl.
  assert (Hne : es <> []).
  { destruct es' as [| x ?]; [contradiction |]. intro H0. subst es. apply (Hincl x). left. reflexivity. }
  rewrite !get_generality_popc. apply popc_mono. intros j Hj H.
  apply andb_true_iff in H. destruct H as [_ Hm']. apply negb_true_iff in Hm'.
  assert (Hm : Z.testbit (snd (merge_km es)) j = false).
  { destruct (Z.testbit (snd (merge_km es)) j) eqn:Hm; [| reflexivity]. exfalso.
    rewrite (merge_mask_bit es j Hne) in Hm by lia.
    rewrite (merge_mask_bit es' j Hne') in Hm' by lia.
    apply andb_true_iff in Hm. destruct Hm as [Hm Hag]. apply andb_true_iff in Hm. destruct Hm as [H32 Hsel].
    rewrite H32 in Hm'. simpl in Hm'.
    assert (Hsel' : forallb (mbit j) es' = true).
    { apply forallb_forall. intros x Hx. rewrite forallb_forall in Hsel. apply Hsel. apply Hincl. exact Hx. }
    rewrite Hsel' in Hm'. simpl in Hm'.
    apply orb_true_iff in Hag. destruct Hag as [Hall | Hnone].
    - assert (Hall' : forallb (kbit j) es' = true).
      { apply forallb_forall. intros x Hx. rewrite forallb_forall in Hall. apply Hall. apply Hincl. exact Hx. }
      rewrite Hall' in Hm'. discriminate.
    - apply negb_true_iff in Hnone.
      assert (Hnone' : existsb (kbit j) es' = false).
      { destruct (existsb (kbit j) es') eqn:Hex; [| reflexivity].
        apply existsb_exists in Hex. destruct Hex as [x [Hx Hkx]].
        assert (Hex2 : existsb (kbit j) es = true) by (apply existsb_exists; exists x; split; [apply Hincl; exact Hx | exact Hkx]).
        rewrite Hex2 in Hnone. discriminate. }
      rewrite Hnone' in Hm'. rewrite orb_true_r in Hm'. discriminate. }
  rewrite Hm. simpl. rewrite andb_true_r.
  destruct (Z.testbit (fst (merge_km es)) j) eqn:Hk; [| reflexivity].
  rewrite (merge_key_bit es j Hne) in Hk by lia. rewrite Hm in Hk. discriminate.
Qed.

(* F3: where the merged mask has no bit (below 32), some member has none there or two members differ *)
Lemma merge_mask_zero_bit : forall es j, es <> [] -> 0 <= j < 32 ->
  Z.testbit (snd (merge_km es)) j = false ->
  (exists e, In e es /\ mbit j e = false)
  \/ ((exists e, In e es /\ kbit j e = true) /\ (exists e, In e es /\ kbit j e = false)).
Proof.
  intros es j Hne Hj H. rewrite (merge_mask_bit es j Hne) in H by lia.
  assert (H32 : (j <? 32) = true) by (apply Z.ltb_lt; lia). rewrite H32 in H. simpl in H.
  destruct (forallb (mbit j) es) eqn:Hsel.
  - right. simpl in H. apply orb_false_iff in H. destruct H as [Hall Hnone].
    apply negb_false_iff in Hnone. apply existsb_exists in Hnone. split; [exact Hnone |].
    destruct (existsb (fun e => negb (kbit j e)) es) eqn:Hex.
    + apply existsb_exists in Hex. destruct Hex as [e [He Hk]]. exists e. split; [exact He |].
      apply negb_true_iff. exact Hk.
    + exfalso. assert (Hall' : forallb (kbit j) es = true).
      { apply forallb_forall. intros x Hx. destruct (kbit j x) eqn:Hkx; [reflexivity |].
        assert (Hex2 : existsb (fun e => negb (kbit j e)) es = true)
          by (apply existsb_exists; exists x; split; [exact Hx | rewrite Hkx; reflexivity]).
        rewrite Hex2 in Hex. discriminate. }
      rewrite Hall' in Hall. discriminate.
  - left. destruct (existsb (fun e => negb (mbit j e)) es) eqn:Hex.
    + apply existsb_exists in Hex. destruct Hex as [e [He Hk]]. exists e. split; [exact He |].
      apply negb_true_iff. exact Hk.
    + exfalso. assert (Hall' : forallb (mbit j) es = true).
      { apply forallb_forall. intros x Hx. destruct (mbit j x) eqn:Hkx; [reflexivity |].
        assert (Hex2 : existsb (fun e => negb (mbit j e)) es = true)
          by (apply existsb_exists; exists x; split; [exact Hx | rewrite Hkx; reflexivity]).
        rewrite Hex2 in Hex. discriminate. }
      rewrite Hall' in Hsel. discriminate.
Qed.

(* sources of a merge contain every member's *)
Lemma fold_lor_subset : forall l a x, (x = a \/ In x l) -> subset x (fold_left Z.lor l a).
Proof.
  intros l a x H. unfold subset. apply Z.bits_inj'. intros j Hj.
  rewrite Z.land_spec, fold_lor_bits.
  destruct (Z.testbit x j) eqn:Hx; [| reflexivity]. simpl.
  destruct H as [-> | Hin]; [rewrite Hx; reflexivity |].
  assert (Hex : existsb (fun y => Z.testbit y j) l = true) by (apply existsb_exists; exists x; split; assumption).
  rewrite Hex. apply orb_true_r.
Qed.

Lemma merge_sources_subset : forall es e, In e es -> subset (e_sources e) (merge_sources es).
Proof.
  intros es e H. unfold merge_sources. apply fold_lor_subset. right. apply in_map. exact H.
Qed.
