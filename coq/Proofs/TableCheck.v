(* Soundness of the validator of Spec/Table.v:  check_route_eq O T = true -> route_eq O T.
   Bit-level reasoning about (key, mask) cubes. *)
From Coq Require Import ZArith List Bool Lia.
Require Import Rig.Generated.GenTable Rig.Model.Base Rig.Model.Table Rig.Spec.Table.
Import ListNotations.
Open Scope Z_scope.

(* ------------------------------------------------------------------------------------------------ *)
(** * Cubes at the level of bits *)

(* k lies in the cube c: it agrees with the key on every bit the mask selects *)
Definition inb (c : km) (k : Z) : Prop :=
  forall j, 0 <= j -> Z.testbit (snd c) j = true -> Z.testbit k j = Z.testbit (fst c) j.
(* no key bit outside the mask *)
Definition wfb (c : km) : Prop :=
  forall j, 0 <= j -> Z.testbit (fst c) j = true -> Z.testbit (snd c) j = true.
(* every mask bit is one of the 32 key bits *)
Definition mask32b (m : Z) : Prop := forall j, 0 <= j -> Z.testbit m j = true -> j < 32.

Lemma wf_km_wfb : forall c, wf_km c = true <-> wfb c.
Proof.
  intros [ck cm]; unfold wf_km, wfb; simpl; split.
  - intros H j Hj Hk. apply Z.eqb_eq in H.
    assert (Hb : Z.testbit (Z.land ck (Z.lnot cm)) j = false) by (rewrite H; apply Z.bits_0).
    rewrite Z.land_spec, Z.lnot_spec, Hk in Hb by exact Hj. simpl in Hb.
    destruct (Z.testbit cm j); [reflexivity | discriminate].
  - intros H. apply Z.eqb_eq. apply Z.bits_inj'. intros j Hj.
    rewrite Z.land_spec, Z.lnot_spec, Z.bits_0 by exact Hj.
    destruct (Z.testbit ck j) eqn:Hk; [| reflexivity].
    rewrite (H j Hj Hk). reflexivity.
Qed.

Lemma matches_wf : forall c k, km_matches c k = true -> wf_km c = true.
Proof.
  intros [ck cm] k H. unfold km_matches, wf_km in *; simpl in *.
  apply Z.eqb_eq in H. apply Z.eqb_eq. subst ck.
  apply Z.bits_inj'. intros j Hj.
  rewrite !Z.land_spec, Z.lnot_spec, Z.bits_0 by exact Hj.
  destruct (Z.testbit cm j); [apply andb_false_r | apply andb_false_r].
Qed.

Lemma matches_inb : forall c k, wfb c -> (km_matches c k = true <-> inb c k).
Proof.
  intros [ck cm] k Hwf. unfold km_matches, inb, wfb in *; simpl in *. split.
  - intros H j Hj Hm. apply Z.eqb_eq in H. rewrite <- H.
    rewrite Z.land_spec, Hm. symmetry; apply andb_true_r.
  - intros H. apply Z.eqb_eq. apply Z.bits_inj'. intros j Hj.
    rewrite Z.land_spec.
    destruct (Z.testbit cm j) eqn:Hm.
    + rewrite andb_true_r. apply H; assumption.
    + rewrite andb_false_r. destruct (Z.testbit ck j) eqn:Hk; [| reflexivity].
      rewrite (Hwf j Hj Hk) in Hm. discriminate.
Qed.

(* two cubes that do not intersect share no key (needs nothing about the cubes) *)
Lemma intersect_false_disjoint : forall ck cm dk dm k,
  intersect ck cm dk dm = false ->
  km_matches (ck, cm) k = true -> km_matches (dk, dm) k = false.
Proof.
  intros ck cm dk dm k Hi Hc. unfold intersect, km_matches in *; simpl in *.
  apply Z.eqb_eq in Hc. apply Z.eqb_neq in Hi.
  destruct (Z.land k dm =? dk) eqn:Hd; [| reflexivity].
  apply Z.eqb_eq in Hd. exfalso. apply Hi. subst ck dk.
  rewrite <- !Z.land_assoc. f_equal. apply Z.land_comm.
Qed.

(* cubes that intersect agree on the bits both select *)
Definition agree (c d : km) : Prop :=
  forall j, 0 <= j -> Z.testbit (snd c) j = true -> Z.testbit (snd d) j = true ->
            Z.testbit (fst c) j = Z.testbit (fst d) j.

Lemma intersect_agree : forall ck cm dk dm,
  intersect ck cm dk dm = true -> agree (ck, cm) (dk, dm).
Proof.
  intros ck cm dk dm H j Hj Hc Hd. unfold intersect in H; simpl in *. apply Z.eqb_eq in H.
  assert (Hb : Z.testbit (Z.land ck dm) j = Z.testbit (Z.land dk cm) j) by (rewrite H; reflexivity).
  rewrite !Z.land_spec, Hc, Hd, !andb_true_r in Hb. exact Hb.
Qed.

Lemma testbit_lor_bit : forall x b j, 0 <= b -> 0 <= j ->
  Z.testbit (Z.lor x (Z.shiftl 1 b)) j = Z.testbit x j || (b =? j).
Proof.
  intros x b j Hb Hj. rewrite Z.lor_spec, Z.shiftl_1_l, Z.pow2_bits_eqb by exact Hb. reflexivity.
Qed.

Lemma sane_mask32b : forall m, 0 <= m <= 4294967295 -> mask32b m.
Proof.
  intros m Hm j Hj Ht.
  destruct (Z_lt_ge_dec j 32) as [Hlt | Hge]; [exact Hlt | exfalso].
  destruct (Z.eq_dec m 0) as [-> | Hnz]; [rewrite Z.bits_0 in Ht; discriminate |].
  rewrite Z.bits_above_log2 in Ht; [discriminate | lia |].
  apply Z.lt_le_trans with 32; [| lia].
  apply Z.log2_lt_pow2; [lia |]. change (2 ^ 32) with 4294967296. lia.
Qed.

(* ------------------------------------------------------------------------------------------------ *)
(** * cube_sub_bits covers c \ d *)

Lemma cube_sub_bits_wf : forall bits ck cm dk dm,
  (forall b, In b bits -> 0 <= b) -> wfb (ck, cm) ->
  Forall wfb (cube_sub_bits bits ck cm dk dm).
Proof.
  induction bits as [| b bs IH]; intros ck cm dk dm Hbits Hwf; simpl; [constructor |].
  assert (Hb : 0 <= b) by (apply Hbits; left; reflexivity).
  assert (Hbs : forall b', In b' bs -> 0 <= b') by (intros; apply Hbits; right; assumption).
  assert (Hwf1 : wfb (ck, Z.lor cm (Z.shiftl 1 b))).
  { intros j Hj Hk; simpl in *. rewrite testbit_lor_bit by assumption.
    rewrite (Hwf j Hj Hk). reflexivity. }
  assert (Hwf2 : wfb (Z.lor ck (Z.shiftl 1 b), Z.lor cm (Z.shiftl 1 b))).
  { intros j Hj Hk; simpl in *. rewrite testbit_lor_bit in * by assumption.
    apply orb_true_iff in Hk. destruct Hk as [Hk | Hk].
    - rewrite (Hwf j Hj Hk). reflexivity.
    - rewrite Hk. apply orb_true_r. }
  destruct (Z.testbit dm b && negb (Z.testbit cm b)) eqn:Hc.
  - destruct (Z.testbit dk b) eqn:Hdk.
    + constructor; [exact Hwf1 | apply IH; assumption].
    + constructor; [exact Hwf2 | apply IH; assumption].
  - apply IH; assumption.
Qed.

Lemma cube_sub_bits_cover : forall bits ck cm dk dm k,
  (forall b, In b bits -> 0 <= b) ->
  wfb (ck, cm) -> agree (ck, cm) (dk, dm) -> inb (ck, cm) k ->
  (exists i, In i bits /\ Z.testbit dm i = true /\ Z.testbit k i <> Z.testbit dk i) ->
  exists c', In c' (cube_sub_bits bits ck cm dk dm) /\ inb c' k.
Proof.
  induction bits as [| b bs IH]; intros ck cm dk dm k Hbits Hwf Hag Hin [i [Hi [Hdm Hne]]].
  - destruct Hi.
  - simpl.
    assert (Hb : 0 <= b) by (apply Hbits; left; reflexivity).
    assert (Hbs : forall b', In b' bs -> 0 <= b') by (intros; apply Hbits; right; assumption).
    destruct (Z.testbit dm b && negb (Z.testbit cm b)) eqn:Hc.
    + apply andb_true_iff in Hc. destruct Hc as [Hdmb Hcmb]. apply negb_true_iff in Hcmb.
      assert (Hckb : Z.testbit ck b = false).
      { destruct (Z.testbit ck b) eqn:Hx; [| reflexivity].
        rewrite (Hwf b Hb Hx) in Hcmb. discriminate. }
      destruct (Bool.bool_dec (Z.testbit k b) (Z.testbit dk b)) as [Heq | Hneq].
      * (* k agrees with d on bit b: it lies in the continued cube *)
        assert (Hi' : In i bs).
        { destruct Hi as [<- | Hi]; [contradiction | exact Hi]. }
        destruct (Z.testbit dk b) eqn:Hdk.
        -- destruct (IH (Z.lor ck (Z.shiftl 1 b)) (Z.lor cm (Z.shiftl 1 b)) dk dm k Hbs) as [c' [Hc' Hk']].
           ++ intros j Hj Hk; simpl in *. rewrite testbit_lor_bit in * by assumption.
              apply orb_true_iff in Hk. destruct Hk as [Hk | Hk];
                [rewrite (Hwf j Hj Hk); reflexivity | rewrite Hk; apply orb_true_r].
           ++ intros j Hj Hc Hd; simpl in *. rewrite testbit_lor_bit in * by assumption.
              destruct (b =? j) eqn:Hbj.
              ** apply Z.eqb_eq in Hbj. subst j. rewrite Hdk. apply orb_true_r.
              ** rewrite orb_false_r in *. apply Hag; assumption.
           ++ intros j Hj Hm; simpl in *. rewrite testbit_lor_bit in * by assumption.
              destruct (b =? j) eqn:Hbj.
              ** apply Z.eqb_eq in Hbj. subst j. rewrite Heq. symmetry. apply orb_true_r.
              ** rewrite orb_false_r in *. apply Hin; assumption.
           ++ exists i. split; [exact Hi' | split; assumption].
           ++ exists c'. split; [right; exact Hc' | exact Hk'].
        -- destruct (IH ck (Z.lor cm (Z.shiftl 1 b)) dk dm k Hbs) as [c' [Hc' Hk']].
           ++ intros j Hj Hk; simpl in *. rewrite testbit_lor_bit by assumption.
              rewrite (Hwf j Hj Hk). reflexivity.
           ++ intros j Hj Hc Hd; simpl in *. rewrite testbit_lor_bit in * by assumption.
              destruct (b =? j) eqn:Hbj.
              ** apply Z.eqb_eq in Hbj. subst j. rewrite Hckb, Hdk. reflexivity.
              ** rewrite orb_false_r in *. apply Hag; assumption.
           ++ intros j Hj Hm; simpl in *. rewrite testbit_lor_bit in * by assumption.
              destruct (b =? j) eqn:Hbj.
              ** apply Z.eqb_eq in Hbj. subst j. rewrite Heq, Hckb. reflexivity.
              ** rewrite orb_false_r in *. apply Hin; assumption.
           ++ exists i. split; [exact Hi' | split; assumption].
           ++ exists c'. split; [right; exact Hc' | exact Hk'].
      * (* k differs from d on bit b: it lies in the piece emitted here *)
        destruct (Z.testbit dk b) eqn:Hdk.
        -- exists (ck, Z.lor cm (Z.shiftl 1 b)). split; [left; reflexivity |].
           intros j Hj Hm; simpl in *. rewrite testbit_lor_bit in * by assumption.
           destruct (b =? j) eqn:Hbj.
           ++ apply Z.eqb_eq in Hbj. subst j. rewrite Hckb.
              destruct (Z.testbit k b); [exfalso; apply Hneq; reflexivity | reflexivity].
           ++ rewrite orb_false_r in *. apply Hin; assumption.
        -- exists (Z.lor ck (Z.shiftl 1 b), Z.lor cm (Z.shiftl 1 b)). split; [left; reflexivity |].
           intros j Hj Hm; simpl in *. rewrite testbit_lor_bit in * by assumption.
           destruct (b =? j) eqn:Hbj.
           ++ apply Z.eqb_eq in Hbj. subst j. rewrite orb_true_r.
              destruct (Z.testbit k b); [reflexivity | exfalso; apply Hneq; reflexivity].
           ++ rewrite orb_false_r in *. apply Hin; assumption.
    + (* bit b is not split on: the witness is elsewhere *)
      assert (Hi' : In i bs).
      { destruct Hi as [<- | Hi]; [| exact Hi]. exfalso.
        rewrite Hdm in Hc. simpl in Hc. apply negb_false_iff in Hc.
        apply Hne. rewrite (Hin b Hb Hc). apply Hag; assumption. }
      destruct (IH ck cm dk dm k Hbs Hwf Hag Hin) as [c' [Hc' Hk']].
      * exists i. split; [exact Hi' | split; assumption].
      * exists c'. split; assumption.
Qed.

Lemma bits32_nonneg : forall b, In b bits32 -> 0 <= b.
Proof. intros b H. unfold bits32 in H. apply in_map_iff in H. destruct H as [n [<- _]]. lia. Qed.

Lemma bits32_in : forall j, 0 <= j < 32 -> In j bits32.
Proof.
  intros j Hj. unfold bits32. apply in_map_iff. exists (Z.to_nat j). split; [lia |].
  apply in_seq. lia.
Qed.

(* a key of c that d does not match lies in one of the cubes of cube_sub_bits *)
Lemma cube_sub_bits_cover32 : forall ck cm dk dm k,
  wfb (ck, cm) -> wfb (dk, dm) -> mask32b dm -> agree (ck, cm) (dk, dm) ->
  inb (ck, cm) k -> km_matches (dk, dm) k = false ->
  exists c', In c' (cube_sub_bits bits32 ck cm dk dm) /\ inb c' k.
Proof.
  intros ck cm dk dm k Hwfc Hwfd H32 Hag Hin Hnm.
  apply cube_sub_bits_cover; try assumption; [exact bits32_nonneg |].
  (* a bit selected by dm on which k and dk differ *)
  unfold km_matches in Hnm; simpl in Hnm. apply Z.eqb_neq in Hnm.
  destruct (existsb (fun i => Z.testbit dm i && negb (Bool.eqb (Z.testbit k i) (Z.testbit dk i))) bits32) eqn:Hex.
  - apply existsb_exists in Hex. destruct Hex as [i [Hi Hc]].
    apply andb_true_iff in Hc. destruct Hc as [Hd Hne]. apply negb_true_iff in Hne.
    exists i. split; [exact Hi | split; [exact Hd |]].
    intro Heq. rewrite Heq, Bool.eqb_reflx in Hne. discriminate.
  - exfalso. apply Hnm. apply Z.bits_inj'. intros j Hj. rewrite Z.land_spec.
    destruct (Z.testbit dm j) eqn:Hd.
    + rewrite andb_true_r.
      assert (Hj32 : In j bits32) by (apply bits32_in; split; [exact Hj | apply H32; assumption]).
      destruct (Bool.bool_dec (Z.testbit k j) (Z.testbit dk j)) as [Heq | Hneq]; [exact Heq | exfalso].
      assert (Hall := proj1 (existsb_nexists _ _) Hex).
      apply (Hall j Hj32). rewrite Hd. simpl. apply negb_true_iff.
      destruct (Z.testbit k j), (Z.testbit dk j); simpl; try reflexivity; exfalso; apply Hneq; reflexivity.
    + rewrite andb_false_r. destruct (Z.testbit dk j) eqn:Hk; [| reflexivity].
      rewrite (Hwfd j Hj Hk) in Hd. discriminate.
Qed.
