(* C16 -- proofs about Model/FixFloat.v. *)
From Coq Require Import ZArith Reals List Bool Lia Lra.
From Flocq Require Import Core BinarySingleNaN.
Require Import Rig.Model.Base Rig.Model.FixFloat Rig.Spec.FixFloat.
Import ListNotations.
Open Scope Z_scope.

(* ------------------------------------------------------------------ refutations by evaluation *)
Definition x_1e30 : b64 := b64_of_bits 0x46293e5939a08cea.

Lemma numpy_agrees_orig_refuted :
  is_finite x_1e30 = true /\
  float_to_fp true 64 0 x_1e30 = Ok (2 ^ 63 - 1) /\
  np_float_to_fix_orig true 64 0 x_1e30 = Ok (- 2 ^ 63) /\
  float_to_fp false 64 0 x_1e30 = Ok (2 ^ 64 - 1) /\
  np_float_to_fix_orig false 64 0 x_1e30 = Ok 0.
Proof. vm_compute. repeat split; reflexivity. Qed.

Lemma fix_agrees_orig_refuted :
  float_to_fp false 64 0 x_1e30 = Ok (2 ^ 64 - 1) /\
  float_to_fix_orig false 64 0 x_1e30 = Ok 0 /\
  float_to_fp true 64 0 x_1e30 = Ok (2 ^ 63 - 1) /\
  float_to_fix_orig true 64 0 x_1e30 = Ok (2 ^ 63).
Proof. vm_compute. repeat split; reflexivity. Qed.

Lemma roundtrip_refuted :
  representable true 64 (2 ^ 53 + 1) /\ roundtrip true 64 0 (2 ^ 53 + 1) = Ok (2 ^ 53).
Proof. split; [ unfold representable; vm_compute; split; discriminate | vm_compute; reflexivity ]. Qed.
