(* C02 -- Every placer returns a feasible, constraint-respecting placement or fails.
   Property theorems only; each is closed by `exact` of a lemma of Proofs/Place*.v. *)
From Coq Require Import ZArith List Bool.
Require Import Rig.Model.Base Rig.Model.Place Rig.Spec.Place Rig.Proofs.Place.
Import ListNotations.
Open Scope Z_scope.

(* V -- verified validator.  The check evaluates [check_placement] inside Coq on the real output of all
   seven placer configurations (SA with the C kernel, SA with the Python kernel, Hilbert, RCM, breadth-first,
   sequential, random); each `true` is a proof that that output is feasible. *)
Theorem C02_check_placement_sound :
  forall vr m cs pl, check_placement vr m cs pl = true -> Feasible vr m cs pl.
Proof. exact check_placement_sound. Qed.
