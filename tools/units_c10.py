UNITS = {
    # Property C10.  tools/dump_c10.py prints
    #  * live objects: RTE_PACK_STRING (and its field sizes), RTR_ENTRIES, the members of SCPCommands /
    #    AllocOperations / RouterOperations that the router functions name, list(Routes), list(Links),
    #    the tables Routes.opposite / Links.opposite / Routes.core, the addresses of sv.sdram_sys and
    #    sv.rtr_copy from the default struct file;
    #  * expressions read with `ast` from the source text of MachineController.load_routing_table_entries,
    #    get_routing_table_entries and unpack_routing_table_entry (command arguments, the route word
    #    accumulation `route |= 1 << r`, the values handed to struct.pack_into, the decode masks/shifts),
    #    translated by the expression translator of tools/py2v.py.  The statements around them are matched
    #    against the shape the hand-written model (coq/Model/Router.v) follows; any other shape raises
    #    (fail closed), reported as the broken obligation translate:GenRouter.
    "GenRouter": dict(props=["C10", "C01"], dumper="dump_c10.py", args=[]),
    # Shape of the deprecated build_routing_tables (rig/place_and_route/utils.py) and the defaults of
    # remove_default_routes.minimise it relies on, read with `ast` by tools/dump_c10w.py (fail closed).
    "GenTablesWrapper": dict(props=["C10"], dumper="dump_c10w.py", args=[]),
}
