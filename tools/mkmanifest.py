#!/usr/bin/env python3
"""Writes MANIFEST.json from the table below (single source of truth for the interface file)."""
import json, os
V = os.path.dirname(os.path.dirname(os.path.abspath(__file__)))
TB = ("Coq 8.16.1 kernel + vm_compute (no native_compute); tools/py2v.py translator and dumpers; the "
      "correspondence harness (generators, drivers, canonicalisation); CPython/numpy semantics as modelled. "
      "Axioms per theorem are listed in the evidence file from Print Assumptions.")
CHECKS = {
    "C05": dict(
        text="Universal theorems (soundness of every returned range, termination of the retry loop, only-error, "
             "completeness under the property's guard) about a Gallina model of allocate whose arithmetic kernels "
             "(align, slices_overlap) are regenerated from the source on every run; the model is tied to the code by "
             "exact-equality correspondence on structured random problems and an independent oracle decides the "
             "property on every implementation output. The allocator is also reached through Machine.__setitem__ histories, "
             "wrapper() (whose constraint assembly is modelled over constants re-extracted from wrapper.py: theorems that "
             "the monitor core stays free and SDRAM ranges start on the wrapper's alignment) and place_and_route_wrapper().",
        ref="4 C05", technique="Coq proof (induction on the retry measure / per-chip pointer invariant) + py2v translation + vm_compute correspondence",
        note=TB),
    "C17": dict(
        text="Partial by nature. Proof part: the inventory of every carrier of cross-call state in rig/ (module-level "
             "mutables, mutable defaults, mutable class attributes, with their syntactic write sites and escapes) is "
             "regenerated from the source on every run and proved equal to what the model accounts for; the one written "
             "carrier (the concentric-hexagon memo) is proved transparent for every history of calls and every underlying "
             "function; copied defaults are proved unchanged. Differential part: every argument of every call of the P&R "
             "chain (7 placer configurations), ordered covering, BitField, controller construction is snapshotted "
             "before/after, and every call made after a random history must equal the same call made first in a fresh "
             "interpreter. Histories are random, FAMILIES (a base call and copies differing in one component each: machine "
             "size, dead links, dead chips, sources, targets, switches ... -- what exposes a memo whose key omits that "
             "component), object reuse with in-place edits, both top-level wrappers with passed or defaulted constraint "
             "lists / keyword dictionaries, direct table-minimiser calls, dense annealing probes, user callbacks, caller-owned "
             "vertex_order lists and partial allocation maps.",
        ref="4 C17", technique="Coq proof over a source-regenerated shared-state inventory + memo transparency theorem; differential history/fresh-interpreter runs with deep argument snapshots",
        note=TB + " CPython-level aliasing outside the inventoried carriers is covered only by the differential run; the "
             "write-site/escape counts are a syntactic (ast) approximation."),
    "C13": dict(
        text="Universal theorems over all operation histories on a view and on views sliced from it to any depth (incl. with "
             "blocks, transfers during which the controller raises, TruncationWarning raised as an error, a failing free): "
             "confinement of every access to the issuing view / allocation and memory outside untouched, refinement of a "
             "fixed-length file seen through windows (values, error classes, warning iff bytes are cut, final state), truncation, "
             "slice range, death after close/free/exit, failed transfers and failed free leave the state, the entry point "
             "sdram_alloc_as_filelike; refutations for the code as found and the SEEK_END sign (known finding). Tie T: the model "
             "calls the cursor/clamping arithmetic re-translated from the source on every run (tools/dump_c13.py, fail closed, "
             "surrounding statements checked literally); tie C: exact correspondence on random histories; an independent "
             "bytearray-file oracle decides every history under the default and the `error` warnings filter.",
        ref="4 C13", technique="Coq proof (invariant over op histories + refinement to an abstract file) over kernels translated from source + vm_compute correspondence on histories",
        note=TB + " The machine controller's read/write are replaced by a recording fake (C07 covers them)."),
    "C01": dict(
        text="End to end for the models, per instance for real executions. Proved for all inputs: (i) the hardware delivery "
             "semantics (first match, default routing, drop, dead links) and the composition theorem: any routing tree whose nodes "
             "agree with the tables is delivered exactly once to its leaf cores and endpoint links, over live hardware, without drop "
             "or circulation; (ii) premise discharge: for pairwise non-intersecting net keys and valid trees (C03's conclusion), the "
             "MODEL of routing_tree_to_tables (C10) always succeeds and its tables satisfy that agreement; route_eq (C04) preserves "
             "the hardware behaviour incl. the default-routed case; generated tables lie in the minimisers' domain; hence (iii) "
             "C01_end_to_end_models: generation followed by the MODEL of minimise_tables (any method chain, any non-failing targets) "
             "delivers every net's packet exactly to its sinks' cores. The gap between models and real executions of the whole "
             "pipeline (7 placer configurations, both wrappers) is closed per instance: every real mapping is decided inside Coq by "
             "the verified checker check_delivery and by an independent Python packet simulator. C01_nets_ok_of_route_net composes "
             "C03's theorems (all chips working, leaf routes members of Routes) into the bridge, leaving one stated assumption "
             "(no hop of a tree on an endpoint link of the same tree).",
        ref="4 C01", technique="Coq proof (big-step delivery semantics, tree induction, composition of the C10/C04/C03 models; verified validator) + validator evaluated in Coq on real pipeline outputs",
        note=TB + " Placement/allocation feasibility is C02/C05; the rig_c_sa kernel is third-party compiled code (outputs validated "
             "only). Units GenNetwork, GenTable*, GenRouter, GenGeometry* are regenerated on every run; GenPipeline pins, fail closed, "
             "the statements of wrapper() / place_and_route_wrapper() that compose the stages (the composition the end-to-end "
             "theorems are about)."),
    "C18": dict(
        text="Universal theorems over all signatures, nestings and exit paths of a Gallina model of the contextual-argument "
             "wrapper and context stack: resolution precedence (explicit > innermost context > default) and totality, "
             "rejection of a missing required argument before anything is sent, exact restoration of the stack on normal and "
             "exceptional exit at any depth, exactly one stop signal on leaving an application block, connection choice for "
             "chips and BMPs (on a torus the chosen connection is that of the unique Ethernet chip of the target's board, via "
             "C19's theorem: C18's kernel is proved equal to C19's); and, for EVERY decorated method of the two controllers (signature list regenerated from the "
             "source by ast and by introspection on every run), every command the method hands to a connection carries the "
             "resolved chip/core/app id (symbolic checker with a once-for-all soundness proof, run over the generated list), "
             "incl. board collections of BMP set_led/set_power (first board addressed, mask of all); kept Context objects "
             "contribute exactly their own arguments wherever entered; discover_connections as a model step (current "
             "dimensions, retained connections, only probed-ok new ones). The statements of contexts.py and of the controller "
             "functions the model follows are re-matched by ast on every run (GenContextShape, fail closed). Tied to the code "
             "by exact whole-trace correspondence against recording fakes; an independent Python resolution judges every entry.",
        ref="4 C18", technique="Coq proof (resolution/stack invariants, symbolic checker with soundness proof over generated signatures) + dumped signatures (T) + vm_compute trace correspondence",
        note=TB + " Method bodies are modelled on the path taken against a fake machine where every command succeeds; failure/"
             "retry paths are judged by the oracle only."),
    "C08": dict(
        text="Universal theorems over every reachable state of a Gallina model of BitField (any history of add_field / "
             "__call__ / assign_fields on any number of instances sharing one tree): co-present fields never overlap and stay "
             "inside the bit field, fields are wide enough for every accepted value, read-back and mask = union (plain, per tag, "
             "per field; tags closed under requirements; UnknownTagError iff no present field carries the tag), distinct "
             "complete assignments give non-intersecting key/mask pairs (both for every reachable laid-out state, i.e. also "
             "for instances created after the layout), overlapping / overflowing / zero-length definitions "
             "are rejected, accepted explicit positions are never moved, refused calls/definitions leave no trace; completeness "
             "proved under the boolean guard `exclusive_children` and REFUTED without it (two known findings) and for the code as "
             "found. The scan bound, the range test and the automatic-length formula (int.bit_length = the model's bitlen) are "
             "re-extracted from bitfield.py on every run (the model is parameterised by / the proofs require them) and a fail-closed ast inventory pins the shape of every modelled method, what public methods return "
             "(copies, never internal objects) and the tag-normalisation / validate-then-record statements. Verified layout "
             "checker evaluated in Coq on the real object; exact correspondence on histories incl. brute-forced complete "
             "assignments; independent oracle (aliasing of caller-supplied sets/iterators, mutated return values, int identity).",
        ref="4 C08", technique="Coq proof (reachability invariant over op histories, verified layout checker) + vm_compute correspondence on histories",
        note=TB + " Automatic length is int.bit_length since fix b55359e (re-extracted and measured against the code up to 2^64 on every run)."),
    "C02": dict(
        text="Universal theorems about Gallina models of the placers: the sequential scan is sound, terminating, raises only "
             "the two documented errors and is complete under the property's premise for ANY vertex order covering the "
             "vertices and ANY chip order (this covers sequential, breadth-first, Hilbert and RCM, which differ only in the two "
             "orders; same-chip chains/duplicates by a merge/expand induction); the random placer likewise for every oracle of "
             "random choices; one step of the Python annealing kernel preserves the state invariant for any draw/accept "
             "decision and any invariant-preserving kernel yields a feasible result (SA before the kernel and its trivial exit also "
             "raise only documented errors and are complete; the float annealing loop's termination/completeness is harness-only); the Hilbert curve of every level enumerates "
             "its square exactly once (structural induction), so the Hilbert chip order side condition and completeness hold for "
             "machines of every size. breadth_first/hilbert/rcm.place are model entry points (forwarding shape-checked from source) "
             "with the three clauses as corollaries; breadth_first_vertex_order itself is modelled with CPython's set choices "
             "(pop, iteration order) as oracles, proved for EVERY oracle to list every vertex exactly once (so breadth_first.place "
             "is sound with no premise on the order), shape-matched from the source statement by statement, and every real order "
             "is replayed in the model; Machine's membership test is regenerated from machine.py (its other "
             "methods shape-checked, fail closed) with lemmas for lookup/assignment/iteration and out-of-bounds dead chips. "
             "Verified checkers check_placement / check_placement_fast (soundness proved) are evaluated in "
             "Coq on the REAL output of all seven placer configurations, large cases included. Exact correspondence for the sequential family, rand "
             "(scripted), SA initial placement and step-by-step replay of the Python kernel; independent feasibility oracle.",
        ref="4 C02", technique="Coq proof (invariant free = capacity - reserved - placed; verified validator) + vm_compute correspondence incl. step replay of the SA kernel",
        note=TB + " Partial where stated: the rig_c_sa C kernel is third-party compiled code (outputs validated only); the float "
             "temperature loop is not modelled (termination observed under an alarm); set iteration order inside the RCM order "
             "functions is recorded per instance, not modelled (the breadth-first order is modelled, set choices as oracles)."),
    "C04": dict(
        text="Full. Universal theorems about Gallina models of all minimisers whose bit kernels (intersect, generality, merge "
             "key/mask expressions) are regenerated from the source on every run: default-route removal preserves the routing "
             "of every matched key for ANY ordered table and any target; ordered covering (sort, binary-search insertion index, "
             "best merge, up/down refinement, alias bookkeeping) preserves it for every table in the minimiser domain (sorted "
             "by generality or orthogonal), terminates, is never longer and meets the target or fails with the exact best size; "
             "the try-each-method front ends (one table / many chips, None/int/dict targets, ANY caller-supplied method list; "
             "shape of the front ends and of RoutingTableEntry.__new__ re-extracted by a fail-closed ast dump), the no_raise=False "
             "and check_for_aliases=False clauses, and refutation witnesses showing the order / source-direction / methods<>() guards necessary (the key-range and "
             "stray-key-bit clauses are proved unnecessary; generality is defined in the Spec and proved equal to rig's kernel). A verified validator "
             "check_route_eq (cube subtraction, no key enumeration, soundness proved) is evaluated in Coq on every table the "
             "implementation returns. Exact table/alias/error correspondence; brute-force oracle over all keys.",
        ref="4 C04", technique="Coq proof (loop invariant of ordered covering; verified validator) + py2v translation + vm_compute correspondence",
        note=TB + " The two-round use of ordered_covering with aliases from an earlier call is tied by correspondence only; "
             "entries with empty source sets are outside the stated domain."),
    "C20": dict(
        text="Full. Universal theorems over all images, option sets and histories about a Gallina model of boot() driven by "
             "constants, struct formats and the live sv struct regenerated on every run: datagram sequence, byte-exact "
             "reassembly (image except the 128-byte configuration area = packed sv with THIS call's options), returned "
             "structs, history independence and untouched dictionaries (model = fixed or as-found step by an ast fact of boot.py + "
             "C17's carrier inventory), refutations for the code as found (option leak, "
             "caller's dict mutated), error branches (unknown name, value that does not fit its field, size, alignment). "
             "Entry points MachineController.boot (width/height dropped, structs replaced; every controller's structs "
             "describe its own last boot after any operations) and rig-boot (dumped flag table = documented presets) are "
             "modelled over a fail-closed ast shape. Exact datagram/controller correspondence; independent reassembly oracle.",
        ref="4 C20", technique="Coq proof (struct-format interpreter, history induction) + dumped constants/struct (T) + vm_compute datagram correspondence",
        note=TB + " OS socket and clock are explicit inputs; rig's struct-file parser is tied by correspondence only."),
    "C11": dict(
        text="Full. Graph distance is defined independently (least length of a walk over the six link vectors, on Z^2 or modulo "
             "(w,h)); theorems for ALL integers and all w,h >= 1: the mesh and torus length functions (translated from source on "
             "every run) equal that distance; the mesh/torus path vectors have exactly that many hops and reach the destination "
             "for EVERY outcome of the random tie-breaks and spirals; longest-dimension-first walks step over the labelled link and "
             "end at the destination; link/opposite/vector tables (dumped from the live module) are mutually consistent; "
             "concentric_hexagons yields exactly the ball of radius R, duplicate-free, nearest ring first; refutation for the float "
             "tie-break of the code as found. The arithmetic and constants inside the loop-modelled functions (torus head, approaches, "
             "spiral, mesh component, hexagon directions/first ring/step, ldf sign/count/delta/advance) are re-translated from the "
             "source on every run inside a fail-closed skeleton match; a partly consumed hexagon generator yields a prefix independent "
             "of the radius; error clauses (from_vector KeyError iff null vector, zero width/height) are theorems. Containers, numpy "
             "scalars, call histories and big numbers are decided by the BFS / lattice oracle and the correspondence only.",
        ref="4 C11", technique="Coq proof (lia/nia over lattice translates, walk induction) + py2v translation + dumped tables + vm_compute correspondence",
        note=TB + " random.random() is modelled as k/2^53 and randint by an arbitrary function meeting its contract."),
    "C16": dict(
        text="Partial by nature (numpy internals modelled from observation). Flocq binary64 model, bit-exact against the code, and "
             "TIED TO THE SOURCE TEXT: every function of type_casts.py is re-extracted (ast, fail closed) on each run into a small "
             "syntax whose evaluator is proved equal to the model functions for all inputs (C16_source_is_model). "
             "Theorems for every finite x whose scaled product is finite and every format: float_to_fp equals "
             "clamp(trunc(x * 2^n_frac)) on the real value, stays in range, is monotone, saturates, is within one lsb; round trip "
             "for every representable value that is a double (refuted at 2^53+1, the known finding); the repaired array converter "
             "equals the scalar one for 8/16/32/64 bits; the deprecated pair agrees modulo 2^n; refutations for the two saturation "
             "defects as found; documented errors. Exact-rational oracle (also float32/16/longdouble, numpy scalars, errstate).",
        ref="4 C16", technique="Coq proof over Flocq binary64 (Bmult_correct, rounding monotonicity) + bit-exact vm_compute correspondence",
        note=TB + " Axioms (from Flocq/Reals, standard library): ClassicalDedekindReals.sig_forall_dec, sig_not_dec, "
             "FunctionalExtensionality.functional_extensionality_dep, Classical_Prop.classic. numpy clip / int conversion / "
             "out-of-range cast are modelled as observed on numpy 2.5; float32/float16/longdouble inputs, ambient errstate, array "
             "shape/layout/aliasing are judged by the oracle only (the model is per element and binary64)."),
    "C19": dict(
        text="Full. The SpiNN-5 tiling is described independently (48-chip hexagon; Ethernet chips at "
             "root + 12(i,j) + {(0,0),(4,8),(8,4)}); theorems for all integer coordinates, sizes and roots about the tables DUMPED "
             "from the live module and the indexing kernels TRANSLATED from source on every run: the tiling is a partition, the "
             "local Ethernet chip is the containing board's (tori: multiples of 12; ragged: explicit guard), the on-board "
             "coordinate is the offset, spinn5_eth_coords lists exactly the in-range Ethernet chips once each, a link has an FPGA "
             "number iff it leaves its board and numbers are distinct, standard dimensions are the squarest factor pair -- stated about a Flocq binary64 model of the code: "
             "int(math.sqrt(k)) = Z.sqrt k is PROVED for every 0 <= k < 2^52. Finite "
             "cells by vm_compute with the bound in the statement, lifted by proved mod lemmas. Also proved: partially consumed "
             "generators (next/break/`in`) yield distinct in-machine Ethernet chips; for numpy signed scalars (int8..int64, "
             "non-negative arguments that fit) every fixed-width intermediate of the kernels, EXTRACTED from source, fits the dtype; "
             "a budgeted loop evaluates the models on board counts up to 2^99. The three hand-modelled functions are pinned by an "
             "ast digest and rig/geometry.py by a state inventory (fail closed). Whole-machine, history and threaded-search "
             "streams; oracle builds the tiling explicitly. Outside: unsigned numpy scalars, ragged machines whose board's "
             "Ethernet chip is absent.",
        ref="4 C19", technique="Coq proof (finite cell by computation + mod lifting) over dumped tables and py2v-translated kernels",
        note=TB + " The float theorems (Proofs/BoardSqrt.v) depend on the standard-library axioms of the Flocq/Reals chain "
             "(sig_forall_dec, sig_not_dec, functional_extensionality_dep, classic); all other C19 theorems are closed."),
    "C06": dict(
        text="Full under one stated guard, plus a known finding. Gallina state-machine model of send_scp_burst/send_scp (one "
             "loop iteration = one step consuming an environment event); theorems for every event list, burst, window, tries and "
             "per-command timeouts: exactly-once callbacks on normal return, at-most-once always, the reply handed to a command "
             "was caused by a transmission of that command under the explicit hypotheses Causal + Fresh (and a machine-checked "
             "refutation without Fresh: the 65 537-command sequence-wrap witness, the known finding), window bound on every prefix, "
             "retransmission count and spacing, all transmissions of a command identical, timeout raised only after exactly "
             "`tries` unanswered sends and with the socket drained (no delivered reply overlooked), fatal codes, termination "
             "under an honest select, no divergence of the sequence-number loop, the three possible endings in one corollary. The clock also advances while the command "
             "iterable and callbacks run (modelled). Statements of send_scp_burst/send_scp/seqs re-extracted from the ast each "
             "run (fail closed) against the text the model mirrors. Exact trace equality with the real SCPConnection on "
             "scripted fault schedules (socket/clock/select replaced from outside); independent trace oracle.",
        ref="4 C06", technique="Coq proof (small-step state machine, invariants over event lists) + dumped constants (T) + vm_compute trace correspondence",
        note=TB + " Real sockets, the OS clock and select are replaced by explicit event schedules; a wall-clock race is outside the model."),
    "C07": dict(
        text="Full (transport faults enter through C06). Chunk arithmetic, receive length and struct/vcpu addressing are translated "
             "from source on every run; theorems for every address, length and buffer size: chunks are contiguous, non-empty, "
             "within the buffer, partition the range and use a word/half-word access only when address and length are so aligned "
             "(all 16 table cases); executing the chunk commands in ANY order and with ANY repetition against the documented "
             "machine semantics returns exactly the stored bytes / leaves exactly the written bytes and changes no other byte of "
             "the machine; likewise struct fields, per-core fields, fill (both branches) and link reads/writes; the repaired receive "
             "length always fits (refutation for the code as found). The struct tables are controller state replaced by boot() "
             "(shape re-extracted each run): field addresses follow the CURRENT tables. Composition with C06's burst model: a "
             "burst that returns completes every chunk once for every sequence-counter state; each callback splices the reply it "
             "was actually handed, so a read over a burst is exact-or-raises UNDER own_replies (which C06 gives under causal + "
             "fresh; without it a machine-checked witness returns another chunk's bytes: C06's seq-wrap finding seen from C07). Real controller vs simulated machine under fault schedules, multi-chip / "
             "multi-board / re-boot / context histories; every simulator reply re-checked by the Gallina machine (trace validator).",
        ref="4 C07", technique="Coq proof (tiling + order/repetition-independent execution) + py2v/ast translation + vm_compute correspondence + trace validator",
        note=TB + " SC&MP command semantics are as written in Model/Machine.v; struct.pack/unpack trusted; 'any covering order' rests on C06 under its freshness guard."),
    "C10": dict(
        text="Full. Theorems for all sets of routing trees: breadth-first traversal visits exactly the nodes; per chip one entry per "
             "(key, mask) in first-visit order whose route is exactly the departure set (None-routed leaves ignored) and whose "
             "sources are exactly the arrival directions; MultisourceRouteError iff two visits with equal key and mask differ in "
             "out-set (and which one is reported). Route set <-> 24-bit word bijection (bit lemma). Router load: when the allocator "
             "grants a block exactly four commands are issued and slots base.. hold the given entries in order with the app id, "
             "all other slots and chips unchanged; on refusal RouterError, only the ALLOC issued, nothing installed; read-back "
             "decodes the same entries (sources are not stored by hardware: stated); load_routing_tables chip by chip incl. first "
             "refusal. Deprecated build_routing_tables modelled over the core: flag False = routing_tree_to_tables (theorem, all "
             "inputs), True = per chip C04's remove_default_routes (kept entries unchanged in order, omitted only if "
             "default_routable, route_eq), same error. Histories/programs with nested with/try contexts: the model decides which "
             "statements run and what each addresses (lexical rule); every statement talks only to its chip, allocates for its app "
             "id, and a load that does not succeed leaves every router unchanged (no well-formedness assumed). Command arguments, "
             "record layout, decode expressions and the wrappers' shapes re-read from source (fail closed); exact correspondence "
             "against a simulated router written from the SC&MP documentation, independent of rig's constants.",
        ref="4 C10", technique="Coq proof (traversal/fold invariants, bit lemmas, machine-state frame theorem) + ast/py2v translation + vm_compute correspondence",
        note=TB + " SARK's allocator is modelled (theorems quantify over every allocator answer); packetisation is C06/C07's."),
    "C12": dict(
        text="Full. get_region_for_chip and the bit expressions of the region tree are translated from source on every run; the "
             "meaning of a region word is specified independently. Theorems for every target list inside the 256x256x18 space, in "
             "any order with duplicates: every core is selected by exactly one emitted (region, mask) pair iff it was requested "
             "and by none otherwise; the output is strictly increasing (as pairs and as loader keys), words are 32-bit, masks "
             "non-empty 18-bit; the default-level word selects exactly its chip; the finite bit layer for all x, y < 256 and "
             "levels <= 3 by computation with the bound in the statement. One tree used as an object (add_core interleaved "
             "with traversals): every traversal is an exact cover of the cores added before it. Entry points: the FFCS packets "
             "flood_fill_aplx sends (arguments generated from _send_ffcs) decode to an exact cover in increasing order; "
             "load_application's re-load request is exactly the requested cores not in wait; shapes of both re-read from source, "
             "fail closed, as is the absence of module/class-level state. Exact list correspondence (pairs, packets, every "
             "read; histories, numpy scalars, one-shot iterables, sets changed in place); oracle expands every pair.",
        ref="4 C12", technique="Coq proof (tree invariant by induction on levels; finite bit layer by vm_compute) + py2v translation + vm_compute correspondence",
        note=TB),
    "C15": dict(
        text="Full. Format strings, masks, shifts, offsets, argument-count guards and the int() coercion of the port/core "
             "operands are read from the source text by ast on every run (module/class inventory fails closed on any new state) "
             "and drive a generic struct pack/unpack interpreter. Theorems, all field values in width, any payload, 0-3 args: "
             "byte-by-byte SDP/SCP layout; decode(encode p) = p (argument-prefix guard proved necessary); a datagram decoded "
             "with any n_args re-encodes to itself; field isolation; arguments taken = max 0 (min n_args ((len-14)/4) 3); error "
             "branches. Object model: fields are None / ints / numpy scalars / truthy flags, encoding depends on integer and "
             "truth values only; histories on one object (failed encode then repair, in-place payload edits) and decoded objects "
             "surviving reuse of the caller's buffer are theorems and run in the model. Thread search is search only.",
        ref="4 C15", technique="Coq proof (little-endian pack/unpack lemmas, bit decomposition) + ast-extracted formats (T) + vm_compute correspondence",
        note=TB + " struct.pack semantics are modelled by the format interpreter."),
    "C14": dict(
        text="Full (machine replies per the documented layouts). Bit-field extraction, P2P table walk, version decoding, status "
             "slicing and IOBUF walk expressions are translated from source on every run; enums, struct tables and regex dumped "
             "live. Theorems over all machine states up to 255x255 addressing: chip-info, P2P table, router counters and version "
             "encode/decode round trips at full field width; get_system_info reports exactly the routed, answering chips with their "
             "true info; the built Machine has exactly those chips, resources and links with dead chips/links as complements; the "
             "generated core reservations are non-empty, pairwise disjoint and cover exactly the non-idle cores; the whole chain "
             "from machine state to Machine + constraints; IOBUF chain walk (acyclicity hypothesis proved necessary); status "
             "slicing. The controller's struct table is a parameter of the model: P2P table, system description, get_machine, status "
             "slicing and IOBUF walk are proved for ANY struct layout (packaged file = an instance); the controller's only memory (SCP "
             "buffer size) is a model state and call histories are proved to return what a fresh controller returns; error clauses "
             "(no route, short payload, a non-AppState byte in any of the 18 state slots aborts get_system_info) and the views are theorems. Real SCPConnection/MachineController (one or several controllers, "
             "moved layouts, reboots) run against a wire-level simulated machine written without rig; correspondence + ground-truth oracle.",
        ref="4 C14", technique="Coq proof (encode/decode round trips, exactness of the derived machine model) + py2v/ast translation + vm_compute correspondence",
        note=TB + " SC&MP reply layouts as documented; read chunking/retransmission are C07/C06; a 256-wide machine cannot be encoded in the 8-bit dimension fields and is excluded."),
    "C09": dict(
        text="Full under stated guards, plus two known findings. Packet-field expressions, nn-id cycle, block count and loop tests are "
             "translated from source on every run; the control flow the model mirrors (packet order of a fill, retry loop, count/per-core "
             "switch, the error's constructor and message) is compared with the source fail-closed. Theorems over all application maps, "
             "per-fill miss sets (per-chip vcpu_base, any initial core states): every flood fill -- also of the bare entry point "
             "flood_fill_aplx, whose effect on the machine is proved -- is well formed and selects exactly the entry's cores (composed from "
             "C12's exactness); normal return implies every requested core holds its binary (waiting or started), others untouched; "
             "otherwise only the loading error, whose map and message name exactly the unloaded cores after <= n_tries+1 attempts; the packets "
             "sent are, per attempt, one flood fill of exactly the cores missing at that moment then verification packets only -- under no_requested_waiting (+ no_other_waiting in count mode), both proved necessary by refutations "
             "replayed on the real code (the known findings). Real controller datagram by datagram against an independent simulator.",
        ref="4 C09", technique="Coq proof (machine/controller refinement, invariant over attempts) + py2v/ast translation + vm_compute correspondence + trace validator",
        note=TB + " SC&MP flood-fill semantics as written in Model/Load.v; guards on binary size (multiple of 4, <= 255 blocks) are stated in the theorems."),
    "C03": dict(
        text="Full for the model, plus per-output certification. Theorems for every machine (w, h >= 1, any dead chips and "
             "directed dead links), placement, allocation, constraint list, radius, random stream and set-iteration order: "
             "route() returns a ValidTree (rooted at the source's chip, no chip twice, every hop a working link from a working "
             "chip to the adjacent chip modulo the dimensions, every sink a leaf on its chip routed to exactly its cores or its "
             "constrained endpoint, no other leaves) or the disconnected-machine error, the latter ONLY on a machine that is not "
             "connected; it never fails otherwise and always terminates. Built from: ner_net on fault-free tori/meshes (on C11's "
             "geometry theorems; cut at the last intersection), copy_and_disconnect invariant, A* soundness AND completeness "
             "(closed-set invariant), the repair splice in full generality incl. re-parenting through the orphaned subtree "
             "(post-fix parent search), composition over the broken links in any order; refutation theorem for the duplicate-child "
             "defect of the code as found. Verified validators check_tree / check_connected are additionally evaluated in Coq on "
             "every real route() output; exact tree correspondence with scripted random stream and logged set orders; "
             "independent oracle incl. a dense-fault stream. Also in the model: the loop over the nets of one call (route_nets: "
             "nets routed independently, every tree valid for its own net, incl. shared / repeated / twin nets), a re-used "
             "Machine object with in-place fault edits (run_history: every call valid for the fault sets at that call), both "
             "compared with the implementation; their source shape is re-extracted fail-closed (ast of route()'s loop, Machine); "
             "check_tree is evaluated in Coq on 1200-2500-hop routes. Corollaries: every chip of a returned tree is a working "
             "chip; leaf routes are members of Routes; refuted: a childless node need not be a sink's chip after a repair.",
        ref="4 C03", technique="Coq proof (walk/tree induction on C11 geometry, A* closed-set invariant, forest invariant for repairs; verified validators) + vm_compute correspondence + validators on real outputs",
        note=TB + " Python set iteration orders are logged and fed to the model (theorems hold for every order); geometry kernels are the C11 translated units."),
}
NOT_YET = {}
def main():
    props = [json.loads(l) for l in open(os.path.join(V, "properties.jsonl"))]
    checks, na = [], []
    for p in props:
        pid = p["id"]
        if pid in CHECKS:
            c = CHECKS[pid]
            checks.append(dict(
                property_id=pid, quick_cmd="./check %s --tier quick" % pid,
                thorough_cmd="./check %s --tier thorough" % pid,
                evidence_file="/verif/evidence/%s.json" % pid,
                replay_cmd_template="./check %s --replay {path}" % pid,
                engine="coq-model",
                level_claimed=dict(category=c.get("category", "proof"), text=c["text"], design_ref=c["ref"]),
                level_note=c["note"], technique=c["technique"]))
        else:
            na.append(dict(property_id=pid, reason=NOT_YET.get(pid, "check not built yet (work in progress; see DESIGN.md section 4 for the plan)")))
    m = dict(version=1, setup_cmd="./check --setup",
             hooks=dict(guard="RIG_VERIF", enable="no source hooks are needed: checks drive /repo through fake collaborators and module-attribute patching from the harness; RIG_VERIF=1 is exported to the driver processes for completeness",
                        baseline_off_cmd="python3 tools/baseline.py", source_commits=[], add_only=True),
             engines=[dict(name="coq-model", path="coq/", serves_properties=sorted(CHECKS),
                           kind_free_text="Coq 8.16 development: Generated/ (translated from /repo each run), Model/ (executable Gallina), Spec/, Proofs/, Props/ (property theorems); harness/ ties model to code by correspondence")],
             checks=checks, not_applicable=na,
             notes="See DESIGN.md. KNOWN_FINDINGS.txt lists genuine defects (fixed: / known:).")
    json.dump(m, open(os.path.join(V, "MANIFEST.json"), "w"), indent=1)
main()
