(* The bit layer of C09: the shift/or expressions of the packet fields translated from
   machine_controller.py (Generated/GenLoad.v) against the division/remainder reading of the fields by
   the machine (Model/Load.v, [field]).  Statements over finite ranges (a byte, an 18-bit mask); each is
   proved by evaluating a boolean check over the whole range with vm_compute, the bound being part of
   the statement. *)
From Coq Require Import ZArith List Bool Lia.
Require Import Rig.Generated.GenLoad Rig.Model.Base Rig.Model.Load.
Require Import Rig.Proofs.RegionsBits.
Import ListNotations.
Open Scope Z_scope.

Definition all2 (n m : nat) (f : Z -> Z -> bool) : bool :=
  forallb (fun a => forallb (fun b => f a b) (zrange m)) (zrange n).

Lemma all2_spec : forall n m f, all2 n m f = true ->
  forall a b, 0 <= a < Z.of_nat n -> 0 <= b < Z.of_nat m -> f a b = true.
Proof.
  intros n m f H a b Ha Hb. unfold all2 in H.
  pose proof (forallb_zrange n _ a H Ha) as H1. cbv beta in H1.
  exact (forallb_zrange m _ b H1 Hb).
Qed.

(* ---- flood fill start *)
Lemma ffs_check :
  all2 256 256 (fun pid n => (field (ffs_arg1 pid n) 24 8 =? NN_FFS) && (field (ffs_arg1 pid n) 16 8 =? pid)
                             && (field (ffs_arg1 pid n) 8 8 =? n)) = true.
Proof. vm_cast_no_check (eq_refl true). Qed.

Lemma ffs_fields : forall pid n, 0 <= pid < 256 -> 0 <= n < 256 ->
  field (ffs_arg1 pid n) 24 8 = NN_FFS /\ field (ffs_arg1 pid n) 16 8 = pid /\ field (ffs_arg1 pid n) 8 8 = n.
Proof.
  intros pid n Hp Hn. pose proof (all2_spec _ _ _ ffs_check pid n ltac:(simpl; lia) ltac:(simpl; lia)) as H.
  cbv beta in H. apply andb_prop in H. destruct H as [H H3]. apply andb_prop in H. destruct H as [H1 H2].
  apply Z.eqb_eq in H1, H2, H3. auto.
Qed.

(* ---- core select: an 18-bit mask under the command byte (bit reasoning; 2^18 cases are too many to
   enumerate) *)
Lemma lor_shiftl_add : forall a k m, 0 <= k -> 0 <= m < 2 ^ k -> Z.lor (Z.shiftl a k) m = a * 2 ^ k + m.
Proof.
  intros a k m Hk Hm. rewrite Z.shiftl_mul_pow2 by exact Hk.
  assert (Hl : Z.land (a * 2 ^ k) m = 0).
  { apply Z.bits_inj'. intros n Hn. rewrite Z.land_spec, Z.bits_0.
    destruct (Z.lt_ge_cases n k) as [Hlt|Hge].
    - rewrite Z.mul_pow2_bits_low by exact Hlt. reflexivity.
    - destruct (Z.eq_dec m 0) as [->|Hm0]; [rewrite Z.bits_0; apply andb_false_r|].
      rewrite (Z.bits_above_log2 m n); [apply andb_false_r|lia|].
      apply Z.log2_lt_pow2; [lia|]. apply Z.lt_le_trans with (2 ^ k); [lia|].
      apply Z.pow_le_mono_r; lia. }
  rewrite <- Z.lxor_lor by exact Hl. symmetry. apply Z.add_nocarry_lxor. exact Hl.
Qed.

Lemma ffcs_fields : forall m, 0 <= m < 262144 ->
  field (ffcs_arg1 m) 24 8 = NN_FFCS /\ field (ffcs_arg1 m) 0 18 = m.
Proof.
  intros m Hm. unfold ffcs_arg1, field.
  rewrite (lor_shiftl_add 7 24 m) by (try lia; change (2 ^ 24) with 16777216; lia).
  change (2 ^ 24) with 16777216. change (2 ^ 8) with 256. change (2 ^ 0) with 1. change (2 ^ 18) with 262144.
  unfold NN_FFCS. split.
  - rewrite Z.div_add_l by lia. rewrite (Z.div_small m) by lia. reflexivity.
  - rewrite Z.div_1_r. replace (7 * 16777216 + m) with (m + 448 * 262144) by lia.
    rewrite Z_mod_plus_full. apply Z.mod_small. lia.
Qed.

(* ---- data *)
Lemma ffd_arg1_check : forallb (fun pid => field (ffd_arg1 pid) 0 8 =? pid) (zrange 256) = true.
Proof. vm_cast_no_check (eq_refl true). Qed.

Lemma ffd_arg1_field : forall pid, 0 <= pid < 256 -> field (ffd_arg1 pid) 0 8 = pid.
Proof.
  intros pid Hp. pose proof (forallb_zrange _ _ pid ffd_arg1_check ltac:(simpl; lia)) as H. cbv beta in H.
  apply Z.eqb_eq in H. exact H.
Qed.

(* block number and "words - 1" of a block of 4 (w + 1) bytes *)
Lemma ffd_arg2_check :
  all2 256 256 (fun block w => (field (ffd_arg2 block (4 * (w + 1))) 16 8 =? block)
                               && (field (ffd_arg2 block (4 * (w + 1))) 8 8 =? w)) = true.
Proof. vm_cast_no_check (eq_refl true). Qed.

Lemma ffd_arg2_fields : forall block size, 0 <= block < 256 -> 4 <= size <= 1024 -> size mod 4 = 0 ->
  field (ffd_arg2 block size) 16 8 = block /\ 4 * (field (ffd_arg2 block size) 8 8 + 1) = size.
Proof.
  intros block size Hb Hs Hm.
  assert (Hw : size = 4 * ((size / 4 - 1) + 1)).
  { pose proof (Z.div_mod size 4 ltac:(lia)). lia. }
  pose proof (all2_spec _ _ _ ffd_arg2_check block (size / 4 - 1) ltac:(simpl; lia)
                        ltac:(simpl; pose proof (Z.div_mod size 4 ltac:(lia)); lia)) as H.
  cbv beta in H. rewrite <- Hw in H. apply andb_prop in H. destruct H as [H1 H2].
  apply Z.eqb_eq in H1, H2. split; [exact H1|]. rewrite H2. lia.
Qed.

(* ---- end *)
Lemma ffe_arg1_check :
  forallb (fun pid => (field (ffe_arg1 pid) 24 8 =? NN_FFE) && (field (ffe_arg1 pid) 0 8 =? pid)) (zrange 256) = true.
Proof. vm_cast_no_check (eq_refl true). Qed.

Lemma ffe_arg1_fields : forall pid, 0 <= pid < 256 ->
  field (ffe_arg1 pid) 24 8 = NN_FFE /\ field (ffe_arg1 pid) 0 8 = pid.
Proof.
  intros pid Hp. pose proof (forallb_zrange _ _ pid ffe_arg1_check ltac:(simpl; lia)) as H. cbv beta in H.
  apply andb_prop in H. destruct H as [H1 H2]. apply Z.eqb_eq in H1, H2. auto.
Qed.

Lemma ffe_arg2_check :
  all2 256 64 (fun app fl => (field (ffe_arg2 app fl) 24 8 =? app) && (field (ffe_arg2 app fl) 18 6 =? fl)) = true.
Proof. vm_cast_no_check (eq_refl true). Qed.

Lemma ffe_arg2_fields : forall app fl, 0 <= app < 256 -> 0 <= fl < 64 ->
  field (ffe_arg2 app fl) 24 8 = app /\ field (ffe_arg2 app fl) 18 6 = fl.
Proof.
  intros app fl Ha Hf. pose proof (all2_spec _ _ _ ffe_arg2_check app fl ltac:(simpl; lia) ltac:(simpl; lia)) as H.
  cbv beta in H. apply andb_prop in H. destruct H as [H1 H2]. apply Z.eqb_eq in H1, H2. auto.
Qed.

(* ---- signals *)
Lemma signal_check :
  forallb (fun app => (field (signal_arg2 AppSignal_start app) 16 8 =? SIG_START)
                      && (field (signal_arg2 AppSignal_start app) 8 8 =? 255)
                      && (field (signal_arg2 AppSignal_start app) 0 8 =? app)) (zrange 256) = true.
Proof. vm_cast_no_check (eq_refl true). Qed.

Lemma signal_fields : forall app, 0 <= app < 256 ->
  field (signal_arg2 AppSignal_start app) 16 8 = SIG_START /\ field (signal_arg2 AppSignal_start app) 8 8 = 255
  /\ field (signal_arg2 AppSignal_start app) 0 8 = app.
Proof.
  intros app Ha. pose proof (forallb_zrange _ _ app signal_check ltac:(simpl; lia)) as H. cbv beta in H.
  apply andb_prop in H. destruct H as [H H3]. apply andb_prop in H. destruct H as [H1 H2].
  apply Z.eqb_eq in H1, H2, H3. auto.
Qed.

Lemma count_check :
  forallb (fun app => (field (count_arg2 AppState_wait app) 20 2 =? 2)
                      && (field (count_arg2 AppState_wait app) 16 4 =? STATE_WAIT)
                      && (field (count_arg2 AppState_wait app) 8 8 =? 255)
                      && (field (count_arg2 AppState_wait app) 0 8 =? app)) (zrange 256) = true.
Proof. vm_cast_no_check (eq_refl true). Qed.

Lemma count_fields : forall app, 0 <= app < 256 ->
  field (count_arg2 AppState_wait app) 20 2 = 2 /\ field (count_arg2 AppState_wait app) 16 4 = STATE_WAIT
  /\ field (count_arg2 AppState_wait app) 8 8 = 255 /\ field (count_arg2 AppState_wait app) 0 8 = app.
Proof.
  intros app Ha. pose proof (forallb_zrange _ _ app count_check ltac:(simpl; lia)) as H. cbv beta in H.
  apply andb_prop in H. destruct H as [H H4]. apply andb_prop in H. destruct H as [H H3].
  apply andb_prop in H. destruct H as [H1 H2]. apply Z.eqb_eq in H1, H2, H3, H4. auto.
Qed.

(* app ids are bytes: the mask 255 compares them whole *)
Lemma land_255 : forall v, 0 <= v < 256 -> Z.land v 255 = v.
Proof.
  intros v Hv. change 255 with (Z.ones 8). rewrite Z.land_ones by lia. apply Z.mod_small. simpl. lia.
Qed.
