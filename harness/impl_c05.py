"""Drive rig's allocator on JSON-described cases (runs under /venv/bin/python, PYTHONPATH=/repo)."""
import json
import sys
from collections import OrderedDict

from rig.place_and_route.allocate.greedy import allocate
from rig.place_and_route.machine import Machine
from rig.place_and_route.constraints import (ReserveResourceConstraint, AlignResourceConstraint,
                                             LocationConstraint)
from rig.place_and_route.exceptions import InsufficientResourceError


class SiteReservation(ReserveResourceConstraint):
    """A user-defined subclass: the allocator must treat it as the reservation it is."""


class SiteAlignment(AlignResourceConstraint):
    pass


def run_case(c):
    m = c["machine"]
    machine = Machine(m["w"], m["h"], chip_resources=OrderedDict((r, q) for r, q in m["res"]),
                      chip_resource_exceptions=OrderedDict(
                          (tuple(xy), OrderedDict((r, q) for r, q in rs)) for xy, rs in m["exc"]),
                      dead_chips=set(tuple(xy) for xy in m["dead"]))
    vres = OrderedDict((v, OrderedDict((r, q) for r, q in rq)) for v, rq in c["vres"])
    cs = []
    for k in c["constraints"]:
        sub = c.get("subclass") and (len(cs) % 2 == 0)        # every other constraint is a subclass instance
        if k[0] == "reserve":
            cs.append((SiteReservation if sub else ReserveResourceConstraint)(
                k[1], slice(k[2], k[3]), None if k[4] is None else tuple(k[4])))
        elif k[0] == "align":
            cs.append((SiteAlignment if sub else AlignResourceConstraint)(k[1], k[2]))
        else:
            cs.append(LocationConstraint(0, (0, 0)))
    pl = OrderedDict((v, tuple(xy)) for v, xy in c["placements"])
    try:
        a = allocate(vres, [], machine, cs, pl)
    except InsufficientResourceError:
        return ["fail", 0]
    except Exception as e:
        return ["other", type(e).__name__]
    return ["ok", [[v, [[r, s.start, s.stop] for r, s in ra.items()]] for v, ra in a.items()]]


if __name__ == "__main__":
    import implutil
    implutil.run_cases(run_case, per_case_s=3)
