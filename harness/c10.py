"""C10 -- routing entries installed in a chip's router are the entries given.
Theorems (Props/C10.v) + correspondence of the Gallina models (Model/Tables.v, Model/Router.v) with
routing_tree_to_tables and with MachineController.load_routing_table(s|_entries) / get_routing_table_entries
run against the simulated machine of harness/sim_router_c10.py + independent oracle."""
import copy
import json
import lib
from lib import zlit, vlist, vbool

LEVEL = "proof"
UNITS = ["GenRouter", "GenTablesWrapper"]
VEC = {0: (1, 0), 1: (1, 1), 2: (0, 1), 3: (-1, 0), 4: (-1, -1), 5: (0, -1)}
BUF, RTR_COPY = 0x60240000, 0x70ff0000


# ====================================================================== generator (i): sets of trees
class TreeGen(object):
    """Random trees on an unbounded grid.  `avoid` is the set of chips a new node should not use (chips of the
    tree under construction and of earlier trees with the same key and mask): respected except with a small
    probability, so that most coincidences of trees on a chip are the deliberate ones."""

    def __init__(self, rng, malformed):
        self.rng, self.vid, self.bad = rng, 0, malformed
        self.avoid = set()

    def leaf(self):
        self.vid += 1
        return ["L", self.vid]

    def neighbour(self, chip, d):
        return [chip[0] + VEC[d][0], chip[1] + VEC[d][1]]

    def kids(self, chip, depth, style):
        rng = self.rng
        ks = []
        n = {"chain": rng.choice([1, 1, 1, 2]), "bushy": rng.choice([2, 3, 3, 4, 5])}.get(
            style, rng.choice([0, 1, 1, 2, 2, 3]))
        for _ in range(n):
            u = rng.random()
            if depth > 0 and u < (0.8 if style == "chain" else 0.5):
                ds = [d for d in range(6) if tuple(self.neighbour(chip, d)) not in self.avoid
                      and min(self.neighbour(chip, d)) >= 0]
                if rng.random() < 0.04:
                    ds = [d for d in range(6) if min(self.neighbour(chip, d)) >= 0]
                if ds:
                    d = rng.choice(ds)
                    ks.append([d, self.node(self.neighbour(chip, d), depth - 1, style)])
                    continue
            if u < 0.8:
                ks.append([6 + rng.randrange(18), self.leaf()])
            elif u < 0.9:
                ks.append([None, self.leaf()])
            else:
                ks.append([rng.randrange(6), self.leaf()])       # a vertex behind a link
        if ks and rng.random() < 0.15:
            ks.append([ks[0][0], self.leaf()])                  # the same route twice
        return ks

    def node(self, chip, depth, style):
        self.avoid.add(tuple(chip))
        return ["N", list(chip), self.kids(chip, depth, style)]


def nodes_of(t, acc=None):
    acc = [] if acc is None else acc
    if t[0] == "N":
        acc.append(t)
        for _, k in t[2]:
            nodes_of(k, acc)
    return acc


def gen_trees(rng, malformed=False):
    g = TreeGen(rng, malformed)
    size = rng.choice([2, 3, 4, 6])
    occupied = {}
    masks = [0xffffffff, 0xffff0000, 0, 0xff]
    kms = []
    n_nets = rng.choice([1, 2, 2, 3, 4, 5, 6])
    routes, net_keys, by_km = [], [], {}
    share = rng.choice(["none", "equal", "equal", "different", "mixed"])
    for i in range(n_nets):
        net = 100 + 7 * i
        if kms and rng.random() < (0.1 if share == "none" else 0.75):
            km = rng.choice(kms)                    # the key and mask of an earlier net
        else:
            km = [rng.choice([0, 1, 0xffff0000, 0xdeadbeef, 5]) + 16 * i, rng.choice(masks)]
            if rng.random() < 0.2 and kms:
                km = [kms[0][0], km[1] ^ 1]         # same key, other mask
            kms.append(km)
        style = rng.choice(["chain", "bushy", "any", "any"])
        prev = by_km.get(tuple(km), [])
        if prev and share != "none" and rng.random() < 0.85:
            # a second source of the same key: a fresh path that joins a copy of a subtree of an earlier tree
            src = rng.choice(nodes_of(rng.choice(prev)))
            sub = copy.deepcopy(src)
            how = share if share != "mixed" else rng.choice(["equal", "different"])
            if how == "different":
                victim = rng.choice(nodes_of(sub))
                u = rng.random()
                present = set(r for r, _ in victim[2] if r is not None)
                if u < 0.5 or not victim[2]:
                    absent = [r for r in range(24) if r not in present]
                    victim[2].append([rng.choice(absent), g.leaf()])       # one more way out
                else:
                    r0 = victim[2][rng.randrange(len(victim[2]))][0]
                    victim[2] = [k for k in victim[2] if k[0] != r0] or [[None, g.leaf()]]
            else:
                victim = rng.choice(nodes_of(sub))
                u = rng.random()
                if u < 0.3:
                    victim[2].append([None, g.leaf()])                      # a leaf without route
                elif u < 0.6 and victim[2]:
                    rng.shuffle(victim[2])
                elif victim[2]:
                    k = rng.choice(victim[2])
                    if k[0] is not None and k[1][0] == "L":
                        victim[2].append([k[0], g.leaf()])                  # same route, other vertex
            # path leading into the copy: each step chosen so that it arrives at the right chip
            g.avoid = set(occupied.get(tuple(km), ()))
            tree = sub
            for _ in range(rng.choice([0, 1, 1, 2, 3])):
                ds = [d for d in range(6)
                      if (tree[1][0] - VEC[d][0], tree[1][1] - VEC[d][1]) not in g.avoid
                      and min(tree[1][0] - VEC[d][0], tree[1][1] - VEC[d][1]) >= 0]
                if not ds:
                    break
                d = rng.choice(ds)
                parent = [tree[1][0] - VEC[d][0], tree[1][1] - VEC[d][1]]
                g.avoid.add(tuple(parent))
                extra = g.kids(parent, 0, "any") if rng.random() < 0.3 else []
                kids = extra + [[d, tree]]
                rng.shuffle(kids)
                tree = ["N", parent, kids]
        else:
            g.avoid = set(occupied.get(tuple(km), ())) if rng.random() < 0.9 else set()
            tree = g.node([rng.randrange(size), rng.randrange(size)], rng.choice([0, 1, 2, 3, 4, 6]), style)
        occupied.setdefault(tuple(km), set()).update(tuple(n[1]) for n in nodes_of(tree))
        by_km.setdefault(tuple(km), []).append(tree)
        routes.append([net, tree])
        net_keys.append([net, km])
    rng.shuffle(net_keys)
    # node classes: some trees are built from user-defined subclasses of RoutingTree (root, inner nodes,
    # leaf-bearing nodes alike); the model does not distinguish them (a subclass instance is a RoutingTree)
    classes = rng.choice(["plain", "mixed", "mixed", "all-sub"])
    for _, tree in routes:
        for n in nodes_of(tree):
            del n[3:]
            if classes != "plain":
                n.append(rng.choice([1, 2]) if classes == "all-sub" else rng.choice([0, 0, 1, 2]))
    kind = "valid"
    if malformed:
        kind = rng.choice(["none-subtree", "core-subtree", "no-key", "leaf-root", "bad-route"])
        net, tree = routes[rng.randrange(len(routes))]
        ns = nodes_of(tree)
        victim = rng.choice(ns)
        g.avoid = set()
        sub = g.node(g.neighbour(victim[1], 0), 1, "any")
        if kind == "none-subtree":
            victim[2].insert(rng.randint(0, len(victim[2])), [None, sub])
        elif kind == "core-subtree":
            victim[2].insert(rng.randint(0, len(victim[2])), [6 + rng.randrange(18), sub])
        elif kind == "bad-route":
            victim[2].insert(rng.randint(0, len(victim[2])), [rng.choice([24, 30, 77]), rng.choice([sub, g.leaf()])])
        elif kind == "no-key":
            net_keys = [nk for nk in net_keys if nk[0] != net]
        elif kind == "leaf-root":
            routes[rng.randrange(len(routes))][1] = g.leaf()
    # nets of one group have the same source, sinks and weight (as Net objects) and differ only in their keys
    groups = []
    ids = [n for n, _ in routes]
    if len(ids) >= 2 and rng.random() < 0.6:
        kmof = dict((n, tuple(km)) for n, km in net_keys)
        for _ in range(rng.randint(1, 2)):
            a, b = rng.sample(ids, 2)
            if kmof.get(a) != kmof.get(b) and a not in dict(groups) and b not in dict(groups):
                groups += [[a, a], [b, a]]
    return dict(kind="trees", routes=routes, net_keys=net_keys, wf=kind, share=share, classes=classes,
                build=rng.choice(["bottom-up", "bottom-up", "top-down", "top-down", "tuple"]),
                roundtrip=rng.choice(["none", "none", "none", "pickle", "pickle0", "deepcopy", "copy"]),
                net_groups=groups)


# ====================================================================== generator (ii): loads
def rand_word(rng):
    return rng.choice([0, 0xffffffff, 1, 0x80000000, rng.getrandbits(32), rng.getrandbits(32), rng.getrandbits(16)])


def rand_routes(rng):
    u = rng.random()
    if u < 0.08:
        return []
    if u < 0.16:
        return list(range(24))
    if u < 0.3:
        return [rng.randrange(24)]
    return sorted(rng.sample(range(24), rng.randint(1, 8 if u < 0.8 else 24)))


def rand_entry(rng):
    srcs = sorted(set(rng.choice([-1, 0, 1, 2, 3, 4, 5]) for _ in range(rng.choice([1, 1, 2]))))
    return [rand_routes(rng), rand_word(rng), rand_word(rng), srcs]


def gen_chip(rng, style):
    """A router state: used entries of other applications, a free list over the rest."""
    listed, free = [], []
    if style == "fresh":
        free = [[1, 1023]]
    elif style == "full":
        pos = 1
        if rng.random() < 0.5:
            free = [[rng.randint(1, 1000), rng.randint(1, 3)]]
    else:
        pos = 1
        while pos < 1024:
            size = min(1024 - pos, rng.choice([1, 2, 3, 5, 8, 13, 40, 200, 600]))
            if rng.random() < 0.5:
                free.append([pos, size])
            else:
                app = rng.randrange(256)
                for i in range(pos, pos + size):
                    if rng.random() < (0.7 if size < 10 else 0.02):
                        listed.append([i, [rng.choice([0, i + 1]), app | (rng.randrange(16) << 8),
                                           rng.getrandbits(24), rand_word(rng), rand_word(rng)]])
            pos += size
        if style == "shuffled":
            rng.shuffle(free)
    if style == "full":
        for i in rng.sample(range(1, 1024), 12):
            listed.append([i, [0, rng.randrange(256), rng.getrandbits(24), rand_word(rng), rand_word(rng)]])
        listed.sort()
    dflt = [rng.choice([0, 7]), rng.choice([0, 0xffff, 66]), rng.choice([0, 0xffffff, rng.getrandbits(24)]),
            rng.choice([0xffffffff, 0, rng.getrandbits(32)]), rng.choice([0, 0xffffffff])]
    return dict(dflt=dflt, listed=listed, free=free, zero_ok=rng.random() < 0.5,
                buf=BUF + 4 * rng.randrange(64), bufsize=16 * 1024 + rng.choice([0, 16, 256]),
                fill=rng.choice([0, 0xaa, 0xff]), rtr_copy=RTR_COPY + 16 * rng.randrange(16))


def gen_load(rng, size=None, malformed=False):
    multi = rng.random() < 0.3 and size is None
    coords = rng.sample([(x, y) for x in range(3) for y in range(3)], rng.choice([2, 3]) if multi else 1)
    chips, tables = [], []
    for (x, y) in coords:
        style = rng.choice(["fresh", "fragmented", "fragmented", "shuffled", "full"]) if size is None \
            else rng.choice(["fresh", "fresh", "fragmented"])
        spec = gen_chip(rng, style)
        if size is None:
            u = rng.random()
            blocks = [s for _, s in spec["free"]]
            if u < 0.1:
                n = 0
            elif u < 0.2:
                n = 1
            elif u < 0.45 and blocks:
                n = max(0, min(60, rng.choice(blocks) + rng.choice([-1, 0, 0, 1])))   # around a block size
            else:
                n = rng.randint(2, 24)
        else:
            n = size
        tables.append([[x, y], [rand_entry(rng) for _ in range(n)]])
        chips.append([x, y, spec])
    if multi and rng.random() < 0.3:
        chips.append([7, 7, gen_chip(rng, "fragmented")])        # a chip that gets no table
    app_id = rng.choice([0, 1, 16, 66, 255, rng.randrange(256)])
    wf = "valid"
    if malformed:
        wf = rng.choice(["route-high", "route-32", "route-neg", "key-big", "mask-neg", "no-chip", "small-buf"])
        es = tables[0][1] or tables[0][1].append(rand_entry(rng)) or tables[0][1]
        e = es[rng.randrange(len(es))]
        if wf == "route-high":
            e[0] = sorted(set(e[0] + [rng.choice([24, 27, 31])]))
        elif wf == "route-32":
            e[0] = sorted(set(e[0] + [rng.choice([32, 40])]))
        elif wf == "route-neg":
            e[0] = [-1] + e[0]
        elif wf == "key-big":
            e[1] = 1 << 32
        elif wf == "mask-neg":
            e[2] = -1
        elif wf == "no-chip":
            tables[0][0] = [5, 5]
        elif wf == "small-buf":
            chips[0][2]["bufsize"] = 16 * max(0, len(es) - 1)
    mode = "tables" if multi or rng.random() < 0.3 else "entries"
    # a third of the loads hand over entries whose route is a list / tuple that may name a direction several
    # times (namedtuple _replace / _make bypass the constructor's frozenset; duck-typed entry objects)
    form = rng.choice(["set", "set", "set", "set", "replace-list", "make-tuple", "duck"]) if wf == "valid" else "set"
    if form != "set":
        for _, es in tables:
            for e in es:
                if e[0] and rng.random() < 0.7:
                    e[0] = e[0] + [rng.choice(e[0]) for _ in range(rng.randint(1, 3))]
                    rng.shuffle(e[0])
    return dict(kind="load", chips=chips, tables=tables, app_id=app_id, mode=mode,
                context=rng.random() < 0.3, wf=wf, sub_entries=rng.random() < 0.3, route_form=form)


# ====================================================================== generator (iii): histories
def gen_history(rng):
    """Loads and read-backs on one controller whose chip and application id come from nested
    `with mc(x=.., y=.., app_id=..)` blocks (partly or wholly; the rest explicit), with loads that fail
    inside blocks: caught inside the block, or leaving one or more blocks by the exception and caught
    outside, followed by implicitly addressed calls."""
    coords = [(0, 0), (0, 1), (1, 0), (1, 1)]
    styles = ["full", "full", "fresh", "fragmented"]
    rng.shuffle(styles)
    chips = [[x, y, gen_chip(rng, st)] for (x, y), st in zip(coords, styles)]
    for ch in chips:
        ch[2]["zero_ok"] = False
    counter = [0]

    def explicit_for(known, force=0.15):
        kw = {}
        if "x" not in known or rng.random() < force:
            kw["x"] = rng.randrange(2)
        if "y" not in known or rng.random() < force:
            kw["y"] = rng.randrange(2)
        return kw

    def block(depth, known):
        stmts = []
        for _ in range(rng.randint(1, 3) if depth else rng.randint(2, 4)):
            u = rng.random()
            if depth < 3 and u < 0.45:
                kw = {}
                which = rng.choice(["xy", "xy", "x", "y", "app", "xyapp"])
                if "x" in which:
                    kw["x"] = rng.randrange(2)
                if "y" in which:
                    kw["y"] = rng.randrange(2)
                if "app" in which:
                    kw["app_id"] = rng.choice([1, 30, 200, 255])
                inner = block(depth + 1, known | set(kw))
                w = ["with", kw, inner]
                stmts.append(["try", [w]] if rng.random() < 0.7 else w)
            elif u < 0.85:
                counter[0] += 1
                kw = explicit_for(known)
                if rng.random() < 0.15:
                    kw["app_id"] = rng.choice([7, 99])
                ld = ["load", kw, [rand_entry(rng) for _ in range(rng.randint(1, 6))], counter[0]]
                stmts.append(["try", [ld]] if rng.random() < 0.35 else ld)
            else:
                counter[0] += 1
                stmts.append(["read", explicit_for(known), counter[0]])
        return stmts
    program = [["try", [s]] for s in block(0, set())]
    return dict(kind="history", chips=chips, program=program, wf="valid")


def flatten(program, outcomes):
    """The statements executed, in order, each with the chip and application id it addresses by the lexical
    rule (innermost enclosing block naming the argument; app_id 66 when none does), given the outcome of each
    executed statement (an exception unwinds to the nearest enclosing try)."""
    out = []

    class Unwind(Exception):
        pass

    def run(stmts, ctx):
        for s in stmts:
            if s[0] == "with":
                run(s[2], dict(ctx, **s[1]))
            elif s[0] == "try":
                try:
                    run(s[1], ctx)
                except Unwind:
                    pass
            else:
                a = dict(ctx, **s[1])
                out.append(dict(id=s[-1], kind=s[0], x=a["x"], y=a["y"], app_id=a["app_id"],
                                es=s[2] if s[0] == "load" else None))
                o = outcomes.get(s[-1])
                if o is None or o[0] != "ok":
                    raise Unwind()
    try:
        run(program, {"app_id": 66})
    except Unwind:
        pass
    return out


# ====================================================================== enumerations
def fork_pair_cases(rng, quick):
    """Two nets with the same key and mask meeting on chip (2, 2): the first tree is rooted there, the second
    arrives from (3, 3); the children of the shared node are any two subsets of five kinds of child.  The
    out sets agree iff the subsets give the same routes (the route-less leaf never matters)."""
    kinds = [lambda: [0, ["N", [3, 2], [[9, ["L", 1]]]]],      # a subtree to the east
             lambda: [6, ["L", 2]], lambda: [7, ["L", 3]],   # two cores
             lambda: [None, ["L", 4]],                        # a leaf without route
             lambda: [2, ["L", 5]]]                           # a vertex behind the north link
    pairs = [(a, b) for a in range(32) for b in range(32)]
    if quick:
        pairs = rng.sample(pairs, 96)
    out = []
    for a, b in pairs:
        ka = [kinds[i]() for i in range(5) if a >> i & 1]
        kb = [kinds[i]() for i in range(5) if b >> i & 1]
        t1 = ["N", [2, 2], ka, a % 3]
        t2 = ["N", [3, 3], [[4, ["N", [2, 2], kb, b % 3]]], (a + b) % 3]
        for k in ka + kb:
            if k[1][0] == "N":
                k[1].append((a * 7 + b) % 3)
        out.append(dict(kind="trees", routes=[[1, t1], [2, t2]], net_keys=[[2, [5, 0xff]], [1, [5, 0xff]]],
                        wf="valid", share="enumerated", classes="enumerated"))
    return out


def route_enum_cases(rng, quick):
    """Tables whose entries run through every single route, every complement of one, every pair (and, in
    the thorough tier, every triple) of the 24 routes."""
    import itertools
    sets = [[r] for r in range(24)] + [[q for q in range(24) if q != r] for r in range(24)]
    sets += [list(p) for p in itertools.combinations(range(24), 2)]
    if not quick:
        sets += [list(p) for p in itertools.combinations(range(24), 3)]
    out = []
    for i in range(0, len(sets), 1000):
        es = [[rs, rng.getrandbits(32), rng.getrandbits(32), [-1]] for rs in sets[i:i + 1000]]
        spec = gen_chip(rng, "fresh")
        out.append(dict(kind="load", chips=[[0, 0, spec]], tables=[[[0, 0], es]], app_id=rng.randrange(256),
                        mode="entries", context=False, wf="valid"))
    return out


# ====================================================================== Coq literals
def chipl(xy):
    return "(%s, %s)" % (zlit(xy[0]), zlit(xy[1]))


def zl(l):
    return vlist(zlit(x) for x in l)


def coq_tree(t):
    if t[0] == "L":
        return "TLeaf %s" % zlit(t[1])
    return "TNode %s %s" % (chipl(t[1]), vlist(
        "(%s, %s)" % ("None" if r is None else "Some %s" % zlit(r), coq_tree(k)) for r, k in t[2]))


def coq_trees_case(c):
    routes = vlist("(%s, %s)" % (zlit(n), coq_tree(t)) for n, t in c["routes"])
    nk = vlist("(%s, (%s, %s))" % (zlit(n), zlit(km[0]), zlit(km[1])) for n, km in c["net_keys"])
    entry = c.get("entry", "r2t")
    if entry != "r2t":
        return "tables_digest (build_routing_tables %s %s %s)" % (routes, nk, vbool(entry == "brt-true"))
    return "tables_digest (routing_tree_to_tables %s %s)" % (routes, nk)


def coq_entry(e):
    return "mkEntry %s %s %s %s" % (zl(e[0]), zlit(e[1]), zlit(e[2]), zl(e[3]))


def coq_chip(spec):
    d = spec["dflt"]
    listed = vlist("(%s, mkSlot %s)" % (zlit(i), " ".join(zlit(v) for v in s)) for i, s in spec["listed"])
    free = vlist("(%s, %s)" % (zlit(b), zlit(s)) for b, s in spec["free"])
    return "mk_chip (free_slot %s %s %s %s %s) %s %s %s %s %s %s %s" % (
        zlit(d[2]), zlit(d[3]), zlit(d[4]), zlit(d[0]), zlit(d[1]), listed, free, vbool(spec["zero_ok"]),
        zlit(spec["buf"]), zlit(spec["bufsize"]), zlit(spec["fill"]), zlit(spec["rtr_copy"]))


def coq_load_case(c):
    m = vlist("(%s, %s)" % (chipl((x, y)), coq_chip(spec)) for x, y, spec in c["chips"])
    tables = vlist("(%s, %s)" % (chipl(xy), vlist(coq_entry(e) for e in es)) for xy, es in c["tables"])
    return "load_case %s %s %s %s" % (m, tables, zlit(c["app_id"]), vbool(c["mode"] == "entries"))


def coq_kw(kw):
    return "(mkKw %s %s %s)" % tuple("None" if kw.get(k) is None else "(Some %s)" % zlit(kw[k])
                                     for k in ("x", "y", "app_id"))


def coq_stmt(s):
    if s[0] == "with":
        return "SWith %s %s" % (coq_kw(s[1]), vlist(coq_stmt(k) for k in s[2]))
    if s[0] == "try":
        return "STry %s" % vlist(coq_stmt(k) for k in s[1])
    if s[0] == "load":
        return "SLoad %s %s %s" % (coq_kw(s[1]), vlist(coq_entry(e) for e in s[2]), zlit(s[3]))
    return "SRead %s %s" % (coq_kw(s[1]), zlit(s[2]))


def coq_history_case(c):
    """The model runs the PROGRAM: it decides itself which statements execute and which chip and application
    each one addresses (Model/RouterProgram.v)."""
    m = vlist("(%s, %s)" % (chipl((x, y)), coq_chip(spec)) for x, y, spec in c["chips"])
    return "run_program %s %s" % (m, vlist(coq_stmt(s) for s in c["program"]))


def coq_case(c):
    return coq_trees_case(c) if c["kind"] == "trees" else coq_load_case(c)


def canon_history_model(v):
    ids, (items, dig) = v
    ops = []
    for it in items:
        if it[0] == "inl":
            res, trace = it[1]
            out = {"LOk": ["ok"], "LOther": ["other"]}.get(res[0]) or ["routererror"] + list(res[1:])
            ops.append([out, [canon_titem(k) for k in trace], None])
        else:
            r, trace = it[1]
            rb = None
            if r[0] == "Ok":
                n, es = r[1]
                rb = [n, [[i, list(e[0]), e[1], e[2], list(e[3]), a, co] for (i, e, a, co) in es]]
            ops.append([["ok"] if rb else ["other"], [canon_titem(k) for k in trace], rb])
    digest = [[x, y, [[[i, list(sl)] for i, sl in d[0]], [list(b) for b in d[1]], d[2]]] for x, y, d in dig]
    return dict(ids=list(ids), ops=ops, digest=digest)


def canon_history_impl(o):
    ops = [[(["other"] if r["outcome"][0] == "other" else r["outcome"]), r["trace"], r["readback"]] for r in o["ops"]]
    digest = [[x, y, d[:3]] for x, y, d in o["ops"][-1]["digest"]] if o["ops"] else None
    return dict(ids=[r["id"] for r in o["ops"]], ops=ops, digest=digest)


# ====================================================================== canonical forms
def canon_trees_model(v):
    if v[0] == "ROk":
        return ["ok", [[[x, y], [[list(e[0]), e[1], e[2], list(e[3])] for e in es]] for x, y, es in v[1]]]
    if v[0] == "RMultisource":
        return ["multisource", v[1], v[2], list(v[3])]
    return ["other"] if v[0] == "ROther" else ["outoffuel"]


def canon_trees_impl(o):
    return ["other"] if o[0] == "other" else o


def canon_titem(t):
    if t[0] == "TScp":
        return ["scp"] + list(t[1:])
    return [{"TRead": "read", "TWrite": "write"}[t[0]]] + list(t[1:])


def canon_load_model(v, c):
    res, trace, dig, rbs = v
    out = {"LOk": ["ok"], "LOther": ["other"]}.get(res[0]) or ["routererror"] + list(res[1:])
    digest = [[x, y, [[[i, list(s)] for i, s in d[0]], [list(b) for b in d[1]], d[2]]]
              for x, y, d in dig]            # Coq prints ((x, y), d) as (x, y, d)
    readback = []
    for (x, y, _), (r, t) in zip(c["chips"], rbs):
        if r[0] == "Ok":
            n, es = r[1]
            res_ = ["ok", n, [[i, list(e[0]), e[1], e[2], list(e[3]), a, co] for (i, e, a, co) in es]]
        else:
            res_ = ["other"]
        readback.append([x, y, res_, [canon_titem(k) for k in t]])
    return dict(outcome=out, trace=[canon_titem(k) for k in trace], digest=digest, readback=readback)


def canon_load_impl(o):
    o = dict(o)
    if o["outcome"][0] == "other":
        o["outcome"] = ["other"]
    o["readback"] = [[x, y, (["other"] if r[0] == "other" else r), t] for x, y, r, t in o["readback"]]
    o["digest"] = [[x, y, d[:3]] for x, y, d in o["digest"]]        # d[3] (checksum of the whole router copy) is
    #                                                               # for the oracle; the model shows it on read-back
    return o


# ====================================================================== independent oracle
def opposite(d):
    return {0: 3, 1: 4, 2: 5, 3: 0, 4: 1, 5: 2}[d]


def walk(t, arrived, visits):
    """Depth-first walk of one tree: for every node the arrival link (-1 at the root) and the set of routes
    by which the tree leaves the chip (children without a route do not count)."""
    outs = frozenset(r for r, _ in t[2] if r is not None)
    visits.append((tuple(t[1]), -1 if arrived is None else opposite(arrived), outs))
    for r, k in t[2]:
        if k[0] == "N":
            walk(k, r, visits)


def oracle_trees(c, out):
    if c["wf"] != "valid":
        return None                       # outside the stated domain: no claim
    if out[0] == "hang":
        return ("tables:hang", "routing_tree_to_tables does not terminate")
    if out[0] == "other":
        return ("tables:raises", "raised %s on well-formed trees" % out[1])
    keys = {n: tuple(km) for n, km in c["net_keys"]}
    seen = {}                              # (chip, key, mask) -> list of (in, outs)
    for n, t in c["routes"]:
        vs = []
        walk(t, None, vs)
        for chip, ind, outs in vs:
            seen.setdefault((chip,) + keys[n], []).append((ind, outs))
    conflicts = set(k for k, l in seen.items() if len(set(o for _, o in l)) > 1)
    if out[0] == "multisource":
        k = (tuple(out[3]), out[1], out[2])
        if k not in conflicts:
            return ("tables:spurious-multisource",
                    "MultisourceRouteError(%#x, %#x, %r) although all trees with that key and mask leave that "
                    "chip by the same set of routes" % (out[1], out[2], out[3]))
        return None
    if conflicts:
        k = sorted(conflicts)[0]
        return ("tables:missed-multisource", "no MultisourceRouteError although trees with key %#x mask %#x "
                "fork differently on chip %r" % (k[1], k[2], k[0]))
    got = {}
    for xy, es in out[1]:
        for e in es:
            k = (tuple(xy), e[1], e[2])
            if k in got:
                return ("tables:duplicate-entry", "two entries with key %#x mask %#x on chip %r" % (e[1], e[2], xy))
            got[k] = e
    missing, extra = sorted(set(seen) - set(got)), sorted(set(got) - set(seen))
    if c.get("entry") == "brt-true":
        # omit_default_routes=True: an entry may be left out only where default routing does the same, i.e.
        # the packets enter by one link and leave by the opposite link and nowhere else
        for k in missing:
            outs, ins = seen[k][0][1], set(i for i, _ in seen[k])
            if not (len(outs) == 1 and len(ins) == 1 and min(outs) in range(6) and min(ins) in range(6)
                    and min(outs) == opposite(min(ins))):
                return ("tables:omitted-entry-not-default-routed",
                        "build_routing_tables(omit_default_routes=True): no entry on chip %r for key %#x mask %#x "
                        "although the trees enter it from %r and leave it by %r, which default routing does not do"
                        % (k[0], k[1], k[2], sorted(ins), sorted(outs)))
        missing = []
    if missing or extra:
        return ("tables:entries-missing-or-extra", "entries missing for %r, unexpected for %r" % (missing[:3], extra[:3]))
    for k, e in got.items():
        outs = seen[k][0][1]
        if set(e[0]) != set(outs):
            return ("tables:route", "chip %r key %#x: route %r, the trees leave the chip by %r"
                    % (k[0], k[1], e[0], sorted(outs)))
        ins = set(i for i, _ in seen[k])
        if set(e[3]) != ins:
            return ("tables:sources", "chip %r key %#x: sources %r, the trees enter the chip from %r"
                    % (k[0], k[1], e[3], sorted(ins)))
    return None


def route_word(routes):
    w = 0
    for r in set(routes):          # the router holds exactly the named directions, however often named
        w += 2 ** r
    return w


def oracle_load(c, o):
    """Decide the loading sentences of C10 from the inputs, the command log of the simulated machine and
    its final state.  Returns (key, text) or None."""
    if c["wf"] != "valid":
        return None
    if o == ["hang"]:
        return ("load:hang", "loading does not terminate")
    chips = {(x, y): spec for x, y, spec in c["chips"]}
    digest = {(x, y): d for x, y, d in o["digest"]}
    readback = {(x, y): (r, t) for x, y, r, t in o["readback"]}
    trace = list(o["trace"])
    outcome = o["outcome"]
    failed = None
    import sim_router_c10 as sim                # only its checksum and its record renderer
    for k, (xy, es) in enumerate(c["tables"]):
        xy = tuple(xy)
        spec = chips[xy]
        d = spec["dflt"]
        slots = [[d[0], d[1], 0xff000000 | d[2], d[3], d[4]] for _ in range(1024)]
        for i, s in spec["listed"]:
            slots[i] = list(s)
        mine = [t for t in trace if tuple(t[1:3]) == xy]
        if failed is not None:
            if mine:
                return ("load:after-failure", "commands sent to chip %r after the failure on chip %r" % (xy, failed))
            exp_block = None
        else:
            allocs = [t for t in mine if t[0] == "scp" and t[4] == 28]
            if len(allocs) != 1 or mine[0] != allocs[0]:
                return ("load:no-alloc", "chip %r: the first command is not the one allocation of router entries: %r"
                        % (xy, mine[:2]))
            a = allocs[0]
            if a[5] != (c["app_id"] << 8 | 3) or a[6] != len(es):
                return ("load:alloc-args", "chip %r: allocation asks for %d entries for application %d, given %d entries "
                        "and application %d" % (xy, a[6], a[5] >> 8, len(es), c["app_id"]))
            base = a[8]
            if base == 0:
                failed = xy
                if outcome != ["routererror", len(es), xy[0], xy[1]]:
                    return ("load:no-router-error", "chip %r: no block could be allocated, outcome %r instead of the "
                            "router error" % (xy, outcome))
                if len(mine) != 1:
                    return ("load:commands-after-failed-alloc", "chip %r: allocation failed, yet further commands "
                            "were issued: %r" % (xy, mine[1:3]))
                exp_block = None
            else:
                exp_block = base
                for i, e in enumerate(es):
                    slots[base + i] = [0, c["app_id"], route_word(e[0]), e[1], e[2]]
        used = [[i, s] for i, s in enumerate(slots) if s[2] & 0xff000000 != 0xff000000]
        rendered = b"".join(sim.struct.pack("<HHIII", *s) for s in slots)
        if digest[xy][0] != used or digest[xy][3] != sim.cksum(rendered):
            got = dict((i, s) for i, s in digest[xy][0])
            want = dict((i, s) for i, s in used)
            diff = sorted(i for i in set(got) | set(want) if got.get(i) != want.get(i))
            where = ("entries %r differ: router holds %r, expected %r" % (diff[:4], [got.get(i) for i in diff[:2]],
                                                                         [want.get(i) for i in diff[:2]])
                     if diff else "an unused entry was modified")
            if exp_block is None:
                return ("load:installed-on-failure", "chip %r: router changed although nothing was to be installed: %s"
                        % (xy, where))
            return ("load:router-contents", "chip %r: router entries %d..%d should hold the %d given entries with "
                    "application %d and nothing else should change; %s" % (xy, exp_block, exp_block + len(es) - 1,
                                                                          len(es), c["app_id"], where))
        if exp_block is not None:
            r, _ = readback[xy]
            if r[0] != "ok":
                return ("load:readback-raises", "chip %r: get_routing_table_entries raised %r" % (xy, r[1:]))
            if r[1] != 1024:
                return ("load:readback-length", "chip %r: %d entries read back" % (xy, r[1]))
            back = dict((g[0], g) for g in r[2])
            for i, e in enumerate(es):
                g = back.get(exp_block + i)
                if g is None or set(g[1]) != set(e[0]) or g[2] != e[1] or g[3] != e[2] or g[5] != c["app_id"]:
                    return ("load:readback", "chip %r entry %d: given %r for application %d, read back %r"
                            % (xy, exp_block + i, e[:3], c["app_id"], g))
    if failed is None and outcome != ["ok"]:
        return ("load:raises", "every block was allocated, yet loading ended with %r" % (outcome,))
    for xy, spec in chips.items():
        if list(xy) not in [t[0] for t in c["tables"]]:
            if any(tuple(t[1:3]) == xy for t in trace):
                return ("load:wrong-chip", "commands sent to chip %r, which has no table" % (xy,))
    return None


def oracle_history(c, o):
    """Every executed call must talk to the chip, and use the application id, that it addresses by the
    lexical rule; the routers of all chips are followed step by step with the sentences of oracle_load."""
    if o == ["hang"]:
        return ("history:hang", "the history does not terminate")
    import sim_router_c10 as sim
    slots = {}
    for x, y, spec in c["chips"]:
        d = spec["dflt"]
        sl = [[d[0], d[1], 0xff000000 | d[2], d[3], d[4]] for _ in range(1024)]
        for i, s_ in spec["listed"]:
            sl[i] = list(s_)
        slots[(x, y)] = sl
    loaded = {}
    ops = flatten(c["program"], {r["id"]: r["outcome"] for r in o["ops"]})
    if [p["id"] for p in ops] != [r["id"] for r in o["ops"]]:
        return ("history:statements-executed", "statements executed %r, expected %r (an exception ends the "
                "enclosing try block only)" % ([r["id"] for r in o["ops"]], [p["id"] for p in ops]))
    for p, r in zip(ops, o["ops"]):
        xy = (p["x"], p["y"])
        what = "statement %d (%s addressed to chip %r, application %d)" % (p["id"], p["kind"], xy, p["app_id"])
        wrong = [t for t in r["trace"] if tuple(t[1:3]) != xy]
        if wrong:
            return ("history:wrong-chip", "%s: command sent to chip %r: %r" % (what, tuple(wrong[0][1:3]), wrong[0]))
        if p["kind"] == "load":
            es, tr = p["es"], r["trace"]
            if not tr or tr[0][0] != "scp" or tr[0][4] != 28:
                if r["outcome"][0] == "ok" or tr:
                    return ("history:no-alloc", "%s: the first command is not the allocation: %r" % (what, tr[:2]))
                return ("history:raises", "%s: raised %r before any command" % (what, r["outcome"]))
            a = tr[0]
            if a[5] != (p["app_id"] << 8 | 3) or a[6] != len(es):
                return ("history:alloc-args", "%s: allocation asks for %d entries for application %d"
                        % (what, a[6], a[5] >> 8))
            base = a[8]
            if base == 0:
                if r["outcome"] != ["routererror", len(es), xy[0], xy[1]]:
                    return ("history:no-router-error", "%s: no block could be allocated, outcome %r" % (what, r["outcome"]))
                if len(tr) != 1:
                    return ("history:commands-after-failed-alloc", "%s: allocation failed, yet %r" % (what, tr[1:3]))
            else:
                if r["outcome"] != ["ok"]:
                    return ("history:raises", "%s: block %d allocated, yet %r" % (what, base, r["outcome"]))
                for i, e in enumerate(es):
                    slots[xy][base + i] = [0, p["app_id"], route_word(e[0]), e[1], e[2]]
                    loaded[(xy, base + i)] = (e, p["app_id"])
            for x, y, d in r["digest"]:
                sl = slots[(x, y)]
                used = [[i, s_] for i, s_ in enumerate(sl) if s_[2] & 0xff000000 != 0xff000000]
                if d[0] != used or d[3] != sim.cksum(b"".join(sim.struct.pack("<HHIII", *s_) for s_ in sl)):
                    return ("history:router-contents", "%s: the router of chip %r does not hold what was loaded "
                            "into it (and only that): in use %r..., expected %r..." % (what, (x, y), d[0][:3], used[:3]))
        else:
            if r["outcome"] != ["ok"]:
                return ("history:readback-raises", "%s: raised %r" % (what, r["outcome"]))
            back = dict((g[0], g) for g in r["readback"][1])
            for (ch, idx), (e, app) in loaded.items():
                if ch == xy:
                    g = back.get(idx)
                    if g is None or set(g[1]) != set(e[0]) or g[2] != e[1] or g[3] != e[2] or g[5] != app:
                        return ("history:readback", "%s: entry %d was loaded as %r for application %d, read back %r"
                                % (what, idx, e[:3], app, g))
    return None


# ====================================================================== the check
def nontrivial(c, o):
    if c["kind"] == "trees":
        return c["wf"] == "valid" and len(c["routes"]) >= 2 and o[0] in ("ok", "multisource")
    if c["kind"] == "history":
        return isinstance(o, dict) and len(o["ops"]) >= 2
    return c["wf"] == "valid" and sum(len(es) for _, es in c["tables"]) >= 1 and isinstance(o, dict)


def run(chk, args):
    chk.trusted += ["CPython dict iteration order (insertion order) is mirrored by association lists",
                    "harness/sim_router_c10.py, the simulated router/allocator/memory (environment), compared "
                    "command by command with the Gallina machine of Model/Router.v",
                    "struct.pack_into / struct.unpack for '<2H 3I' modelled as little-endian unsigned fields"]
    chk.assumptions += ["nets, vertices, keys, masks are Python ints; routes are members of Routes or None",
                        "a subtree hangs on a link route (0..5): traverse asserts non-None, Routes.opposite rejects cores",
                        "entries given to the loader have 0 <= key, mask < 2**32, routes within 0..23, 0 <= app_id < 256",
                        "the connection delivers each command once (retransmission, packet splitting: C06/C07)"]
    chk.regenerate(UNITS)
    chk.prove()
    if args.replay:
        rep = json.load(open(args.replay))
        cases = [f["replay"]["case"] for f in rep.get("failures", []) if "case" in f.get("replay", {})]
        cases += [b["replay"]["case"] for b in rep.get("no_longer_checks", []) if "case" in b.get("replay", {})]
    else:
        quick = chk.tier == "quick"
        n_trees, n_loads, n_hist = (800, 190, 64) if quick else (30000, 4000, 2000)
        cases = [gen_trees(chk.rng, malformed=(i % 8 == 7)) for i in range(n_trees)]
        for i, c in enumerate(cases):
            # every other well-formed case goes through the deprecated second entry point of the conversion
            c["entry"] = ["r2t", "brt-false", "r2t", "brt-true"][i % 4] if c["wf"] == "valid" else \
                ["r2t", "brt-false"][(i // 8) % 2]
        cases += [gen_history(chk.rng) for _ in range(n_hist)]
        cases += fork_pair_cases(chk.rng, quick)
        cases += [gen_load(chk.rng, malformed=(i % 10 == 9)) for i in range(n_loads)]
        cases += route_enum_cases(chk.rng, quick)
        sizes = [0, 1, 1022, 1023, 1023, 1024, 1025] if quick else \
            list(range(0, 65)) + list(range(65, 1023, 31)) + [1022] + [1023] * 12 + [1024] * 4 + [1025, 2000]
        for size in sizes:
            cases.append(gen_load(chk.rng, size=size))
    corpus = lib.os.path.join(lib.VERIF, "corpus", "C10.json")
    if lib.os.path.exists(corpus):
        cases = json.load(open(corpus)) + cases
    # ------------------------------------------------------------ implementation
    chunk = 250
    chunks = [cases[i:i + chunk] for i in range(0, len(cases), chunk)]
    outs = [o for part in chk.impl_parallel("impl_c10.py", chunks) for o in part]
    keep = [i for i, o in enumerate(outs) if o != ["skipped"]]
    cases, outs = [cases[i] for i in keep], [outs[i] for i in keep]
    for c, o in zip(cases, outs):
        chk.count("kind:" + c["kind"])
        chk.count("%s:wf:%s" % (c["kind"], c["wf"]))
        if c["kind"] == "trees":
            chk.count("trees:outcome:" + o[0])
            chk.count("trees:entry:" + c.get("entry", "r2t"))
            chk.count("trees:build:" + c.get("build", "bottom-up"))
            chk.count("trees:roundtrip:" + c.get("roundtrip", "none"))
            chk.count("trees:same-endpoint-net-pairs:%d" % (len(c.get("net_groups", [])) // 2))
            chk.count("trees:share:" + c["share"])
            chk.count("trees:classes:" + c.get("classes", "plain"))
            chk.count("trees:subclass-nodes:" + ("0" if not any(len(n) > 3 and n[3] for _, t in c["routes"]
                                                               for n in nodes_of(t)) else ">=1"))
            chk.count("trees:nets:%d" % len(c["routes"]))
            why = oracle_trees(c, o)
            if why:
                chk.fail_input(why[0], why[1], dict(case=c, observed=o))
        elif c["kind"] == "history":
            if isinstance(o, dict):
                chk.count("history:statements:%d" % min(len(o["ops"]), 8))
                for r in o["ops"]:
                    chk.count("history:outcome:" + r["outcome"][0])
                chk.count("history:block-left-by-exception:" + str(json.dumps(c["program"]).count('"with"') > 0 and any(
                    r["outcome"][0] != "ok" for r in o["ops"])))
            why = oracle_history(c, o)
            if why:
                chk.fail_input(why[0], why[1], dict(case=c, observed=o if not isinstance(o, dict) else
                                                    [[r["id"], r["outcome"], r["trace"][:4]] for r in o["ops"]]))
        else:
            if isinstance(o, dict):
                chk.count("load:outcome:" + o["outcome"][0])
                chk.count("load:mode:" + c["mode"])
                chk.count("load:route-form:" + c.get("route_form", "set"))
                n = sum(len(es) for _, es in c["tables"])
                chk.count("load:entries:" + ("0" if n == 0 else "1" if n == 1 else "2-99" if n < 100
                                             else "100-1022" if n < 1023 else str(n) if n < 1025 else ">1024"))
            why = oracle_load(c, o)
            if why:
                chk.fail_input(why[0], why[1], dict(case=c, observed=o if not isinstance(o, dict) else
                                                    dict(outcome=o["outcome"], trace=o["trace"][:8])))
        chk.note_case(c, nontrivial(c, o))
    mid = [i for i, c in enumerate(cases) if c["kind"] == "trees" and c["wf"] == "valid" and len(c["routes"]) <= 2]
    if mid:
        chk.sample(dict(case=cases[mid[0]], implementation=outs[mid[0]]))
    small = [i for i, c in enumerate(cases) if c["kind"] == "load" and c["wf"] == "valid"
             and sum(len(es) for _, es in c["tables"]) <= 2 and len(c["chips"]) == 1
             and len(c["chips"][0][2]["listed"]) < 8]
    if small:
        o = outs[small[0]]
        chk.sample(dict(case=cases[small[0]], implementation=dict(outcome=o["outcome"], trace=o["trace"])))
    # ------------------------------------------------------------ model
    if chk.model_ok:
        try:
            header = ("From Coq Require Import ZArith List. Import ListNotations. Open Scope Z_scope.\n"
                      "Require Import Rig.Model.Base Rig.Model.Tables Rig.Model.Router.\n"
                      "Require Import Rig.Model.TablesWrapper Rig.Model.RouterProgram.\n")
            groups = {"trees": ([], 80), "load": ([], 16), "big": ([], 1), "history": ([], 8)}
            exprs = {}
            for i, (c, o) in enumerate(zip(cases, outs)):
                if c["kind"] == "history":
                    if not isinstance(o, dict) or not o["ops"]:
                        continue
                    exprs[i] = coq_history_case(c)
                else:
                    exprs[i] = coq_case(c)
                g = "trees" if c["kind"] == "trees" else "history" if c["kind"] == "history" else \
                    "big" if sum(len(es) for _, es in c["tables"]) > 200 else "load"
                groups[g][0].append(i)
            vals = {}
            for g, (idx, shard) in groups.items():
                if idx:
                    vals.update(zip(idx, chk.coq_eval(header, [exprs[i] for i in idx], shard=shard, name=g)))
            bad = 0
            for i, (c, o) in enumerate(zip(cases, outs)):
                if i not in vals:
                    continue
                v = vals[i]
                chk.traces_validated += 1
                if o == ["hang"]:
                    continue
                if c["kind"] == "trees":
                    a, b = canon_trees_model(v), canon_trees_impl(o)
                elif c["kind"] == "history":
                    a, b = canon_history_model(v), canon_history_impl(o)
                else:
                    a, b = canon_load_model(v, c), canon_load_impl(o)
                if a != b:
                    bad += 1
                    if bad <= 3:
                        if c["kind"] == "history":
                            what = "history: model %r, implementation %r" % (str(a)[:600], str(b)[:600])
                            chk.disagree(what, dict(case=c))
                            continue
                        if c["kind"] == "load":
                            ks = [k for k in a if a[k] != b[k]]
                            what = "load: model and implementation differ in %r: model %r, implementation %r" % (
                                ks, str([a[k] for k in ks])[:600], str([b[k] for k in ks])[:600])
                        else:
                            what = "routing_tree_to_tables: model %r, implementation %r" % (str(a)[:600], str(b)[:600])
                        chk.disagree(what, dict(case=c, observed=o if c["kind"] == "trees" else o["outcome"]))
            if not bad:
                nt = sum(1 for c in cases if c["kind"] == "trees")
                chk.oblige("correspondence:routing_tree_to_tables (%d cases, exact tables incl. order of chips "
                           "and entries / exact error)" % nt, True)
                nh = sum(1 for c in cases if c["kind"] == "history")
                chk.oblige("correspondence:load+readback (%d cases: outcome, command trace, router contents, "
                           "free list, staging buffer, decoded read-back)" % (len(cases) - nt - nh), True)
                chk.oblige("correspondence:histories (%d cases: per statement outcome, command trace and read-back, "
                           "final routers)" % nh, True)
        except RuntimeError as e:
            chk.oblige("correspondence:model-evaluates", False, str(e))
    chk.coverage["rule"] = (
        "(i) random sets of 1-6 routing trees (in 3 of 4 cases some or all nodes -- roots, inner nodes, leaf-bearing nodes -- are instances of user-defined subclasses of RoutingTree; in 3 of 10 loads every other entry is an instance of a subclass of RoutingTableEntry) rooted in a 2x2..6x6 area (chains, bushy trees, leaves with core routes, "
        "link routes and no route, repeated routes), nets sharing 1-3 (key, mask) pairs, later trees joining a copy "
        "of an earlier subtree unchanged or with a different fork; every 8th case malformed; plus pairs of nets meeting on a "
        "chip with every two subsets of five kinds of child (96 sampled pairs; all 1024 in the thorough tier); "
        "(ii) loads of 0..60 entries (plus tables of 0, 1, 1022, 1023, 1024, 1025 entries) with random subsets of the "
        "24 route bits incl. none and all, boundary and random 32-bit keys/masks, any app id, onto 1-3 simulated chips "
        "whose routers are fresh, fragmented, shuffled or full, through load_routing_table_entries (positional or "
        "contextual arguments) or load_routing_tables, followed by get_routing_table_entries; every 10th malformed; plus "
        "tables running through every single route, every complement of one and every pair of the 24 routes (every "
        "triple and every table length 0..64 in the thorough tier). "
        "Every other well-formed tree case goes through the deprecated build_routing_tables(omit_default_routes=False / "
        "True) instead of routing_tree_to_tables (same oracle; with True an entry may be absent only where the trees "
        "enter by one link and leave by the opposite one; both compared exactly with the model build_routing_tables). (iii) histories of 2-12 loads / read-backs on one controller "
        "over four chips (two of them full) whose chip and app id come, wholly or partly, from up to three nested "
        "`with controller(...)` blocks, with failing loads caught inside a block or leaving one or more blocks by the "
        "exception, followed by implicitly addressed calls; each call is judged on the chip it addresses lexically; the "
        "model (run_program) itself decides which statements execute and what they address. "
        "non-trivial = well-formed and (trees: >= 2 nets; loads: >= 1 entry; histories: >= 2 statements executed); "
        "distinct by hash of the whole input")
