(* C20, part 6: the tie of the history clause to the source, and the edges of the domain (audit follow-up). *)
From Coq Require Import ZArith List Bool String Lia.
Require Import Rig.Generated.GenBoot Rig.Generated.GenSharedState.
Require Import Rig.Model.Base Rig.Model.Boot Rig.Spec.Boot.
Require Import Rig.Proofs.BootBytes Rig.Proofs.Boot.
Import ListNotations.
Open Scope Z_scope.

(* ------------------------------------------------------------------ the shared default dictionary *)
Definition carrier_is (f k n : string) (w e : Z) (r : string * string * string * Z * Z) : bool :=
  let '(f', k', n', w', e') := r in
  String.eqb f f' && String.eqb k k' && String.eqb n n' && (w =? w') && (e =? e').

Lemma carrier_is_In f k n w e l : existsb (carrier_is f k n w e) l = true -> In (f, k, n, w, e) l.
Proof.
  intros H. apply existsb_exists in H. destruct H as ([[[[f' k'] n'] w'] e'] & Hin & Hc).
  unfold carrier_is in Hc. repeat (apply andb_true_iff in Hc; destruct Hc as [Hc ?]).
  apply String.eqb_eq in Hc. repeat match goal with H : String.eqb _ _ = true |- _ => apply String.eqb_eq in H end.
  repeat match goal with H : (_ =? _) = true |- _ => apply Z.eqb_eq in H end. subst. exact Hin.
Qed.

(* In the CURRENT source (inventory of mutable carriers regenerated from /repo, C17's unit) the dictionary that is
   the default of boot()'s sv_overrides has no write site and does not escape; and boot() itself (ast fact of
   GenBoot) updates a copy.  Both facts are about the source as it is now: with the copy removed, the first
   becomes (1, _), the second false, and this lemma -- hence Props/C20.v -- no longer builds. *)
Lemma shared_default_untouched_in_source :
  In ("rig/machine_control/boot.py", "default", "boot.sv_overrides", 0, 0)%string carriers /\
  boot_copies_overrides = true /\ boot_step = boot_fixed_step /\ initial_shared = [].
Proof.
  split; [apply carrier_is_In; vm_compute; reflexivity|]. repeat split.
Qed.

(* had the copy not been there, the model of the current code would be the model of the code as found *)
Lemma step_follows_source :
  forall st c, boot_step st c = if boot_copies_overrides then boot_fixed_step st c else boot_orig_step st c.
Proof. reflexivity. Qed.

(* ------------------------------------------------------------------ the fixed fields win over an option of the same name *)
Definition clock_option_call : call :=
  mkcall 1 None (repeat 0 512%nat) live_sv (Some [("root_chip"%string, 0)]) [("unix_time"%string, 5)]
         (clock_of [1000; 1001]).

(* boot(h, unix_time=5, sv_overrides={"root_chip": 0}) at time 1000: bytes 384+0x1c.. carry 1000 (0x3e8), byte
   384+0x40 carries 1, and the returned structs say the same *)
Lemma fixed_fields_win :
  firstn 4 (skipn (384 + 28) (reassemble (o_datagrams (boot_alone clock_option_call)))) = [232; 3; 0; 0] /\
  nth (384 + 64) (reassemble (o_datagrams (boot_alone clock_option_call))) 9 = 1 /\
  option_value clock_option_call "unix_time" 0 = 1000 /\ option_value clock_option_call "root_chip" 0 = 1 /\
  (exists fs, o_result (boot_alone clock_option_call) = Ok fs /\
              map f_default (filter (fun f => String.eqb (f_name f) "unix_time" || String.eqb (f_name f) "root_chip") fs)
              = [1000; 1]).
Proof. vm_compute. repeat split. eexists. split; reflexivity. Qed.

(* ------------------------------------------------------------------ images without a whole configuration area *)
(* Outside call_in_domain (which asks for 512 <= len).  What the code does there, as Examples of the model:
   402 bytes (not even word-sized): the boot RETURNS, 512 bytes are sent, bytes 384..401 of the image are lost;
   100 bytes: the boot returns, 228 bytes are sent, the configuration area follows the image instead of sitting
   at 384. *)
Definition short_call (n : nat) : call :=
  mkcall 1 None (repeat 7 n) live_sv None [] (clock_of [1000; 1001]).

Lemma short_images :
  (exists fs, o_result (boot_alone (short_call 402)) = Ok fs) /\
  len (reassemble (o_datagrams (boot_alone (short_call 402)))) = 512 /\
  firstn 384 (reassemble (o_datagrams (boot_alone (short_call 402)))) = repeat 7 384%nat /\
  nth 390 (reassemble (o_datagrams (boot_alone (short_call 402)))) 0 <> 7 /\
  (exists fs, o_result (boot_alone (short_call 100)) = Ok fs) /\
  len (reassemble (o_datagrams (boot_alone (short_call 100)))) = 228 /\
  firstn 100 (reassemble (o_datagrams (boot_alone (short_call 100)))) = repeat 7 100%nat /\
  nth (100 + 12) (reassemble (o_datagrams (boot_alone (short_call 100)))) 0 = 4.
Proof.
  vm_compute. repeat split; try (eexists; reflexivity); discriminate.
Qed.
