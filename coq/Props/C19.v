(* C19 -- SpiNN-5 board geometry functions agree with the board tiling.
   This file holds the property theorems only; each is closed by `exact` of a lemma of Proofs/Board.v.
   The theorems are about Generated/GenBoardTables.v (SPINN5_ETH_OFFSET, SPINN5_FPGA_LINKS, Links: dumped
   from the live module on every run) and Generated/GenBoard.v (the two kernels that index the table,
   translated from the source text), so an edited table cell or index expression is re-checked here.
   The tiling itself (Spec/Board.v) is stated without reference to rig: a board with Ethernet chip e
   holds the chips e + (dx, dy), 0 <= dx, dy <= 7, dy - dx <= 3, dx - dy <= 4; Ethernet chips sit at
   root + (12 i, 12 j) + {(0,0), (4,8), (8,4)}.  All quantifiers range over all integers. *)
From Coq Require Import ZArith List Bool.
Require Import Rig.Generated.GenBoardTables Rig.Generated.GenBoard Rig.Model.Base Rig.Model.Board
               Rig.Spec.Board Rig.Proofs.Board Rig.Model.BoardSqrt Rig.Proofs.BoardSqrt.
Import ListNotations.
Open Scope Z_scope.

(* The described boards tile the plane: every chip lies on exactly one board, whatever the root. *)
Theorem C19_tiling_partition :
  forall root c, exists! e, board_eth root c e.
Proof. exact tiling_partition. Qed.

(* The dumped array is 12 x 12, so the kernels' `% 12` indices never leave it (no IndexError branch). *)
Theorem C19_eth_table_is_12x12 :
  length SPINN5_ETH_OFFSET = 12%nat /\ Forall (fun r => length r = 12%nat) SPINN5_ETH_OFFSET.
Proof. exact eth_table_is_12x12. Qed.

(* Local Ethernet chip, torus machines (width and height positive multiples of 12): for every chip of
   the machine and every root, the reported chip is inside the machine, is an Ethernet chip, has the
   given chip on its board (offsets taken around the torus), and is the only such chip. *)
Theorem C19_local_eth_is_board_eth :
  forall w h rx ry x y,
    full_torus w h -> in_machine w h (x, y) ->
    exists e, spinn5_local_eth_coord x y w h rx ry = Ok e /\
              in_machine w h e /\ is_eth (rx, ry) e /\ on_board_torus w h e (x, y) /\
              (forall e', in_machine w h e' -> is_eth (rx, ry) e' -> on_board_torus w h e' (x, y) -> e' = e).
Proof. exact local_eth_is_board_eth_torus. Qed.

(* Local Ethernet chip, any non-zero dimensions (ragged machines included): the result is the Ethernet
   chip of the chip's board in the unbounded tiling, reduced mod (w, h) ... *)
Theorem C19_local_eth_is_wrapped_board_eth :
  forall x y w h rx ry e,
    w <> 0 -> h <> 0 -> board_eth (rx, ry) (x, y) e ->
    spinn5_local_eth_coord x y w h rx ry = Ok (wrap w h e).
Proof. exact local_eth_is_wrapped_board_eth. Qed.

(* ... hence, in a ragged machine, exactly that chip whenever it lies inside the machine (the explicit
   guard: a board whose Ethernet chip is outside a ragged machine has no local Ethernet chip in it). *)
Theorem C19_local_eth_ragged :
  forall x y w h rx ry e,
    board_eth (rx, ry) (x, y) e -> in_machine w h e ->
    spinn5_local_eth_coord x y w h rx ry = Ok e.
Proof. exact local_eth_ragged. Qed.

(* the error branch: a zero dimension is a ZeroDivisionError *)
Theorem C19_local_eth_zero_dimension :
  forall x y w h rx ry, w = 0 \/ h = 0 -> spinn5_local_eth_coord x y w h rx ry = OtherError.
Proof. exact local_eth_zero_dim. Qed.

(* The on-board coordinate is the offset from the board's Ethernet chip. *)
Theorem C19_chip_coord_is_offset :
  forall x y rx ry e,
    board_eth (rx, ry) (x, y) e -> spinn5_chip_coord x y rx ry = Ok (x - fst e, y - snd e).
Proof. exact chip_coord_is_offset. Qed.

(* The generator yields exactly the Ethernet chips inside the machine, each once, for every width,
   height (multiples of 12 or not, zero and negative too: then nothing) and every root. *)
Theorem C19_eth_coords_exact :
  forall width height rx ry,
    NoDup (spinn5_eth_coords width height rx ry) /\
    forall e, In e (spinn5_eth_coords width height rx ry) <->
              (in_machine width height e /\ is_eth (rx, ry) e).
Proof. exact eth_coords_exact. Qed.

(* A link is reported as an FPGA link exactly when it leaves the chip's board.  l ranges over all
   integers: for numbers that are not links nothing is reported and nothing leaves. *)
Theorem C19_fpga_link_iff_leaves_board :
  forall x y l rx ry e,
    board_eth (rx, ry) (x, y) e ->
    exists r, spinn5_fpga_link x y l rx ry = Ok r /\
              (r <> None <-> link_leaves_board e (x, y) l).
Proof. exact fpga_link_iff_leaves_board. Qed.

(* Distinct FPGA link numbers: equal reported numbers mean the same on-board position and link ... *)
Theorem C19_fpga_link_injective :
  forall x1 y1 l1 x2 y2 l2 rx ry f,
    spinn5_fpga_link x1 y1 l1 rx ry = Ok (Some f) -> spinn5_fpga_link x2 y2 l2 rx ry = Ok (Some f) ->
    spinn5_chip_coord x1 y1 rx ry = spinn5_chip_coord x2 y2 rx ry /\ l1 = l2.
Proof. exact fpga_link_injective. Qed.

(* ... so on one board no two links share a number. *)
Theorem C19_fpga_link_distinct_on_board :
  forall x1 y1 l1 x2 y2 l2 rx ry e f,
    board_eth (rx, ry) (x1, y1) e -> board_eth (rx, ry) (x2, y2) e ->
    spinn5_fpga_link x1 y1 l1 rx ry = Ok (Some f) -> spinn5_fpga_link x2 y2 l2 rx ry = Ok (Some f) ->
    (x1, y1, l1) = (x2, y2, l2).
Proof. exact fpga_link_distinct_on_board. Qed.

(* rig's Links enumeration and Links.to_vector are the link numbering used by the description. *)
Theorem C19_links_agree :
  Links_all = [0; 1; 2; 3; 4; 5] /\
  map (fun p => (fst p, Some (snd p))) Links_to_vector = map (fun l => (l, link_vector l)) Links_all.
Proof. exact links_agree. Qed.

(* Standard dimensions.  The float step first: over IEEE-754 binary64 (Flocq: float(k) rounded to
   nearest even, correctly rounded square root, truncation), int(math.sqrt(k)) is the integer square root
   for every 0 <= k < 2^52.  (These theorems use the Reals library; Print Assumptions lists its axioms.
   Every other theorem of this file is closed under the global context.) *)
Theorem C19_float_isqrt_exact :
  forall k, 0 <= k < 2 ^ 52 -> float_isqrt_f k = Ok (Z.sqrt k).
Proof. exact float_isqrt_exact. Qed.

(* For n = 3 k boards, 1 <= k < 2^52 (the stated bound; beyond it the double square root may be off by
   one), the binary64 model of the code returns 12 x the squarest arrangement of k three-board units. *)
Theorem C19_standard_dims_squarest :
  forall n k, 1 <= k < 2 ^ 52 -> n = 3 * k ->
    exists a b, standard_system_dimensions_f n = Ok (a * 12, b * 12) /\ squarest k a b.
Proof. exact standard_dims_f_squarest. Qed.

Theorem C19_standard_dims_special :
  standard_system_dimensions_f 0 = Ok (0, 0) /\ standard_system_dimensions_f 1 = Ok (8, 8).
Proof. exact standard_dims_f_special. Qed.

(* every other board count is the ValueError *)
Theorem C19_standard_dims_error :
  forall n, n <> 0 -> n <> 1 -> n mod 3 <> 0 \/ n < 0 -> standard_system_dimensions_f n = Failed 0.
Proof. exact standard_dims_f_error. Qed.

(* The same with an exact integer square root in place of the float: no bound on k, and no axiom. *)
Theorem C19_standard_dims_models_agree :
  forall n, n / 3 < 2 ^ 52 -> standard_system_dimensions_f n = standard_system_dimensions n.
Proof. exact standard_dims_f_eq. Qed.

Theorem C19_standard_dims_squarest_zsqrt :
  forall n k, 1 <= k -> n = 3 * k ->
    exists a b, standard_system_dimensions n = Ok (a * 12, b * 12) /\ squarest k a b.
Proof. exact standard_dims_squarest. Qed.

Theorem C19_standard_dims_special_zsqrt :
  standard_system_dimensions 0 = Ok (0, 0) /\ standard_system_dimensions 1 = Ok (8, 8).
Proof. exact standard_dims_special. Qed.

Theorem C19_standard_dims_error_zsqrt :
  forall n, n <> 0 -> n <> 1 -> n mod 3 <> 0 \/ n < 0 -> standard_system_dimensions n = Failed 0.
Proof. exact standard_dims_error. Qed.

(* The budgeted loop used to evaluate the models on very large board counts answers as the models do. *)
Theorem C19_standard_dims_gas_correct :
  forall gas n, standard_system_dimensions_gas gas n <> OutOfFuel ->
                standard_system_dimensions_gas gas n = standard_system_dimensions n.
Proof. exact standard_dims_gas_correct. Qed.

Theorem C19_standard_dims_f_gas_correct :
  forall gas n, standard_system_dimensions_f_gas gas n <> OutOfFuel ->
                standard_system_dimensions_f_gas gas n = standard_system_dimensions_f n.
Proof. exact standard_dims_f_gas_correct. Qed.

(* A generator of spinn5_eth_coords that is not run to the end (next() n times, a loop left with break):
   the n results are distinct Ethernet chips of the machine, n of them unless fewer exist.  The functions
   keep no state (inventory obligation of the dumper), so this holds whatever happened before. *)
Theorem C19_eth_coords_take_spec :
  forall n width height rx ry,
    NoDup (eth_coords_take n width height rx ry) /\
    (forall e, In e (eth_coords_take n width height rx ry) -> in_machine width height e /\ is_eth (rx, ry) e) /\
    length (eth_coords_take n width height rx ry) = Nat.min n (length (spinn5_eth_coords width height rx ry)).
Proof. exact eth_coords_take_spec. Qed.

(* `c in spinn5_eth_coords(...)` *)
Theorem C19_eth_coords_contains_spec :
  forall c width height rx ry,
    eth_coords_contains c width height rx ry = true <-> (in_machine width height c /\ is_eth (rx, ry) c).
Proof. exact eth_coords_contains_spec. Qed.

(* Ragged machines whose board's Ethernet chip is not in the machine (in particular machines smaller than
   a board) are outside the property; there the function still names a chip of the machine. *)
Theorem C19_local_eth_in_machine :
  forall x y w h rx ry, 0 < w -> 0 < h ->
    exists e, spinn5_local_eth_coord x y w h rx ry = Ok e /\ in_machine w h e.
Proof. exact local_eth_in_machine. Qed.

(* numpy signed integer scalars (int8 ... int64) as arguments: every value that takes part in fixed-width
   arithmetic inside the two kernels -- the list is extracted from the source on every run -- fits the
   dtype when the arguments fit and are not negative, so wrapping arithmetic computes the model's value. *)
Theorem C19_chip_coord_steps_fit :
  forall N x y rx ry, 8 <= N ->
    0 <= x < 2 ^ (N - 1) -> 0 <= y < 2 ^ (N - 1) -> 0 <= rx < 2 ^ (N - 1) -> 0 <= ry < 2 ^ (N - 1) ->
    Forall (fits N) (spinn5_chip_coord_steps x y rx ry).
Proof. exact chip_coord_steps_fit. Qed.

Theorem C19_local_eth_steps_fit :
  forall N x y w h rx ry, 8 <= N ->
    0 <= x < 2 ^ (N - 1) -> 0 <= y < 2 ^ (N - 1) -> 0 < w < 2 ^ (N - 1) -> 0 < h < 2 ^ (N - 1) ->
    0 <= rx < 2 ^ (N - 1) -> 0 <= ry < 2 ^ (N - 1) ->
    Forall (fits N) (spinn5_local_eth_coord_steps x y w h rx ry).
Proof. exact local_eth_steps_fit. Qed.

(* The two functions tied together: whenever the board's Ethernet chip is in the machine, the local
   Ethernet chip reported for a chip is one of the listed Ethernet coordinates (on a torus: always). *)
Theorem C19_local_eth_in_eth_coords :
  forall x y w h rx ry e,
    board_eth (rx, ry) (x, y) e -> in_machine w h e ->
    spinn5_local_eth_coord x y w h rx ry = Ok e /\ In e (spinn5_eth_coords w h rx ry).
Proof. exact local_eth_in_eth_coords. Qed.

Theorem C19_local_eth_in_eth_coords_torus :
  forall w h rx ry x y,
    full_torus w h -> in_machine w h (x, y) ->
    exists e, spinn5_local_eth_coord x y w h rx ry = Ok e /\ In e (spinn5_eth_coords w h rx ry).
Proof. exact local_eth_in_eth_coords_torus. Qed.

(* Non-vacuity. *)
Example C19_eth_coords_instances :
  spinn5_eth_coords 24 12 3 5 = [(3, 5); (7, 1); (11, 9); (15, 5); (19, 1); (23, 9)] /\
  spinn5_eth_coords 16 20 0 0 = [(0, 0); (4, 8); (8, 4); (0, 12); (8, 16); (12, 0); (12, 12)].
Proof. exact ex_eth_lists. Qed.

(* The guard of C19_local_eth_ragged is needed: in the 8 x 8 machine of one board, position (5, 0) of the
   bounding box lies on the board whose Ethernet chip (4, -4) is not in the machine; the function answers
   (4, 4), which is neither that chip nor an Ethernet chip nor in the list. *)
Example C19_ragged_guard_is_needed :
  in_machine 8 8 (5, 0) /\ board_eth (0, 0) (5, 0) (4, -4) /\ ~ in_machine 8 8 (4, -4) /\
  spinn5_local_eth_coord 5 0 8 8 0 0 = Ok (4, 4) /\ ~ is_eth (0, 0) (4, 4) /\
  ~ In (4, 4) (spinn5_eth_coords 8 8 0 0).
Proof. exact ex_ragged_outside. Qed.

Example C19_board_eth_satisfiable : board_eth (3, 5) (10, 9) (3, 5).
Proof. exact ex_board_eth. Qed.

Example C19_torus_hypotheses_satisfiable :
  full_torus 24 12 /\ in_machine 24 12 (4, 2) /\ board_eth (3, 5) (4, 2) (-1, -3) /\
  spinn5_local_eth_coord 4 2 24 12 3 5 = Ok (23, 9) /\ spinn5_chip_coord 4 2 3 5 = Ok (5, 5).
Proof. exact ex_torus. Qed.

Example C19_link_leaves_board_satisfiable :
  link_leaves_board (0, 0) (0, 0) 3 /\ spinn5_fpga_link 0 0 3 0 0 = Ok (Some (1, 1)) /\
  ~ link_leaves_board (0, 0) (0, 0) 0 /\ spinn5_fpga_link 0 0 0 0 0 = Ok None.
Proof. exact ex_links. Qed.

Example C19_standard_dims_instance :
  standard_system_dimensions 18 = Ok (36, 24) /\ squarest 6 3 2.
Proof. exact ex_dims. Qed.

Example C19_big_board_count_instance :
  standard_system_dimensions_f_gas 100 (3 * ((2 ^ 27 + 1) * (2 ^ 27 + 3)))
  = Ok ((2 ^ 27 + 3) * 12, (2 ^ 27 + 1) * 12).
Proof. vm_compute. reflexivity. Qed.

Example C19_standard_dims_float_instance :
  standard_system_dimensions_f 18 = Ok (36, 24) /\ float_isqrt_f 4503599627370495 = Ok 67108863.
Proof. split; vm_compute; reflexivity. Qed.
