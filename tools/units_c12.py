UNITS = {
    # Integer kernels of rig/machine_control/regions.py, translated from the source text by
    # tools/dump_c12.py (which drives the expression translator of tools/py2v.py; nothing is imported).
    "GenRegions": dict(
        props=["C12"],
        dumper="dump_c12.py", args=[]),
}
