(* C07: fill, both branches -- the unaligned fill is a write of `size` copies of the byte; the aligned fill
   is one FILL command that leaves size / 4 copies of the little-endian word. *)
From Coq Require Import ZArith List Bool Lia.
Require Import Rig.Generated.GenMemOps Rig.Generated.GenSCP Rig.Model.Base Rig.Model.Machine Rig.Model.MemOps
  Rig.Spec.MemOps Rig.Proofs.MemOpsArith Rig.Proofs.MemOps Rig.Proofs.MemOpsChunks Rig.Proofs.MemOpsExact
  Rig.Proofs.MemOpsTop.
Import ListNotations.
Open Scope Z_scope.
Ltac Zify.zify_post_hook ::= Z.to_euclidean_division_equations.

Lemma fill_aligned_iff : forall address size,
  fill_uses_write address size = false <-> size mod 4 = 0 /\ address mod 4 = 0.
Proof.
  intros address size. unfold fill_uses_write. rewrite orb_false_iff, !negb_false_iff, !Z.eqb_eq. tauto.
Qed.

Lemma concat_le_length : forall w k, length (concat (repeat (le_bytes w) k)) = (4 * k)%nat.
Proof.
  intros w k. induction k as [|k IH]; cbn [repeat concat]; [reflexivity|].
  rewrite app_length, IH. cbn [le_bytes length]. lia.
Qed.

Lemma concat_le_nth : forall w k i, 0 <= i < 4 * Z.of_nat k ->
  nth (Z.to_nat i) (concat (repeat (le_bytes w) k)) 0 = word_byte w (i mod 4).
Proof.
  intros w k. induction k as [|k IH]; intros i Hi; [lia|].
  cbn [repeat concat].
  destruct (Z_lt_dec i 4) as [Hlt | Hge].
  - assert (C : i = 0 \/ i = 1 \/ i = 2 \/ i = 3) by lia.
    destruct C as [-> | [-> | [-> | ->]]]; reflexivity.
  - rewrite app_nth2 by (cbn [le_bytes length]; lia).
    cbn [le_bytes length]. replace (Z.to_nat i - 4)%nat with (Z.to_nat (i - 4)) by lia.
    rewrite IH by lia. f_equal. lia.
Qed.

Lemma fill_bytes_word_length : forall address data size,
  0 <= size -> fill_uses_write address size = false -> zlen (fill_bytes address data size) = size.
Proof.
  intros address data size Hs Hf. unfold fill_bytes. rewrite Hf.
  apply fill_aligned_iff in Hf. destruct Hf as [Hm _].
  unfold zlen. rewrite concat_le_length. lia.
Qed.

(* the FILL command on aligned arguments, pointwise *)
Lemma mem_fill_aligned : forall m a w size x, a mod 4 = 0 -> size mod 4 = 0 ->
  mem_fill m a w size x =
  if (a <=? x) && (x <? a + size) then word_byte w ((x - a) mod 4) else m x.
Proof.
  intros m a w size x Ha Hs. unfold mem_fill.
  destruct (acc_aligned a size 4 ltac:(lia) Ha Hs) as [-> ->].
  destruct (a <=? x) eqn:E1; destruct (x <? a + size) eqn:E2;
    destruct (0 <=? x - a) eqn:E3; destruct (x - a <? size) eqn:E4; cbn [andb]; try reflexivity;
    try apply Z.leb_le in E1; try apply Z.leb_gt in E1; try apply Z.ltb_lt in E2; try apply Z.ltb_ge in E2;
    try apply Z.leb_le in E3; try apply Z.leb_gt in E3; try apply Z.ltb_lt in E4; try apply Z.ltb_ge in E4; lia.
Qed.

Lemma mc_fill_exact : forall buffer nbr M c core address data size,
  1 <= buffer < 2 ^ 32 -> 0 <= address < 2 ^ 32 -> 0 <= size < 2 ^ 32 -> address + size <= 2 ^ 32 ->
  (fill_uses_write address size = true -> 0 <= data <= 255) ->
  (fill_uses_write address size = false -> 0 <= data < 2 ^ 32) ->
  exists tr M', mc_fill (mk_env buffer nbr) M c core address data size = Ok (tr, M') /\
                stored_exactly M M' c address (fill_bytes address data size) /\ trace_ok buffer tr /\
                Forall (fun r => rq_chip r = c) tr.
Proof.
  intros buffer nbr M c core address data size Hb Ha Hs Htop Hbyte Hword.
  unfold mc_fill, fill_bytes. destruct (fill_uses_write address size) eqn:Ef.
  - specialize (Hbyte eq_refl).
    destruct (data <? 0) eqn:E1; [apply Z.ltb_lt in E1; lia|].
    destruct (255 <? data) eqn:E2; [apply Z.ltb_lt in E2; lia|]. cbn [orb].
    apply sc_write_exact; try lia. rewrite zlen_repeat. lia.
  - specialize (Hword eq_refl).
    pose proof (fill_bytes_word_length address data size ltac:(lia) Ef) as Hlen.
    unfold fill_bytes in Hlen. rewrite Ef in Hlen.
    apply fill_aligned_iff in Ef. destruct Ef as [Hms Hma].
    unfold fill_call. cbv beta iota.
    unfold issue. cbn [c_code c_arg1 c_arg2 c_arg3 c_data].
    rewrite (u32_true address), (u32_true data), (u32_true size) by lia. cbn [andb].
    assert (D : decode_cmd SCPCommands_fill address data size [] = Some (CFill address data size))
      by reflexivity.
    rewrite D. unfold exec. cbn [rq_cmd rq_chip]. cbn [bind].
    eexists. eexists. split; [reflexivity|]. split; [|split].
    + apply (stored_exactly_of_pointwise M _ c address _
               (fun x => (address <=? x) && (x <? address + size))).
      * intros x. rewrite Hlen. rewrite andb_true_iff, Z.leb_le, Z.ltb_lt. tauto.
      * intros c' x. rewrite set_chip_at.
        destruct (chip_eqb c' c) eqn:Ec; cbn [andb]; [|reflexivity].
        apply chip_eqb_eq in Ec. subst c'.
        rewrite mem_fill_aligned by assumption.
        destruct ((address <=? x) && (x <? address + size)) eqn:Er; [|reflexivity].
        apply andb_true_iff in Er. destruct Er as [E1 E2]. apply Z.leb_le in E1. apply Z.ltb_lt in E2.
        rewrite concat_le_nth by lia. reflexivity.
    + constructor; [|constructor]. cbn [rq_cmd]. split.
      * unfold cmd_within, cmd_len. lia.
      * cbn [cmd_aligned]. split; assumption.
    + constructor; [reflexivity | constructor].
Qed.
