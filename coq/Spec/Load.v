(* What C09 asks of application loading, stated on the application map, the machine before and after,
   the outcome and the packets sent.  Definitions only.  The packet fields are read here as the machine
   reads them (division and remainder, Model/Load.v [field]), not with the shifts of the code. *)
From Coq Require Import ZArith List Bool Sorted.
Require Import Rig.Generated.GenLoad Rig.Model.Base Rig.Model.Regions Rig.Spec.Regions Rig.Model.Load.
Import ListNotations.
Open Scope Z_scope.

(* ---------------------------------------------------------------- the id of a fill *)
(* n-fold application of the id update of _get_next_nn_id *)
Fixpoint nn_iter (n : nat) (v : Z) : Z :=
  match n with O => v | S k => next_nn_id (nn_iter k v) end.

(* ---------------------------------------------------------------- cores and what they hold *)
(* the state of core (x, y, p) *)
Definition core_at (m : machine) (c : core) : option core_st :=
  let '(x, y, p) := c in
  if p <? 0 then None else
  match cassoc (x, y) (m_chips m) with
  | Some ch => nth_error (ch_cores ch) (Z.to_nat p)
  | None => None
  end.

(* the (binary, core) pairs of an application map, in map order *)
Definition named (am : appmap) : list (Z * core) :=
  flat_map (fun bt => map (fun c => (fst bt, c)) (cores_of_targets (snd bt))) am.

(* core c holds the complete binary number b under app id [app] in state [st] *)
Definition holds (bins : list (list Z)) (m : machine) (app st b : Z) (c : core) : Prop :=
  exists data, nth_error bins (Z.to_nat b) = Some data /\ core_at m c = Some (mkCore st app data).

Definition in_wait (m : machine) (c : core) : Prop :=
  exists s, core_at m c = Some s /\ cs_state s = STATE_WAIT.

(* ---------------------------------------------------------------- guards *)
Definition core_wf (c : core_st) : Prop := 0 <= cs_state c < 256 /\ 0 <= cs_app c < 256.

(* a machine as the loader expects it: distinct chips, vcpu fields are bytes, the vcpu blocks of each chip (their base
   may differ from chip to chip) do not overlap the two sv words, the buffer holds between one and 256 words *)
Definition machine_wf (m : machine) : Prop :=
  NoDup (map fst (m_chips m))
  /\ (forall c s, core_at m c = Some s -> core_wf s)
  /\ (forall xy, In xy (map fst (m_chips m)) ->
        m_vcpu m xy + VCPU_SIZE * N_CORES <= SV_BASE \/ SV_BASE + 256 <= m_vcpu m xy)
  /\ (forall xy, In xy (map fst (m_chips m)) -> 0 <= m_vcpu m xy < 2 ^ 32) /\ 0 <= m_base m < 2 ^ 32
  /\ 4 <= m_buffer m <= 1024 /\ m_buffer m mod 4 = 0.

(* the binaries are whole words and need at most 255 blocks *)
Definition binary_ok (buffer : Z) (data : list Z) : Prop :=
  zlen data mod 4 = 0 /\ ff_n_blocks (zlen data) buffer <= 255.

Definition bins_ok (buffer : Z) (bins : list (list Z)) : Prop := Forall (binary_ok buffer) bins.

(* every core is named for at most one binary, is a core of the 256 x 256 x 18 space and does not sit on
   the broadcast address *)
Definition map_wf (am : appmap) : Prop :=
  NoDup (map snd (named am))
  /\ (forall b x y p, In (b, (x, y, p)) (named am) -> in_space (x, y, p) /\ ~ (x = 255 /\ y = 255)).

(* the controller's cache of the buffer size, if filled, is the machine's; its fill id is in range *)
Definition ctrl_wf (c : ctrl) (m : machine) : Prop :=
  0 <= c_nn c <= 126 /\ (c_buffer c = None \/ c_buffer c = Some (m_buffer m)).

(* the two regions in which the property is refuted *)
(* (1) a requested core is already in `wait` (from an earlier load) *)
Definition no_requested_waiting (m : machine) (am : appmap) : Prop :=
  forall b c, In (b, c) (named am) -> ~ in_wait m c.
(* (2) count mode: another core is in `wait` under the same app id *)
Definition no_other_waiting (m : machine) (am : appmap) (app : Z) : Prop :=
  forall c s, ~ In c (map snd (named am)) -> core_at m c = Some s ->
    ~ (cs_state s = STATE_WAIT /\ cs_app s = app).

(* ---------------------------------------------------------------- a well formed flood fill *)
Definition is_nn (op : Z) (q : pkt) : Prop := q_cmd q = CMD_NNP /\ field (q_a1 q) 24 8 = op.
Definition is_ffd (q : pkt) : Prop := q_cmd q = CMD_FFD.
Definition is_read (q : pkt) : Prop := q_cmd q = CMD_READ.

(* the key by which core selections must increase: (region << 18) | core mask *)
Definition sel_key (q : pkt) : Z := q_a2 q * 2 ^ 18 + field (q_a1 q) 0 18.

(* the data packets number the blocks block, block + 1, ..., each holds the words it announces, at
   most a buffer-full, and is loaded where the previous one ended *)
Fixpoint blocks_ok (buffer pid block addr : Z) (ds : list pkt) : Prop :=
  match ds with
  | [] => True
  | q :: r =>
      is_ffd q /\ field (q_a1 q) 0 8 = pid /\ field (q_a2 q) 16 8 = block
      /\ 4 * (field (q_a2 q) 8 8 + 1) = zlen (q_data q) /\ zlen (q_data q) <= buffer
      /\ q_a3 q = addr
      /\ blocks_ok buffer pid (block + 1) (addr + zlen (q_data q)) r
  end.

(* the parts of one fill of [data]: start, core selections in increasing order, (the read of the load
   address,) data blocks, end; announced count = blocks sent; the blocks reassemble to the binary *)
Definition ff_parts (buffer base : Z) (data : list Z) (ffs : pkt) (sels : list pkt) (rd : pkt)
           (ds : list pkt) (ffe : pkt) : Prop :=
  is_nn NN_FFS ffs /\ Forall (is_nn NN_FFCS) sels /\ is_read rd /\ is_nn NN_FFE ffe
  /\ field (q_a1 ffs) 8 8 = zlen ds
  /\ blocks_ok buffer (field (q_a1 ffs) 16 8) 0 base ds
  /\ concat (map q_data ds) = data
  /\ field (q_a1 ffe) 0 8 = field (q_a1 ffs) 16 8
  /\ StronglySorted (fun a b => sel_key a < sel_key b) sels.

Definition ff_wellformed (buffer base : Z) (data : list Z) (ps : list pkt) : Prop :=
  exists ffs sels rd ds ffe,
    ps = [ffs] ++ sels ++ [rd] ++ ds ++ [ffe] /\ ff_parts buffer base data ffs sels rd ds ffe.

(* the cores a list of core select packets selects *)
Definition sels_select (sels : list pkt) (c : core) : bool :=
  let '(x, y, p) := c in
  existsb (fun q => pair_selects (q_a2 q, field (q_a1 q) 0 18) x y p) sels.

(* the packets sent so far, oldest first *)
Definition sent (w : world) : list pkt := rev (map fst (w_log w)).

(* ---------------------------------------------------------------- the packets of a whole flood fill *)
Definition is_ffcs_b (q : pkt) : bool := (q_cmd q =? CMD_NNP) && (field (q_a1 q) 24 8 =? NN_FFCS).
(* the core select packets among the packets of a fill *)
Definition ffcs_of (ps : list pkt) : list pkt := filter is_ffcs_b ps.

(* flood-filling a map sends, for each entry in map order, one well formed fill of the entry's binary whose
   core select packets select exactly the cores of the entry (the sver query, which asks for the buffer
   size, may stand before a fill: it is sent once, by a controller that has not asked yet) *)
Fixpoint fills_ok (buffer base : Z) (bins : list (list Z)) (am : appmap) (ps : list pkt) : Prop :=
  match am with
  | [] => ps = []
  | (b, ts) :: r =>
      exists data pre one rest,
        nth_error bins (Z.to_nat b) = Some data
        /\ (pre = [] \/ exists q, pre = [q] /\ q_cmd q = CMD_VER)
        /\ ps = pre ++ one ++ rest
        /\ ff_wellformed buffer base data one
        /\ (forall x y p, sels_select (ffcs_of one) (x, y, p) = requested (cores_of_targets ts) x y p)
        /\ fills_ok buffer base bins r rest
  end.

(* ---------------------------------------------------------------- guards of "no other exception" *)
(* the machine has a chip to talk to, its vcpu blocks lie in the 32-bit address space, every core is in
   a state that rig's AppState enumeration knows *)
Definition machine_answers (m : machine) : Prop :=
  m_chips m <> [] /\ (forall xy, In xy (map fst (m_chips m)) -> m_vcpu m xy + VCPU_SIZE * N_CORES <= 2 ^ 32)
  /\ (forall c s, core_at m c = Some s -> is_member (cs_state s) AppState_members = true).

(* the files exist and fit the address space at the load address; the requested chips exist *)
Definition map_present (bins : list (list Z)) (m : machine) (am : appmap) : Prop :=
  (forall b, In b (map fst am) ->
     exists data, nth_error bins (Z.to_nat b) = Some data /\ m_base m + zlen data <= 2 ^ 32)
  /\ (forall b x y p, In (b, (x, y, p)) (named am) -> In (x, y) (map fst (m_chips m))).

(* ---------------------------------------------------------------- the attempts of load_application *)
(* an attempt is addressed to exactly the named cores that do not hold their binary at that moment *)
Definition att_ok (bins : list (list Z)) (aid : Z) (am : appmap) (um : appmap * machine) : Prop :=
  incl (named (fst um)) (named am)
  /\ forall b c, In (b, c) (named am) ->
       (In (b, c) (named (fst um)) <-> ~ holds bins (snd um) aid STATE_WAIT b c).


(* a packet that is not part of a flood fill (sver, read, signal / count) *)
Definition not_fill_pkt (q : pkt) : Prop := q_cmd q <> CMD_NNP /\ q_cmd q <> CMD_FFD.

(* the packets of a load_application call, attempt by attempt: the flood fill of the map the attempt is addressed
   to (one well formed fill per entry selecting exactly the entry's cores, [fills_ok]), then only packets that
   are not flood-fill packets (the verification: count and / or per-core reads) up to the next attempt; after the
   last attempt only such packets (the start signal) *)
Fixpoint attempts_ok (buffer base : Z) (bins : list (list Z)) (atts : list (appmap * machine)) (ps : list pkt) : Prop :=
  match atts with
  | [] => Forall not_fill_pkt ps
  | um :: r =>
      exists fills ver rest,
        ps = fills ++ ver ++ rest
        /\ fills_ok buffer base bins (fst um) fills
        /\ Forall not_fill_pkt ver
        /\ attempts_ok buffer base bins r rest
  end.
