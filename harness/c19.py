"""C19 -- SpiNN-5 board geometry: theorems (Props/C19.v) about the tables dumped from the live module and
the translated kernels + correspondence model vs rig.geometry + an independent oracle that builds the
board tiling explicitly from its description (48-chip hexagon, three Ethernet chips per 12 x 12 cell)."""
import json
import lib
from lib import zlit, vlist

LEVEL = "proof"
UNITS = ["GenBoardTables", "GenBoard"]

# ------------------------------------------------------------------ independent description of the tiling
ETH = ((0, 0), (4, 8), (8, 4))                       # Ethernet chips of a 12 x 12 cell, relative to the root
SHAPE = [(dx, dy) for dx in range(8) for dy in range(8) if dy - dx <= 3 and dx - dy <= 4]   # the 48 chips
LINK_VEC = {0: (1, 0), 1: (1, 1), 2: (0, 1), 3: (-1, 0), 4: (-1, -1), 5: (0, -1)}          # hardware numbering
assert len(SHAPE) == 48


def build_tiling(w, h, rx, ry):
    """chip -> Ethernet chip of its board, for every chip of [-1, w] x [-1, h] (the machine and the
    neighbours of its chips) in the unbounded tiling anchored at the root; and the Ethernet chips."""
    board = {}
    eths = set()
    for i in range((-rx - 24) // 12, (w - rx + 24) // 12 + 1):
        for j in range((-ry - 24) // 12, (h - ry + 24) // 12 + 1):
            for d in ETH:
                e = (rx + 12 * i + d[0], ry + 12 * j + d[1])
                eths.add(e)
                for dx, dy in SHAPE:
                    board.setdefault((e[0] + dx, e[1] + dy), []).append(e)
    for x in range(-1, w + 1):
        for y in range(-1, h + 1):
            if len(board.get((x, y), ())) != 1:
                raise AssertionError("oracle: the described boards do not tile the plane at %r" % ((x, y),))
    return {c: es[0] for c, es in board.items() if len(es) == 1}, eths


def oracle_machine(c, out):
    """-> list of (key, what) : sentences of C19 violated by the implementation's outputs."""
    if out[0] == "hang":
        return [("hang", "a geometry function did not return within the time limit")]
    if out[0] != "ok":
        return [("exception", "a geometry function raised %s on a machine of %dx%d chips, root (%d,%d)"
                 % (out[1], c["w"], c["h"], c["rx"], c["ry"]))]
    w, h, rx, ry = c["w"], c["h"], c["rx"], c["ry"]
    board, eths = build_tiling(w, h, rx, ry)
    torus = w % 12 == 0 and h % 12 == 0
    flat, eth_list = out[1], out[2]
    bad = []
    per_board = {}
    k = 0
    for x in range(w):
        for y in range(h):
            ex, ey, bx, by = flat[k:k + 4]
            fp = flat[k + 4:k + 10]
            k += 10
            e = board[(x, y)]
            if torus:
                want = (e[0] % w, e[1] % h)
            elif 0 <= e[0] < w and 0 <= e[1] < h:
                want = e
            else:
                want = None           # ragged machine, the board's Ethernet chip is not in the machine
            if want is not None and (ex, ey) != want and not any(b[0] == "local_eth" for b in bad):
                bad.append(("local_eth", "spinn5_local_eth_coord(%d,%d,%d,%d,%d,%d) = %r, the Ethernet chip of the "
                            "board containing the chip is %r" % (x, y, w, h, rx, ry, (ex, ey), want)))
            if (bx, by) != (x - e[0], y - e[1]) and not any(b[0] == "chip_coord" for b in bad):
                bad.append(("chip_coord", "spinn5_chip_coord(%d,%d,%d,%d) = %r, the offset from the board's Ethernet "
                            "chip %r is %r" % (x, y, rx, ry, (bx, by), e, (x - e[0], y - e[1]))))
            for l in range(6):
                n = (x + LINK_VEC[l][0], y + LINK_VEC[l][1])
                leaves = board[n] != e
                if (fp[l] != -1) != leaves and not any(b[0] == "fpga_iff" for b in bad):
                    bad.append(("fpga_iff", "spinn5_fpga_link(%d,%d,%d,%d,%d) is %s but the link %s its board"
                                % (x, y, l, rx, ry, "None" if fp[l] == -1 else "an FPGA link",
                                   "leaves" if leaves else "stays on")))
                if fp[l] != -1:
                    prev = per_board.setdefault(e, {}).setdefault(fp[l], (x, y, l))
                    if prev != (x, y, l) and not any(b[0] == "fpga_distinct" for b in bad):
                        bad.append(("fpga_distinct", "links %r and %r of the board at %r report the same FPGA link (%d, %d)"
                                    % (prev, (x, y, l), e, fp[l] // 65536, fp[l] % 65536)))
    want_eth = sorted(e for e in eths if 0 <= e[0] < w and 0 <= e[1] < h)
    got = sorted(tuple(e) for e in eth_list)
    if got != want_eth:
        bad.append(("eth_coords", "spinn5_eth_coords(%d,%d,%d,%d) yields %r, the Ethernet chips inside the machine are %r"
                    % (w, h, rx, ry, got[:40], want_eth[:40])))
    return bad


def near_board_eth(x, y, rx, ry):
    """The board's Ethernet chip for one chip of the unbounded tiling (search of the neighbourhood)."""
    found = []
    for i in range((x - rx) // 12 - 2, (x - rx) // 12 + 2):
        for j in range((y - ry) // 12 - 2, (y - ry) // 12 + 2):
            for d in ETH:
                e = (rx + 12 * i + d[0], ry + 12 * j + d[1])
                if (x - e[0], y - e[1]) in SHAPE:
                    found.append(e)
    if len(found) != 1:
        raise AssertionError("oracle: chip (%d,%d) lies on %d boards" % (x, y, len(found)))
    return found[0]


def oracle_point(c, out):
    f, a = c["f"], c["args"]
    if out[0] == "hang":
        return [("hang", "%s%r did not return" % (f, tuple(a)))]
    if f == "local":
        x, y, w, h, rx, ry = a
        if w <= 0 or h <= 0:
            return []                                  # not a machine
        e = near_board_eth(x, y, rx, ry)
        torus = w % 12 == 0 and h % 12 == 0
        if not (0 <= x < w and 0 <= y < h):
            return []
        want = (e[0] % w, e[1] % h) if torus else (e if 0 <= e[0] < w and 0 <= e[1] < h else None)
        if want is not None and (out[0] != "ok" or tuple(out[1]) != want):
            return [("local_eth", "spinn5_local_eth_coord%r = %r, expected %r" % (tuple(a), out, want))]
    elif f == "chip":
        x, y, rx, ry = a
        e = near_board_eth(x, y, rx, ry)
        if out[0] != "ok" or tuple(out[1]) != (x - e[0], y - e[1]):
            return [("chip_coord", "spinn5_chip_coord%r = %r, expected %r" % (tuple(a), out, (x - e[0], y - e[1])))]
    elif f == "fpga":
        x, y, l, rx, ry = a
        if l not in LINK_VEC:
            return []
        e = near_board_eth(x, y, rx, ry)
        e2 = near_board_eth(x + LINK_VEC[l][0], y + LINK_VEC[l][1], rx, ry)
        if out[0] != "ok" or (out[1] is not None) != (e != e2):
            return [("fpga_iff", "spinn5_fpga_link%r = %r but the link %s its board"
                     % (tuple(a), out, "leaves" if e != e2 else "stays on"))]
    elif f == "eth":
        w, h, rx, ry = a
        if w <= 0 or h <= 0 or w * h > 40000:
            return []
        want = sorted((ex, ey) for ex in range(w) for ey in range(h)
                      if ((ex - rx) % 12, (ey - ry) % 12) in ETH)
        if out[0] != "ok" or sorted(tuple(e) for e in out[1]) != want:
            return [("eth_coords", "spinn5_eth_coords%r = %r, expected %r" % (tuple(a), out, want[:40]))]
    return []


def squarest_pair(k):
    """Factor pair (a, b), a * b == k, b <= a, with the smallest a - b.  Exact integer arithmetic only:
    for small k every candidate b with b * b <= k is tried in increasing order; for large k the search
    goes downward from the exact integer square root (the first divisor found is the largest b <= sqrt k,
    and a - b = k / b - b decreases as b grows)."""
    if k <= 10 ** 7:
        best = None
        b = 1
        while b * b <= k:
            if k % b == 0:
                best = (k // b, b)
            b += 1
        return best
    import math
    b = math.isqrt(k)
    while k % b:
        b -= 1
    return (k // b, b)


def oracle_dims(c, out):
    n = c["n"]
    if n < 3 or n % 3 != 0:
        return []                    # not a whole, positive number of three-board units: nothing is promised
    if n >= 3 * 2 ** 100:
        return []                    # far beyond any machine; float(k) stops being usable (see assumptions)
    if out[0] == "hang":
        return [("std_dims", "standard_system_dimensions(%d) did not return" % n)]
    a, b = squarest_pair(n // 3)
    if out[0] != "ok" or tuple(out[1]) != (12 * a, 12 * b):
        return [("std_dims", "standard_system_dimensions(%d) = %r, the squarest arrangement of %d three-board units "
                 "is %d x %d units = %r chips" % (n, out, n // 3, a, b, (12 * a, 12 * b)))]
    return []


_SIEVE = [None]


def largest_low_factor(n_max):
    """best[k] = the largest b with b * b <= k and b | k, for every k <= n_max (a sieve: independent of any
    square root function)."""
    if _SIEVE[0] is None or len(_SIEVE[0]) <= n_max:
        best = [1] * (n_max + 1)
        b = 2
        while b * b <= n_max:
            cnt = len(range(b * b, n_max + 1, b))
            best[b * b::b] = [b] * cnt
            b += 1
        _SIEVE[0] = best
    return _SIEVE[0]


def oracle_dimsrange(c, out):
    if out[0] == "hang":
        return [("std_dims", "standard_system_dimensions did not return for some n = 3k, %d <= k < %d" % (c["lo"], c["hi"]))]
    if out[0] != "ok" or len(out[1]) != 2 * (c["hi"] - c["lo"]):
        return [("std_dims", "standard_system_dimensions raised %r for some n = 3k, %d <= k < %d" % (out, c["lo"], c["hi"]))]
    best = largest_low_factor(c["hi"])
    for i, k in enumerate(range(c["lo"], c["hi"])):
        b = best[k]
        if (out[1][2 * i], out[1][2 * i + 1]) != (12 * (k // b), 12 * b):
            return [("std_dims", "standard_system_dimensions(%d) = %r, the squarest arrangement of %d three-board units "
                     "is %d x %d units = %r chips" % (3 * k, tuple(out[1][2 * i:2 * i + 2]), k, k // b, b,
                                                      (12 * (k // b), 12 * b)))]
    return []


def expected_eth(w, h, rx, ry):
    return sorted((ex, ey) for ex in range(max(w, 0)) for ey in range(max(h, 0))
                  if ((ex - rx) % 12, (ey - ry) % 12) in ETH)


def eth_args(op):
    return op[2:6] if op[0] == "eth_open" else op[1:5]


def judge_history(c, out, full_of):
    """Every operation of a history judged on its own.  full_of(op index) -> the complete list the judge
    expects for the arguments of that operation (the oracle passes the tiling's list, the correspondence
    passes the stateless model's list).  -> list of (key, what)."""
    if out[0] != "ok":
        return [("history", "a call sequence ended with %r" % (out,))]
    taken = {}                                 # live generator -> (op index of its eth_open, what it yielded so far)
    bad = []
    for i, (op, r) in enumerate(zip(c["ops"], out[1])):
        kind = op[0]
        if not kind.startswith("eth_"):
            continue
        call = "%s%r (operation %d of the sequence %r)" % (kind, tuple(op[1:]), i, c["ops"][:i + 1])
        if r[0] != "ok":
            bad.append(("history-eth", "%s raised %r" % (call, r)))
            continue
        if kind == "eth_open":
            taken[op[1]] = (i, [])
            continue
        if kind in ("eth_next", "eth_drain"):
            src, sofar = taken[op[1]]
        else:
            src, sofar = i, []
        want = [tuple(e) for e in full_of(src)]
        if kind == "eth_in":
            if r[1] != ((op[5], op[6]) in want):
                bad.append(("history-eth", "%s = %r but the chip %s an Ethernet chip of the machine"
                            % (call, r[1], "is" if (op[5], op[6]) in want else "is not")))
            continue
        got = [tuple(e) for e in r[1]]
        sofar += got
        if kind in ("eth_full", "eth_drain"):
            if sorted(sofar) != sorted(want):
                bad.append(("history-eth", "%s lists %d of the %d Ethernet chips of the machine (missing %r, extra %r)"
                            % (call, len(sofar), len(want), sorted(set(want) - set(sofar))[:8],
                               sorted(set(sofar) - set(want))[:8])))
        else:
            n = op[5] if kind in ("eth_take", "eth_break") else op[2]
            ok = (len(set(sofar)) == len(sofar) and set(sofar) <= set(want)
                  and len(got) == min(n, len(want) - (len(sofar) - len(got))))
            if kind == "eth_break" and n == 0:
                ok = ok or len(got) == min(1, len(want))          # the loop body runs once before the break
            if not ok:
                bad.append(("history-eth", "%s yields %r: not %d further distinct Ethernet chips of the machine %r"
                            % (call, got, n, want[:12])))
    return bad


def oracle_history(c, out):
    bad = judge_history(c, out, lambda i: expected_eth(*eth_args(c["ops"][i])))
    if out[0] == "ok":
        for i, (op, r) in enumerate(zip(c["ops"], out[1])):
            if op[0] in ("local", "chip", "fpga"):
                sub = oracle_point(dict(f=op[0], args=op[1:]), r)
            elif op[0] == "dims":
                sub = oracle_dims(dict(n=op[1]), r)
            else:
                continue
            bad += [("history-" + k, "%s (operation %d of the sequence %r)" % (w, i, c["ops"][:i + 1])) for k, w in sub]
    return bad


def thread_expect(f, a):
    """The answer the board description gives for one lookup (None: the property promises nothing)."""
    if f == "chip":
        x, y, rx, ry = a
        e = near_board_eth(x, y, rx, ry)
        return [x - e[0], y - e[1]]
    if f == "local":
        x, y, w, h, rx, ry = a
        e = near_board_eth(x, y, rx, ry)
        return [e[0] % w, e[1] % h]
    x, y, l, rx, ry = a
    return near_board_eth(x, y, rx, ry) != near_board_eth(x + LINK_VEC[l][0], y + LINK_VEC[l][1], rx, ry)


def gen_threads(rng, tier):
    """A search, not a proof: a few threads in tight loops on different chips with a 1 us switch interval."""
    calls = []
    for _ in range(4):
        mine = []
        for _ in range(6):
            rx, ry = rng.choice([(0, 0), (4, 0), (3, 5)])
            x, y = rng.randrange(24), rng.randrange(24)
            for f, a in (("chip", [x, y, rx, ry]), ("fpga", [x, y, rng.randrange(6), rx, ry]),
                         ("local", [x, y, 24, 24, rx, ry]), ("fpga", [x, y, rng.randrange(6), rx, ry])):
                mine.append([f, a, thread_expect(f, a)])
        calls.append(mine)
    return [dict(k="threads", calls=calls, seconds=1.5 if tier == "quick" else 20, cls="threads")]


def oracle_threads(c, out):
    if out[0] != "ok":
        return [("threads", "the threaded search ended with %r" % (out,))]
    bad = []
    flat = [(f, a, e) for mine in c["calls"] for f, a, e in mine]
    for (f, a, e), (f2, a2, ref) in zip(flat, out[1]):            # the single-threaded pass at the start
        sub = oracle_point(dict(f=f, args=a), ["ok", ref])
        bad += [("threads-" + k, w + " (single-threaded, before the threads start)") for k, w in sub]
    for f, a, r, ref, how in out[2]:
        e = thread_expect(f, a)
        bad.append(("threads-" + dict(chip="chip_coord", local="local_eth", fpga="fpga_iff")[f],
                    "threads calling the lookup functions concurrently for different chips (%s): %s%r returned "
                    "%r; the board description gives %s and the same call returned %r single-threaded"
                    % (how, dict(chip="spinn5_chip_coord", local="spinn5_local_eth_coord",
                                             fpga="spinn5_fpga_link")[f], tuple(a), r,
                       ("an FPGA link" if e else "None") if f == "fpga" else tuple(e), ref)))
        break
    return bad


def gen_narrow(rng, tier):
    """numpy signed integer scalars as arguments, values near the dtype's limit.  Domain (checked on the
    unchanged code): every argument fits the dtype and is not negative; for spinn5_eth_coords width + 11,
    height + 11 and (height rounded up to 12) - 4 + root_y fit (root_y is not reduced mod 12 by the source);
    for standard_system_dimensions the result fits.  Unsigned dtypes are outside: numpy 2
    raises OverflowError / wraps as soon as an offset is negative."""
    cs = []
    for dt, top in (("int8", 127), ("int16", 32767), ("int32", 2 ** 31 - 1), ("int64", 2 ** 63 - 1)):
        for _ in range(60 if tier != "quick" else 14):
            w, h = rng.choice([(top - top % 12, top - top % 12), (top, top), (top - rng.randrange(30), top - rng.randrange(30))])
            x, y = rng.randint(max(0, w - 30), w - 1), rng.randint(max(0, h - 30), h - 1)
            rx, ry = rng.choice([(0, 0), (rng.randrange(12), rng.randrange(12)), (rng.randint(0, top), rng.randint(0, top)),
                                 (top, top)])
            cs.append(dict(k="point", f="local", args=[x, y, w, h, rx, ry], dtype=dt, cls="narrow-dtype"))
            cs.append(dict(k="point", f="chip", args=[x, y, rx, ry], dtype=dt, cls="narrow-dtype"))
            cs.append(dict(k="point", f="chip", args=[top - rng.randrange(12), top - rng.randrange(12), rx, ry], dtype=dt,
                           cls="narrow-dtype"))
            cs.append(dict(k="point", f="fpga", args=[top - rng.randrange(12), top - rng.randrange(12), rng.randrange(6), rx, ry],
                           dtype=dt, cls="narrow-dtype"))
        for w, h in ((24, 12), (108, 96), (116, 116), (100, 37)):
            cs.append(dict(k="point", f="eth", args=[w, h, rng.randrange(12), rng.randrange(12)], dtype=dt, cls="narrow-dtype"))
        for k in (1, 2, 4, 6, 9, 12, 16, 20, 25, 30, 36, 42):
            cs.append(dict(k="dims", n=3 * k, dtype=dt, cls="narrow-dtype"))
    cs.append(dict(k="machine", w=120, h=120, rx=3, ry=5, dtype="int8", cls="narrow-dtype-machine"))
    cs.append(dict(k="machine", w=127, h=40, rx=0, ry=0, dtype="int8", cls="narrow-dtype-machine"))
    cs.append(dict(k="machine", w=24, h=36, rx=7, ry=2, dtype="int16", cls="narrow-dtype-machine"))
    return cs


def gen_tiny(rng, tier):
    """Machines smaller than a board (1..6 chips wide and high) with every root residue.  Only chips whose
    board's Ethernet chip lies inside the machine are within the property (judged); all are compared with
    the model."""
    roots = [(rx, ry) for rx in range(12) for ry in range(12)]
    cs = []
    for w in range(1, 7):
        for h in range(1, 7):
            for rx, ry in (roots if tier != "quick" else rng.sample(roots, 20) + [(1, 0), (0, 1)]):
                cs.append(dict(k="machine", w=w, h=h, rx=rx, ry=ry, cls="tiny-machine"))
    return cs


def gen_histories(rng, tier):
    """Sequences of calls in one interpreter: generators of spinn5_eth_coords cut at every position, `in`
    tests, search loops with break, interleaved live generators with equal and different arguments, each
    followed by full enumerations; lookups repeated with the same chip under different sizes and roots."""
    hs = []
    machines = [(24, 24), (12, 12), (36, 12), (20, 30), (8, 8), (48, 24), (13, 25)]
    roots = [(rx, ry) for rx in range(12) for ry in range(12)]
    rng.shuffle(roots)
    fresh = iter(roots * 50)
    for w, h in machines if tier == "quick" else machines + [(rng.randint(1, 48), rng.randint(1, 48)) for _ in range(40)]:
        total = len(expected_eth(w, h, 0, 0)) + 2
        ops = []
        for cut in range(total + 1):                       # cut at every position, a fresh root each time ...
            rx, ry = next(fresh)
            how = ("eth_take", "eth_break")[cut % 2]
            ops += [[how, w, h, rx, ry, cut], ["eth_full", w, h, rx, ry]]
        hs.append(dict(k="history", ops=ops, cls="history-cuts"))
        rx, ry = next(fresh)
        ops = []
        for cut in (1, 0, 2, total, 1):                    # ... and again and again on one machine
            ops += [["eth_take", w, h, rx, ry, cut], ["eth_full", w, h, rx, ry], ["eth_full", w, h, rx, ry]]
        hs.append(dict(k="history", ops=ops, cls="history-cuts"))
        rx, ry = next(fresh)
        want = expected_eth(w, h, rx, ry)
        ops = []
        for e in ([want[0], want[-1], want[len(want) // 2]] if want else []) + [(rx + 1, ry), (w + 5, h + 5), (-1, -1)]:
            ops += [["eth_in", w, h, rx, ry, e[0], e[1]], ["eth_full", w, h, rx, ry]]
            rx2, ry2 = next(fresh)
            ops += [["eth_in", w, h, rx2, ry2, e[0], e[1]], ["eth_full", w, h, rx2, ry2], ["eth_in", w, h, rx2, ry2, e[0], e[1]]]
        hs.append(dict(k="history", ops=ops, cls="history-in"))
        (ax, ay), (bx, by) = next(fresh), next(fresh)
        A, B = [w, h, ax, ay], [w, h, bx, by]
        hs.append(dict(k="history", cls="history-interleaved", ops=[
            ["eth_open", "g1"] + A, ["eth_open", "g2"] + A, ["eth_open", "g3"] + B,
            ["eth_next", "g1", 2], ["eth_next", "g2", 1], ["eth_full"] + A, ["eth_next", "g3", 1],
            ["eth_next", "g1", 1], ["eth_full"] + B, ["eth_drain", "g1"], ["eth_full"] + A,
            ["eth_open", "g4"] + A, ["eth_next", "g4", 1], ["eth_drain", "g2"], ["eth_drain", "g3"],
            ["eth_full"] + A, ["eth_drain", "g4"], ["eth_full"] + B]))
    # lookups repeated with the same chip under different sizes and roots, mixed with the other functions
    for _ in range(12 if tier == "quick" else 120):
        x, y = rng.randrange(12), rng.randrange(12)
        ops = []
        for _ in range(14):
            w, h = rng.choice([(12, 12), (24, 24), (24, 12), (36, 24), (8, 8), (20, 16)])
            rx, ry = rng.choice([(0, 0), (0, 0), (3, 5), (11, 1), (4, 8), (13, 29)])
            xx, yy = (x, y) if rng.random() < 0.7 else (x + 12, y)
            pick = rng.random()
            if pick < 0.4:
                ops.append(["local", xx, yy, w, h, rx, ry])
            elif pick < 0.6:
                ops.append(["chip", xx, yy, rx, ry])
            elif pick < 0.8:
                ops.append(["fpga", xx, yy, rng.randrange(6), rx, ry])
            elif pick < 0.9:
                ops.append(["dims", rng.choice([3, 6, 9, 12, 18, 24, 36, 120, 0, 1, 2])])
            else:
                ops.append(["eth_full", w, h, rx, ry])
        hs.append(dict(k="history", ops=ops + ops[:5], cls="history-lookups"))
    return hs


# ------------------------------------------------------------------ generators
def gen_cases(rng, tier):
    cases = []
    big = tier != "quick"
    # every root residue on the single-cell torus (all 144 x 144 combinations of chip and root residues)
    for rx in range(12):
        for ry in range(12):
            cases.append(dict(k="machine", w=12, h=12, rx=rx, ry=ry, cls="cell-all-roots"))
    cases.append(dict(k="machine", w=12, h=12, rx=0, ry=0, defaults=True, cls="defaults"))
    cases.append(dict(k="machine", w=8, h=8, rx=0, ry=0, defaults=True, cls="defaults"))
    tori = [(12, 24), (24, 12), (24, 24), (36, 12), (12, 36), (36, 24), (24, 36), (48, 24), (36, 36)]
    if big:
        tori += [(48, 48), (60, 36), (60, 60), (72, 24), (96, 12), (12, 96)]
        for w, h in ((24, 24), (24, 12), (12, 24)):          # every root residue on multi-cell tori
            for rx in range(12):
                for ry in range(12):
                    cases.append(dict(k="machine", w=w, h=h, rx=rx, ry=ry, cls="torus-all-roots"))
    for w, h in tori:
        for _ in range(12 if big else 2):
            cases.append(dict(k="machine", w=w, h=h, rx=rng.randrange(12), ry=rng.randrange(12), cls="torus"))
        cases.append(dict(k="machine", w=w, h=h, rx=rng.randrange(w), ry=rng.randrange(h), cls="torus-root-anywhere"))
    # ragged machines
    if big:
        ragged = [(w, h) for w in range(1, 41) for h in range(1, 41) if w % 12 or h % 12]
    else:
        ragged = [(8, 8), (16, 16), (20, 20), (28, 16), (1, 1), (13, 11), (7, 30), (40, 5)]
        ragged += [(rng.randint(1, 40), rng.randint(1, 40)) for _ in range(30)]
        ragged = [(w, h) for w, h in ragged if w % 12 or h % 12]
    for w, h in ragged:
        for _ in range(2 if big else 1):
            style = rng.random()
            if style < 0.3:
                rx, ry = 0, 0
            elif style < 0.8:
                rx, ry = rng.randrange(12), rng.randrange(12)
            else:
                rx, ry = rng.randint(-30, 60), rng.randint(-30, 60)
            cases.append(dict(k="machine", w=w, h=h, rx=rx, ry=ry, cls="ragged"))
    cases += gen_narrow(rng, tier)
    cases += gen_tiny(rng, tier)
    th = gen_threads(rng, tier)
    cases += th
    cases += [dict(k="point", f=f, args=a, cls="point") for mine in th[0]["calls"] for f, a, e in mine]   # model too
    cases += gen_histories(rng, tier)
    # single calls: far, negative and degenerate arguments
    n_pt = 4000 if big else 400
    for i in range(n_pt):
        f = ("local", "chip", "fpga", "eth")[i % 4]
        wild = rng.random() < 0.3
        span = 10 ** rng.choice([2, 4, 9, 18]) if wild else 60
        x, y = rng.randint(-span, span), rng.randint(-span, span)
        rx, ry = rng.randint(-span, span), rng.randint(-span, span)
        if f == "local":
            w, h = rng.choice([12, 24, 36, 48, 8, 20, 96, 1200]), rng.choice([12, 24, 36, 48, 8, 20, 96, 1200])
            if rng.random() < 0.7:
                x, y = rng.randrange(w), rng.randrange(h)
            cls = "point"
            if rng.random() < 0.12:
                w, h = rng.choice([(0, 12), (12, 0), (0, 0), (-12, 12), (12, -24), (-5, -7)])
                cls = "malformed"
            cases.append(dict(k="point", f=f, args=[x, y, w, h, rx, ry], cls=cls))
        elif f == "chip":
            cases.append(dict(k="point", f=f, args=[x, y, rx, ry], cls="point"))
        elif f == "fpga":
            l = rng.randrange(6)
            cls = "point"
            if rng.random() < 0.1:
                l, cls = rng.choice([-1, 6, 7, 100, -3]), "malformed"
            cases.append(dict(k="point", f=f, args=[x, y, l, rx, ry], cls=cls))
        else:
            w, h = rng.randint(-13, 50), rng.randint(-13, 50)
            cls = "point" if w > 0 and h > 0 else "malformed"
            cases.append(dict(k="point", f=f, args=[w, h, rx, ry], cls=cls))
    # board counts
    if big:
        ns = list(range(-12, 3 * 30000 + 1))
    else:
        ns = list(range(-12, 3 * 400 + 1))
    ns += [3 * rng.randint(1, 10 ** 6) for _ in range(300 if big else 60)]
    for _ in range(200 if big else 40):                # perfect squares and their neighbours, up to 2^52
        m = rng.randint(2, 2 ** 26 - 1)
        m -= m % rng.choice([1, 1, 2, 6, 30, 210, 2310])
        m = max(m, 2)
        for k in (m * m, m * (m + 1), m * (m - 1)):    # all have a divisor close to sqrt(k): short loops
            ns.append(3 * k)
    # big board counts (beyond 2^53 a float cannot hold num_boards or num_boards // 3 exactly): products of
    # two near-equal large factors, so that the loop is short
    ns += [3 * (2 ** 27 + 1) * (2 ** 27 + 3), 3 * 2 ** 60, 3 * 2 ** 62,
           3 * (3 ** 17) * (3 ** 17 + 2)]
    for lo, hi in ((2 ** 26, 2 ** 28), (2 ** 28, 2 ** 34), (2 ** 34, 2 ** 46), (2 ** 46, 2 ** 49)):
        for _ in range(40 if big else 8):
            m = rng.randint(lo, hi) | 1
            for k in (m * m, m * (m + 1), m * (m + 2), m * (m - 2), m * (m + rng.randint(3, 40))):
                ns.append(3 * k)
    ns.append(3 * 2 ** 1100)                           # float(k) overflows: OverflowError
    for n in ns:
        # the model's loop counter is a unary number: beyond k = 10^9 only the oracle judges the code
        cases.append(dict(k="dims", n=n, cls="dims" if n <= 3 * 10 ** 9 else ("dims-overflow" if n >= 2 ** 1030 else "dims-large")))
    # every k up to a bound, judged by the sieve oracle only (the model is compared on the cases above)
    top = 10 ** 6 if big else 60000
    step = 20000
    for lo in range(1, top + 1, step):
        cases.append(dict(k="dimsrange", lo=lo, hi=min(lo + step, top + 1), cls="dims-range"))
    return cases


# ------------------------------------------------------------------ Coq side
HEADER = ("From Coq Require Import ZArith List. Import ListNotations. Open Scope Z_scope.\n"
          "Require Import Rig.Model.Base Rig.Model.Board Rig.Model.BoardSqrt.\n")


def coq_expr(c, out):
    """Expression whose value says whether the model reproduces the implementation's output."""
    if c["k"] == "machine":
        return ("(digest (machine_outputs %s %s %s %s), spinn5_eth_coords %s %s %s %s)"
                % (zlit(c["w"]), zlit(c["h"]), zlit(c["rx"]), zlit(c["ry"]),
                   zlit(c["w"]), zlit(c["h"]), zlit(c["rx"]), zlit(c["ry"])))
    if c["k"] == "dims":
        if abs(c["n"]) <= 3 * 10 ** 9 or c["n"] >= 2 ** 1030:
            return "standard_system_dimensions_f %s" % zlit(c["n"])     # the binary64 model of the code
        # the same model with the budgeted loop (C19_standard_dims_f_gas_correct): the unary counter of the
        # plain model cannot be built for square roots of this size
        return "standard_system_dimensions_f_gas 5000 %s" % zlit(c["n"])
    fn = dict(local="spinn5_local_eth_coord", chip="spinn5_chip_coord", fpga="spinn5_fpga_link",
              eth="spinn5_eth_coords")[c["f"]]
    return "%s %s" % (fn, " ".join(zlit(a) for a in c["args"]))


def digest(vals):
    """The same digest as Model/Board.v `digest` (the per-chip outputs of a machine are compared through
    it; on a mismatch the position of the first difference is then computed on the full lists)."""
    a = b = 0
    for i, v in enumerate(vals, 1):
        a += i * (v + 7)
        b += (v + 7) * (v + i)
    return [a, b]


def canon_model(c, v):
    if c["k"] == "machine":
        # ((a, b), l) prints as (a, b, l); the order in which the generator yields is not part of the property
        return ["digest", [v[0], v[1]], "eth-coords-sorted", sorted(list(p) for p in v[2])]
    if c["k"] == "point" and c["f"] == "eth":
        return ["ok", sorted(list(p) for p in v)]
    if v[0] == "Ok":
        r = v[1]
        if r is None:
            return ["ok", None]
        if isinstance(r, tuple) and r[0] == "Some":
            r = r[1]
        return ["ok", list(r)]
    if v[0] == "Failed":
        return ["fail", v[1]]
    return ["other"] if v[0] == "OtherError" else ["outoffuel"]


def canon_impl(c, o):
    if c["k"] == "machine":
        return ["digest", digest(o[1]), "eth-coords-sorted", sorted(o[2])] if o[0] == "ok" else [o[0]]
    if o[0] == "other":
        return ["other"]
    if c["k"] == "point" and c["f"] == "eth":
        return ["ok", sorted(o[1])]
    return list(o[:2])


def run(chk, args):
    chk.trusted += ["numpy integer array indexing inside the array, dict.get on tuple keys, IntEnum equality with int",
                    "math.sqrt is the correctly rounded IEEE-754 square root (Flocq Bsqrt, round to nearest even); "
                    "Reals-library axioms of the float theorems are listed per theorem"]
    chk.assumptions += [
        "coordinates, dimensions, root offsets, link numbers and board counts are Python ints",
        "standard_system_dimensions is modelled over IEEE-754 binary64 (Flocq): float(k) rounded to nearest even, "
        "correctly rounded math.sqrt, truncating int(); C19_float_isqrt_exact proves int(sqrt(k)) = Z.sqrt k for "
        "0 <= k < 2^52 and the squarest theorem is stated for 1 <= k < 2^52 (board counts below 3 * 2^52); the "
        "binary64 model is compared with the code for every board count 3k, k <= %s, and the code is judged by exact "
        "integer arithmetic for every k <= %s and for perfect squares and their neighbours up to 2^52 (sampled)"
        % (("30000", "10^6") if chk.tier != "quick" else ("400", "60000")),
        "numpy signed integer scalars are accepted as arguments where every argument is non-negative and fits the dtype "
        "(and, for spinn5_eth_coords, width + 11, height + 11 and the unreduced root_y plus the rounded height fit; for "
        "standard_system_dimensions the result fits): there C19_*_steps_fit shows no fixed-width intermediate of the two "
        "kernels leaves the dtype; unsigned numpy scalars are outside the domain (numpy 2 raises OverflowError or wraps as "
        "soon as a table offset is negative); board counts are judged by exact integer arithmetic up to 3 * 2^100 "
        "(sampled products of near-equal factors), proved up to 3 * 2^52",
        "a machine is either a torus whose width and height are positive multiples of 12, or a ragged machine "
        "in which only boards whose Ethernet chip lies inside the machine are judged for spinn5_local_eth_coord"]
    chk.regenerate(UNITS)
    chk.prove()
    if args.replay:
        rp = json.load(open(args.replay))
        cases = [f["replay"]["case"] for f in rp.get("failures", []) + rp.get("no_longer_checks", [])
                 if "case" in f.get("replay", {})]
    else:
        cases = gen_cases(chk.rng, chk.tier)
    # implementation
    cost = lambda c: c["w"] * c["h"] if c["k"] == "machine" else (13000 if c["k"] == "threads" else 3000 if c["k"] == "dimsrange" else
                                                                  (len(c["ops"]) if c["k"] == "history" else 1))
    chunks, cur, acc = [], [], 0
    for c in cases:
        cur.append(c)
        acc += cost(c)
        if acc > 12000 or len(cur) >= 1500:
            chunks.append(cur)
            cur, acc = [], 0
    if cur:
        chunks.append(cur)
    outs = [o for part in chk.impl_parallel("impl_c19.py", chunks) for o in part]
    keep = [i for i, o in enumerate(outs) if o[0] != "skipped"]
    cases, outs = [cases[i] for i in keep], [outs[i] for i in keep]
    # independent oracle on every output
    seen = set()
    for c, o in zip(cases, outs):
        chk.count("class:" + c.get("cls", "?"))
        chk.count("kind:" + c["k"] + (":" + c["f"] if c["k"] == "point" else ""))
        chk.count("outcome:" + o[0])
        if c["k"] == "machine":
            chk.count("chips-judged", c["w"] * c["h"])
            bad = oracle_machine(c, o)
            nontrivial = c["w"] >= 8 and c["h"] >= 8
        elif c["k"] == "point":
            bad = oracle_point(c, o)
            nontrivial = c["cls"] == "point"
        elif c["k"] == "threads":
            bad = oracle_threads(c, o)
            if o[0] == "ok":
                chk.count("threaded-search-calls", o[3])
            nontrivial = True
        elif c["k"] == "history":
            chk.count("history-operations", len(c["ops"]))
            for op in c["ops"]:
                chk.count("history-op:" + op[0])
            bad = oracle_history(c, o)
            nontrivial = True
        elif c["k"] == "dimsrange":
            chk.count("board-counts-in-ranges", c["hi"] - c["lo"])
            bad = oracle_dimsrange(c, o)
            nontrivial = True
        else:
            bad = oracle_dims(c, o)
            nontrivial = 3 <= c["n"] < 3 * 2 ** 100 and c["n"] % 3 == 0
        chk.note_case({k: v for k, v in c.items() if k != "cls"}, nontrivial)
        for key, what in bad:
            if key not in seen:
                small = o if c["k"] != "machine" else [o[0]]
                chk.fail_input(key, what, dict(case=c, observed=small))
            seen.add(key)
    for pick in ("machine", "point", "dims"):
        for c, o in zip(cases, outs):
            if o[0] == "ok" and c["k"] == pick and (pick != "machine" or c["w"] * c["h"] <= 64) and c.get("cls") != "cell-all-roots":
                chk.sample(dict(case=c, implementation=o if pick != "machine" else [o[0], o[1][:40], o[2]]))
                break
    # model
    if chk.model_ok:
        try:
            vals = {}
            mach = sorted((i for i in range(len(cases)) if cases[i]["k"] == "machine"), key=lambda i: -cost(cases[i]))
            if mach:
                shards = 24 if len(mach) >= 48 else 12                          # balance the shards by size
                perm = [i for s_ in range(shards) for i in mach[s_::shards]]
                per = (len(perm) + shards - 1) // shards
                vals.update(zip(perm, chk.coq_eval(HEADER, [coq_expr(cases[i], outs[i]) for i in perm],
                                                   shard=per, name="machines")))
            rest = [i for i in range(len(cases)) if cases[i]["k"] in ("point", "dims")]
            if rest:
                vals.update(zip(rest, chk.coq_eval(HEADER, [coq_expr(cases[i], outs[i]) for i in rest],
                                                   shard=max(400, (len(rest) + 23) // 24), name="calls")))
            # histories: every operation is compared with the stateless model of that one call
            hops = [(i, j) for i in range(len(cases)) if cases[i]["k"] == "history" and outs[i][0] == "ok"
                    for j in range(len(cases[i]["ops"]))]
            if hops:
                def op_expr(op):
                    if op[0] in ("eth_next", "eth_drain"):      # judged against the list of their eth_open
                        return "spinn5_eth_coords 0 0 0 0"
                    if op[0] == "eth_in":                       # the model's `in`, and the list for the judge
                        return "(eth_coords_contains (%s, %s) %s, spinn5_eth_coords %s)" % (
                            zlit(op[5]), zlit(op[6]), " ".join(zlit(a) for a in op[1:5]), " ".join(zlit(a) for a in op[1:5]))
                    if op[0] in ("eth_take", "eth_break"):      # the model's prefix length, and the list
                        return "(length (eth_coords_take %d %s), spinn5_eth_coords %s)" % (
                            max(op[5], 1) if op[0] == "eth_break" else op[5],
                            " ".join(zlit(a) for a in op[1:5]), " ".join(zlit(a) for a in op[1:5]))
                    if op[0].startswith("eth_"):
                        return "spinn5_eth_coords %s" % " ".join(zlit(a) for a in eth_args(op))
                    if op[0] == "dims":
                        return "standard_system_dimensions_f %s" % zlit(op[1])
                    return coq_expr(dict(k="point", f=op[0], args=op[1:]), None)
                hv = dict(zip(hops, chk.coq_eval(HEADER, [op_expr(cases[i]["ops"][j]) for i, j in hops],
                                                 shard=max(400, (len(hops) + 11) // 12), name="history")))
                h_bad = 0
                for i in sorted(set(i for i, _ in hops)):
                    c, o = cases[i], outs[i]
                    chk.traces_validated += 1
                    def model_list(j):
                        v = hv[(i, j)]
                        return [list(p) for p in (v[1] if isinstance(v, tuple) else v)]
                    diffs = judge_history(c, o, model_list)
                    for j, (op, r) in enumerate(zip(c["ops"], o[1])):
                        if op[0] in ("eth_in", "eth_take", "eth_break") and r[0] == "ok":
                            mine = r[1] if op[0] == "eth_in" else len(r[1])
                            if hv[(i, j)][0] != mine:
                                diffs.append(("history", "%r (operation %d of %r): model %r, implementation %r"
                                              % (op, j, c["ops"][:j + 1], hv[(i, j)][0], mine)))
                    for j, (op, r) in enumerate(zip(c["ops"], o[1])):
                        if not op[0].startswith("eth_"):
                            sub = dict(k="dims", n=op[1]) if op[0] == "dims" else dict(k="point", f=op[0], args=op[1:])
                            m, p = canon_model(sub, hv[(i, j)]), canon_impl(sub, r)
                            if m != p:
                                diffs.append(("history", "%r (operation %d of %r): model %r, implementation %r"
                                              % (op, j, c["ops"][:j + 1], m, p)))
                    if diffs:
                        h_bad += 1
                        if h_bad <= 3:
                            chk.disagree("history: the implementation differs from the stateless model: " + diffs[0][1],
                                         dict(case=c, observed=o))
                if not h_bad:
                    chk.oblige("correspondence:call-histories (%d sequences, %d operations: partially consumed, "
                               "abandoned and interleaved spinn5_eth_coords generators followed by full enumerations, "
                               "repeated lookups; every call equal to the stateless model)"
                               % (len(set(i for i, _ in hops)), len(hops)), True)
            n_bad = 0
            for i, (c, o) in enumerate(zip(cases, outs)):
                if i not in vals:
                    continue
                chk.traces_validated += 1
                m, p = canon_model(c, vals[i]), canon_impl(c, o)
                if m != p:
                    n_bad += 1
                    if n_bad <= 3:
                        where = ""
                        if c["k"] == "machine" and o[0] == "ok" and m[1] != p[1]:
                            d = chk.coq_eval(HEADER, ["first_diff (machine_outputs %s %s %s %s) %s 0" % (
                                zlit(c["w"]), zlit(c["h"]), zlit(c["rx"]), zlit(c["ry"]),
                                vlist(zlit(v) for v in o[1]))], name="locate%d" % n_bad)[0]
                            if isinstance(d, tuple):
                                k = d[1]
                                where = (" (first difference at chip (%d,%d), output %d of [eth_x, eth_y, board_x, "
                                         "board_y, fpga link 0..5])" % (k // 10 // c["h"], k // 10 % c["h"], k % 10))
                        chk.disagree("%s: model %r, implementation %r%s" % (
                            c["k"] + (":" + c["f"] if c["k"] == "point" else ""), m, p, where),
                            dict(case=c, observed=o if c["k"] != "machine" else [o[0]]))
            if not n_bad:
                chk.oblige("correspondence:board-geometry (%d cases: whole machines compared chip by chip, single "
                           "calls, board counts; exact equality of every value / error class)" % len(vals), True)
        except RuntimeError as e:
            chk.oblige("correspondence:model-evaluates", False, str(e))
    chk.coverage["rule"] = (
        "machines: the 12x12 torus with each of the 144 root residues (every chip residue x root residue), tori up to "
        "%s with random roots, ragged machines %s with roots zero / in the cell / far away; every chip of every machine "
        "is judged (local Ethernet chip, on-board coordinate, all six links, Ethernet list) against a tiling built "
        "explicitly from the board description; single calls with coordinates up to 10^18, negative and zero "
        "dimensions, link numbers outside 0..5; call histories in one interpreter (spinn5_eth_coords generators cut at "
        "every position by next()/break, `in` tests, interleaved live generators with equal and different arguments, "
        "each followed by full enumerations; repeated lookups of one chip under different sizes and roots), every "
        "call judged on its own; a threaded SEARCH (4 threads calling spinn5_chip_coord / spinn5_fpga_link / "
        "spinn5_local_eth_coord for different chips in tight loops with a 1 us switch interval for a few seconds, "
        "then two threads with one preemption forced at every line of the functions by sys.settrace from outside; "
        "every result compared with the answer computed beforehand and with the single-threaded result; the same "
        "calls are compared with the model single-threaded): it can exhibit a failing schedule, a pass proves nothing "
        "about thread safety -- what decides is the translation / inventory obligation (tools/dump_c19.py and py2v "
        "fail on any `global` statement, new module-level mutable object, decorator or store into an object in "
        "rig/geometry.py); board counts %s. non-trivial = machine at least one board wide and "
        "high, in-domain single call, or a positive multiple of 3 boards; distinct by hash of the input"
        % ((("96x12/60x60", "every w,h in 1..40") if chk.tier != "quick" else ("48x24/36x36", "38 sizes in 1..40"))
           + ("-12..90000 one by one, every multiple of 3 up to 3*10^6 in ranges, samples to 3*2^52" if chk.tier != "quick"
              else "-12..1200 one by one, every multiple of 3 up to 180000 in ranges, samples to 3*2^52",)))
