(* The Hilbert chip order (hilbert.py) lists every working chip exactly once -- the side condition of the
   completeness theorem -- for every machine of at most 16 x 16 chips.  Finite statement: the L-system model
   [hilbert k] is checked, by computation inside Coq, to enumerate the 2^k x 2^k square without repetition
   for k <= 4, and [hilbert_levels] (the model of int(ceil(log(max(w, h), 2)))) is checked to cover max(w, h). *)
From Coq Require Import ZArith List Bool Lia.
Require Import Rig.Model.Base Rig.Model.Place Rig.Spec.Place Rig.Proofs.Place Rig.Proofs.PlaceCore.
Import ListNotations.
Open Scope Z_scope.

Fixpoint nodup_chipsb (l : list chip) : bool :=
  match l with [] => true | c :: t => negb (chip_mem c t) && nodup_chipsb t end.

Lemma nodup_chipsb_NoDup : forall l, nodup_chipsb l = true -> NoDup l.
Proof.
  induction l as [|c t IH]; intros H; [constructor|]. cbn [nodup_chipsb] in H. apply andb_true_iff in H.
  destruct H as [H1 H2]. constructor; [|apply IH; exact H2].
  apply negb_true_iff in H1. intros Hin. apply chip_mem_In in Hin. congruence.
Qed.

Definition square (n : Z) : list chip := flat_map (fun x => map (fun y => (x, y)) (zrange n)) (zrange n).

Lemma square_In : forall n x y, 0 <= x < n -> 0 <= y < n -> In (x, y) (square n).
Proof.
  intros n x y Hx Hy. unfold square. apply in_flat_map. exists x. split; [apply zrange_In; exact Hx|].
  apply in_map_iff. exists y. split; [reflexivity | apply zrange_In; exact Hy].
Qed.

Definition hilbert_level_ok (k : nat) : bool :=
  nodup_chipsb (hilbert k) && forallb (fun c => chip_mem c (hilbert k)) (square (2 ^ Z.of_nat k)).

Lemma hilbert_levels_checked : forallb hilbert_level_ok [0; 1; 2; 3; 4]%nat = true.
Proof. vm_compute. reflexivity. Qed.

Lemma hilbert_level_order : forall m k,
  hilbert_level_ok k = true -> pm_width m <= 2 ^ Z.of_nat k -> pm_height m <= 2 ^ Z.of_nat k ->
  chip_order_ok m (hilbert k).
Proof.
  intros m k Hok Hw Hh. unfold hilbert_level_ok in Hok. apply andb_true_iff in Hok. destruct Hok as [H1 H2].
  split.
  - apply NoDup_filter. apply nodup_chipsb_NoDup. exact H1.
  - intros [x y] Hl. apply live_bounds in Hl. cbn [fst snd] in Hl. destruct Hl as [Hx [Hy _]].
    rewrite forallb_forall in H2. apply chip_mem_In. apply H2. apply square_In; lia.
Qed.

Lemma levels_cover : forall n, 1 <= n <= 16 ->
  (levels_from (Z.to_nat n) 0 n <= 4)%nat /\ n <= 2 ^ Z.of_nat (levels_from (Z.to_nat n) 0 n).
Proof.
  intros n Hn.
  assert (Hc : n = 1 \/ n = 2 \/ n = 3 \/ n = 4 \/ n = 5 \/ n = 6 \/ n = 7 \/ n = 8 \/ n = 9 \/ n = 10 \/ n = 11
               \/ n = 12 \/ n = 13 \/ n = 14 \/ n = 15 \/ n = 16) by lia.
  repeat (destruct Hc as [Hc | Hc]; [subst n; split; [apply Nat.leb_le | apply Z.leb_le]; vm_compute; reflexivity|]).
  subst n; split; [apply Nat.leb_le | apply Z.leb_le]; vm_compute; reflexivity.
Qed.

Theorem hilbert_chip_order_ok : forall m,
  pm_width m <= 16 -> pm_height m <= 16 -> chip_order_ok m (hilbert_chip_order m).
Proof.
  intros m Hw Hh. unfold hilbert_chip_order, hilbert_levels.
  destruct (1 <=? Z.max (pm_width m) (pm_height m)) eqn:E.
  - apply Z.leb_le in E. set (n := Z.max (pm_width m) (pm_height m)) in *.
    assert (Hn : 1 <= n <= 16) by (unfold n in *; lia).
    destruct (levels_cover n Hn) as [L1 L2]. set (k := levels_from (Z.to_nat n) 0 n) in *.
    apply hilbert_level_order; [| unfold n in *; lia | unfold n in *; lia].
    pose proof hilbert_levels_checked as Hall. rewrite forallb_forall in Hall. apply Hall.
    assert (Hk : (k = 0 \/ k = 1 \/ k = 2 \/ k = 3 \/ k = 4)%nat) by lia.
    cbn [In]. intuition.
  - (* no column or no row: no working chip at all *)
    apply Z.leb_gt in E. split.
    + change (hilbert 0) with [(0, 0)]. cbn [filter]. destruct (live m (0, 0)); repeat constructor; try (intros H; destruct H).
    + intros c Hl. apply live_bounds in Hl. lia.
Qed.

Require Import Rig.Proofs.PlaceMerge Rig.Proofs.PlaceSeq Rig.Proofs.PlaceComplete.

(* hilbert.place = seq_place with the Hilbert chip order (and the breadth-first or default vertex order) *)
Theorem hilbert_place_complete : forall vr m cs r0 vorder,
  wf_problem vr m cs -> unit_premise vr m cs r0 ->
  pm_width m <= 16 -> pm_height m <= 16 ->
  (forall vo, vorder = Some vo -> vertex_order_ok vr vo) ->
  exists pl, seq_place vr m cs vorder (Some (hilbert_chip_order m)) = Ok pl.
Proof.
  intros vr m cs r0 vorder W U Hw Hh Hvo. apply (seq_place_complete vr m cs r0 vorder _ W U Hvo).
  intros co Hco. inversion Hco. subst co. apply hilbert_chip_order_ok; assumption.
Qed.
