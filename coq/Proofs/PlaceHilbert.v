(* The Hilbert chip order (hilbert.py) lists every working chip exactly once -- the side condition of the
   completeness theorem -- for EVERY machine size.  Structural induction on the level of the L-system: started
   at p with heading d (one of the four axis directions) and angle a (+1 / -1), the curve of level k visits
   every point p + i*d + j*L (0 <= i, j < 2^k; L = d turned by a) and has 4^k points, so it enumerates that
   2^k x 2^k square without repetition; it ends at p + (2^k - 1)*d with heading d.  [hilbert_levels] (the model
   of int(ceil(log(max(w, h), 2.0)))) returns a level with 2^level >= max(w, h). *)
From Coq Require Import ZArith List Bool Lia.
Require Import Rig.Model.Base Rig.Model.Place Rig.Spec.Place Rig.Proofs.Place Rig.Proofs.PlaceCore
        Rig.Proofs.PlaceMerge Rig.Proofs.PlaceSeq Rig.Proofs.PlaceComplete.
Import ListNotations.
Open Scope Z_scope.

Definition axis (dx dy : Z) : Prop :=
  (dx = 1 /\ dy = 0) \/ (dx = -1 /\ dy = 0) \/ (dx = 0 /\ dy = 1) \/ (dx = 0 /\ dy = -1).

Lemma in_parts : forall {A} (s0 q1 q2 q3 : A) p1 p2 p3 p4 pt,
  In pt (s0 :: p1) \/ In pt (q1 :: p2) \/ In pt (q2 :: p3) \/ In pt (q3 :: p4) ->
  In pt (s0 :: p1 ++ [q1] ++ p2 ++ [q2] ++ p3 ++ [q3] ++ p4).
Proof.
  intros A s0 q1 q2 q3 p1 p2 p3 p4 pt H. cbn [In app] in *. rewrite !in_app_iff. cbn [In]. rewrite !in_app_iff. cbn [In].
  rewrite !in_app_iff. cbn [In]. tauto.
Qed.

Ltac use_ih IH k :=
  match goal with
  | |- context [hilbert_rec k ?a' {| hx := ?x'; hy := ?y'; hdx := ?dx'; hdy := ?dy' |}] =>
      let H := fresh "H" in
      pose proof (IH a' x' y' dx' dy' ltac:(lia) ltac:(unfold axis; lia)) as H;
      let p := fresh "p" in let s := fresh "s" in
      destruct (hilbert_rec k a' {| hx := x'; hy := y'; hdx := dx'; hdy := dy' |}) as [p s];
      cbn [fst snd] in H;
      let HL := fresh "HL" in let HS := fresh "HS" in let HC := fresh "HC" in
      destruct H as [HL [HS HC]]; subst s; unfold h_turn, h_fwd; cbn [hx hy hdx hdy]
  end.

Ltac pick_point :=
  match goal with
  | H : In ?p ?l |- In ?q ?l => replace q with p; [exact H | f_equal; lia]
  end.

Lemma hilbert_rec_inv : forall k a x y dx dy,
  (a = 1 \/ a = -1) -> axis dx dy ->
  (length (fst (hilbert_rec k a {| hx := x; hy := y; hdx := dx; hdy := dy |})) + 1 = 4 ^ k)%nat
  /\ snd (hilbert_rec k a {| hx := x; hy := y; hdx := dx; hdy := dy |})
     = {| hx := x + (2 ^ Z.of_nat k - 1) * dx; hy := y + (2 ^ Z.of_nat k - 1) * dy; hdx := dx; hdy := dy |}
  /\ forall i j, 0 <= i < 2 ^ Z.of_nat k -> 0 <= j < 2 ^ Z.of_nat k ->
       In (x + i * dx + j * (- a * dy), y + i * dy + j * (a * dx))
          ((x, y) :: fst (hilbert_rec k a {| hx := x; hy := y; hdx := dx; hdy := dy |})).
Proof.
  induction k as [|k IH]; intros a x y dx dy Ha Hax.
  - cbn [hilbert_rec fst snd length]. split; [reflexivity|]. split.
    + change (2 ^ Z.of_nat 0) with 1. f_equal; lia.
    + change (2 ^ Z.of_nat 0) with 1. intros i j Hi Hj. assert (i = 0) by lia. assert (j = 0) by lia. subst i j.
      left. f_equal; lia.
  - assert (Hn : 2 ^ Z.of_nat (S k) = 2 * 2 ^ Z.of_nat k) by (rewrite Nat2Z.inj_succ, Z.pow_succ_r; lia).
    assert (Hpos : 0 < 2 ^ Z.of_nat k) by (apply Z.pow_pos_nonneg; lia).
    rewrite Hn. set (n := 2 ^ Z.of_nat k) in *.
    destruct Ha as [Ha | Ha]; destruct Hax as [[Hx Hy] | [[Hx Hy] | [[Hx Hy] | [Hx Hy]]]]; subst a dx dy;
      cbn [hilbert_rec]; unfold h_turn, h_fwd; cbn [hx hy hdx hdy];
      use_ih IH k; use_ih IH k; use_ih IH k; use_ih IH k; cbn [fst snd];
      (split; [rewrite !app_length; cbn [length]; rewrite Nat.pow_succ_r'; unfold chip in *; lia|]);
      (split; [f_equal; lia|]);
      intros i j Hi Hj;
      destruct (Z_lt_le_dec i n) as [Hi' | Hi']; destruct (Z_lt_le_dec j n) as [Hj' | Hj'];
      apply in_parts;
      first [ solve [left; specialize (HC j i ltac:(lia) ltac:(lia)); pick_point]
            | solve [right; left; specialize (HC0 i (j - n) ltac:(lia) ltac:(lia)); pick_point]
            | solve [right; right; left; specialize (HC1 (i - n) (j - n) ltac:(lia) ltac:(lia)); pick_point]
            | solve [right; right; right; specialize (HC2 (n - 1 - j) (2 * n - 1 - i) ltac:(lia) ltac:(lia)); pick_point] ].
Qed.


(* ---------------------------------------------------------------------------------------------- *)
(* The curve of level k enumerates the 2^k x 2^k square without repetition                          *)
(* ---------------------------------------------------------------------------------------------- *)
Definition square (n : Z) : list chip := flat_map (fun x => map (fun y => (x, y)) (zrange n)) (zrange n).

Lemma square_In : forall n x y, In (x, y) (square n) <-> 0 <= x < n /\ 0 <= y < n.
Proof.
  intros n x y. unfold square. rewrite in_flat_map. split.
  - intros [x' [Hx Hin]]. apply in_map_iff in Hin. destruct Hin as [y' [E Hy]]. inversion E. subst.
    apply zrange_In in Hx. apply zrange_In in Hy. tauto.
  - intros [Hx Hy]. exists x. split; [apply zrange_In; exact Hx|]. apply in_map_iff. exists y.
    split; [reflexivity | apply zrange_In; exact Hy].
Qed.

Lemma square_NoDup : forall n, NoDup (square n).
Proof.
  intros n. unfold square. generalize (zrange_NoDup n). generalize (zrange n) at 1 3 as xs.
  induction xs as [|x xs IH]; intros Hnd; cbn [flat_map]; [constructor|].
  inversion Hnd as [|? ? Hx Hxs]. subst. apply NoDup_app_intro.
  - apply FinFun.Injective_map_NoDup; [|apply zrange_NoDup]. intros a b H. inversion H. reflexivity.
  - apply IH. exact Hxs.
  - intros p Hp Hq. apply in_map_iff in Hp. destruct Hp as [y [Ey _]]. subst p.
    apply in_flat_map in Hq. destruct Hq as [x' [Hx' Hq]]. apply in_map_iff in Hq. destruct Hq as [y' [Ey' _]].
    inversion Ey'. subst. contradiction.
Qed.

Lemma zrange_length : forall n, length (zrange n) = Z.to_nat n.
Proof. intros n. unfold zrange. rewrite map_length, seq_length. reflexivity. Qed.

Lemma grid_length : forall (xs ys : list Z),
  length (flat_map (fun x => map (fun y => (x, y)) ys) xs) = (length xs * length ys)%nat.
Proof.
  intros xs ys. induction xs as [|x xs IH]; cbn [flat_map length]; [reflexivity|].
  rewrite app_length, map_length, IH. lia.
Qed.

Lemma square_length : forall n, length (square n) = (Z.to_nat n * Z.to_nat n)%nat.
Proof. intros n. unfold square. rewrite grid_length, zrange_length. reflexivity. Qed.

Lemma pow2_nat : forall k, Z.to_nat (2 ^ Z.of_nat k) = (2 ^ k)%nat.
Proof.
  intros k. rewrite <- (Nat2Z.id (2 ^ k)). f_equal. rewrite Nat2Z.inj_pow. reflexivity.
Qed.

Lemma hilbert_spec : forall k,
  length (hilbert k) = (4 ^ k)%nat
  /\ forall x y, 0 <= x < 2 ^ Z.of_nat k -> 0 <= y < 2 ^ Z.of_nat k -> In (x, y) (hilbert k).
Proof.
  intros k. unfold hilbert.
  destruct (hilbert_rec_inv k 1 0 0 1 0 (or_introl eq_refl) (or_introl (conj eq_refl eq_refl))) as [HL [_ HC]].
  split; [cbn [length]; lia|].
  intros x y Hx Hy. specialize (HC x y Hx Hy).
  replace (x, y) with (0 + x * 1 + y * (- (1) * 0), 0 + x * 0 + y * (1 * 1)) by (f_equal; lia). exact HC.
Qed.

Lemma hilbert_NoDup : forall k, NoDup (hilbert k).
Proof.
  intros k. destruct (hilbert_spec k) as [HL HC].
  apply (@NoDup_incl_NoDup chip (square (2 ^ Z.of_nat k)) (hilbert k) (square_NoDup _)).
  - rewrite HL, square_length, pow2_nat, <- Nat.pow_mul_l. apply Nat.le_refl.
  - intros [x y] Hin. apply square_In in Hin. apply HC; tauto.
Qed.

(* ---------------------------------------------------------------------------------------------- *)
(* The level chosen covers the machine                                                              *)
(* ---------------------------------------------------------------------------------------------- *)
Lemma levels_from_covers : forall fuel k n,
  n <= 2 ^ Z.of_nat (k + fuel) -> n <= 2 ^ Z.of_nat (levels_from fuel k n).
Proof.
  induction fuel as [|fuel IH]; intros k n H; cbn [levels_from].
  - rewrite Nat.add_0_r in H. exact H.
  - destruct (n <=? 2 ^ Z.of_nat k) eqn:E; [apply Z.leb_le; exact E|].
    apply IH. replace (S k + fuel)%nat with (k + S fuel)%nat by lia. exact H.
Qed.

Lemma hilbert_levels_cover : forall m,
  Z.max (pm_width m) (pm_height m) <= 2 ^ Z.of_nat (hilbert_levels m).
Proof.
  intros m. unfold hilbert_levels. set (n := Z.max (pm_width m) (pm_height m)).
  destruct (1 <=? n) eqn:E.
  - apply Z.leb_le in E. apply levels_from_covers. cbn [Nat.add]. rewrite Z2Nat.id by lia.
    apply Z.lt_le_incl. apply Z.pow_gt_lin_r; lia.
  - apply Z.leb_gt in E. change (2 ^ Z.of_nat 0) with 1. lia.
Qed.

(* ---------------------------------------------------------------------------------------------- *)
(* Hence: every working chip exactly once, for every machine                                        *)
(* ---------------------------------------------------------------------------------------------- *)
Theorem hilbert_chip_order_ok : forall m, chip_order_ok m (hilbert_chip_order m).
Proof.
  intros m. unfold hilbert_chip_order. pose proof (hilbert_levels_cover m) as Hc. split.
  - apply NoDup_filter. apply hilbert_NoDup.
  - intros [x y] Hl. apply live_bounds in Hl. cbn [fst snd] in Hl. destruct Hl as [Hx [Hy _]].
    apply (proj2 (hilbert_spec (hilbert_levels m))); lia.
Qed.

(* hilbert.place = seq_place with the Hilbert chip order (and the breadth-first or default vertex order) *)
Theorem hilbert_place_complete : forall vr m cs r0 vorder,
  wf_problem vr m cs -> unit_premise vr m cs r0 ->
  (forall vo, vorder = Some vo -> vertex_order_ok vr vo) ->
  exists pl, seq_place vr m cs vorder (Some (hilbert_chip_order m)) = Ok pl.
Proof.
  intros vr m cs r0 vorder W U Hvo. apply (seq_place_complete vr m cs r0 vorder _ W U Hvo).
  intros co Hco. inversion Hco. subst co. apply hilbert_chip_order_ok.
Qed.
