(* C20, part 1: bytes, little/big-endian numbers, the formats read from boot_packet, the datagram builder. *)
From Coq Require Import ZArith List Bool String Ascii Lia.
Require Import Rig.Generated.GenBoot Rig.Model.Base Rig.Model.Boot Rig.Spec.Boot.
Import ListNotations.
Open Scope Z_scope.
Ltac Zify.zify_post_hook ::= Z.to_euclidean_division_equations.

(* ------------------------------------------------------------------ lengths *)
Lemma len_nil {A} : len (@nil A) = 0.
Proof. reflexivity. Qed.

Lemma len_cons {A} (x : A) l : len (x :: l) = len l + 1.
Proof. unfold len. cbn [List.length]. lia. Qed.

Lemma len_app {A} (a b : list A) : len (a ++ b) = len a + len b.
Proof. unfold len. rewrite app_length. lia. Qed.

Lemma len_nonneg {A} (l : list A) : 0 <= len l.
Proof. unfold len. lia. Qed.

Lemma len_firstn {A} n (l : list A) : len (firstn n l) = Z.min (Z.of_nat n) (len l).
Proof. unfold len. rewrite firstn_length. lia. Qed.

Lemma len_skipn {A} n (l : list A) : len (skipn n l) = Z.max 0 (len l - Z.of_nat n).
Proof. unfold len. rewrite skipn_length. lia. Qed.

Lemma len_repeat {A} (x : A) n : len (repeat x n) = Z.of_nat n.
Proof. unfold len. now rewrite repeat_length. Qed.

Lemma len_zero_nil {A} (l : list A) : len l = 0 -> l = [].
Proof. destruct l; [reflexivity|]. rewrite len_cons. pose proof (len_nonneg l). lia. Qed.

(* ------------------------------------------------------------------ bytes *)
Lemma bytes_ok_app a b : bytes_ok a -> bytes_ok b -> bytes_ok (a ++ b).
Proof. unfold bytes_ok. intros. apply Forall_app. auto. Qed.

Lemma In_firstn {A} n (l : list A) x : In x (firstn n l) -> In x l.
Proof. revert l. induction n as [|n IH]; intros l H; [destruct H|].
  destruct l; [destruct H|]. destruct H as [H|H]; [left; exact H|right; apply IH; exact H]. Qed.

Lemma bytes_ok_firstn n b : bytes_ok b -> bytes_ok (firstn n b).
Proof. unfold bytes_ok. intros H. apply Forall_forall. intros x Hx.
  apply In_firstn in Hx. rewrite Forall_forall in H. auto. Qed.

Lemma In_skipn {A} n (l : list A) x : In x (skipn n l) -> In x l.
Proof. revert l. induction n as [|n IH]; intros l H; [exact H|].
  destruct l; [destruct H|]. right. apply IH. exact H. Qed.

Lemma bytes_ok_skipn n b : bytes_ok b -> bytes_ok (skipn n b).
Proof. unfold bytes_ok. intros H. apply Forall_forall. intros x Hx.
  apply In_skipn in Hx. rewrite Forall_forall in H. auto. Qed.

Lemma bytes_ok_repeat0 n : bytes_ok (repeat 0 n).
Proof. apply Forall_forall. intros x Hx. apply repeat_spec in Hx. subst. unfold is_byte. lia. Qed.

(* le_bytes is written with bit operations (fast to evaluate); this is what it means *)
Lemma le_bytes_S n v : le_bytes (S n) v = v mod 256 :: le_bytes n (v / 256).
Proof.
  cbn [le_bytes]. change 255 with (Z.ones 8). rewrite Z.land_ones by lia.
  rewrite Z.shiftr_div_pow2 by lia. reflexivity.
Qed.

Lemma le_bytes_length n v : List.length (le_bytes n v) = n.
Proof. revert v. induction n as [|n IH]; intros v; cbn [le_bytes List.length]; [reflexivity|]. now rewrite IH. Qed.

Lemma le_bytes_ok n v : bytes_ok (le_bytes n v).
Proof. revert v. induction n as [|n IH]; intros v; [constructor|]. rewrite le_bytes_S. constructor.
  - unfold is_byte. apply Z.mod_pos_bound. lia.
  - apply IH. Qed.

Lemma bytes_ok_rev b : bytes_ok b -> bytes_ok (rev b).
Proof. unfold bytes_ok. intros H. apply Forall_forall. intros x Hx. apply in_rev in Hx.
  rewrite Forall_forall in H. auto. Qed.

Lemma le_bytes_le_value l : bytes_ok l -> le_bytes (List.length l) (le_value l) = l.
Proof.
  induction 1 as [|x l Hx Hl IH]; [reflexivity|].
  cbn [List.length le_value]. rewrite le_bytes_S. unfold is_byte in Hx. f_equal.
  - lia.
  - replace ((x + 256 * le_value l) / 256) with (le_value l) by lia. exact IH.
Qed.

Lemma le_value_range l : bytes_ok l -> 0 <= le_value l < 256 ^ len l.
Proof.
  induction 1 as [|x l Hx Hl IH]; [cbn; lia|].
  rewrite len_cons, Z.pow_add_r by (try apply len_nonneg; lia). change (256 ^ 1) with 256. cbn [le_value]. unfold is_byte in Hx. lia.
Qed.

(* ------------------------------------------------------------------ the formats of boot_packet (tie T) *)
(* These three facts are about the strings regenerated from the source text of boot_packet. *)
Lemma parse_word_in : parse_format boot_word_in_format = Some (Little, [4%nat]).
Proof. reflexivity. Qed.

Lemma parse_word_out : parse_format boot_word_out_format = Some (Big, [4%nat]).
Proof. reflexivity. Qed.

Lemma parse_header : parse_format boot_header_format = Some (Big, [2; 4; 4; 4; 4]%nat).
Proof. reflexivity. Qed.

Lemma in_range_u16 v : 0 <= v < 65536 -> in_range false 2 v = true.
Proof. intros H. unfold in_range. change (Z.shiftl 1 (8 * Z.of_nat 2)) with 65536.
  apply andb_true_intro. split; [apply Z.leb_le|apply Z.ltb_lt]; lia. Qed.

Lemma in_range_u32 v : 0 <= v < 4294967296 -> in_range false 4 v = true.
Proof. intros H. unfold in_range. change (Z.shiftl 1 (8 * Z.of_nat 4)) with 4294967296.
  apply andb_true_intro. split; [apply Z.leb_le|apply Z.ltb_lt]; lia. Qed.

Lemma rev_le4 v : rev (le_bytes 4 v) = be32 v.
Proof. unfold be32. rewrite !le_bytes_S. cbn [le_bytes rev app]. rewrite !Z.div_div by lia. reflexivity. Qed.

Lemma rev_le2 v : rev (le_bytes 2 v) = be16 v.
Proof. rewrite !le_bytes_S. reflexivity. Qed.

Lemma swap_word_ok a b c d :
  is_byte a -> is_byte b -> is_byte c -> is_byte d -> swap_word [a; b; c; d] = Some [d; c; b; a].
Proof.
  intros Ha Hb Hc Hd.
  assert (Hok : bytes_ok [a; b; c; d]) by (repeat (apply Forall_cons; [assumption|]); apply Forall_nil).
  unfold swap_word, unpack_fmt, pack_fmt. rewrite parse_word_in, parse_word_out.
  change (unpack_fields Little [4%nat] [a; b; c; d]) with (Some [le_value [a; b; c; d]]).
  pose proof (le_value_range _ Hok) as Hr. change (256 ^ len [a; b; c; d]) with 4294967296 in Hr.
  unfold pack_fields. rewrite in_range_u32 by exact Hr.
  unfold put. rewrite app_nil_r.
  change 4%nat with (List.length [a; b; c; d]). rewrite (le_bytes_le_value _ Hok). reflexivity.
Qed.

(* the swap of the whole payload, four bytes at a time *)
Lemma swap_words_ok : forall (n : nat) data,
  List.length data = (4 * n)%nat -> bytes_ok data -> swap_words data = Some (word_swap data).
Proof.
  induction n as [|n IH]; intros data Hlen Hok.
  - destruct data; [reflexivity|discriminate].
  - destruct data as [|a [|b [|c [|d rest]]]]; cbn [List.length] in Hlen; try lia.
    inversion Hok as [|? ? Ha Hok1]; subst. inversion Hok1 as [|? ? Hb Hok2]; subst.
    inversion Hok2 as [|? ? Hc Hok3]; subst. inversion Hok3 as [|? ? Hd Hok4]; subst.
    cbn [swap_words word_swap]. rewrite (swap_word_ok a b c d) by assumption.
    rewrite (IH rest) by (try assumption; lia). reflexivity.
Qed.

Lemma word_swap_length : forall (n : nat) data,
  List.length data = (4 * n)%nat -> List.length (word_swap data) = List.length data.
Proof.
  induction n as [|n IH]; intros data Hlen.
  - destruct data; [reflexivity|discriminate].
  - destruct data as [|a [|b [|c [|d rest]]]]; cbn [List.length] in Hlen; try lia.
    cbn [word_swap List.length]. rewrite (IH rest) by lia. reflexivity.
Qed.

Lemma word_swap_involutive : forall (n : nat) data,
  List.length data = (4 * n)%nat -> word_swap (word_swap data) = data.
Proof.
  induction n as [|n IH]; intros data Hlen.
  - destruct data; [reflexivity|discriminate].
  - destruct data as [|a [|b [|c [|d rest]]]]; cbn [List.length] in Hlen; try lia.
    cbn [word_swap]. rewrite (IH rest) by lia. reflexivity.
Qed.

Lemma mod4_length {A} (l : list A) : len l mod 4 = 0 -> exists n : nat, List.length l = (4 * n)%nat.
Proof. unfold len. intros H. exists (Z.to_nat (Z.of_nat (List.length l) / 4)). lia. Qed.

(* ------------------------------------------------------------------ boot_packet *)
Lemma header_length ver cmd a1 a2 a3 : List.length (header ver cmd a1 a2 a3) = 18%nat.
Proof. reflexivity. Qed.

Lemma header_ok cmd a1 a2 a3 :
  0 <= cmd < 4294967296 -> 0 <= a1 < 4294967296 -> 0 <= a2 < 4294967296 -> 0 <= a3 < 4294967296 ->
  pack_fmt boot_header_format [PROTOCOL_VERSION; cmd; a1; a2; a3] = Some (header 1 cmd a1 a2 a3).
Proof.
  intros Hc H1 H2 H3. unfold pack_fmt. rewrite parse_header. change PROTOCOL_VERSION with 1.
  unfold pack_fields. rewrite in_range_u16 by lia. rewrite !in_range_u32 by assumption.
  unfold put, header. rewrite !rev_le4, rev_le2, app_nil_r. reflexivity.
Qed.

Lemma boot_packet_ok cmd a1 a2 a3 data :
  0 <= cmd < 4294967296 -> 0 <= a1 < 4294967296 -> 0 <= a2 < 4294967296 -> 0 <= a3 < 4294967296 ->
  bytes_ok data -> len data mod 4 = 0 ->
  boot_packet cmd a1 a2 a3 data = Ok (header 1 cmd a1 a2 a3 ++ word_swap data).
Proof.
  intros Hc H1 H2 H3 Hok Hm. unfold boot_packet. rewrite header_ok by assumption.
  rewrite Hm. cbn [Z.eqb]. destruct (mod4_length _ Hm) as [n Hn].
  rewrite (swap_words_ok n) by assumption. reflexivity.
Qed.

(* the assertion of boot_packet: data that is not word-sized is refused (after the header was built) *)
Lemma boot_packet_unaligned cmd a1 a2 a3 data :
  len data mod 4 <> 0 -> boot_packet cmd a1 a2 a3 data = OtherError.
Proof.
  intros Hm. unfold boot_packet. destruct (pack_fmt _ _); [|reflexivity].
  destruct (len data mod 4 =? 0) eqn:E; [|reflexivity]. apply Z.eqb_eq in E. contradiction.
Qed.
