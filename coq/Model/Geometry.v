(* C11 -- executable model of the hand-modelled parts of rig/geometry.py, rig/links.py and
   rig/place_and_route/route/utils.py.  Definitions only.  The integer kernels (to_xyz, minimise_xyz,
   shortest_mesh_path_length, shortest_torus_path_length, Links.from_vector / to_vector / opposite) are
   NOT modelled here: they are translated from the source text into Generated/GenGeometry.v and used
   as they are.

   Randomness.  The code draws from the module attribute `random`:
     * random.random() returns k / 2^53 for an integer 0 <= k < 2^53; the model takes the numerators k
       as explicit arguments, in the order in which the code draws them;
     * random.randint(lo, hi) is an explicit function argument [rint]; its contract
       (lo <= hi -> lo <= rint lo hi <= hi) is a hypothesis of the theorems, never built into the model. *)
From Coq Require Import ZArith List Bool.
Require Import Rig.Model.Base Rig.Generated.GenGeometryLinks Rig.Generated.GenGeometry
        Rig.Generated.GenGeometryShapes.
Import ListNotations.
Open Scope Z_scope.

Definition vec3 := (Z * Z * Z)%type.

(* ------------------------------------------------------------------------------------------------
   IEEE double addition  float(d) + k/2^53  for an integer 0 <= d < 2^53 and 0 <= k < 2^53, result
   scaled by 2^53 (an integer).  Round to nearest, ties to even.  For 2^e <= d < 2^(e+1) the sum lies in
   [2^e, 2^(e+1)] where doubles are spaced 2^(e-52), i.e. 2^(e+1) after scaling.  d = 0: the sum is k/2^53,
   exact.  (Used by longest_dimension_first, and by the code of shortest_torus_path as found.) *)
Definition two53 : Z := 2 ^ 53.
Definition fadd53 (d k : Z) : Z :=
  if d <=? 0 then d * two53 + k
  else
    let u := 2 ^ (Z.log2 d + 1) in
    let v := d * two53 + k in
    let q := v / u in
    let r := v mod u in
    if 2 * r <? u then q * u
    else if u <? 2 * r then (q + 1) * u
    else if Z.even q then q * u else (q + 1) * u.

(* min(iterable, key=...) : the first element whose key is minimal (replaced only by a strictly
   smaller key) *)
Fixpoint argmin_first {K A : Type} (lt : K -> K -> bool) (best : K * A) (l : list (K * A)) : K * A :=
  match l with
  | [] => best
  | a :: l' => argmin_first lt (if lt (fst a) (fst best) then a else best) l'
  end.

(* ------------------------------------------------------------------------------------------------
   shortest_mesh_path : minimise_xyz(d - s for s, d in zip(source, destination)) *)
Definition shortest_mesh_path (source destination : vec3) : vec3 :=
  let '(sx, sy, sz) := source in
  let '(dx, dy, dz) := destination in
  minimise_xyz (mesh_path_component sx dx, mesh_path_component sy dy, mesh_path_component sz dz).

(* ------------------------------------------------------------------------------------------------
   shortest_torus_path *)
(* the list `approaches`: (distance, vector), and (w, h, dx, dy) after the translation of the
   destination and the two `%`: both translated from the source text (Generated/GenGeometryShapes.v) *)
Definition torus_approaches (w h dx dy : Z) : list (Z * vec3) := torus_approaches_src w h dx dy.

Definition torus_delta (source destination : vec3) (w h : Z) : Z * Z :=
  let '(_, _, dx, dy) := torus_head source destination w h in (dx, dy).

(* the `if abs(x) >= height: ... elif abs(y) >= width: ...` adjustment, restated readably; what the
   model executes is the statement-by-statement translation [torus_spiral] of that part of the source
   (Generated/GenGeometryShapes.v); Proofs/Geometry.v shows the two equal *)
Definition max_spirals (c size : Z) : Z := (if c <? 0 then c + size - 1 else c) / size.

Definition spiral (rint : Z -> Z -> Z) (v : vec3) (width height : Z) : vec3 :=
  let '(x, y, z) := v in
  if Z.abs x >=? height then
    let ms := max_spirals x height in
    let d := rint (Z.min 0 ms) (Z.max 0 ms) * height in
    (x - d, y, z - d)
  else if Z.abs y >=? width then
    let ms := max_spirals y width in
    let d := rint (Z.min 0 ms) (Z.max 0 ms) * width in
    (x, y - d, z - d)
  else (x, y, z).

(* the arguments of the randint call, if one is made (compared with the scripted random's log) *)
Definition spiral_request (v : vec3) (width height : Z) : option (Z * Z) :=
  let '(x, y, z) := v in
  if Z.abs x >=? height then
    let ms := max_spirals x height in Some (Z.min 0 ms, Z.max 0 ms)
  else if Z.abs y >=? width then
    let ms := max_spirals y width in Some (Z.min 0 ms, Z.max 0 ms)
  else None.

(* keys of the current code: key = (a[0], random.random()), compared as Python tuples *)
Definition lex_ltb (a b : Z * Z) : bool :=
  (fst a <? fst b) || ((fst a =? fst b) && (snd a <? snd b)).

Definition keyed_lex (ks : list Z) (apps : list (Z * vec3)) : list ((Z * Z) * vec3) :=
  map (fun '(k, (d, v)) => ((d, k), v)) (combine ks apps).

(* keys of the code as found (before fix e32a46f): key = a[0] + random.random(), a float *)
Definition keyed_float (ks : list Z) (apps : list (Z * vec3)) : list (Z * vec3) :=
  map (fun '(k, (d, v)) => (fadd53 d k, v)) (combine ks apps).

Definition choose {K} (lt : K -> K -> bool) (l : list (K * vec3)) : vec3 :=
  match l with
  | [] => (0, 0, 0)                   (* unreachable: there are always four approaches *)
  | a :: l' => snd (argmin_first lt a l')
  end.

(* the vector chosen by `min(approaches, key=...)`, before minimise_xyz *)
Definition torus_choice (k0 k1 k2 k3 : Z) (source destination : vec3) (width height : Z) : vec3 :=
  let '(w, h, dx, dy) := torus_head source destination width height in
  choose lex_ltb (keyed_lex [k0; k1; k2; k3] (torus_approaches w h dx dy)).

Definition shortest_torus_path (k0 k1 k2 k3 : Z) (rint : Z -> Z -> Z)
           (source destination : vec3) (width height : Z) : result vec3 :=
  if (width =? 0) || (height =? 0) then OtherError        (* ZeroDivisionError of `%` *)
  else Ok (let '(x, y, z) := minimise_xyz (torus_choice k0 k1 k2 k3 source destination width height) in
           torus_spiral rint x y z width height).

Definition torus_path_request (k0 k1 k2 k3 : Z) (source destination : vec3) (width height : Z)
  : option (Z * Z) :=
  spiral_request (minimise_xyz (torus_choice k0 k1 k2 k3 source destination width height))
                 width height.

(* the code as found in the snapshot (float key); kept for the refutation theorem *)
Definition torus_choice_orig (k0 k1 k2 k3 : Z) (source destination : vec3) (width height : Z) : vec3 :=
  let '(w, h, dx, dy) := torus_head source destination width height in
  choose Z.ltb (keyed_float [k0; k1; k2; k3] (torus_approaches w h dx dy)).

Definition shortest_torus_path_orig (k0 k1 k2 k3 : Z) (rint : Z -> Z -> Z)
           (source destination : vec3) (width height : Z) : result vec3 :=
  if (width =? 0) || (height =? 0) then OtherError
  else Ok (let '(x, y, z) := minimise_xyz (torus_choice_orig k0 k1 k2 k3 source destination width height) in
           torus_spiral rint x y z width height).

(* the length function with its error branch *)
Definition torus_path_length_checked (source destination : vec3) (width height : Z) : result Z :=
  if (width =? 0) || (height =? 0) then OtherError
  else Ok (shortest_torus_path_length source destination width height).

(* ------------------------------------------------------------------------------------------------
   longest_dimension_first(vector, start, width, height) *)
(* sorted(enumerate(vector), key=lambda x: abs(x[1]) + random.random(), reverse=True): a stable sort
   in descending key order; entries are (key, (dimension, magnitude)) *)
Definition ldf_entry := (Z * (Z * Z))%type.

Fixpoint insert_desc (e : ldf_entry) (l : list ldf_entry) : list ldf_entry :=
  match l with
  | [] => [e]
  | h :: t => if fst h <=? fst e then e :: h :: t else h :: insert_desc e t
  end.

Definition sort_desc (l : list ldf_entry) : list ldf_entry := fold_right insert_desc [] l.

Definition ldf_order (k0 k1 k2 : Z) (vector : vec3) : list (Z * Z) :=
  let '(x, y, z) := vector in
  map snd (sort_desc [ (fadd53 (Z.abs x) k0, (0, x));
                       (fadd53 (Z.abs y) k1, (1, y));
                       (fadd53 (Z.abs z) k2, (2, z)) ]).

(* width / height: None or a size; `x %= width` with width = 0 is a ZeroDivisionError *)
Definition size_zero (m : option Z) : bool := match m with Some w => w =? 0 | None => false end.
Definition has_size (m : option Z) : bool := match m with Some _ => true | None => false end.
Definition size_val (m : option Z) : Z := match m with Some w => w | None => 0 end.

Definition wrapo (m : option Z) (x : Z) : result Z :=
  match m with
  | None => Ok x
  | Some w => if w =? 0 then OtherError else Ok (x mod w)
  end.

(* one iteration of the inner loop.  The four statements advancing and wrapping (x, y), the `sign = ...`
   expression, the repeat count and the if / elif choosing (dx, dy) are also translated from the source
   text on every run (Generated/GenGeometryShapes.v: ldf_advance, ldf_sign, ldf_count, ldf_delta_src);
   Props/C11.v C11_ldf_source_tie proves them equal to the definitions used here. *)
Definition ldf_step (dx dy : Z) (width height : option Z) (p : chip) : result (Z * chip) :=
  bind (wrapo width (fst p + dx)) (fun x =>
  bind (wrapo height (snd p + dy)) (fun y =>
  match links_from_vector (dx, dy) with
  | None => OtherError                                   (* KeyError *)
  | Some l => Ok (l, (x, y))
  end)).

Fixpoint ldf_steps (n : nat) (dx dy : Z) (width height : option Z) (p : chip)
  : result (list (Z * chip) * chip) :=
  match n with
  | O => Ok ([], p)
  | S n' =>
      bind (ldf_step dx dy width height p) (fun lp =>
      bind (ldf_steps n' dx dy width height (snd lp)) (fun r =>
      Ok (lp :: fst r, snd r)))
  end.

Definition ldf_delta (dimension sign : Z) : Z * Z :=
  if dimension =? 0 then (sign, 0)
  else if dimension =? 1 then (0, sign)
  else (- sign, - sign).

Fixpoint ldf_dims (ds : list (Z * Z)) (width height : option Z) (p : chip)
  : result (list (Z * chip)) :=
  match ds with
  | [] => Ok []
  | (dimension, magnitude) :: ds' =>
      if magnitude =? 0 then Ok []                        (* break *)
      else
        let sign := if magnitude >? 0 then 1 else -1 in
        let '(dx, dy) := ldf_delta dimension sign in
        bind (ldf_steps (Z.to_nat (Z.abs magnitude)) dx dy width height p) (fun r =>
        bind (ldf_dims ds' width height (snd r)) (fun out' =>
        Ok (fst r ++ out')))
  end.

Definition longest_dimension_first (k0 k1 k2 : Z) (vector : vec3) (start : chip)
           (width height : option Z) : result (list (Z * chip)) :=
  ldf_dims (ldf_order k0 k1 k2 vector) width height start.

(* ------------------------------------------------------------------------------------------------
   concentric_hexagons(radius, start) as the list of the generated coordinates *)
Fixpoint hex_side (n : nat) (p : chip) (d : Z * Z) : list chip * chip :=
  match n with
  | O => ([], p)
  | S n' =>
      let r := hex_side n' (fst p + fst d, snd p + snd d) d in
      (p :: fst r, snd r)
  end.

(* the directions, the first ring and the step to the next layer are read from the source text *)
Definition hex_dirs : list (Z * Z) := hexagon_dirs.

Fixpoint hex_sides (dirs : list (Z * Z)) (r : nat) (p : chip) : list chip * chip :=
  match dirs with
  | [] => ([], p)
  | d :: ds =>
      let a := hex_side r p d in
      let b := hex_sides ds r (snd a) in
      (fst a ++ fst b, snd b)
  end.

(* [count] rings remain, the next one has radius [r]; p is the current (x, y) of the generator *)
Fixpoint hex_rings (count : nat) (r : nat) (p : chip) : list chip :=
  match count with
  | O => []
  | S c =>
      let a := hex_sides hex_dirs r (fst p, snd p - hexagon_layer_step) in
      fst a ++ hex_rings c (S r) (snd a)
  end.

Definition concentric_hexagons (radius : Z) (start : chip) : list chip :=
  start :: hex_rings (Z.to_nat (radius + 1 - hexagon_first_ring)) (Z.to_nat hexagon_first_ring) start.
