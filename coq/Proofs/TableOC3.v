(* Ordered covering, part 3: the initial stable sort, the while loop, and ordered_covering.minimise as
   a method of minimise_table. *)
From Coq Require Import ZArith List Bool Lia Arith.
Require Import Rig.Generated.GenTable.
Require Import Rig.Model.Base Rig.Model.Table Rig.Spec.Table.
Require Import Rig.Proofs.TableCheck Rig.Proofs.Table Rig.Proofs.TableBits Rig.Proofs.TableIns.
Require Import Rig.Proofs.TableOC Rig.Proofs.TableOC2.
Import ListNotations.
Open Scope Z_scope.

(* ------------------------------------------------------------------------------------------------ *)
(** * sorted(table, key=generality) *)

Lemma In_insert : forall x l y, In y (insert_by_gen x l) <-> y = x \/ In y l.
Proof.
  intros x l y. induction l as [| z l IH]; simpl.
  - split; [intros [H | []]; left; symmetry; exact H | intros [H | []]; left; symmetry; exact H].
  - destruct (gen_of x <=? gen_of z); simpl.
    + split; [intros [H | H]; [left; symmetry; exact H | right; exact H]
             | intros [H | H]; [left; symmetry; exact H | right; exact H]].
    + rewrite IH. split.
      * intros [H | [H | H]]; [right; left; exact H | left; exact H | right; right; exact H].
      * intros [H | [H | H]]; [right; left; exact H | left; exact H | right; right; exact H].
Qed.

Lemma In_sort : forall t y, In y (sort_by_gen t) <-> In y t.
Proof.
  intros t y. unfold sort_by_gen. induction t as [| x t IH]; simpl; [reflexivity |].
  rewrite In_insert, IH. split; intros [H | H]; auto.
Qed.

Lemma insert_length : forall x l, length (insert_by_gen x l) = S (length l).
Proof.
  intros x l. induction l as [| z l IH]; simpl; [reflexivity |].
  destruct (gen_of x <=? gen_of z); simpl; [reflexivity | rewrite IH; reflexivity].
Qed.

Lemma sort_length : forall t, length (sort_by_gen t) = length t.
Proof.
  intros t. unfold sort_by_gen. induction t as [| x t IH]; simpl; [reflexivity |].
  rewrite insert_length, IH. reflexivity.
Qed.

Lemma insert_sorted : forall x l, sortedz (gens_of l) -> sortedz (gens_of (insert_by_gen x l)).
Proof.
  intros x l. induction l as [| z l IH]; intros Hs; simpl.
  - split; [intros y [] | exact I].
  - destruct (gen_of x <=? gen_of z) eqn:Hc.
    + apply Z.leb_le in Hc. simpl. simpl in Hs. destruct Hs as [Hz Hl].
      split; [| split; assumption].
      intros y [<- | Hy]; [exact Hc | specialize (Hz y Hy); lia].
    + apply Z.leb_gt in Hc. simpl. simpl in Hs. destruct Hs as [Hz Hl].
      split; [| apply IH; exact Hl].
      intros y Hy. unfold gens_of in Hy. apply in_map_iff in Hy. destruct Hy as [w [<- Hw]].
      apply In_insert in Hw. destruct Hw as [-> | Hw]; [lia |].
      apply Hz. apply in_map. exact Hw.
Qed.

Lemma sort_sorted : forall t, sortedz (gens_of (sort_by_gen t)).
Proof.
  intros t. unfold sort_by_gen. induction t as [| x t IH]; simpl; [exact I |].
  apply insert_sorted. exact IH.
Qed.

(* a table already in increasing order of generality is left alone (the sort is stable) *)
Lemma sort_sorted_id : forall t, sortedz (gens_of t) -> sort_by_gen t = t.
Proof.
  intros t. unfold sort_by_gen. induction t as [| x t IH]; intros Hs; simpl; [reflexivity |].
  simpl in Hs. destruct Hs as [Hx Ht]. rewrite (IH Ht).
  destruct t as [| z t']; simpl; [reflexivity |].
  assert (Hc : gen_of x <=? gen_of z = true).
  { apply Z.leb_le. apply Hx. left. reflexivity. }
  rewrite Hc. reflexivity.
Qed.

(* an orthogonal table can be reordered freely *)
Lemma pairwise_disjoint_sym : forall x l k,
  pairwise_disjoint (x :: l) -> forall d, In d l -> matches d k = true -> matches x k = false.
Proof.
  intros x l k [Hx _] d Hd Hm. destruct (matches x k) eqn:Hxk; [| reflexivity].
  rewrite (Hx d k Hd Hxk) in Hm. discriminate.
Qed.

Lemma insert_orthogonal : forall x l,
  pairwise_disjoint (x :: l) ->
  pairwise_disjoint (insert_by_gen x l)
  /\ forall k, lookup (insert_by_gen x l) k = lookup (x :: l) k.
Proof.
  intros x l. induction l as [| z l IH]; intros Hpd; simpl.
  - split; [exact Hpd | reflexivity].
  - destruct (gen_of x <=? gen_of z); [split; [exact Hpd | reflexivity] |].
    destruct Hpd as [Hx [Hz Hl]].
    assert (Hpd' : pairwise_disjoint (x :: l)).
    { split; [intros d k Hd Hm; apply (Hx d k (or_intror Hd) Hm) | exact Hl]. }
    destruct (IH Hpd') as [IH1 IH2]. split.
    + simpl. split; [| exact IH1].
      intros d k Hd Hm. apply In_insert in Hd. destruct Hd as [-> | Hd]; [| apply (Hz d k Hd Hm)].
      destruct (matches x k) eqn:Hxk; [| reflexivity].
      rewrite (Hx z k (or_introl eq_refl) Hxk) in Hm. discriminate.
    + intros k. unfold lookup in *. cbn [find]. rewrite IH2. cbn [find].
      destruct (matches z k) eqn:Hzk.
      * destruct (matches x k) eqn:Hxk; [| reflexivity].
        rewrite (Hx z k (or_introl eq_refl) Hxk) in Hzk. discriminate.
      * reflexivity.
Qed.

Lemma sort_orthogonal : forall t,
  pairwise_disjoint t ->
  pairwise_disjoint (sort_by_gen t) /\ forall k, lookup (sort_by_gen t) k = lookup t k.
Proof.
  intros t. unfold sort_by_gen. induction t as [| x t IH]; intros Hpd; simpl; [split; [exact I | reflexivity] |].
  destruct Hpd as [Hx Ht]. destruct (IH Ht) as [IH1 IH2].
  assert (Hpd' : pairwise_disjoint (x :: fold_right insert_by_gen [] t)).
  { split; [| exact IH1]. intros d k Hd Hm. apply (Hx d k); [| exact Hm]. apply In_sort. exact Hd. }
  destruct (insert_orthogonal x _ Hpd') as [H1 H2]. split; [exact H1 |].
  intros k. rewrite H2. unfold lookup in *. cbn [find]. rewrite IH2. reflexivity.
Qed.

(* ------------------------------------------------------------------------------------------------ *)
(** * The while loop *)

Lemma Inv_init : forall O, sortedz (gens_of O) -> Inv O O [].
Proof.
  intros O Hs. constructor; [exact Hs |].
  intros k e Hl. exists e. split; [exact Hl | split; [split; [reflexivity | apply subset_refl] |]].
  exists (km_of e). split; [left; reflexivity | apply (lookup_In O k e Hl)].
Qed.

(* the loop ends with the invariant intact, a table that is not longer, and -- unless it stopped
   because the target was reached -- no merge of positive goodness left *)
Lemma oc_loop_spec : forall fuel O T A target,
  Inv O T A -> (length T < fuel)%nat ->
  exists T' A', oc_loop fuel T A target = Ok (T', A') /\ Inv O T' A'
                /\ (length T' <= length T)%nat.
Proof.
  induction fuel as [| f IH]; intros O T A target HInv Hf; [lia |].
  cbn [oc_loop]. destruct (over_target T target).
  - destruct (best_merge_spec T A (inv_sorted _ _ _ HInv)) as [M [HM Happ]].
    rewrite HM. cbn [bind].
    destruct (m_goodness M <=? 0) eqn:Hg.
    + exists T, A. split; [reflexivity | split; [exact HInv | lia]].
    + apply Z.leb_gt in Hg. destruct (Happ ltac:(lia)) as [Hism [Hok [H2 [HUP HDOWN]]]].
      destruct Hok as [Hinc [Hlt Hroute]].
      destruct (apply_merge_preserves O T A (m_entries M) HInv) as [T1 [A1 [Hap [HInv1 Hlen1]]]].
      * split; [apply incr_NoDup; exact Hinc | exact Hlt].
      * exact H2.
      * exact Hroute.
      * rewrite <- Hism. exact HUP.
      * rewrite <- Hism. exact HDOWN.
      * rewrite <- Hism in Hap. rewrite Hap. cbn [bind fst snd].
        destruct (IH O T1 A1 target HInv1 ltac:(lia)) as [T' [A' [Hl [HInv' Hlen']]]].
        exists T', A'. split; [exact Hl | split; [exact HInv' | lia]].
  - exists T, A. split; [reflexivity | split; [exact HInv | lia]].
Qed.

(* a run with a target that ends above the target is the run without target *)
Lemma oc_loop_none : forall fuel T A tl T1 A1,
  oc_loop fuel T A (Some tl) = Ok (T1, A1) -> len T1 > tl ->
  oc_loop fuel T A None = Ok (T1, A1).
Proof.
  induction fuel as [| f IH]; intros T A tl T1 A1 H Hgt; cbn [oc_loop] in *.
  - unfold over_target in H. destruct (len T >? tl) eqn:Hc; [discriminate |].
    injection H as <- <-. rewrite Z.gtb_ltb in Hc. apply Z.ltb_ge in Hc. lia.
  - unfold over_target in *. destruct (len T >? tl) eqn:Hc.
    + destruct (best_merge T A) as [M | | |]; cbn [bind] in *; try discriminate.
      destruct (m_goodness M <=? 0); [exact H |].
      destruct (apply_merge T A M) as [[T2 A2] | | |]; cbn [bind fst snd] in *; try discriminate.
      apply (IH T2 A2 tl T1 A1 H Hgt).
    + injection H as <- <-. rewrite Z.gtb_ltb in Hc. apply Z.ltb_ge in Hc. lia.
Qed.

(* ------------------------------------------------------------------------------------------------ *)
(** * ordered_covering.minimise is a method in the sense of minimise_table *)

(* the domain of the property for ordered covering *)
Definition oc_domain (t : table) : Prop :=
  nonempty_sources t                              (* every entry has a source direction *)
  /\ (sortedz (gens_of t) \/ pairwise_disjoint t). (* increasing generality, or orthogonal *)

Lemma ordered_covering_no_raise : forall t target,
  ordered_covering t target [] true = oc_loop (S (length t)) (sort_by_gen t) [] target.
Proof.
  intros t target. unfold ordered_covering.
  destruct (oc_loop (S (length t)) (sort_by_gen t) [] target) as [ta | | |]; cbn [bind]; try reflexivity.
  destruct target; reflexivity.
Qed.

Lemma sort_lookup : forall t, (sortedz (gens_of t) \/ pairwise_disjoint t) ->
  forall k, lookup (sort_by_gen t) k = lookup t k.
Proof.
  intros t [Hs | Hpd] k; [rewrite (sort_sorted_id t Hs); reflexivity | apply (sort_orthogonal t Hpd)].
Qed.

(* the ordered-covering stage alone: every matched key stays matched and is routed alike *)
Theorem ordered_covering_route_eq : forall t target,
  oc_domain t ->
  exists T A, ordered_covering t target [] true = Ok (T, A)
              /\ route_eq_matched t T /\ len T <= len t.
Proof.
  intros t target [Hne Hord]. rewrite ordered_covering_no_raise.
  assert (HInv0 : Inv (sort_by_gen t) (sort_by_gen t) []) by (apply Inv_init; apply sort_sorted).
  destruct (oc_loop_spec (S (length t)) _ _ _ target HInv0) as [T [A [Hl [HInv Hlen]]]].
  { rewrite sort_length. lia. }
  exists T, A. split; [exact Hl | split].
  - intros k e _ Hlk. rewrite <- (sort_lookup t Hord) in Hlk.
    destruct (inv_route _ _ _ HInv k e Hlk) as [x [Hx [Hrl _]]]. exists x. split; assumption.
  - rewrite sort_length in Hlen. unfold len. lia.
Qed.

Theorem oc_minimise_method_ok : forall t, oc_domain t -> method_ok oc_minimise t.
Proof.
  intros t Hdom. pose proof Hdom as [Hne Hord].
  destruct (ordered_covering_route_eq t None Hdom) as [T0 [A0 [Hoc0 [Hre0 Hlen0]]]].
  destruct (remove_default_spec T0 None) as [full [Hrd0 [Hrdre [Hrdlen _]]]].
  exists full. unfold oc_minimise at 1. rewrite Hoc0. cbn [bind fst].
  split; [exact Hrd0 | split; [| split; [lia |]]].
  { apply (route_eq_compose t T0 full Hne Hre0 Hrdre). }
  intros tl. unfold oc_minimise.
  destruct (ordered_covering_route_eq t (Some tl) Hdom) as [T1 [A1 [Hoc1 [Hre1 Hlen1]]]].
  rewrite Hoc1. cbn [bind fst].
  destruct (remove_default_spec T1 (Some tl)) as [full1 [Hrd1 [Hrdre1 [Hrdlen1 Hrdt]]]].
  rewrite Hrdt. destruct (tl <? len full1) eqn:Hc.
  - apply Z.ltb_lt in Hc.
    (* the loop stopped above the target, hence for lack of merges: it is the run without target *)
    rewrite ordered_covering_no_raise in Hoc1, Hoc0.
    pose proof (oc_loop_none _ _ _ _ _ _ Hoc1 ltac:(lia)) as Hsame.
    rewrite Hoc0 in Hsame. injection Hsame as <- <-.
    rewrite Hrd0 in Hrd1. injection Hrd1 as <-. split; [reflexivity | exact Hc].
  - apply Z.ltb_ge in Hc. split; [| split; lia].
    apply (route_eq_compose t T1 full1 Hne Hre1 Hrdre1).
Qed.

(* ------------------------------------------------------------------------------------------------ *)
(** * The domain as stated in Spec/Table.v implies the hypotheses used above *)

Lemma sorted_by_generality_sortedz : forall t, sorted_by_generality t -> sortedz (gens_of t).
Proof.
  induction t as [| x r IH]; intros H; simpl; [exact I |]. split.
  - intros y Hy. apply in_map_iff in Hy. destruct Hy as [b [<- Hb]].
    apply In_nth_error in Hb. destruct Hb as [j Hj].
    rewrite !gen_of_spec. apply (H 0%nat (S j) x b); [lia | reflexivity | exact Hj].
  - apply IH. intros i j a b Hij Ha Hb. apply (H (S i) (S j) a b); [lia | exact Ha | exact Hb].
Qed.

Lemma sortedz_sorted_by_generality : forall t, sortedz (gens_of t) -> sorted_by_generality t.
Proof.
  intros t Hs i j a b Hij Ha Hb.
  assert (Hj : (j < length t)%nat) by (apply nth_error_Some; congruence).
  pose proof (sortedz_nth (gens_of t) i j Hs Hij ltac:(unfold gens_of; rewrite map_length; exact Hj)) as H.
  unfold gens_of in H.
  rewrite (nth_indep _ 0 (gen_of a)) in H by (rewrite map_length; lia).
  rewrite (nth_indep _ 0 (gen_of a) (n:=j)) in H by (rewrite map_length; lia).
  rewrite !map_nth in H.
  rewrite (nth_error_nth t i a Ha), (nth_error_nth t j a Hb) in H. rewrite <- !gen_of_spec. exact H.
Qed.

Lemma matches_low32 : forall e k, 0 <= e_mask e <= 4294967295 ->
  matches e (Z.land k 4294967295) = matches e k.
Proof.
  intros e k Hm. unfold matches, km_matches, km_of. cbn [fst snd].
  rewrite <- Z.land_assoc. f_equal. f_equal.
  change 4294967295 with (Z.ones 32). rewrite Z.land_comm, Z.land_ones by lia.
  apply Z.mod_small. change (2 ^ 32) with 4294967296. lia.
Qed.

Lemma key32_low32 : forall k, key32 (Z.land k 4294967295).
Proof.
  intros k. unfold key32. change 4294967295 with (Z.ones 32). rewrite Z.land_ones by lia.
  change 4294967296 with (2 ^ 32). apply Z.mod_pos_bound. lia.
Qed.

Lemma orthogonal_pairwise_disjoint_loose : forall t, masks32 t -> orthogonal t -> pairwise_disjoint t.
Proof.
  induction t as [| x r IH]; intros H32 Ho; simpl; [exact I |]. split.
  - intros d k Hd Hm. apply In_nth_error in Hd. destruct Hd as [j Hj].
    assert (Hd32 : 0 <= e_mask d <= 4294967295).
    { apply (H32 d). right. apply (nth_error_In _ _ Hj). }
    assert (Hx32 : 0 <= e_mask x <= 4294967295) by (apply (H32 x); left; reflexivity).
    rewrite <- (matches_low32 d k Hd32). rewrite <- (matches_low32 x k Hx32) in Hm.
    apply (Ho 0%nat (S j) x d (Z.land k 4294967295)); [lia | reflexivity | exact Hj | apply key32_low32 | exact Hm].
  - apply IH.
    + intros e He. apply H32. right. exact He.
    + intros i j a b k Hij Ha Hb Hk Hm. apply (Ho (S i) (S j) a b k); [lia | exact Ha | exact Hb | exact Hk | exact Hm].
Qed.

Lemma table32_masks32 : forall t, table32 t -> masks32 t.
Proof. intros t H e He. apply (H e He). Qed.

Lemma orthogonal_pairwise_disjoint : forall t, table32 t -> orthogonal t -> pairwise_disjoint t.
Proof. intros t H32 Ho. apply orthogonal_pairwise_disjoint_loose; [apply table32_masks32; exact H32 | exact Ho]. Qed.

Lemma minimiser_domain_loose_of : forall t, minimiser_domain t -> minimiser_domain_loose t.
Proof.
  intros t [H32 [Hne Hord]]. split; [exact Hne |].
  destruct Hord as [Hs | Ho]; [left; exact Hs | right; split; [apply table32_masks32; exact H32 | exact Ho]].
Qed.

Lemma minimiser_domain_loose_oc_domain : forall t, minimiser_domain_loose t -> oc_domain t.
Proof.
  intros t [Hne Hord]. split; [exact Hne |].
  destruct Hord as [Hs | [Hm Ho]]; [left; apply sorted_by_generality_sortedz; exact Hs |].
  right. apply orthogonal_pairwise_disjoint_loose; assumption.
Qed.

Lemma minimiser_domain_oc_domain : forall t, minimiser_domain t -> oc_domain t.
Proof. intros t H. apply minimiser_domain_loose_oc_domain. apply minimiser_domain_loose_of. exact H. Qed.

(* U: the key-range and stray-key-bit clauses of the domain are not needed *)
Theorem oc_minimise_loose_spec : forall t, minimiser_domain_loose t -> method_ok oc_minimise t.
Proof. intros t H. apply oc_minimise_method_ok. apply minimiser_domain_loose_oc_domain. exact H. Qed.

Theorem minimise_table_loose_spec : forall t target,
  minimiser_domain_loose t ->
  match minimise_table t target with
  | Ok r => route_eq t r /\ len r <= len t /\ (forall tl, target = Some tl -> len r <= tl)
  | Failed n =>
      exists tl, target = Some tl /\ tl < n /\
                 n = Z.min (Z.min (len t) (full_size remove_default t)) (full_size oc_minimise t)
  | OtherError | OutOfFuel => False
  end.
Proof. intros t target H. apply minimise_table_spec. apply oc_minimise_loose_spec. exact H. Qed.

Theorem ordered_covering_stage_spec : forall t target,
  minimiser_domain t ->
  exists T A, ordered_covering t target [] true = Ok (T, A)
              /\ (forall k e, key32 k -> lookup t k = Some e ->
                              exists e', lookup T k = Some e' /\ routes_like e e')
              /\ len T <= len t.
Proof.
  intros t target H. exact (ordered_covering_route_eq t target (minimiser_domain_oc_domain t H)).
Qed.

(* U: ordered covering followed by default-route removal, on every table of the domain *)
Theorem oc_minimise_spec : forall t, minimiser_domain t -> method_ok oc_minimise t.
Proof. intros t H. apply oc_minimise_method_ok. apply minimiser_domain_oc_domain. exact H. Qed.

Theorem minimise_table_domain_spec : forall t target,
  minimiser_domain t ->
  match minimise_table t target with
  | Ok r => route_eq t r /\ len r <= len t /\ (forall tl, target = Some tl -> len r <= tl)
  | Failed n =>
      exists tl, target = Some tl /\ tl < n /\
                 n = Z.min (Z.min (len t) (full_size remove_default t)) (full_size oc_minimise t)
  | OtherError | OutOfFuel => False
  end.
Proof. intros t target H. apply minimise_table_spec. apply oc_minimise_spec. exact H. Qed.

Theorem minimise_tables_domain_spec : forall ts tg,
  NoDup (map fst ts) ->
  (forall c t, In (c, t) ts -> minimiser_domain t) ->
  match minimise_tables ts tg with
  | TablesOk out =>
      (forall c t, In (c, t) ts ->
         exists tl, target_for tg c = Some tl /\ minimise_table t tl = Ok (table_of out c) /\
                    route_eq t (table_of out c) /\ len (table_of out c) <= len t /\
                    (forall n, tl = Some n -> len (table_of out c) <= n))
      /\ (forall c r, In (c, r) out -> In c (map fst ts))
  | TablesFailed c n =>
      exists t tl, In (c, t) ts /\ target_for tg c = Some (Some tl) /\
                   minimise_table t (Some tl) = Failed n /\ tl < n
  | TablesOther => exists c t, In (c, t) ts /\ target_for tg c = None
  | TablesOutOfFuel => False
  end.
Proof.
  intros ts tg Hnd Hdom. apply minimise_tables_spec; [exact Hnd |].
  intros c t Hin. apply oc_minimise_spec. apply (Hdom c t Hin).
Qed.

(* a table of the domain on which ordered covering really merges: 000X is made of 0000 and 0001 (same
   route), while 0010 (another route) stays; the hypotheses are satisfiable and the result is smaller *)
Definition ex_table : table :=
  [mkEntry 4 0 15 16777216; mkEntry 4 1 15 16777216; mkEntry 8 2 15 16777216].

Lemma ex_table_domain : minimiser_domain ex_table /\ oc_minimise ex_table None = Ok [mkEntry 8 2 15 16777216; mkEntry 4 0 14 16777216].
Proof.
  split; [| vm_compute; reflexivity].
  split; [| split].
  - intros e [<- | [<- | [<- | []]]]; vm_compute; repeat split; discriminate.
  - intros e [<- | [<- | [<- | []]]]; vm_compute; discriminate.
  - left. apply sortedz_sorted_by_generality. vm_compute.
    repeat split; intros y Hy; repeat (destruct Hy as [<- | Hy]); try discriminate; destruct Hy.
Qed.
