(* C08 -- bit-field keys are collision-free (work in progress). *)
From Coq Require Import ZArith List Bool.
Require Import Rig.Model.Base Rig.Model.BitField Rig.Spec.BitField Rig.Proofs.BitField.
Import ListNotations.
Open Scope Z_scope.
