"""C02 -- placers: theorems (Props/C02.v), verified validator evaluated in Coq on the real output of every
placer configuration, exact correspondence of the sequential family / random placer / SA initial placement
with the Gallina model, independent Python oracle (feasibility from scratch, completeness clause,
only-documented-errors, termination)."""
import json
import os

import lib
from lib import zlit, vlist, vopt

LEVEL = "proof"
UNITS = ["GenPlaceShape"]

CONFIGS = ["seq", "seq_custom", "bf", "hilbert", "hilbert_nobf", "rcm", "rand", "rand_real", "sa_c", "sa_py",
           "sa_initial"]
# the seven configurations the property names -> the driver's runs that exercise them
SEVEN = {"sa C kernel": ["sa_c"], "sa Python kernel": ["sa_py", "sa_initial"], "hilbert": ["hilbert", "hilbert_nobf"],
         "rcm": ["rcm"], "breadth_first": ["bf"], "sequential": ["seq", "seq_custom"],
         "rand": ["rand", "rand_real"]}


REUSE_CFGS = ["seq", "bf", "hilbert", "rcm", "rand_real", "sa_c", "sa_py"]
DETERMINISTIC = {"seq", "bf", "hilbert", "rcm", "rand_real"}     # same arguments => same placement


# ------------------------------------------------------------------ generator
def gen_case(rng, idx):
    mode = rng.choice(["unit", "unit", "general", "general", "general", "tight"])
    w, h = rng.choice([(1, 1), (2, 1), (1, 2), (2, 2), (3, 2), (3, 3), (2, 4), (4, 4), (5, 3), (5, 5), (4, 1)])
    nres = 1 if mode == "unit" and rng.random() < 0.5 else rng.randint(1, 3)
    res = rng.sample([0, 1, 2, 3], nres)
    chips = [(x, y) for x in range(w) for y in range(h)]
    pdead = rng.choice([0, 0, 0.1, 0.25, 0.5, 1.0 if rng.random() < 0.1 else 0.1])
    dead = [c for c in chips if rng.random() < pdead]
    live = [c for c in chips if c not in dead]
    # vertices
    nv = rng.choice([0, 1, 2, 3, 4, 5, 6, 8, 10, 12, 15, 20])
    ids = rng.sample(range(0, 60), nv)
    r0 = rng.choice(res)
    vres = []
    for v in ids:
        if mode == "unit":
            q = rng.choice([0, 1, 1, 1])
            rq = [] if (q == 0 and rng.random() < 0.5) else [[r0, q]]
            if rng.random() < 0.2:
                rq += [[r, 0] for r in res if r != r0]
        else:
            rq = [[r, rng.choice([0, 0, 1, 1, 1, 2, 3])] for r in res if rng.random() < 0.8]
        rng.shuffle(rq)
        vres.append([v, rq])
    # global reservations first, so that capacities can be chosen around them
    gres = []
    for _ in range(rng.choice([0, 0, 1, 1, 1, 2])):
        start = rng.choice([0, 0, 1, 2])
        gres.append(["reserve", rng.choice(res), start, start + rng.choice([0, 1, 1, 2]), None])
    G = dict((r, sum(k[3] - k[2] for k in gres if k[1] == r)) for r in res)
    # capacities: around total demand / number of working chips, times a slack factor
    slack = rng.choice([0.7, 1.0, 1.0, 1.3, 2.0, 4.0])
    tot = dict((r, sum(q for _, rq in vres for rr, q in rq if rr == r)) for r in res)
    per_chip = dict((r, int(slack * tot[r] / max(1, len(live)) + rng.choice([0, 0.5, 0.99, 1, 2]))) for r in res)
    if rng.random() < 0.8:                    # room for the largest vertex / a merged pair
        big = rng.choice([1, 1, 2])
        per_chip = dict((r, max(per_chip[r], big * max([q for _, rq in vres for rr, q in rq if rr == r] + [0])))
                        for r in res)
    caps = [[r, G[r] + per_chip[r] if rng.random() < 0.92 else rng.choice([0, 1, 2])] for r in res]
    exc = []
    pexc = rng.choice([0, 0.15, 0.3, 0.6])
    pdeadexc = rng.choice([0, 0.5, 1.0]) if dead else 0
    for c in chips:
        if c in dead and rng.random() < pdeadexc:
            # a dead chip may be listed with anything, in particular with less than is reserved globally
            e = [[r, rng.choice([0, 0, 1, per_chip[r]])] for r in res]
        elif rng.random() < pexc:
            e = [[r, (G[r] if rng.random() < 0.9 else 0) + rng.choice([0, 1, 2, per_chip[r], per_chip[r] + 2])]
                 for r in res]
        else:
            continue
        rng.shuffle(e)                        # dictionaries need not list the resources in the same order
        exc.append([list(c), e])
    rng.shuffle(exc)
    dead_links = []
    for c in live:
        for l in range(6):
            if rng.random() < 0.05:
                dead_links.append([c[0], c[1], l])
    # nets
    nets = []
    if ids:
        for _ in range(rng.choice([0, 0, 1, 2, 4, 8, 12])):
            src = rng.choice(ids)
            sinks = [rng.choice(ids) for _ in range(rng.randint(0, 4))]
            nets.append([src, sinks, rng.choice([1, 1, 1, 2, 0.5, 0, 3.0, 1, 1, -1, -2.5, "nan"])])
    # constraints: same-chip groups first (union-find), then locations consistent with the groups
    cons = []
    parent = {v: v for v in ids}

    def find(a):
        while parent[a] != a:
            a = parent[a]
        return a
    if mode != "unit" and len(ids) >= 2:
        for _ in range(rng.choice([0, 0, 1, 1, 2, 3, 4])):
            style = rng.choice(["pair", "triple", "dup", "chain", "single", "empty", "repeat"])
            if style == "single":
                cons.append(["same", [rng.choice(ids)]])
            elif style == "empty":
                cons.append(["same", []])
            elif style == "repeat" and any(k[0] == "same" for k in cons):
                cons.append(["same", list(rng.choice([k for k in cons if k[0] == "same"])[1])])
            else:
                n = {"pair": 2, "triple": 3, "dup": 2, "chain": 2}.get(style, 2)
                vs = rng.sample(ids, min(n, len(ids)))
                if style == "dup":
                    vs = vs + [rng.choice(vs)]
                    rng.shuffle(vs)
                if style == "chain":
                    grouped = [v for v in ids if find(v) != v or any(find(u) == v and u != v for u in ids)]
                    if grouped:
                        vs[0] = rng.choice(grouped)
                        if vs[0] == vs[1]:
                            vs[1] = rng.choice(ids)
                cons.append(["same", vs])
                for a in vs[1:]:
                    ra, rb = find(vs[0]), find(a)
                    if ra != rb:
                        parent[ra] = rb
    group_loc = {}
    nloc = rng.choice([0, 0, 1, 2, 3, 5])
    for _ in range(nloc):
        if not ids:
            break
        v = rng.choice(ids)
        g = find(v)
        if g not in group_loc:
            target = rng.choice(live) if live and rng.random() < 0.93 else rng.choice(chips)
            group_loc[g] = target
        cons.append(["loc", v, list(group_loc[g])])
        if rng.random() < 0.15:               # a repeated identical constraint
            cons.append(["loc", v, list(group_loc[g])])
    # reservations: the global ones chosen above, and per-chip ones (mostly within what the chip has)
    cons += gres
    excd = dict((tuple(xy), dict((r, q) for r, q in rs)) for xy, rs in exc)
    for _ in range(rng.choice([0, 0, 1, 1, 2, 3])):
        r = rng.choice(res)
        if exc and rng.random() < 0.5:
            loc = tuple(rng.choice(exc)[0])
        else:
            loc = rng.choice(live) if live and rng.random() < 0.93 else rng.choice(chips)
        room = excd.get(loc, dict((rr, q) for rr, q in caps))[r] - G[r]
        start = rng.choice([0, 0, 1, 2])
        size = rng.choice([0, 1, 1, 2]) if rng.random() < 0.15 else rng.randint(0, max(0, min(2, room)))
        cons.append(["reserve", r, start, start + size, list(loc)])
    if rng.random() < 0.15:
        cons.append(["align", rng.choice(res), rng.choice([1, 2, 4])])
    if rng.random() < 0.15 and ids:
        cons.append(["route", rng.choice(ids), rng.randint(0, 5)])
    rng.shuffle(cons)
    # custom orders
    vorder = corder = None
    if rng.random() < 0.5:
        vorder = list(ids)
        rng.shuffle(vorder)
    if rng.random() < 0.5:
        corder = [list(c) for c in chips]
        if rng.random() < 0.3:
            corder += [[w, 0], [0, h], [-1, 0]]          # non-existent chips are allowed (skipped)
        rng.shuffle(corder)
    # dead_chips may name chips outside the bounds (a window cut from a larger system), even more of them than the
    # machine has chips; the library accepts such machines
    outside = []
    if rng.random() < 0.2:
        k = rng.choice([1, 3, w * h + 1, w * h + 3])
        outside = [[w + i % 3, i // 3] if i % 2 == 0 else [i // 3, h + i % 3] for i in range(k)]
        if rng.random() < 0.5:
            outside.append([-1, 0])
    reskind = rng.choice(["int"] * 5 + ["identity", "identity", "value", "str"])
    vkind = rng.choice(["int"] * 4 + ["tuple", "tuple", "frozenset", "str"])
    scalar_sinks = rng.random() < 0.5
    return dict(machine=dict(w=w, h=h, res=caps, exc=exc, dead=[list(c) for c in dead] + outside, dead_links=dead_links),
                vres=vres, nets=nets, constraints=cons, vorder=vorder, corder=corder, reskind=reskind, vkind=vkind,
                scalar_sinks=scalar_sinks,
                effort=rng.choice([0, 0.1, 1]), seed=rng.randrange(1 << 30), mode=mode, idx=idx,
                sa_steps=rng.choice([0, 50, 100, 300]),
                reuse=[rng.choice(REUSE_CFGS) for _ in range(3)])


def gen_large(rng):
    """A few LARGE feasible unit problems (recursion depth, quadratic blow-ups): a 34x30 machine with a sparse
    netlist and a 1200-vertex chain on a 36x36 machine.  Judged by the oracle and by the verified one-pass
    checker check_placement_fast evaluated in Coq on the outputs; the placer MODELS are not run on these (association
    lists of this size are too slow under vm_compute)."""
    cases = []
    w, h = 34, 30
    dead = [[rng.randrange(w), rng.randrange(h)] for _ in range(12)]
    ids = list(range(60))
    cases.append(dict(machine=dict(w=w, h=h, res=[[0, 2]], exc=[], dead=dead, dead_links=[]),
                      vres=[[v, [[0, 1]]] for v in ids],
                      nets=[[rng.choice(ids), [rng.choice(ids) for _ in range(rng.randint(1, 3))], 1] for _ in range(20)],
                      constraints=[], vorder=None, corder=None, effort=0.1, seed=rng.randrange(1 << 30), mode="large",
                      idx=300000, sa_steps=0, large_sa=True))
    n = 1200
    cases.append(dict(machine=dict(w=36, h=36, res=[[0, 1]], exc=[], dead=[], dead_links=[]),
                      vres=[[v, [[0, 1]]] for v in range(n)],
                      nets=[[v, [v + 1], 1] for v in range(n - 1)],
                      constraints=[], vorder=None, corder=None, effort=0.1, seed=rng.randrange(1 << 30), mode="large",
                      idx=300001, sa_steps=0, large_sa=False))
    return cases


def gen_stress(rng, idx):
    """Unit-demand rings of vertices with net weights spanning 1e-3 .. 1e6 and very low efforts, for the Python
    annealing kernel only (rare numeric events in the acceptance test / temperature schedule)."""
    n = rng.choice([4, 6, 8, 10, 12])
    w, h = rng.choice([(3, 3), (4, 4), (4, 2), (5, 3)])
    cap = rng.choice([1, 1, 2])
    return dict(machine=dict(w=w, h=h, res=[[0, cap]], exc=[], dead=[], dead_links=[]),
                vres=[[v, [[0, 1]]] for v in range(n)],
                nets=[[v, [(v + 1) % n], 10 ** rng.uniform(-3, 6) if rng.random() < 0.3 else 1.0] for v in range(n)],
                constraints=[], vorder=None, corder=None, effort=rng.choice([0.001, 0.01, 0.05, 1]),
                seed=rng.randrange(1 << 30), mode="stress", idx=200000 + idx, sa_steps=0)


def enumerate_small():
    """Thorough tier: every problem of a small finite family -- a 2x1 machine (second chip possibly dead),
    one resource with capacities in {0,1,2} per chip (the second given as a resource exception), up to 3
    vertices with demands in {0,1,2}, optionally a same-chip pair, a location constraint on the first vertex,
    a global reservation of one unit."""
    import itertools
    cases = []
    idx = 0
    for c0, c1, dead in itertools.product([0, 1, 2], [0, 1, 2], [False, True]):
        for n in range(0, 4):
            for dem in itertools.product([0, 1, 2], repeat=n):
                for same, loc, resv in itertools.product([False, True], [None, (0, 0), (1, 0)], [False, True]):
                    if (same and n < 2) or (loc is not None and n < 1):
                        continue
                    cons = []
                    if same:
                        cons.append(["same", [1, 0]])
                    if loc is not None:
                        cons.append(["loc", 0, list(loc)])
                    if resv:
                        cons.append(["reserve", 0, 0, 1, None])
                    idx += 1
                    cases.append(dict(
                        machine=dict(w=2, h=1, res=[[0, c0]], exc=[[[1, 0], [[0, c1]]]],
                                     dead=[[1, 0]] if dead else [], dead_links=[]),
                        vres=[[v, [[0, d]]] for v, d in enumerate(dem)],
                        nets=[[0, list(range(1, n)), 1]] if n >= 2 else [],
                        constraints=cons, vorder=None, corder=None, effort=0.1, seed=idx, mode="enumerated",
                        idx=100000 + idx, sa_steps=0,
                        reuse=[REUSE_CFGS[(idx + j * (1 + idx // 7)) % 7] for j in range(3)]))
    return cases


# ------------------------------------------------------------------ independent oracle
class Problem(object):
    """The problem as the property sees it, recomputed from the JSON description only."""

    def __init__(self, c):
        m = c["machine"]
        self.w, self.h = m["w"], m["h"]
        self.dead = set(tuple(xy) for xy in m["dead"])
        self.live = [(x, y) for x in range(self.w) for y in range(self.h) if (x, y) not in self.dead]
        self.base = dict((r, q) for r, q in m["res"])
        self.exc = dict((tuple(xy), dict((r, q) for r, q in rs)) for xy, rs in m["exc"])
        self.vres = dict((v, dict((r, q) for r, q in rq)) for v, rq in c["vres"])
        self.cons = c["constraints"]
        self.resources = set(self.base)
        for d in self.exc.values():
            self.resources |= set(d)
        for d in self.vres.values():
            self.resources |= set(d)
        for k in self.cons:
            if k[0] == "reserve":
                self.resources.add(k[1])

    def is_live(self, xy):
        return 0 <= xy[0] < self.w and 0 <= xy[1] < self.h and tuple(xy) not in self.dead

    def cap(self, xy, r):
        return self.exc.get(tuple(xy), self.base).get(r, 0)

    def reserved(self, xy, r):
        return sum(k[3] - k[2] for k in self.cons
                   if k[0] == "reserve" and k[1] == r and (k[4] is None or tuple(k[4]) == tuple(xy)))

    def free(self, xy, r):
        return self.cap(xy, r) - self.reserved(xy, r)

    def infeasible(self, pl):
        """None if the placement is feasible, else what is wrong."""
        seen = {}
        for v, xy in pl:
            if v in seen:
                return "vertex-placed-twice", "vertex %r placed twice" % (v,)
            seen[v] = tuple(xy)
        if set(seen) != set(self.vres):
            return "vertex-set", "placed vertices %r, problem's vertices %r" % (sorted(seen), sorted(self.vres))
        for v, xy in seen.items():
            if not self.is_live(xy):
                return "dead-chip", "vertex %r on %r which is not a working chip" % (v, xy)
        loads = {}
        for v, xy in seen.items():
            for r, q in self.vres[v].items():
                loads[(xy, r)] = loads.get((xy, r), 0) + q
        for xy in self.live:
            for r in self.resources:
                tot = loads.get((xy, r), 0)
                if tot > max(0, self.free(xy, r)):
                    return "over-capacity", "chip %r resource %r: demand %r > capacity %r - reserved %r" % (
                        xy, r, tot, self.cap(xy, r), self.reserved(xy, r))
        for k in self.cons:
            if k[0] == "loc" and seen.get(k[1]) != tuple(k[2]):
                return "location-constraint", "vertex %r constrained to %r is on %r" % (k[1], k[2], seen.get(k[1]))
            if k[0] == "same" and len(set(seen.get(v) for v in k[1])) > 1:
                return "same-chip-constraint", "same-chip group %r spread over %r" % (
                    k[1], sorted(set(seen.get(v) for v in k[1])))
        return None

    def in_domain(self):
        """The documented preconditions of the placers (outside: no verdict on exceptions)."""
        for d in self.vres.values():
            if any(r not in self.base for r in d):
                return False
        if any(set(d) != set(self.base) for d in self.exc.values()):
            return False
        for k in self.cons:
            if k[0] == "reserve" and k[1] not in self.base:
                return False
            if k[0] in ("loc", "route") and k[1] not in self.vres:
                return False
            if k[0] == "same" and any(v not in self.vres for v in k[1]):
                return False
        return True

    def completeness_premise(self, c):
        """The premise of the property's last sentence; returns the reason it does not hold, or None."""
        used = set(r for d in self.vres.values() for r, q in d.items() if q != 0)
        if len(used) > 1:
            return "several resources"
        r0 = list(used)[0] if used else None
        if any(q not in (0, 1) for d in self.vres.values() for q in d.values()):
            return "a demand above one unit"
        if any(k[0] == "same" for k in self.cons):
            return "same-chip groups"
        if self.vres and not self.live:
            return "no working chip"
        locs = {}
        for k in self.cons:
            if k[0] == "loc":
                if not self.is_live(k[2]):
                    return "location constraint on a dead chip"
                if locs.setdefault(k[1], tuple(k[2])) != tuple(k[2]):
                    return "inconsistent location constraints"
            if k[0] == "reserve" and k[4] is not None and not self.is_live(k[4]):
                return "reservation on a dead chip"
        for r in self.resources:
            if self.base.get(r, 0) - sum(k[3] - k[2] for k in self.cons
                                         if k[0] == "reserve" and k[1] == r and k[4] is None) < 0:
                return "reservation exceeds the default chip"
            for xy in self.live:
                if self.free(xy, r) < 0:
                    return "reservation exceeds a chip"
        if r0 is not None:
            for xy in self.live:
                if sum(self.vres[v].get(r0, 0) for v, l in locs.items() if l == xy) > self.free(xy, r0):
                    return "constrained vertices do not fit"
            if sum(d.get(r0, 0) for d in self.vres.values()) > sum(self.free(xy, r0) for xy in self.live):
                return "total capacity insufficient"
        return None


def orders_valid(c, prob):
    """Custom orders follow the documented rules (each vertex exactly once; each working chip exactly
    once, other coordinates allowed)."""
    if c.get("vorder") is not None and sorted(c["vorder"]) != sorted(prob.vres):
        return False
    if c.get("corder") is not None:
        lv = [tuple(xy) for xy in c["corder"] if prob.is_live(xy)]
        if sorted(lv) != sorted(prob.live):
            return False
    return True


def classify_key(c, prob, cfg, o):
    cons = c["constraints"]
    if o[0] == "other" and o[1] != "IndexError":
        return "other-exception:%s:%s" % (cfg, o[1])
    if o[0] == "other":
        if any(k[0] == "reserve" and k[4] is None for k in cons) and any(tuple(xy) in prob.dead for xy, _ in c["machine"]["exc"]):
            return "global-reserve-dead-chip-exception"
        if any(k[0] == "reserve" and k[4] is not None and not prob.is_live(k[4]) for k in cons):
            return "reserve-on-dead-chip"
        return "other-exception:%s:%s" % (cfg, o[1])
    if o[0] == "fail":
        locs = [(k[1], tuple(k[2])) for k in cons if k[0] == "loc"]
        if len(locs) != len(set(locs)):
            return "dup-location-double-count"
        return "incomplete:%s" % cfg
    return None


def oracle(chk, c, r):
    prob = Problem(c)
    dom = prob.in_domain()
    prem = prob.completeness_premise(c) if dom else "out of domain"
    ov = orders_valid(c, prob)
    prev = None
    for cfg, o in r["out"].items():
        reused = cfg.startswith("reuse")
        base = cfg.split(":", 1)[1] if reused else cfg
        chk.count("outcome:%s:%s" % (base if not reused else "reuse:" + base, o[0] if o[0] != "fail" else "fail%d" % o[1]))
        if (cfg == "seq_custom" and not ov) or o[0] == "skipped":
            continue
        replay = dict(case=c, config=cfg, observed=o)
        if cfg == "sa_py_cb" and dom:
            plain = r["out"].get("sa_py")
            if plain is not None and plain[0] not in ("hang", "skipped") and o[0] != "hang" and plain[:2] != o[:2]:
                chk.fail_input("callback-changes-outcome:sa_py",
                               "sa.place(kernel=PythonKernel) with a passive on_temperature_change callback gives %r, "
                               "without it %r (same arguments, same random.Random seed)" % (o[:2], plain[:2]),
                               dict(replay, without_callback=plain))
        if reused:
            if prev is not None:
                chk.count("reuse-pair:%s>%s" % (prev, base))
            replay["sequence"] = c.get("reuse")
            fresh_o = r["out"].get(base)
            if (base in DETERMINISTIC and dom and fresh_o is not None and fresh_o[0] not in ("hang", "skipped")
                    and o[0] != "hang" and fresh_o[:2] != o[:2]):
                chk.fail_input("reuse-differs:%s-after-%s" % (base, prev or "nothing"),
                               "%s.place on argument objects already used by %s gives %r, on freshly built equal "
                               "objects %r" % (base, prev or "no other placer", o[:2], fresh_o[:2]),
                               dict(replay, fresh=fresh_o))
            prev = base
        if o[0] == "hang":
            chk.fail_input("nonterminating:" + cfg, "%s.place does not terminate (no result within the time limit)" % cfg,
                           replay)
        elif o[0] == "other":
            if dom:
                chk.fail_input(classify_key(c, prob, cfg, o),
                               "%s.place raised %s (%s), not one of the two documented placement errors" % (cfg, o[1], o[2]),
                               replay)
        elif o[0] == "ok":
            bad = prob.infeasible(o[1])
            if bad:
                chk.fail_input("infeasible:%s:%s" % (cfg, bad[0]), "%s.place returned an infeasible placement: %s" % (cfg, bad[1]),
                               replay)
        elif o[0] == "fail":
            if prem is None:
                chk.fail_input(classify_key(c, prob, cfg, o),
                               "%s.place raised %s although every vertex needs at most one unit of a single resource, "
                               "there are no same-chip groups, constrained vertices fit and the total free capacity "
                               "suffices" % (cfg, ["InsufficientResourceError", "InvalidConstraintError"][o[1]]), replay)
    return prem


# ------------------------------------------------------------------ Coq literals
def chipl(xy):
    return "(%s, %s)" % (zlit(xy[0]), zlit(xy[1]))


def pairs(l):
    return vlist("(%s, %s)" % (zlit(a), zlit(b)) for a, b in l)


def coq_problem(c):
    m = c["machine"]
    mach = "{| pm_width := %s; pm_height := %s; pm_res := %s; pm_exc := %s; pm_dead := %s |}" % (
        zlit(m["w"]), zlit(m["h"]), pairs(m["res"]),
        vlist("(%s, %s)" % (chipl(xy), pairs(rs)) for xy, rs in m["exc"]),
        vlist(chipl(d) for d in m["dead"]))
    cs = []
    for k in c["constraints"]:
        if k[0] == "loc":
            cs.append("PCLocation %s %s" % (zlit(k[1]), chipl(k[2])))
        elif k[0] == "same":
            cs.append("PCSameChip %s" % vlist(zlit(v) for v in k[1]))
        elif k[0] == "reserve":
            cs.append("PCReserve %s %s %s %s" % (zlit(k[1]), zlit(k[2]), zlit(k[3]), vopt(k[4], chipl)))
        else:
            cs.append("PCOther")
    vres = vlist("(%s, %s)" % (zlit(v), pairs(rq)) for v, rq in c["vres"])
    return vres, mach, vlist(cs)


def coq_result(o):
    if o[0] == "ok":
        return "(Ok %s)" % vlist("(%s, %s)" % (zlit(v), chipl(xy)) for v, xy in o[1])
    if o[0] == "fail":
        return "(Failed %s)" % zlit(o[1])
    return "OtherError"


HEADER = """From Coq Require Import ZArith List Bool. Import ListNotations. Open Scope Z_scope.
Require Import Rig.Model.Base Rig.Model.Place Rig.Spec.Place Rig.Model.BFOrder.
Definition pl_eqb (a b : placement) : bool :=
  (length a =? length b)%nat && forallb (fun vc => on_chip b (fst vc) (snd vc)) a.
Definition res_eqb (a b : result placement) : bool :=
  match a, b with
  | Ok x, Ok y => pl_eqb x y
  | Failed i, Failed j => i =? j
  | OtherError, OtherError => true
  | _, _ => false
  end.
Definition chips_eqb (a b : list chip) : bool :=
  (length a =? length b)%nat && forallb (fun p => chip_eqb (fst p) (snd p)) (combine a b).
Definition res_list_eqb (a b : resources) : bool :=
  (length a =? length b)%nat && forallb (fun rq => rget (fst rq) a =? snd rq) b.
Definition vlist_eqb (a b : list vertex) : bool :=
  (length a =? length b)%nat && forallb (fun p => fst p =? snd p) (combine a b).
Definition sa_replay (vr : vresources) (m : pmachine) (cs : list pconstr) (lp vp : list nat)
           (draws : list (vertex * chip * bool)) (epl : placement) (emach : list (chip * resources))
           (el2v : list (chip * list vertex)) : bool :=
  match sa_prepare vr m cs lp vp with
  | Ok s0 =>
      match sa_steps (ss_vr s0) (map fst (ss_fixed s0))
                     {| st_pl := ss_placement s0; st_l2v := init_l2v (ss_machine s0) (ss_placement s0);
                        st_m := ss_machine s0 |} draws with
      | Ok s => pl_eqb (st_pl s) epl
                && forallb (fun cd => match mget (st_m s) (fst cd) with
                                      | Some d => res_list_eqb d (snd cd) | None => false end) emach
                && forallb (fun cl => match cassoc (fst cl) (st_l2v s) with
                                      | Some vs => vlist_eqb vs (snd cl) | None => false end) el2v
      | _ => false
      end
  | _ => false
  end.
Fixpoint nodup_chips (l : list chip) : bool :=
  match l with [] => true | c :: t => negb (chip_mem c t) && nodup_chips t end.
(* boolean forms of the premises of the theorems on caller-supplied / wrapper-computed orders *)
Definition order_v_okb (vr : vresources) (vo : list vertex) : bool :=
  nodupb vo && forallb (fun v => zmem v (map fst vr)) vo && forallb (fun v => zmem v vo) (map fst vr).
Definition order_c_okb (m : pmachine) (co : list chip) : bool :=
  nodup_chips (filter (live m) co) && forallb (fun c => chip_mem c co) (raster m).
Definition NOV : option (list vertex) := None.
Definition NOC : option (list chip) := None.
"""


def model_exprs(c, r):
    """[(label, Coq boolean expression)] for one case; vr, m, cs are let-bound by the caller."""
    out, aux = r["out"], r["aux"]
    ex = []
    zl = lambda l: vlist(zlit(v) for v in l)
    cl = lambda l: vlist(chipl(xy) for xy in l)
    nl = lambda l: "[" + "; ".join("%d%%nat" % n for n in l) + "]"

    def corr(cfg, model):
        o = out.get(cfg)
        if o is not None and o[0] not in ("hang", "skipped"):
            ex.append(("corr:" + cfg, "res_eqb (%s) %s" % (model, coq_result(o))))
    corr("seq", "seq_place vr m cs NOV NOC")
    if "seq_custom" in out:
        corr("seq_custom", "seq_place vr m cs %s %s" % (
            "NOV" if c["vorder"] is None else "(Some %s)" % zl(c["vorder"]),
            "NOC" if c["corder"] is None else "(Some %s)" % cl(c["corder"])))
    if aux.get("bf_v") is not None:
        corr("bf", "bf_place vr m cs %s NOC" % zl(aux["bf_v"]))
    if aux.get("hil_c") is not None:
        ex.append(("corr:hilbert_chip_order", "chips_eqb (hilbert_chip_order m) %s" % cl(aux["hil_c"])))
        corr("hilbert_nobf", "hilbert_place vr m cs NOV")
        if aux.get("hil_v") is not None:
            corr("hilbert", "hilbert_place vr m cs (Some %s)" % zl(aux["hil_v"]))
    if aux.get("rcm_v") is not None and aux.get("rcm_c") is not None:
        corr("rcm", "rcm_place vr m cs %s %s" % (zl(aux["rcm_v"]), cl(aux["rcm_c"])))
    # breadth_first_vertex_order replayed in Model/BFOrder.v: the real order is the model's output under the set choices
    # that order dictates (and lists every vertex exactly once, which makes those choices legitimate)
    nets_l = vlist("(%s, %s)" % (zlit(s), zl(sinks)) for s, sinks, _w in c["nets"])
    vs_l = zl([v for v, _ in c["vres"]])
    for name, lab in (("bf_v", "bf_order"), ("hil_v", "hilbert_bf_order")):
        if aux.get(name) is not None:
            ex.append(("corr:%s" % lab, "bf_order_replayb %s %s %s" % (nets_l, vs_l, zl(aux[name]))))
    # the orders computed by the real wrappers satisfy the premises of the theorems (per instance)
    for name in ("bf_v", "hil_v", "rcm_v"):
        if aux.get(name) is not None:
            ex.append(("premise:%s lists every vertex exactly once" % name, "order_v_okb vr %s" % zl(aux[name])))
    for name in ("hil_c", "rcm_c"):
        if aux.get(name) is not None:
            ex.append(("premise:%s lists every working chip exactly once" % name, "order_c_okb m %s" % cl(aux[name])))
    if "rand_picks" in aux:
        corr("rand", "rand_place vr m cs %s" % nl(aux["rand_picks"]))
    sh = aux.get("sa_shuffles") or []
    if "sa_shuffles" in aux and len(sh) in (0, 2):
        lp, vp = (sh + [[], []])[:2]
        corr("sa_initial", "sa_place_trivial vr m cs %s %s" % (nl(lp), nl(vp)))
    st = aux.get("sal_state")
    if st is not None and len(aux.get("sal_shuffles") or []) == 2 and aux.get("sal_steps"):
        lp, vp = aux["sal_shuffles"]
        draws = vlist("(%s, %s, %s)" % (zlit(a), chipl(b if b is not None else [-1, -1]), "true" if k else "false")
                      for a, b, k in aux["sal_steps"])
        ex.append(("corr:sa_python_kernel_steps", "sa_replay vr m cs %s %s %s %s %s %s" % (
            nl(lp), nl(vp), draws,
            vlist("(%s, %s)" % (zlit(v), chipl(xy)) for v, xy in st["placements"]),
            vlist("(%s, %s)" % (chipl(xy), pairs(d)) for xy, d in st["machine"]),
            vlist("(%s, %s)" % (chipl(xy), zl(vs)) for xy, vs in st["l2v"]))))
    # verified validator on every returned placement
    for cfg, o in out.items():
        if o[0] == "ok":
            ex.append(("valid:" + cfg, "check_placement vr m cs %s" % coq_result(o)[4:-1]))
    return ex


def coq_case(c, r):
    vres, mach, cs = coq_problem(c)
    ex = model_exprs(c, r)
    return [l for l, _ in ex], "let vr : vresources := %s in let m := %s in let cs := %s in [%s]" % (
        vres, mach, cs, "; ".join([e for _, e in ex] + ["true"]))


# ------------------------------------------------------------------ the check
def run(chk, args):
    chk.trusted += ["CPython dict iteration order (insertion order) is mirrored by association lists",
                    "rig_c_sa (compiled C annealing kernel, third party, outside /repo; the default kernel here): not "
                    "modelled; its outputs are only validated per instance by the verified checker (V)",
                    "the float-valued temperature schedule of sa/algorithm.py (temperature, distance limit, step counts, "
                    "termination test) is not modelled: the SA theorems hold for every sequence of draws and every number "
                    "of steps; termination of the anneal is observed per case under an alarm, not proved",
                    "set iteration order inside rcm_vertex_order / rcm_chip_order is not "
                    "modelled: the orders they produce are recorded by wrappers and given to the model; the theorems hold "
                    "for any vertex order listing the vertices and any chip order (completeness: each working chip once)",
                    "breadth_first_vertex_order is modelled (Model/BFOrder.v) with CPython's set choices (which member "
                    "pop() removes, set iteration order) as oracles; proved for every oracle; each real order is replayed "
                    "in the model under the choices it dictates; its statements are shape-matched from the source",
                    "random choices (rand.place sample, SA shuffles, kernel draws and accept decisions) are explicit oracle "
                    "inputs of the model; the harness scripts / observes them from outside, no edit of /repo"]
    chk.assumptions += ["vertices are non-negative integers, resources integers, quantities Python ints >= 0",
                        "every resource a vertex or a reservation mentions is a key of chip_resources, and every "
                        "chip_resource_exceptions entry has exactly the keys of chip_resources (documented)",
                        "constraints mention only vertices of the problem; location / same-chip constraints are consistent "
                        "(some assignment of one chip per vertex satisfies all of them)",
                        "a caller-supplied vertex_order lists every vertex exactly once, a chip_order every working chip "
                        "exactly once (documented); soundness needs only that the vertex order covers the vertices",
                        "completeness clause: reservations are ranges (start <= stop) on working chips that fit the chip; at "
                        "least one working chip when there are vertices; a capacity left negative by reservations counts as 0 "
                        "in the feasibility clause (the empty placement is feasible)"]
    chk.regenerate(UNITS)
    built = chk.prove()
    if args.replay:
        rp = json.load(open(args.replay))
        cases = [f["replay"]["case"] for f in rp.get("failures", []) + rp.get("no_longer_checks", [])
                 if "case" in f.get("replay", {})]
    else:
        n = 1000 if chk.tier == "quick" else 12000
        cases = [gen_case(chk.rng, i) for i in range(n)]
        cases += [gen_stress(chk.rng, i) for i in range(3000 if chk.tier == "quick" else 30000)]
        cases += gen_large(chk.rng)
        if chk.tier != "quick":
            cases += enumerate_small()
        corpus = os.path.join(lib.VERIF, "corpus", "C02.json")
        if os.path.exists(corpus):
            cases = json.load(open(corpus)) + cases
    # implementation
    size = 25 if chk.tier == "quick" else 250
    chunks = [dict(cases=cases[i:i + size], per_cfg_s=20) for i in range(0, len(cases), size)]
    results = [r for part in chk.impl_parallel("impl_c02.py", chunks, timeout=3000) for r in part]
    ran = {}
    for c, r in zip(cases, results):
        prem = oracle(chk, c, r)
        chk.count("mode:" + c.get("mode", "?"))
        chk.count("completeness-premise:" + ("holds" if prem is None else prem))
        chk.count("vertices:%s" % (">10" if len(c["vres"]) > 10 else "5-10" if len(c["vres"]) >= 5 else "<5"))
        for k in c["constraints"]:
            chk.count("constraint:" + k[0])
        for cfg in r["out"]:
            ran[cfg] = ran.get(cfg, 0) + 1
        nontriv = len(c["vres"]) >= 2 and len(c["constraints"]) >= 1 and any(o[0] == "ok" for o in r["out"].values())
        chk.note_case(c, nontriv)
    if cases:
        mid = len(cases) // 2
        chk.sample(dict(case=cases[mid], implementation=results[mid]["out"]))
    if results and results[0]["aux"].get("default_kernel") != "CKernel":
        chk.oblige("default SA kernel is the C kernel (rig_c_sa importable)", False,
                   "default kernel is %r" % results[0]["aux"].get("default_kernel"))
    if not args.replay and len(cases) >= 500:
        missing = [a + ">" + b for a in REUSE_CFGS for b in REUSE_CFGS if not chk.dist.get("reuse-pair:%s>%s" % (a, b))]
        chk.oblige("object-reuse stream: all 49 ordered pairs of the 7 placers run on the same argument objects", not missing,
                   "missing pairs: %s" % missing)
    for name, cfgs in SEVEN.items():
        chk.oblige("placer configuration exercised: " + name, not cases or all(ran.get(cfg, 0) > 0 for cfg in cfgs[:1]))
    # the class Machine defines what the model mirrors and nothing else (fail closed on new special methods)
    try:
        inv = chk.impl("impl_c02.py", dict(cases=[], inventory=True))["machine"]
        expected = ['__contains__', '__eq__', '__getitem__', '__init__', '__iter__', '__ne__', '__setitem__', 'copy',
                    'has_wrap_around_links', 'issubset', 'iter_links']
        chk.oblige("inventory:rig.place_and_route.machine.Machine defines exactly the methods the model mirrors",
                   inv == expected, "Machine defines %r, the model was written for %r" % (inv, expected))
    except RuntimeError as e:
        chk.oblige("inventory:Machine", False, str(e))
    # the level formula of hilbert_chip_order (float log) against the model's integer search, exhaustively
    if chk.model_ok:
        try:
            lv = chk.impl("impl_c02.py", dict(cases=[], levels_upto=4096))["levels"]
            expr = "forallb (fun p => Nat.eqb (hilbert_levels {| pm_width := fst p; pm_height := 1 + fst p / 3; " \
                   "pm_res := []; pm_exc := []; pm_dead := [] |}) (snd p)) %s" % vlist(
                       "(%s, %d%%nat)" % (zlit(n), k) for n, k in lv)
            ok = chk.coq_eval(HEADER, [expr], name="levels")[0]
            chk.traces_validated += len(lv)
            if ok:
                chk.oblige("corr:hilbert level formula int(ceil(log(max(w,h), 2.0))) = model, max(w,h) in 0..4096", True)
            else:
                chk.disagree("hilbert level formula: model and implementation differ for some max(w,h) <= 4096",
                             dict(levels=lv))
        except RuntimeError as e:
            chk.oblige("corr:hilbert level formula", False, str(e))
    # model: correspondence + validator, evaluated in Coq
    if chk.model_ok:
        try:
            big = [(c, r) for c, r in zip(cases, results) if c.get("mode") == "large"]
            import concurrent.futures
            pool = concurrent.futures.ThreadPoolExecutor(max_workers=4)
            big_jobs = []
            for c, r in big:
                vres, mach, cs_ = coq_problem(c)
                oks = [(cfg, o) for cfg, o in r["out"].items() if o[0] == "ok"]
                if not oks:
                    continue
                e = "let vr : vresources := %s in let m := %s in let cs := %s in [%s]" % (
                    vres, mach, cs_, "; ".join("check_placement_fast vr m cs %s" % coq_result(o)[4:-1] for _, o in oks))
                big_jobs.append((c, oks, pool.submit(chk.coq_eval, HEADER, [e], 1, 900, "large%d" % c["idx"])))
            small = [(c, r) for c, r in zip(cases, results) if c.get("mode") != "large"]
            cases_m, results_m = [c for c, _ in small], [r for _, r in small]
            labelled = [coq_case(c, r) for c, r in small]
            vals = chk.coq_eval(HEADER, [e for _, e in labelled], shard=40 if chk.tier == "quick" else 150,
                                timeout=1500)
            for c, oks, fut in big_jobs:
                bs = fut.result()[0]
                for (cfg, o), b in zip(oks, bs):
                    chk.oblige("valid-large:%s on case %d (check_placement_fast in Coq)" % (cfg, c["idx"]), b,
                               "check_placement_fast = false")
                    if not b:
                        chk.broken[-1]["replay"] = dict(case=c, config=cfg, observed=o)
            pool.shutdown()
            agree = {}
            bad = 0
            for c, r, (labels, _), v in zip(cases_m, results_m, labelled, vals):
                for lab, b in zip(labels, v):
                    agree.setdefault(lab.split(":")[0] + ":" + lab.split(":")[1], [0, 0])[0 if b else 1] += 1
                    if lab == "corr:sa_python_kernel_steps":
                        chk.traces_validated += len(r["aux"].get("sal_steps") or [])
                    elif lab.startswith("corr:"):
                        chk.traces_validated += 1
                    if b:
                        continue
                    bad += 1
                    if bad > 5:
                        continue
                    cfg = lab.split(":", 1)[1]
                    if lab.startswith("premise:"):
                        chk.oblige(lab, False, "false on case %d" % c.get("idx", -1))
                        chk.broken[-1]["replay"] = dict(case=c, aux=r["aux"])
                    elif lab.startswith("valid:"):
                        # the verified checker rejects an output the implementation returned; the Python oracle
                        # above has (or has not) flagged it independently
                        chk.oblige("validator accepts the placement returned by " + cfg, False,
                                   "check_placement = false on case %d" % c.get("idx", -1))
                        chk.broken[-1]["replay"] = dict(case=c, config=cfg, observed=r["out"].get(cfg))
                    else:
                        chk.disagree("%s: model and implementation differ" % cfg,
                                     dict(case=c, config=cfg, observed=r["out"].get(cfg), aux=r["aux"]))
            for lab, (ok, ko) in sorted(agree.items()):
                if ko == 0:
                    chk.oblige("%s (%d evaluations in Coq, all agree)" % (lab, ok), True)
        except RuntimeError as e:
            chk.oblige("correspondence:model-evaluates", False, str(e))
    chk.coverage["rule"] = (
        "random structured placement problems: machines <= 5x5 with dead chips, dead links and resource exceptions "
        "(also on dead chips), <= 20 vertices incl. zero-demand ones, <= 3 resource types, nets (self loops, zero / "
        "fractional weights), consistent mixes of Location (repeated), SameChip (chained, duplicated members, "
        "singleton, empty, repeated), global and per-chip Reserve constraints (incl. dead chips), Align / RouteEndpoint "
        "constraints, custom vertex / chip orders (with non-existent chips), SA effort in {0, 0.1, 1}, seeds; modes unit "
        "(completeness premise) / general / tight; every case goes through 17 placer runs covering the 7 configurations "
        "(sequential default + custom orders, breadth-first, Hilbert with both vertex orders, RCM, random scripted + "
        "real generator, SA C kernel, SA Python kernel, SA initial placement with scripted shuffles, SA Python kernel "
        "with every _step observed and replayed by the model, both SA kernels again with a passive "
        "on_temperature_change callback -- Python kernel must give the same answer as without it --, three placers in "
        "sequence on the SAME argument objects); plus 3000 (thorough 30000) stress runs of the Python annealing "
        "kernel on unit-demand rings with net weights 1e-3..1e6 and efforts {0.001, 0.01, 0.05, 1}; thorough tier adds 8136 exhaustively enumerated small "
        "problems (2x1 machine, capacities 0..2, <= 3 vertices with demands 0..2, same-chip pair / location / global "
        "reservation on or off); non-trivial = >= 2 vertices, >= 1 constraint, at least one placer returned a "
        "placement; distinct by hash of the whole input")
