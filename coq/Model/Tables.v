(* C10, first half -- executable model of
     rig/place_and_route/routing_tree.py : RoutingTree.traverse
     rig/routing_table/utils.py          : routing_tree_to_tables
   Definitions only; proofs are in Proofs/Tables.v.

   Representation of Python values
   * A RoutingTree is [TNode chip children]; a child is (route or None, object) where the object is a
     RoutingTree or a vertex ([TLeaf v], v an integer naming the vertex).  Routes are the integer values
     of rig.routing_table.Routes (0..5 the links, 6 + n core n).  The type has the same shape as
     [rtree] of Model/Route.v (property C03); it is declared here again so that this file does not
     depend on the router's model (conversion is the evident structural map).
   * A Python set of Routes is a strictly increasing list of integers ([set_add] inserts); set
     equality is then list equality.  `None` in a set of source directions is the integer -1
     ([none_dir]), so a set of sources is also a strictly increasing list.
   * `routes` ({net: RoutingTree}) and `net_keys` ({net: (key, mask)}) are association lists in the
     iteration order of the dictionaries, nets being integers.  The OrderedDicts the function builds are
     association lists in insertion order ([cset], [kmset] keep the position of an existing key).
   * Outcomes: [ROk tables], [RMultisource key mask chip] (MultisourceRouteError and its arguments),
     [ROther] (any other exception: KeyError for a net without key, AssertionError of traverse for a
     subtree hanging on a None route, ValueError of Routes.opposite for a subtree hanging on a core
     route, AttributeError for a routes value that is no RoutingTree), [RFuel] (the model's loop bound,
     proved unreachable). *)
From Coq Require Import ZArith List Bool.
Require Import Rig.Model.Base Rig.Generated.GenRouter.
Import ListNotations.
Open Scope Z_scope.

(* ------------------------------------------------------------------------------------------------ *)
(** * Trees *)

Inductive tree : Type :=
| TNode (c : chip) (kids : list (option Z * tree))
| TLeaf (v : Z).

Fixpoint tsize (t : tree) : nat :=
  match t with
  | TLeaf _ => 1%nat
  | TNode _ kids => S ((fix go (ks : list (option Z * tree)) : nat :=
                          match ks with [] => O | k :: ks' => (tsize (snd k) + go ks')%nat end) kids)
  end.

(* ------------------------------------------------------------------------------------------------ *)
(** * Sets as strictly increasing lists *)

Fixpoint set_add (x : Z) (s : list Z) : list Z :=
  match s with
  | [] => [x]
  | y :: s' => if x <? y then x :: s else if x =? y then s else y :: set_add x s'
  end.

Definition set_of_list (l : list Z) : list Z := fold_right set_add [] l.

Fixpoint zlist_eqb (a b : list Z) : bool :=
  match a, b with
  | [], [] => true
  | x :: a', y :: b' => (x =? y) && zlist_eqb a' b'
  | _, _ => false
  end.

Definition none_dir : Z := -1.

(* ------------------------------------------------------------------------------------------------ *)
(** * RoutingTree.traverse *)

(* direction taken to reach the node (none_dir for the root), chip, set of out directions *)
Definition visit := (Z * chip * list Z)%type.

(* the routes of the children that have one: `if child_direction is not None: out_directions.add(...)` *)
Definition kid_routes (kids : list (option Z * tree)) : list Z :=
  flat_map (fun k => match fst k with Some r => [r] | None => [] end) kids.

Definition out_set (kids : list (option Z * tree)) : list Z := set_of_list (kid_routes kids).

(* the loop over node.children as far as the queue is concerned: the (direction, subtree) pairs appended
   to to_visit, or None when `assert child_direction is not None` fails *)
Fixpoint kids_enqueue (kids : list (option Z * tree)) : option (list (Z * tree)) :=
  match kids with
  | [] => Some []
  | (r, t) :: ks =>
      match t with
      | TLeaf _ => kids_enqueue ks
      | TNode _ _ =>
          match r with
          | None => None
          | Some d => match kids_enqueue ks with Some q => Some ((d, t) :: q) | None => None end
          end
      end
  end.

(* how the generator ends: exhausted, AssertionError, or the model's fuel ran out *)
Inductive tend := TDone | TAssert | TFuel.

(* the while loop; the queue holds (direction, node); visits are yielded lazily, so an AssertionError
   comes after the visits yielded before it *)
Fixpoint traverse_go (fuel : nat) (q : list (Z * tree)) : list visit * tend :=
  match fuel with
  | O => ([], TFuel)
  | S f =>
      match q with
      | [] => ([], TDone)
      | (d, TLeaf _) :: q' => traverse_go f q'            (* never enqueued; kept total *)
      | (d, TNode c kids) :: q' =>
          match kids_enqueue kids with
          | None => ([], TAssert)
          | Some new =>
              let r := traverse_go f (q' ++ new) in
              ((d, c, out_set kids) :: fst r, snd r)
          end
      end
  end.

Definition traverse (t : tree) : list visit * tend := traverse_go (S (tsize t)) [(none_dir, t)].

(* ------------------------------------------------------------------------------------------------ *)
(** * routing_tree_to_tables *)

Record entry := mkEntry { e_route : list Z; e_key : Z; e_mask : Z; e_sources : list Z }.

Definition km := (Z * Z)%type.
Definition km_eqb (a b : km) : bool := (fst a =? fst b) && (snd a =? snd b).

(* InOutPair(ins, outs) *)
Definition iopair := (list Z * list Z)%type.
Definition kmmap := list (km * iopair).
Definition rstate := list (chip * kmmap).

Fixpoint kmassoc (k : km) (l : kmmap) : option iopair :=
  match l with
  | [] => None
  | (k', v) :: l' => if km_eqb k k' then Some v else kmassoc k l'
  end.

Fixpoint kmset (k : km) (v : iopair) (l : kmmap) : kmmap :=
  match l with
  | [] => [(k, v)]
  | (k', v') :: l' => if km_eqb k k' then (k, v) :: l' else (k', v') :: kmset k v l'
  end.

Fixpoint cset (c : chip) (v : kmmap) (l : rstate) : rstate :=
  match l with
  | [] => [(c, v)]
  | (c', v') :: l' => if chip_eqb c c' then (c, v) :: l' else (c', v') :: cset c v l'
  end.

Inductive tres (A : Type) : Type :=
| ROk (a : A)
| RMultisource (key mask : Z) (c : chip)
| ROther
| RFuel.
Arguments ROk {A} a.
Arguments RMultisource {A} key mask c.
Arguments ROther {A}.
Arguments RFuel {A}.

(* `in_direction = direction.opposite` unless direction is None.  Routes.opposite raises ValueError on
   a core route; anything that is no member of Routes has no such attribute. *)
Definition in_direction (d : Z) : option Z :=
  if d =? none_dir then Some none_dir else zassoc d Routes_opposite_tbl.

(* body of the loop over routing_tree.traverse() *)
Definition visit_step (key mask : Z) (v : visit) (rs : rstate) : tres rstate :=
  let '(d, c, outs) := v in
  match in_direction d with
  | None => ROther
  | Some ind =>
      let cm := match cassoc c rs with Some m => m | None => [] end in
      match kmassoc (key, mask) cm with
      | Some (ins, outs0) =>
          if zlist_eqb outs0 outs
          then ROk (cset c (kmset (key, mask) (set_add ind ins, outs0) cm) rs)
          else RMultisource key mask c
      | None => ROk (cset c (kmset (key, mask) ([ind], outs) cm) rs)
      end
  end.

Fixpoint visits_fold (key mask : Z) (vs : list visit) (rs : rstate) : tres rstate :=
  match vs with
  | [] => ROk rs
  | v :: vs' =>
      match visit_step key mask v rs with
      | ROk rs' => visits_fold key mask vs' rs'
      | e => e
      end
  end.

Definition tree_fold (key mask : Z) (t : tree) (rs : rstate) : tres rstate :=
  let r := traverse t in
  match visits_fold key mask (fst r) rs with
  | ROk rs' => match snd r with TDone => ROk rs' | TAssert => ROther | TFuel => RFuel end
  | e => e
  end.

(* the loop over iteritems(routes) *)
Fixpoint nets_fold (net_keys : list (Z * km)) (routes : list (Z * tree)) (rs : rstate) : tres rstate :=
  match routes with
  | [] => ROk rs
  | (n, t) :: rest =>
      match zassoc n net_keys with
      | None => ROther                                       (* KeyError *)
      | Some (key, mask) =>
          match t with
          | TLeaf _ => ROther                                (* no .traverse *)
          | TNode _ _ =>
              match tree_fold key mask t rs with
              | ROk rs' => nets_fold net_keys rest rs'
              | e => e
              end
          end
      end
  end.

Definition entries_of (cm : kmmap) : list entry :=
  map (fun kv => mkEntry (snd (snd kv)) (fst (fst kv)) (snd (fst kv)) (fst (snd kv))) cm.

Definition tables_of (rs : rstate) : list (chip * list entry) :=
  map (fun cv => (fst cv, entries_of (snd cv))) rs.

Definition routing_tree_to_tables (routes : list (Z * tree)) (net_keys : list (Z * km))
  : tres (list (chip * list entry)) :=
  match nets_fold net_keys routes [] with
  | ROk rs => ROk (tables_of rs)
  | RMultisource k m c => RMultisource k m c
  | ROther => ROther
  | RFuel => RFuel
  end.

(* The bit-set view of an entry used by Model/Table.v (property C04): route and sources as sums of 2^r,
   None being bit 24.  Stated here for the composition C01; not used by C10 itself. *)
Definition bits_of (s : list Z) : Z :=
  fold_left (fun a r => Z.lor a (Z.shiftl 1 (if r =? none_dir then 24 else r))) s 0.
Definition entry_bits (e : entry) : Z * Z * Z * Z := (bits_of (e_route e), e_key e, e_mask e, bits_of (e_sources e)).

(* ------------------------------------------------------------------------------------------------ *)
(** * What the correspondence run prints (records as tuples) *)

Definition entry_tuple (e : entry) : list Z * Z * Z * list Z := (e_route e, e_key e, e_mask e, e_sources e).

Definition tables_digest (r : tres (list (chip * list entry)))
  : tres (list (chip * list (list Z * Z * Z * list Z))) :=
  match r with
  | ROk t => ROk (map (fun ce => (fst ce, map entry_tuple (snd ce))) t)
  | RMultisource k m c => RMultisource k m c
  | ROther => ROther
  | RFuel => RFuel
  end.
