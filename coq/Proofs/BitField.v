(* The lemmas behind Props/C08.v, stated exactly as there. *)
From Coq Require Import ZArith List Bool Lia.
Require Import Rig.Model.Base Rig.Model.BitField Rig.Spec.BitField.
Require Export Rig.Proofs.BitFieldBits Rig.Proofs.BitFieldTree Rig.Proofs.BitFieldAssign
               Rig.Proofs.BitFieldAdd Rig.Proofs.BitFieldKeys Rig.Proofs.BitFieldCheck
               Rig.Proofs.BitFieldReach Rig.Proofs.BitFieldComplete Rig.Proofs.BitFieldRefute
               Rig.Proofs.BitFieldTags Rig.Proofs.BitFieldPack.
Import ListNotations.
Open Scope Z_scope.

Lemma inv_sound_parts st :
  Inv st -> fids_unique (s_tree st) /\ no_overlap (s_tree st) (s_store st) /\ wide_enough (s_tree st) (s_store st).
Proof.
  intros [W [HD [HR HM]]]. split; [apply (wf_nodup _ _ W)|split].
  - now apply Disj_no_overlap.
  - now apply LenMax_wide.
Qed.

(* at any moment of any history, positioned fields that can be present together are disjoint and every
   recorded maximum fits the field's length *)
Lemma reachable_no_overlap st :
  reachable st -> no_overlap (s_tree st) (s_store st) /\ wide_enough (s_tree st) (s_store st).
Proof. intros R. apply reachable_inv in R. destruct (inv_sound_parts _ R) as [_ H]. exact H. Qed.

Lemma assign_sound_layout st st' :
  reachable st -> assign_fields st = (st', None) ->
  sound_layout (s_len st') (s_tree st') (s_store st').
Proof.
  intros R H. apply reachable_inv in R. destruct R as [W HI].
  destruct (assign_fields_inv _ _ _ _ W HI H) as [A [B [_ [D [[HD [HR HM]] [_ P]]]]]].
  rewrite A, B. constructor.
  - apply (wf_nodup _ _ W).
  - apply placed_all; auto.
  - now apply Disj_no_overlap.
Qed.

Lemma assign_no_overlap st st' :
  reachable st -> assign_fields st = (st', None) ->
  no_overlap (s_tree st') (s_store st') /\ all_placed (s_len st') (s_tree st') (s_store st').
Proof.
  intros R H. destruct (assign_sound_layout _ _ R H) as [_ P D]. split; assumption.
Qed.

(* every value ever given to a field fits the field's length, whenever that length gets (or already is)
   fixed *)
Lemma assign_wide_enough st1 fv kw st2 st3 i v :
  reachable st1 -> call st1 fv kw = (st2, None) -> In (i, v) (kw ++ fv) -> reaches st2 st3 ->
  exists fid, get_field (s_tree st2) i (kw ++ fv) = Some fid /\ 0 <= v /\
              forall l, f_len (sget (s_store st3) fid) = Some l -> v < 2 ^ l.
Proof.
  intros R Hc Hin Hr. pose proof (reachable_inv _ R) as HI.
  destruct (call_records _ _ _ _ HI Hc i v Hin) as [fid [p [Hg [Hp Hv]]]].
  exists fid. split; [exact Hg|split; [lia|]]. intros l Hl.
  pose proof (call_inv _ _ _ _ _ HI Hc) as HI2.
  destruct (reaches_persist_inv _ _ HI2 Hr) as [_ HP]. destruct (HP _ Hp) as [Hp3 [Hmax _]].
  destruct (reaches_inv _ _ HI2 Hr) as [_ [_ [_ HM]]].
  destruct (HM _ Hp3) as [_ M2]. destruct (M2 _ Hl) as [_ M3].
  unfold e_fid in *. simpl in *. lia.
Qed.

(* the laid-out bit field: keys of reachable instances *)
Lemma reachable_value_readback st st' fv v :
  reachable st -> assign_fields st = (st', None) -> In fv (s_insts st') ->
  get_value st' fv None None = Ok v ->
  forall i f, In (i, f) (enabled_fields (s_tree st') fv) ->
    exists p l x, frange (s_store st') f = Some (p, l) /\ zassoc i fv = Some x /\ read_field v p l = x.
Proof.
  intros R H Hfv Hv. pose proof (assign_sound_layout _ _ R H) as SL.
  assert (R' : reachable st').
  { eapply reach_step with (o := OpAssign 0) (r := OutNone); eauto; [|discriminate].
    simpl. rewrite H. reflexivity. }
  eapply value_readback; eauto. apply reachable_values_fit; auto. apply (sl_placed _ _ _ SL).
Qed.

Lemma reachable_keys_distinct st st' fv1 fv2 v1 m1 v2 m2 :
  reachable st -> assign_fields st = (st', None) -> In fv1 (s_insts st') -> In fv2 (s_insts st') ->
  get_value st' fv1 None None = Ok v1 -> get_mask st' fv1 None None = Ok m1 ->
  get_value st' fv2 None None = Ok v2 -> get_mask st' fv2 None None = Ok m2 ->
  (exists i f, In (i, f) (enabled_fields (s_tree st') fv1) /\ zassoc i fv1 <> zassoc i fv2) ->
  ~ keys_intersect v1 m1 v2 m2.
Proof.
  intros R H H1 H2. pose proof (assign_sound_layout _ _ R H) as SL.
  assert (R' : reachable st').
  { eapply reach_step with (o := OpAssign 0) (r := OutNone); eauto; [|discriminate].
    simpl. rewrite H. reflexivity. }
  apply (keys_distinct (s_len st')); auto.
  - now apply reachable_keys_local.
  - apply reachable_values_fit; auto. apply (sl_placed _ _ _ SL).
  - apply reachable_values_fit; auto. apply (sl_placed _ _ _ SL).
Qed.

(* the same for ANY reachable state in which every field has a position -- in particular for instances
   created after the layout, the usual way of using a bit field *)
Lemma reachable_sound_layout st :
  reachable st -> all_placed (s_len st) (s_tree st) (s_store st) ->
  sound_layout (s_len st) (s_tree st) (s_store st).
Proof.
  intros R HP. destruct (inv_sound_parts _ (reachable_inv _ R)) as [U [D _]]. constructor; assumption.
Qed.

Lemma value_readback_any_time st fv v :
  reachable st -> all_placed (s_len st) (s_tree st) (s_store st) -> In fv (s_insts st) ->
  get_value st fv None None = Ok v ->
  forall i f, In (i, f) (enabled_fields (s_tree st) fv) ->
    exists p l x, frange (s_store st) f = Some (p, l) /\ zassoc i fv = Some x /\ read_field v p l = x.
Proof.
  intros R HP Hfv Hv. eapply value_readback; eauto.
  - now apply reachable_sound_layout.
  - now apply reachable_values_fit.
Qed.

Lemma keys_distinct_any_time st fv1 fv2 v1 m1 v2 m2 :
  reachable st -> all_placed (s_len st) (s_tree st) (s_store st) ->
  In fv1 (s_insts st) -> In fv2 (s_insts st) ->
  get_value st fv1 None None = Ok v1 -> get_mask st fv1 None None = Ok m1 ->
  get_value st fv2 None None = Ok v2 -> get_mask st fv2 None None = Ok m2 ->
  (exists i f, In (i, f) (enabled_fields (s_tree st) fv1) /\ zassoc i fv1 <> zassoc i fv2) ->
  ~ keys_intersect v1 m1 v2 m2.
Proof.
  intros R HP H1 H2. apply (keys_distinct (s_len st)).
  - now apply reachable_sound_layout.
  - now apply reachable_keys_local.
  - now apply reachable_values_fit.
  - now apply reachable_values_fit.
Qed.

(* a layout, once complete, stays complete as long as no field is added: positions never change *)
Lemma all_placed_persists st st' :
  reachable st -> reaches st st' -> s_tree st' = s_tree st ->
  all_placed (s_len st) (s_tree st) (s_store st) -> all_placed (s_len st') (s_tree st') (s_store st').
Proof.
  intros R Hr Ht HP i f Hin. rewrite Ht in Hin. destruct (HP i f Hin) as [p [l [Hr' Hb]]].
  destruct (reaches_persist _ _ R Hr) as [HL Hpe].
  apply all_fields_flat in Hin. destruct Hin as [q Hq].
  destruct (Hpe _ Hq) as [_ [_ [_ [P4 _]]]]. unfold e_fid in P4. simpl in P4.
  exists p, l. split; [now apply P4|]. rewrite HL. exact Hb.
Qed.

(* stated on what the public methods return only: the position reported by get_location_and_length is
   where get_value put the field's value *)
Lemma reported_position_readback st fv i p l v :
  reachable st -> all_placed (s_len st) (s_tree st) (s_store st) -> In fv (s_insts st) ->
  get_location_and_length st fv i = Ok (p, l) -> get_value st fv None None = Ok v ->
  exists x, zassoc i fv = Some x /\ get_attr st fv i = Ok (Some x) /\ read_field v p l = x.
Proof.
  intros R HP Hfv Hloc Hv. unfold get_location_and_length in Hloc.
  destruct (get_field (s_tree st) i fv) as [f|] eqn:Eg; [|discriminate].
  pose proof (get_field_enabled _ _ _ _ Eg) as Hen.
  destruct (value_readback_any_time _ _ _ R HP Hfv Hv i f Hen) as [p' [l' [x [Hr [Hz Hb]]]]].
  unfold frange in Hr.
  destruct (f_len (sget (s_store st) f)) as [l0|]; [|discriminate].
  destruct (f_start (sget (s_store st) f)) as [p0|]; [|discriminate].
  inversion Hloc; subst p0 l0. inversion Hr; subst p' l'.
  exists x. split; [exact Hz|split; [|exact Hb]]. unfold get_attr. now rewrite Eg, Hz.
Qed.

(* an instance created AFTER the layout: its key is generated and read back *)
Definition ex_after_ops : list op :=
  [OpAdd 0 0 (Some 2) None [7]; OpCall 0 [(0, 1)]; OpAdd 1 1 None None [8]; OpCall 1 [(1, 9)];
   OpAssign 0; OpCall 0 [(0, 1); (1, 6)]].

Lemma ex_after_instance :
  let st := exec (init 8) ex_after_ops in
  reachable st /\ all_placed (s_len st) (s_tree st) (s_store st)
  /\ nth 3 (s_insts st) [] = [(0, 1); (1, 6)] /\ In (nth 3 (s_insts st) []) (s_insts st)
  /\ get_value st (nth 3 (s_insts st) []) None None = Ok 22
  /\ get_location_and_length st (nth 3 (s_insts st) []) 1 = Ok (0, 4)
  /\ get_location_and_length st (nth 3 (s_insts st) []) 0 = Ok (4, 2)
  /\ read_field 22 0 4 = 6 /\ read_field 22 4 2 = 1.
Proof.
  cbv zeta. split; [apply exec_reachable, reach_init|]. split.
  - assert (EL : s_len (exec (init 8) ex_after_ops) = 8) by (vm_compute; reflexivity). rewrite EL.
    intros i f Hin. vm_compute in Hin.
    destruct Hin as [Hin|[Hin|[]]]; inversion Hin; subst; eexists; eexists; (split; [vm_compute; reflexivity|lia]).
  - repeat split; vm_compute; auto.
Qed.

Lemma assign_complete_flat_reachable st fs :
  reachable st -> s_tree st = Node fs [] ->
  unpositioned (s_tree st) (s_store st) ->
  widths_fit (s_len st) (s_tree st) (s_store st) ->
  exists st', assign_fields st = (st', None).
Proof. intros R. apply assign_complete_flat. now apply reachable_inv. Qed.

(* non-vacuity: a reachable two-level bit field, laid out, two complete instances with different keys *)
Definition ex_ops : list op :=
  [OpAdd 0 0 (Some 2) None [7]; OpCall 0 [(0, 1)]; OpAdd 1 1 None None [8]; OpCall 1 [(1, 9)];
   OpCall 0 [(0, 2)]; OpAdd 3 1 (Some 3) (Some 5) []; OpCall 3 [(1, 5)]].

Definition ex_state : state := exec (init 10) ex_ops.

Lemma ex_instance :
  exists st' v1 m1 v2 m2,
    reachable ex_state /\ assign_fields ex_state = (st', None)
    /\ get_value st' (nth 2 (s_insts st') []) None None = Ok v1
    /\ get_mask st' (nth 2 (s_insts st') []) None None = Ok m1
    /\ get_value st' (nth 4 (s_insts st') []) None None = Ok v2
    /\ get_mask st' (nth 4 (s_insts st') []) None None = Ok m2
    /\ (v1, m1, v2, m2) = (265, 783, 672, 992).
Proof.
  exists (fst (assign_fields ex_state)). do 4 eexists.
  split; [apply exec_reachable, reach_init|].
  repeat split; vm_compute; reflexivity.
Qed.

Lemma ex_flat_instance :
  exists st fs, reachable st /\ s_tree st = Node fs [] /\ fs <> []
    /\ unpositioned (s_tree st) (s_store st) /\ widths_fit (s_len st) (s_tree st) (s_store st).
Proof.
  exists (exec (init 8) [OpAdd 0 0 (Some 3) None []; OpAdd 0 1 None None []; OpCall 0 [(1, 17)]]).
  eexists. split; [apply exec_reachable, reach_init|]. split; [vm_compute; reflexivity|].
  split; [discriminate|]. split.
  - intros i f Hin. vm_compute in Hin. destruct Hin as [Hin|[Hin|[]]]; inversion Hin; subst; reflexivity.
  - intros fv. vm_compute. discriminate.
Qed.

(* an accepted explicit position is kept for ever: the field is never relocated, whatever is laid out
   later -- if its explicit range cannot be honoured assign_fields fails instead *)
Lemma explicit_start_kept st fv i len p tags st1 st2 :
  reachable st -> add_field st fv i len (Some p) tags = (st1, None) -> reaches st1 st2 ->
  let fid := length (s_store st) in
  f_start (sget (s_store st2) fid) = Some p /\
  (forall q l, frange (s_store st2) fid = Some (q, l) -> q = p) /\
  (forall l, len = Some l -> f_len (sget (s_store st2) fid) = Some l).
Proof.
  intros R H Hr fid. pose proof (reachable_inv _ R) as HI.
  destruct (add_field_new_entry _ _ _ _ _ _ _ HI H) as [path [Hin [Hs Hl]]].
  pose proof (add_field_gen_inv _ _ _ _ _ _ _ _ HI H) as HI1.
  destruct (reaches_persist_inv _ _ HI1 Hr) as [_ HP].
  destruct (HP _ Hin) as [_ [_ [P3 [_ P5]]]]. unfold e_fid in P3, P5. simpl in P3, P5.
  assert (Hs2 : f_start (sget (s_store st2) fid) = Some p) by (apply P5; exact Hs).
  split; [exact Hs2|split].
  - intros q l Hq. unfold frange in Hq. fold fid in Hs2. rewrite Hs2 in Hq.
    destruct (f_len (sget (s_store st2) fid)); inversion Hq; reflexivity.
  - intros l ->. apply P3. exact Hl.
Qed.

Lemma add_field_refused st fv i len start tags st' :
  add_field st fv i len start tags = (st', Some E_VALUE) -> st' = st.
Proof. apply add_field_refused_no_effect. Qed.

Lemma assign_complete_exclusive_reachable st :
  reachable st -> exclusive_children (s_tree st) = true ->
  unpositioned (s_tree st) (s_store st) ->
  widths_fit (s_len st) (s_tree st) (s_store st) ->
  exists st', assign_fields st = (st', None).
Proof. intros R. apply assign_complete_exclusive. now apply reachable_inv. Qed.

(* a three-level hierarchy whose scopes are opened by one field per node, filled to the last bit *)
Definition ex_chain_ops : list op :=
  [OpAdd 0 0 (Some 2) None []; OpCall 0 [(0, 0)]; OpCall 0 [(0, 1)];
   OpAdd 1 1 (Some 3) None []; OpAdd 2 2 None None []; OpCall 2 [(2, 1)]; OpAdd 3 3 (Some 2) None []].

Lemma ex_exclusive_instance :
  exists st, reachable st /\ exclusive_children (s_tree st) = true /\ t_children (s_tree st) <> []
    /\ unpositioned (s_tree st) (s_store st) /\ widths_fit (s_len st) (s_tree st) (s_store st)
    /\ s_len st = 5.
Proof.
  exists (exec (init 5) ex_chain_ops).
  split; [apply exec_reachable, reach_init|]. split; [vm_compute; reflexivity|].
  split; [vm_compute; discriminate|]. split; [|split; [|vm_compute; reflexivity]].
  - intros i f Hin. vm_compute in Hin.
    repeat (destruct Hin as [Hin|Hin]; [inversion Hin; subst; reflexivity|]). destruct Hin.
  - intros fv.
    assert (Et : s_tree (exec (init 5) ex_chain_ops) =
                 Node [(0, 0%nat)] [([(0, 0)], Node [(1, 1%nat)] []);
                                    ([(0, 1)], Node [(2, 2%nat)] [([(2, 1)], Node [(3, 3%nat)] [])])])
      by (vm_compute; reflexivity).
    assert (Es : s_store (exec (init 5) ex_chain_ops) =
                 [mkField (Some 2) None [] 1; mkField (Some 3) None [] 1; mkField None None [] 1;
                  mkField (Some 2) None [] 1]) by (vm_compute; reflexivity).
    rewrite Et, Es. cbn [enabled_fields flat_map app]. unfold req_enabled. cbn [forallb fst snd].
    destruct (zassoc 0 fv) as [a|]; [|vm_compute; discriminate].
    destruct (Z.eqb_spec 0 a) as [<-|N0].
    { change (1 =? 0) with false. vm_compute. discriminate. }
    destruct (Z.eqb_spec 1 a) as [<-|N1]; [|vm_compute; discriminate].
    destruct (zassoc 2 fv) as [b|]; [|vm_compute; discriminate].
    destruct (Z.eqb_spec 1 b) as [<-|N2]; vm_compute; discriminate.
Qed.
