(* Proofs about the minimisers of Model/Table.v that do not need the ordered-covering invariant:
   default-route removal (for ANY table), the method chain of minimise_table / minimise_tables, and
   transitivity of route_eq. *)
From Coq Require Import ZArith List Bool Lia.
Require Import Rig.Generated.GenTable Rig.Generated.GenTableEnums.
Require Import Rig.Model.Base Rig.Model.Table Rig.Spec.Table Rig.Proofs.TableCheck.
Import ListNotations.
Open Scope Z_scope.

(* ------------------------------------------------------------------------------------------------ *)
(** * route_eq: reflexive, and transitive on tables whose entries have a source *)

Lemma subset_refl : forall s, subset s s.
Proof. intros s. unfold subset. apply Z.land_diag. Qed.

Lemma subset_trans : forall a b c, subset a b -> subset b c -> subset a c.
Proof.
  unfold subset. intros a b c Hab Hbc. rewrite <- Hab at 1. rewrite <- Z.land_assoc, Hbc. exact Hab.
Qed.

Lemma route_eq_refl : forall t, route_eq t t.
Proof.
  intros t k e _ Hl. rewrite Hl. split; [reflexivity | apply subset_refl].
Qed.

Lemma lookup_In : forall t k e, lookup t k = Some e -> In e t /\ matches e k = true.
Proof. intros t k e H. apply find_some in H. exact H. Qed.

(* a non-empty subset of a one-element set is that set *)
Lemma subset_singleton : forall s l, 0 <= l -> s <> 0 -> subset s (Z.shiftl 1 l) -> s = Z.shiftl 1 l.
Proof.
  intros s l Hl Hnz Hsub. unfold subset in Hsub.
  apply Z.bits_inj'. intros j Hj.
  assert (Hbit : forall i, 0 <= i -> Z.testbit s i = Z.testbit s i && (l =? i)).
  { intros i Hi. rewrite <- Hsub at 1. rewrite Z.land_spec, Z.shiftl_1_l, Z.pow2_bits_eqb by exact Hl.
    reflexivity. }
  rewrite Z.shiftl_1_l, Z.pow2_bits_eqb by exact Hl.
  destruct (l =? j) eqn:Hlj.
  - apply Z.eqb_eq in Hlj. subst j.
    destruct (Z.testbit s l) eqn:Hs; [reflexivity | exfalso].
    apply Hnz. apply Z.bits_inj'. intros i Hi. rewrite Z.bits_0, (Hbit i Hi).
    destruct (l =? i) eqn:Hli; [| apply andb_false_r].
    apply Z.eqb_eq in Hli. subst i. rewrite Hs. reflexivity.
  - rewrite (Hbit j Hj), Hlj. apply andb_false_r.
Qed.

(* route_eq is not transitive as it stands (a key default-routed by B may be caught by C); what
   composes is a first step that keeps every key matched (ordered covering never drops a key) *)
Definition route_eq_matched (A B : table) : Prop :=
  forall k e, key32 k -> lookup A k = Some e -> exists e', lookup B k = Some e' /\ routes_like e e'.

Lemma route_eq_matched_route_eq : forall A B, route_eq_matched A B -> route_eq A B.
Proof.
  intros A B H k e Hk Hl. destruct (H k e Hk Hl) as [e' [Hl' Hrl]]. rewrite Hl'. exact Hrl.
Qed.

Lemma route_eq_compose : forall A B C,
  nonempty_sources A -> route_eq_matched A B -> route_eq B C -> route_eq A C.
Proof.
  intros A B C Hne HAB HBC k e Hk Hl.
  destruct (HAB k e Hk Hl) as [e1 [HB [Hr1 Hs1]]].
  specialize (HBC k e1 Hk HB).
  destruct (lookup C k) as [e2 |].
  - destruct HBC as [Hr2 Hs2]. split; [congruence | eapply subset_trans; eassumption].
  - destruct HBC as [l [Hl6 [Hsrc Hrt]]].
    exists l. split; [exact Hl6 | split; [| congruence]].
    apply subset_singleton; [lia | | rewrite <- Hsrc; exact Hs1].
    apply Hne. apply (lookup_In A k e Hl).
Qed.

(* ------------------------------------------------------------------------------------------------ *)
(** * Default-route removal, for any table whatever *)

(* what the code's test (through the generated Routes tables) establishes *)
Lemma is_defaultable_spec : forall check e rest,
  is_defaultable check e rest = true ->
  default_routable e /\ (check = true -> forall d, In d rest -> intersects e d = false).
Proof.
  intros check e rest H. unfold is_defaultable in H.
  destruct (singleton_of (e_sources e)) as [s |] eqn:Hs; [| discriminate].
  destruct (singleton_of (e_route e)) as [r |] eqn:Hr; [| discriminate].
  apply andb_true_iff in H. destruct H as [H Hal].
  apply andb_true_iff in H. destruct H as [H Hopp].
  apply andb_true_iff in H. destruct H as [Hnone Hlinks].
  apply andb_true_iff in Hlinks. destruct Hlinks as [Hls Hlr].
  split.
  - unfold singleton_of in Hs, Hr. apply find_some in Hs. apply find_some in Hr.
    destruct Hs as [Hsin Hseq]. destruct Hr as [_ Hreq].
    apply Z.eqb_eq in Hseq. apply Z.eqb_eq in Hreq.
    destruct (zassoc s routes_opposite) as [o |] eqn:Ho; [| discriminate].
    apply Z.eqb_eq in Hopp. subst o.
    assert (Hs6 : 0 <= s < 6).
    { vm_compute in Hsin.
      repeat (destruct Hsin as [<- | Hsin]; [first [lia | vm_compute in Hls; discriminate Hls] |]).
      destruct Hsin. }
    clear Hsin.
    assert (Hcases : s = 0 \/ s = 1 \/ s = 2 \/ s = 3 \/ s = 4 \/ s = 5) by lia.
    exists s. split; [exact Hs6 | split; [exact Hseq |]].
    rewrite Hreq. f_equal.
    destruct Hcases as [-> | [-> | [-> | [-> | [-> | ->]]]]];
      vm_compute in Ho; injection Ho as <-; reflexivity.
  - intros -> d Hd. simpl in Hal. apply negb_true_iff in Hal.
    destruct (intersects e d) eqn:Hi; [| reflexivity].
    assert (Hex : existsb (intersects e) rest = true) by (apply existsb_exists; exists d; split; assumption).
    rewrite Hex in Hal. discriminate.
Qed.

Lemma rd_go_incl : forall check t e, In e (rd_go check t) -> In e t.
Proof.
  intros check t. induction t as [| x rest IH]; intros e H; simpl in *; [exact H |].
  destruct (is_defaultable check x rest).
  - right. apply IH. exact H.
  - destruct H as [<- | H]; [left; reflexivity | right; apply IH; exact H].
Qed.

Lemma rd_go_length : forall check t, len (rd_go check t) <= len t.
Proof.
  intros check t. unfold len. induction t as [| x rest IH]; simpl; [lia |].
  destruct (is_defaultable check x rest); simpl length; lia.
Qed.

Lemma lookup_none_of : forall t k, (forall d, In d t -> matches d k = false) -> lookup t k = None.
Proof.
  intros t k H. unfold lookup. destruct (find (fun e => matches e k) t) as [d |] eqn:Hf; [| reflexivity].
  apply find_some in Hf. destruct Hf as [Hd Hm]. rewrite (H d Hd) in Hm. discriminate.
Qed.

(* no two entries of the table (at different positions) match a common key *)
Fixpoint pairwise_disjoint (t : table) : Prop :=
  match t with
  | [] => True
  | e :: r => (forall d k, In d r -> matches e k = true -> matches d k = false) /\ pairwise_disjoint r
  end.

Lemma rd_go_lookup : forall check t k,
  (check = false -> pairwise_disjoint t) ->
  match lookup t k with
  | None => lookup (rd_go check t) k = None
  | Some e => lookup (rd_go check t) k = Some e
              \/ (lookup (rd_go check t) k = None /\ default_routable e)
  end.
Proof.
  intros check t k. induction t as [| x rest IH]; intros Hpd; [reflexivity |].
  assert (Hpd' : check = false -> pairwise_disjoint rest) by (intros Hc; apply (Hpd Hc)).
  specialize (IH Hpd').
  unfold lookup in *. cbn [find rd_go].
  destruct (is_defaultable check x rest) eqn:Hdef.
  - destruct (matches x k) eqn:Hm; [| exact IH].
    right. apply is_defaultable_spec in Hdef. destruct Hdef as [Hdr Hni].
    split; [| exact Hdr].
    apply lookup_none_of. intros d Hd. apply rd_go_incl in Hd.
    destruct check.
    + specialize (Hni eq_refl d Hd). unfold intersects in Hni.
      apply (intersect_false_disjoint _ _ _ _ k Hni). exact Hm.
    + destruct (Hpd eq_refl) as [Hx _]. apply (Hx d k Hd Hm).
  - cbn [find]. destruct (matches x k) eqn:Hm; [left; reflexivity | exact IH].
Qed.

Lemma rd_go_route_eq : forall check t,
  (check = false -> pairwise_disjoint t) -> route_eq t (rd_go check t).
Proof.
  intros check t Hpd k e _ Hl. pose proof (rd_go_lookup check t k Hpd) as H. rewrite Hl in H.
  destruct H as [H | [H Hdr]]; rewrite H; [| exact Hdr].
  split; [reflexivity | apply subset_refl].
Qed.

(* the cheap test of the code: one mask, all keys different => no two entries share a key *)
Lemma zmem_false : forall x l, zmem x l = false -> ~ In x l.
Proof.
  intros x l. induction l as [| y l' IH]; intros H Hin; simpl in *; [exact Hin |].
  apply orb_false_iff in H. destruct H as [Hxy Hl'].
  destruct Hin as [<- | Hin]; [rewrite Z.eqb_refl in Hxy; discriminate | exact (IH Hl' Hin)].
Qed.

Lemma same_mask_disjoint : forall m t,
  (forall e, In e t -> e_mask e = m) -> znodup (map e_key t) = true -> pairwise_disjoint t.
Proof.
  intros m t. induction t as [| x rest IH]; intros Hm Hnd; simpl; [exact I |].
  simpl in Hnd. apply andb_true_iff in Hnd. destruct Hnd as [Hx Hrest]. apply negb_true_iff in Hx.
  split.
  - intros d k Hd Hxk. unfold matches, km_matches, km_of in *; simpl in *.
    apply Z.eqb_eq in Hxk.
    destruct (Z.land k (e_mask d) =? e_key d) eqn:Hdk; [| reflexivity].
    apply Z.eqb_eq in Hdk. exfalso.
    apply (zmem_false _ _ Hx). rewrite (Hm d (or_intror Hd)) in Hdk. rewrite (Hm x (or_introl eq_refl)) in Hxk.
    rewrite <- Hxk, Hdk. apply in_map. exact Hd.
  - apply IH; [intros e He; apply Hm; right; exact He | exact Hrest].
Qed.

Lemma no_alias_shortcut_disjoint : forall t, no_alias_shortcut t = true -> pairwise_disjoint t.
Proof.
  intros t H. destruct t as [| e r]; [exact I |]. unfold no_alias_shortcut in H.
  apply andb_true_iff in H. destruct H as [Hm Hnd].
  apply (same_mask_disjoint (e_mask e)); [| exact Hnd].
  intros e' [<- | He']; [reflexivity |]. rewrite forallb_forall in Hm. apply Z.eqb_eq. apply Hm. exact He'.
Qed.

(* U (any ordered table, any target): remove_default returns, with no target, a table that routes
   every matched key as before and is not longer; with a target it returns that same table when it is
   short enough and otherwise fails reporting exactly its length. *)
Theorem remove_default_spec : forall t target,
  exists full,
    remove_default t None = Ok full /\ route_eq t full /\ len full <= len t /\
    remove_default t target =
      match target with
      | None => Ok full
      | Some tl => if tl <? len full then Failed (len full) else Ok full
      end.
Proof.
  intros t target. unfold remove_default, remove_default_gen.
  exists (rd_go (negb (no_alias_shortcut t)) t).
  split; [reflexivity | split; [| split]].
  - apply rd_go_route_eq. intros Hc. apply negb_false_iff in Hc. apply no_alias_shortcut_disjoint. exact Hc.
  - apply rd_go_length.
  - destruct target; reflexivity.
Qed.
