(* C04 -- Table minimisation never changes where any matched key is routed.

   Property theorems only; each is closed by `exact` of a lemma of Proofs/Table*.v.  The model
   (Model/Table.v) calls the kernels regenerated from /repo (Generated/GenTable.v: intersect,
   get_generality, the merge key/mask expressions; Generated/GenTableEnums.v: Routes.is_link/opposite),
   so the theorems are re-checked against the current source text.

   route_eq O T (Spec/Table.v): every 32-bit key matched by O is routed by T's first matching entry to
   the same set of links and cores, that entry listing O's source directions, or matches nothing in T
   and O's entry went straight through from a single link (hardware default routing).

   minimiser_domain t (Spec/Table.v): keys and masks are 32-bit with no key bit outside the mask, every
   entry has at least one source direction, and the table is listed in increasing order of generality
   or is orthogonal (no two entries match a common 32-bit key).  The empty table is in the domain.
   Generality is defined in the Spec (number of bits 0..31 clear in key and mask), not by rig's kernel
   (C04_generality_is_spec).  The key-range and no-stray-key-bit clauses are NOT needed by the proofs
   (C04_ordered_covering_route_eq_loose, minimiser_domain_loose); the source-direction clause and the
   order clause are (C04_empty_sources_refuted, C04_unsorted_overlapping_refuted).

   Not covered by a theorem (harness only): independence of successive calls in one interpreter (the
   `seq` stream; the model run afresh per call is the specification) and ordered_covering started from a
   caller-supplied aliases dictionary (two-round correspondence).  The vocabulary of the statements
   (method_ok, full_size, best_size, table_of, route_eq_matched) is defined in Spec/Table.v. *)
From Coq Require Import ZArith List Bool.
Require Import Rig.Generated.GenTable Rig.Generated.GenTableEnums.
Require Import Rig.Generated.GenTableFront.
Require Import Rig.Model.Base Rig.Model.Table Rig.Model.TableFront Rig.Spec.Table.
Require Import Rig.Proofs.TableCheck Rig.Proofs.Table Rig.Proofs.TableBits Rig.Proofs.TableIns Rig.Proofs.TableOC3
  Rig.Proofs.TableFront.
Import ListNotations.
Open Scope Z_scope.

(* V -- the validator run inside Coq on every table the real minimisers return (and by C01/C10):
   each `true` is a kernel-checked proof of route_eq for that pair of tables.  It never enumerates
   keys: it subtracts key-mask cubes. *)
Theorem C04_check_route_eq_sound :
  forall O T, check_route_eq O T = true -> route_eq O T.
Proof. exact check_route_eq_sound. Qed.

(* U -- default-route removal, for ANY table (any order, any overlaps, malformed entries, any key and
   mask integers) and any target: run without a target it returns a table [full] that routes every
   matched key as before and is not longer; with a target it returns that same table when it fits and
   otherwise raises MinimisationFailedError reporting exactly len full.  No other outcome exists. *)
Theorem C04_remove_default_route_eq :
  forall t target,
  exists full,
    remove_default t None = Ok full /\ route_eq t full /\ len full <= len t /\
    remove_default t target =
      match target with
      | None => Ok full
      | Some tl => if tl <? len full then Failed (len full) else Ok full
      end.
Proof. exact remove_default_spec. Qed.

(* the regenerated _get_generality computes the Spec's generality: a change of rig's kernel breaks this
   proof instead of silently moving the domain *)
Theorem C04_generality_is_spec : forall e, gen_of e = spec_generality e.
Proof. exact gen_of_spec. Qed.

(* U -- the same statements hold without the key-range and stray-key-bit clauses of the domain (an entry
   with a key bit outside its mask matches nothing, before and after) *)
Theorem C04_ordered_covering_route_eq_loose :
  forall t, minimiser_domain_loose t -> method_ok oc_minimise t.
Proof. exact oc_minimise_loose_spec. Qed.

Theorem C04_minimise_table_route_eq_loose :
  forall t target,
  minimiser_domain_loose t ->
  match minimise_table t target with
  | Ok r => route_eq t r /\ len r <= len t /\ (forall tl, target = Some tl -> len r <= tl)
  | Failed n =>
      exists tl, target = Some tl /\ tl < n /\
                 n = Z.min (Z.min (len t) (full_size remove_default t)) (full_size oc_minimise t)
  | OtherError | OutOfFuel => False
  end.
Proof. exact minimise_table_loose_spec. Qed.

(* R -- the source-direction clause is necessary for the property as worded: an entry with NO source
   direction is merged with a straight-through entry, the merge is default-routed away, and its key is
   matched by nothing although it was not straight through from a single link.  (No packet is affected:
   nothing arrives for an entry without sources; hence a guard, not a defect.) *)
Theorem C04_empty_sources_refuted :
  table32 ex_nosrc /\ sorted_by_generality ex_nosrc
  /\ oc_minimise ex_nosrc None = Ok [] /\ minimise_table ex_nosrc None = Ok [] /\ ~ route_eq ex_nosrc [].
Proof. exact empty_sources_witness. Qed.

(* U -- the merging stage of ordered covering (ordered_covering(..., no_raise=True) from an empty
   aliases dictionary), any target: it terminates with a table in which every key matched by the input
   is still matched, by an entry with the same route that lists the input entry's sources, and which is
   not longer.  (Loop invariant: Proofs/TableOC.v, Inv; _Merge.apply preserves it for a merge passing the
   up-check and the down-check; _refine_merge establishes both; the down-check loop terminates.) *)
Theorem C04_ordered_covering_stage_route_eq :
  forall t target,
  minimiser_domain t ->
  exists T A, ordered_covering t target [] true = Ok (T, A)
              /\ (forall k e, key32 k -> lookup t k = Some e ->
                              exists e', lookup T k = Some e' /\ routes_like e e')
              /\ len T <= len t.
Proof. exact ordered_covering_stage_spec. Qed.

(* U -- ordered_covering.minimise (merging, then default-route removal) on every table of the domain:
   without a target it returns a table [full] that routes like the input and is not longer; with a
   target it returns a table that routes like the input, is not longer and meets the target, or raises
   MinimisationFailedError reporting exactly len full > target.  It never hits the model's loop bounds
   and raises nothing else. *)
Theorem C04_ordered_covering_route_eq :
  forall t,
  minimiser_domain t ->
  exists full,
    oc_minimise t None = Ok full /\ route_eq t full /\ len full <= len t /\
    forall tl,
      match oc_minimise t (Some tl) with
      | Ok r => route_eq t r /\ len r <= len t /\ len r <= tl
      | Failed n => n = len full /\ tl < n
      | OtherError | OutOfFuel => False
      end.
Proof. exact oc_minimise_spec. Qed.

(* U -- the try-each-method front end for one table: the result routes like the input, is not longer
   and meets the target; or the error reports the best size any method reached (the input's length, what
   default-route removal reaches, what ordered covering reaches), which is above the target. *)
Theorem C04_minimise_table_route_eq :
  forall t target,
  minimiser_domain t ->
  match minimise_table t target with
  | Ok r => route_eq t r /\ len r <= len t /\ (forall tl, target = Some tl -> len r <= tl)
  | Failed n =>
      exists tl, target = Some tl /\ tl < n /\
                 n = Z.min (Z.min (len t) (full_size remove_default t)) (full_size oc_minimise t)
  | OtherError | OutOfFuel => False
  end.
Proof. exact minimise_table_domain_spec. Qed.

(* U -- the front end for many chips (targets None / int / dictionary): every chip's table is
   minimised as by minimise_table with that chip's target; chips whose result is empty are dropped;
   a failure names a chip of the input and carries that chip's error; KeyError only for a chip missing
   from the targets dictionary. *)
Theorem C04_minimise_tables_route_eq :
  forall ts tg,
  NoDup (map fst ts) ->
  (forall c t, In (c, t) ts -> minimiser_domain t) ->
  match minimise_tables ts tg with
  | TablesOk out =>
      (forall c t, In (c, t) ts ->
         exists tl, target_for tg c = Some tl /\ minimise_table t tl = Ok (table_of out c) /\
                    route_eq t (table_of out c) /\ len (table_of out c) <= len t /\
                    (forall n, tl = Some n -> len (table_of out c) <= n))
      /\ (forall c r, In (c, r) out -> In c (map fst ts))
  | TablesFailed c n =>
      exists t tl, In (c, t) ts /\ target_for tg c = Some (Some tl) /\
                   minimise_table t (Some tl) = Failed n /\ tl < n
  | TablesOther => exists c t, In (c, t) ts /\ target_for tg c = None
  | TablesOutOfFuel => False
  end.
Proof. exact minimise_tables_domain_spec. Qed.

(* ---- front ends with caller-supplied arguments (Model/TableFront.v; shape re-extracted from the source
   on every run by tools/dump_c04f.py: default methods, _identity first and its comparison, __new__) ---- *)

(* the model of the default call IS the general front end at the dumped default method list *)
Theorem C04_front_default_is_model :
  default_method_ids = [MRde; MOc]
  /\ (forall t tg, minimise_table_with default_method_ids t tg = minimise_table t tg)
  /\ (forall ts tg, minimise_tables_with default_method_ids ts tg = minimise_tables ts tg).
Proof. exact front_default_is_model. Qed.

(* U -- minimise_table with ANY list of the two minimisers (any order, repeats, a single one, none): the
   result routes like the input, is not longer and meets the target; or the error reports the best size
   reached by _identity and the listed methods, which is above the target when at least one method is given *)
Theorem C04_minimise_table_methods_route_eq :
  forall ms t target,
  minimiser_domain t ->
  match minimise_table_with ms t target with
  | Ok r => route_eq t r /\ len r <= len t /\ (forall tl, target = Some tl -> len r <= tl)
  | Failed n =>
      exists tl, target = Some tl /\ n = best_size (map run_method ms) t (len t)
                 /\ tl <= n /\ (ms <> [] -> tl < n)
  | OtherError | OutOfFuel => False
  end.
Proof. exact minimise_table_with_spec. Qed.

(* R -- with methods=() the guard `ms <> []` is needed: _identity's strict `<` raises
   MinimisationFailedError(target, final_length = target) for a table of exactly the target's length *)
Theorem C04_minimise_table_no_methods_refuted :
  exists t tl, minimiser_domain t /\ len t <= tl /\ minimise_table_with [] t (Some tl) = Failed tl.
Proof. exact minimise_table_no_methods_witness. Qed.

(* U -- minimise_tables with any method list: chip by chip it is minimise_table with the same methods and
   that chip's target (empty results dropped, first failing chip's error); combine with the theorem above *)
Theorem C04_minimise_tables_methods_per_chip :
  forall ms ts tg,
  NoDup (map fst ts) ->
  match minimise_tables_with ms ts tg with
  | TablesOk out =>
      forall c t, In (c, t) ts ->
        exists tl, target_for tg c = Some tl /\ minimise_table_with ms t tl = Ok (table_of out c)
  | TablesFailed c n =>
      exists t tl, In (c, t) ts /\ target_for tg c = Some tl /\ minimise_table_with ms t tl = Failed n
  | TablesOther =>
      exists c t, In (c, t) ts /\
                  (target_for tg c = None \/ exists tl, target_for tg c = Some tl /\ minimise_table_with ms t tl = OtherError)
  | TablesOutOfFuel =>
      exists c t tl, In (c, t) ts /\ target_for tg c = Some tl /\ minimise_table_with ms t tl = OutOfFuel
  end.
Proof. exact minimise_tables_with_spec. Qed.

(* U -- ordered_covering(..., no_raise=False): it raises exactly when the table it would have returned with
   no_raise=True is longer than the target, reporting that table's length *)
Theorem C04_ordered_covering_raise_clause :
  forall t target,
  minimiser_domain t ->
  exists T A, ordered_covering t target [] true = Ok (T, A)
    /\ route_eq_matched t T /\ len T <= len t
    /\ ordered_covering t target [] false =
         match target with
         | None => Ok (T, A)
         | Some tl => if len T >? tl then Failed (len T) else Ok (T, A)
         end.
Proof. exact ordered_covering_raise_spec. Qed.

(* U / R -- remove_default_routes.minimise(check_for_aliases=False): correct on orthogonal tables, and
   (as documented) not on tables with aliased entries *)
Theorem C04_remove_default_nocheck_route_eq :
  forall t target,
  table32 t -> orthogonal t ->
  exists full,
    remove_default_nocheck t None = Ok full /\ route_eq t full /\ len full <= len t /\
    remove_default_nocheck t target =
      match target with
      | None => Ok full
      | Some tl => if tl <? len full then Failed (len full) else Ok full
      end.
Proof. exact remove_default_nocheck_spec. Qed.

Theorem C04_remove_default_nocheck_aliased_refuted :
  table32 ex_aliased /\ sorted_by_generality ex_aliased /\ nonempty_sources ex_aliased
  /\ exists r, remove_default_nocheck ex_aliased None = Ok r /\ ~ route_eq ex_aliased r.
Proof. exact remove_default_nocheck_aliased_witness. Qed.

(* R -- the order guard of the domain is necessary: an overlapping table NOT listed by generality (every
   other clause of the domain holds) has a key whose route ordered covering changes; minimise_table returns
   it untouched only because _identity comes first.  Exact repeats of a key and mask are in the domain when
   listed by generality (Example below); an orthogonal table cannot contain a repeat that matches a key. *)
Theorem C04_unsorted_overlapping_refuted :
  table32 ex_unsorted /\ nonempty_sources ex_unsorted
  /\ exists r, oc_minimise ex_unsorted None = Ok r /\ minimise_table ex_unsorted None = Ok ex_unsorted
               /\ ~ route_eq ex_unsorted r.
Proof. exact unsorted_overlapping_witness. Qed.

Example C04_duplicates_in_domain :
  minimiser_domain ex_duplicates
  /\ oc_minimise ex_duplicates None = Ok [mkEntry 1 0 15 16777216; mkEntry 4 0 14 16777216].
Proof. exact duplicates_in_domain. Qed.

(* U -- RoutingTableEntry.__new__: route and sources are sets (order and repeats of the members given do
   not matter) and an entry built without `sources` has exactly {None}, hence a source direction *)
Theorem C04_entry_new_set_semantics :
  forall l l',
  (forall r, In r l -> 0 <= r) -> (forall r, In r l' -> 0 <= r) ->
  (forall r, In r l <-> In r l') -> bits_of l = bits_of l'.
Proof. exact bits_of_set_semantics. Qed.

Theorem C04_entry_new_default_sources :
  forall route key mask,
  e_sources (entry_new route key mask None) = Z.shiftl 1 none_bit
  /\ e_sources (entry_new route key mask None) <> 0
  /\ e_key (entry_new route key mask None) = key /\ e_mask (entry_new route key mask None) = mask.
Proof. exact entry_new_default_sources_spec. Qed.

(* The model's own bounds are not restrictions: the loop bounds of ordered covering are never reached
   (no OutOfFuel above), and the bound of the binary search of _get_insertion_index can be enlarged at
   will without changing the result. *)
Theorem C04_insertion_index_bound_irrelevant :
  forall gens G extra,
  gens <> [] ->
  bsearch (length gens) gens G 0 (length gens / 2) (length gens)
  = bsearch (length gens + extra) gens G 0 (length gens / 2) (length gens).
Proof. exact insertion_index_fuel. Qed.

(* the domain is inhabited by a table on which ordered covering really merges (0000 and 0001 with one
   route become 000X; 0010 with another route stays) *)
Example C04_domain_satisfiable :
  minimiser_domain ex_table
  /\ oc_minimise ex_table None = Ok [mkEntry 8 2 15 16777216; mkEntry 4 0 14 16777216].
Proof. exact ex_table_domain. Qed.

(* a generality-sorted, genuinely overlapping table of the domain on which refinement prunes the merge
   (the up-check removes 1000, which would be hidden behind X000 of another route) *)
Example C04_overlapping_refinement_example :
  minimiser_domain ex_overlap
  /\ (exists a b k, In a ex_overlap /\ In b ex_overlap /\ a <> b /\ matches a k = true /\ matches b k = true)
  /\ all_merges ex_overlap = [[0; 1; 2]%nat]
  /\ (exists m, best_merge ex_overlap [] = Ok m /\ m_entries m = [0; 1]%nat)
  /\ oc_minimise ex_overlap None
     = Ok [mkEntry 4 8 4294967295 16777216; mkEntry 2 0 4294967287 16777216; mkEntry 4 0 4294967288 16777216].
Proof. exact overlap_refined_example. Qed.

(* the empty table; a failure with the default methods reporting the best size reached; a met target *)
Example C04_front_end_examples :
  minimiser_domain [] /\ minimise_table [] None = Ok [] /\ minimise_tables [((0, 0), [])] TNone = TablesOk []
  /\ minimise_table ex_table (Some 0) = Failed 2
  /\ minimise_table ex_table (Some 2) = Ok [mkEntry 8 2 15 16777216; mkEntry 4 0 14 16777216].
Proof. exact front_end_examples. Qed.

(* the validator accepts a genuine merge and rejects a wrong one (it is not constantly false/true) *)
Example C04_validator_discriminates :
  check_route_eq [mkEntry 1 0 15 16777216; mkEntry 1 1 15 16777216] [mkEntry 1 0 14 16777216] = true
  /\ check_route_eq [mkEntry 1 0 15 16777216; mkEntry 2 1 15 16777216] [mkEntry 1 0 14 16777216] = false.
Proof. split; vm_compute; reflexivity. Qed.
