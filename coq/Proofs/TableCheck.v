(* Soundness of the validator of Spec/Table.v:  check_route_eq O T = true -> route_eq O T.
   Bit-level reasoning about (key, mask) cubes. *)
From Coq Require Import ZArith List Bool Lia.
Require Import Rig.Generated.GenTable Rig.Model.Base Rig.Model.Table Rig.Spec.Table.
Import ListNotations.
Open Scope Z_scope.

Local Arguments bits32 : simpl never.

(* ------------------------------------------------------------------------------------------------ *)
(** * Cubes at the level of bits *)

(* k lies in the cube c: it agrees with the key on every bit the mask selects *)
Definition inb2 (ck cm k : Z) : Prop :=
  forall j, 0 <= j -> Z.testbit cm j = true -> Z.testbit k j = Z.testbit ck j.
Definition inb (c : km) (k : Z) : Prop := inb2 (fst c) (snd c) k.
(* no key bit outside the mask *)
Definition wfb2 (ck cm : Z) : Prop :=
  forall j, 0 <= j -> Z.testbit ck j = true -> Z.testbit cm j = true.
Definition wfb (c : km) : Prop := wfb2 (fst c) (snd c).
(* every mask bit is one of the 32 key bits *)
Definition mask32b (m : Z) : Prop := forall j, 0 <= j -> Z.testbit m j = true -> j < 32.

Lemma wf_km_wfb : forall c, wf_km c = true <-> wfb c.
Proof.
  intros [ck cm]; unfold wf_km, wfb, wfb2; simpl; split.
  - intros H j Hj Hk. apply Z.eqb_eq in H.
    assert (Hb : Z.testbit (Z.land ck (Z.lnot cm)) j = false) by (rewrite H; apply Z.bits_0).
    rewrite Z.land_spec, Z.lnot_spec, Hk in Hb by exact Hj. simpl in Hb.
    destruct (Z.testbit cm j); [reflexivity | discriminate].
  - intros H. apply Z.eqb_eq. apply Z.bits_inj'. intros j Hj.
    rewrite Z.land_spec, Z.lnot_spec, Z.bits_0 by exact Hj.
    destruct (Z.testbit ck j) eqn:Hk; [| reflexivity].
    rewrite (H j Hj Hk). reflexivity.
Qed.

Lemma matches_wf : forall c k, km_matches c k = true -> wf_km c = true.
Proof.
  intros [ck cm] k H. unfold km_matches, wf_km in *; simpl in *.
  apply Z.eqb_eq in H. apply Z.eqb_eq. subst ck.
  apply Z.bits_inj'. intros j Hj.
  rewrite !Z.land_spec, Z.lnot_spec, Z.bits_0 by exact Hj.
  destruct (Z.testbit k j), (Z.testbit cm j); reflexivity.
Qed.

Lemma matches_inb : forall c k, wfb c -> (km_matches c k = true <-> inb c k).
Proof.
  intros [ck cm] k Hwf. unfold km_matches, inb, inb2, wfb, wfb2 in *; simpl in *. split.
  - intros H j Hj Hm. apply Z.eqb_eq in H. rewrite <- H.
    rewrite Z.land_spec, Hm. symmetry; apply andb_true_r.
  - intros H. apply Z.eqb_eq. apply Z.bits_inj'. intros j Hj.
    rewrite Z.land_spec.
    destruct (Z.testbit cm j) eqn:Hm.
    + rewrite andb_true_r. apply H; assumption.
    + rewrite andb_false_r. destruct (Z.testbit ck j) eqn:Hk; [| reflexivity].
      rewrite (Hwf j Hj Hk) in Hm. discriminate.
Qed.

(* two cubes that do not intersect share no key (needs nothing about the cubes) *)
Lemma intersect_false_disjoint : forall ck cm dk dm k,
  intersect ck cm dk dm = false ->
  km_matches (ck, cm) k = true -> km_matches (dk, dm) k = false.
Proof.
  intros ck cm dk dm k Hi Hc. unfold intersect, km_matches in *; simpl in *.
  apply Z.eqb_eq in Hc. apply Z.eqb_neq in Hi.
  destruct (Z.land k dm =? dk) eqn:Hd; [| reflexivity].
  apply Z.eqb_eq in Hd. exfalso. apply Hi. subst ck dk.
  rewrite <- !Z.land_assoc. f_equal. apply Z.land_comm.
Qed.

(* cubes that intersect agree on the bits both select *)
Definition agree2 (ck cm dk dm : Z) : Prop :=
  forall j, 0 <= j -> Z.testbit cm j = true -> Z.testbit dm j = true ->
            Z.testbit ck j = Z.testbit dk j.

Lemma intersect_agree : forall ck cm dk dm,
  intersect ck cm dk dm = true -> agree2 ck cm dk dm.
Proof.
  intros ck cm dk dm H j Hj Hc Hd. unfold intersect in H; simpl in *. apply Z.eqb_eq in H.
  assert (Hb : Z.testbit (Z.land ck dm) j = Z.testbit (Z.land dk cm) j) by (rewrite H; reflexivity).
  rewrite !Z.land_spec, Hc, Hd, !andb_true_r in Hb. exact Hb.
Qed.

Lemma testbit_lor_bit : forall x b j, 0 <= b -> 0 <= j ->
  Z.testbit (Z.lor x (Z.shiftl 1 b)) j = Z.testbit x j || (b =? j).
Proof.
  intros x b j Hb Hj. rewrite Z.lor_spec, Z.shiftl_1_l, Z.pow2_bits_eqb by exact Hb. reflexivity.
Qed.

Lemma sane_mask32b : forall m, 0 <= m <= 4294967295 -> mask32b m.
Proof.
  intros m Hm j Hj Ht.
  destruct (Z_lt_ge_dec j 32) as [Hlt | Hge]; [exact Hlt | exfalso].
  destruct (Z.eq_dec m 0) as [-> | Hnz]; [rewrite Z.bits_0 in Ht; discriminate |].
  rewrite Z.bits_above_log2 in Ht; [discriminate | lia |].
  apply Z.lt_le_trans with 32; [| lia].
  apply Z.log2_lt_pow2; [lia |]. change (2 ^ 32) with 4294967296. lia.
Qed.

(* ------------------------------------------------------------------------------------------------ *)
(** * cube_sub_bits covers c \ d *)

Lemma cube_sub_bits_wf : forall bits ck cm dk dm,
  (forall b, In b bits -> 0 <= b) -> wfb2 ck cm ->
  Forall wfb (cube_sub_bits bits ck cm dk dm).
Proof.
  induction bits as [| b bs IH]; intros ck cm dk dm Hbits Hwf; simpl; [constructor |].
  assert (Hb : 0 <= b) by (apply Hbits; left; reflexivity).
  assert (Hbs : forall b', In b' bs -> 0 <= b') by (intros; apply Hbits; right; assumption).
  assert (Hwf1 : wfb2 ck (Z.lor cm (Z.shiftl 1 b))).
  { intros j Hj Hk; simpl in *. rewrite testbit_lor_bit by assumption.
    rewrite (Hwf j Hj Hk). reflexivity. }
  assert (Hwf2 : wfb2 (Z.lor ck (Z.shiftl 1 b)) (Z.lor cm (Z.shiftl 1 b))).
  { intros j Hj Hk; simpl in *. rewrite testbit_lor_bit in * by assumption.
    apply orb_true_iff in Hk. destruct Hk as [Hk | Hk].
    - rewrite (Hwf j Hj Hk). reflexivity.
    - rewrite Hk. apply orb_true_r. }
  destruct (Z.testbit dm b && negb (Z.testbit cm b)) eqn:Hc.
  - destruct (Z.testbit dk b) eqn:Hdk.
    + constructor; [exact Hwf1 | apply IH; assumption].
    + constructor; [exact Hwf2 | apply IH; assumption].
  - apply IH; assumption.
Qed.

Lemma cube_sub_bits_cover : forall bits ck cm dk dm k,
  (forall b, In b bits -> 0 <= b) ->
  wfb2 ck cm -> agree2 ck cm dk dm -> inb2 ck cm k ->
  (exists i, In i bits /\ Z.testbit dm i = true /\ Z.testbit k i <> Z.testbit dk i) ->
  exists c', In c' (cube_sub_bits bits ck cm dk dm) /\ inb c' k.
Proof.
  induction bits as [| b bs IH]; intros ck cm dk dm k Hbits Hwf Hag Hin [i [Hi [Hdm Hne]]].
  - destruct Hi.
  - simpl.
    assert (Hb : 0 <= b) by (apply Hbits; left; reflexivity).
    assert (Hbs : forall b', In b' bs -> 0 <= b') by (intros; apply Hbits; right; assumption).
    destruct (Z.testbit dm b && negb (Z.testbit cm b)) eqn:Hc.
    + apply andb_true_iff in Hc. destruct Hc as [Hdmb Hcmb]. apply negb_true_iff in Hcmb.
      assert (Hckb : Z.testbit ck b = false).
      { destruct (Z.testbit ck b) eqn:Hx; [| reflexivity].
        rewrite (Hwf b Hb Hx) in Hcmb. discriminate. }
      destruct (Bool.bool_dec (Z.testbit k b) (Z.testbit dk b)) as [Heq | Hneq].
      * (* k agrees with d on bit b: it lies in the continued cube *)
        assert (Hi' : In i bs).
        { destruct Hi as [<- | Hi]; [contradiction | exact Hi]. }
        destruct (Z.testbit dk b) eqn:Hdk.
        -- destruct (IH (Z.lor ck (Z.shiftl 1 b)) (Z.lor cm (Z.shiftl 1 b)) dk dm k Hbs) as [c' [Hc' Hk']].
           ++ intros j Hj Hk; simpl in *. rewrite testbit_lor_bit in * by assumption.
              apply orb_true_iff in Hk. destruct Hk as [Hk | Hk];
                [rewrite (Hwf j Hj Hk); reflexivity | rewrite Hk; apply orb_true_r].
           ++ intros j Hj Hc Hd; simpl in *. rewrite testbit_lor_bit in * by assumption.
              destruct (b =? j) eqn:Hbj.
              ** apply Z.eqb_eq in Hbj. subst j. rewrite Hdk. apply orb_true_r.
              ** rewrite orb_false_r in *. apply Hag; assumption.
           ++ intros j Hj Hm; simpl in *. rewrite testbit_lor_bit in * by assumption.
              destruct (b =? j) eqn:Hbj.
              ** apply Z.eqb_eq in Hbj. subst j. rewrite Heq. symmetry. apply orb_true_r.
              ** rewrite orb_false_r in *. apply Hin; assumption.
           ++ exists i. split; [exact Hi' | split; assumption].
           ++ exists c'. split; [right; exact Hc' | exact Hk'].
        -- destruct (IH ck (Z.lor cm (Z.shiftl 1 b)) dk dm k Hbs) as [c' [Hc' Hk']].
           ++ intros j Hj Hk; simpl in *. rewrite testbit_lor_bit by assumption.
              rewrite (Hwf j Hj Hk). reflexivity.
           ++ intros j Hj Hc Hd; simpl in *. rewrite testbit_lor_bit in * by assumption.
              destruct (b =? j) eqn:Hbj.
              ** apply Z.eqb_eq in Hbj. subst j. rewrite Hckb, Hdk. reflexivity.
              ** rewrite orb_false_r in *. apply Hag; assumption.
           ++ intros j Hj Hm; simpl in *. rewrite testbit_lor_bit in * by assumption.
              destruct (b =? j) eqn:Hbj.
              ** apply Z.eqb_eq in Hbj. subst j. rewrite Heq, Hckb. reflexivity.
              ** rewrite orb_false_r in *. apply Hin; assumption.
           ++ exists i. split; [exact Hi' | split; assumption].
           ++ exists c'. split; [right; exact Hc' | exact Hk'].
      * (* k differs from d on bit b: it lies in the piece emitted here *)
        destruct (Z.testbit dk b) eqn:Hdk.
        -- exists (ck, Z.lor cm (Z.shiftl 1 b)). split; [left; reflexivity |].
           intros j Hj Hm; simpl in *. rewrite testbit_lor_bit in * by assumption.
           destruct (b =? j) eqn:Hbj.
           ++ apply Z.eqb_eq in Hbj. subst j. rewrite Hckb.
              destruct (Z.testbit k b); [exfalso; apply Hneq; reflexivity | reflexivity].
           ++ rewrite orb_false_r in *. apply Hin; assumption.
        -- exists (Z.lor ck (Z.shiftl 1 b), Z.lor cm (Z.shiftl 1 b)). split; [left; reflexivity |].
           intros j Hj Hm; simpl in *. rewrite testbit_lor_bit in * by assumption.
           destruct (b =? j) eqn:Hbj.
           ++ apply Z.eqb_eq in Hbj. subst j. rewrite orb_true_r.
              destruct (Z.testbit k b); [reflexivity | exfalso; apply Hneq; reflexivity].
           ++ rewrite orb_false_r in *. apply Hin; assumption.
    + (* bit b is not split on: the witness is elsewhere *)
      assert (Hi' : In i bs).
      { destruct Hi as [<- | Hi]; [| exact Hi]. exfalso.
        rewrite Hdm in Hc. simpl in Hc. apply negb_false_iff in Hc.
        apply Hne. rewrite (Hin b Hb Hc). apply Hag; assumption. }
      destruct (IH ck cm dk dm k Hbs Hwf Hag Hin) as [c' [Hc' Hk']].
      * exists i. split; [exact Hi' | split; assumption].
      * exists c'. split; assumption.
Qed.

Lemma bits32_nonneg : forall b, In b bits32 -> 0 <= b.
Proof. intros b H. unfold bits32 in H. apply in_map_iff in H. destruct H as [n [<- _]]. lia. Qed.

Lemma bits32_in : forall j, 0 <= j < 32 -> In j bits32.
Proof.
  intros j Hj. unfold bits32. apply in_map_iff. exists (Z.to_nat j). split; [lia |].
  apply in_seq. lia.
Qed.

(* a key of c that d does not match lies in one of the cubes of cube_sub_bits *)
Lemma cube_sub_bits_cover32 : forall ck cm dk dm k,
  wfb2 ck cm -> wfb2 dk dm -> mask32b dm -> agree2 ck cm dk dm ->
  inb2 ck cm k -> km_matches (dk, dm) k = false ->
  exists c', In c' (cube_sub_bits bits32 ck cm dk dm) /\ inb c' k.
Proof.
  intros ck cm dk dm k Hwfc Hwfd H32 Hag Hin Hnm.
  apply cube_sub_bits_cover; try assumption; [exact bits32_nonneg |].
  (* a bit selected by dm on which k and dk differ *)
  unfold km_matches in Hnm; simpl in Hnm. apply Z.eqb_neq in Hnm.
  destruct (existsb (fun i => Z.testbit dm i && negb (Bool.eqb (Z.testbit k i) (Z.testbit dk i))) bits32) eqn:Hex.
  - apply existsb_exists in Hex. destruct Hex as [i [Hi Hc]].
    apply andb_true_iff in Hc. destruct Hc as [Hd Hne]. apply negb_true_iff in Hne.
    exists i. split; [exact Hi | split; [exact Hd |]].
    intro Heq. rewrite Heq, Bool.eqb_reflx in Hne. discriminate.
  - exfalso. apply Hnm. apply Z.bits_inj'. intros j Hj. rewrite Z.land_spec.
    destruct (Z.testbit dm j) eqn:Hd.
    + rewrite andb_true_r.
      assert (Hj32 : In j bits32) by (apply bits32_in; split; [exact Hj | apply H32; assumption]).
      destruct (Bool.bool_dec (Z.testbit k j) (Z.testbit dk j)) as [Heq | Hneq]; [exact Heq | exfalso].
      assert (Hex' : existsb (fun i => Z.testbit dm i && negb (Bool.eqb (Z.testbit k i) (Z.testbit dk i)))
                             bits32 = true).
      { apply existsb_exists. exists j. split; [exact Hj32 |]. rewrite Hd. simpl.
        destruct (Z.testbit k j), (Z.testbit dk j); simpl; try reflexivity; exfalso; apply Hneq; reflexivity. }
      rewrite Hex' in Hex. discriminate.
    + rewrite andb_false_r. destruct (Z.testbit dk j) eqn:Hk; [| reflexivity].
      rewrite (Hwfd j Hj Hk) in Hd. discriminate.
Qed.

(* ------------------------------------------------------------------------------------------------ *)
(** * Regions and the walk down T *)

Definition sane_entry (e : entry) : Prop :=
  0 <= e_key e <= 4294967295 /\ 0 <= e_mask e <= 4294967295.

Lemma sane_spec : forall e, sane e = true -> sane_entry e.
Proof.
  intros e H. unfold sane in H. repeat (apply andb_true_iff in H; destruct H as [H ?]).
  unfold sane_entry. lia.
Qed.

Lemma matches_false_of_not_wf : forall c k, wf_km c = false -> km_matches c k = false.
Proof.
  intros c k H. destruct (km_matches c k) eqn:Hm; [| reflexivity].
  apply matches_wf in Hm. congruence.
Qed.

(* a key of c not matched by d lies in one of the cubes of cube_sub c d *)
Lemma cube_sub_cover : forall c d k,
  wfb c -> wfb d -> mask32b (snd d) -> inb c k -> km_matches d k = false ->
  exists c', In c' (cube_sub c d) /\ wfb c' /\ inb c' k.
Proof.
  intros [ck cm] [dk dm] k Hwc Hwd H32 Hin Hnm. unfold cube_sub; cbn [fst snd].
  destruct (intersect ck cm dk dm) eqn:Hi.
  - destruct (cube_sub_bits_cover32 ck cm dk dm k Hwc Hwd H32 (intersect_agree _ _ _ _ Hi) Hin Hnm)
      as [c' [Hc' Hk']].
    exists c'. split; [exact Hc' | split; [| exact Hk']].
    pose proof (cube_sub_bits_wf bits32 ck cm dk dm bits32_nonneg Hwc) as Hall.
    rewrite Forall_forall in Hall. apply Hall. exact Hc'.
  - exists (ck, cm). split; [left; reflexivity | split; assumption].
Qed.

Lemma cube_sub_wf : forall c d, wfb c -> Forall wfb (cube_sub c d).
Proof.
  intros [ck cm] [dk dm] Hw. unfold cube_sub; cbn [fst snd].
  destruct (intersect ck cm dk dm).
  - apply cube_sub_bits_wf; [exact bits32_nonneg | exact Hw].
  - constructor; [exact Hw | constructor].
Qed.

Lemma region_cover : forall earlier cs k,
  Forall (fun d => sane d = true) earlier ->
  (forall d, In d earlier -> matches d k = false) ->
  (exists c, In c cs /\ wfb c /\ inb c k) ->
  exists c', In c' (region cs earlier) /\ wfb c' /\ inb c' k.
Proof.
  induction earlier as [| d ds IH]; intros cs k Hsane Hnm Hex; simpl; [exact Hex |].
  inversion Hsane as [| ? ? Hsd Hsds]; subst.
  assert (Hnm' : forall d', In d' ds -> matches d' k = false) by (intros; apply Hnm; right; assumption).
  destruct (wf_km (km_of d)) eqn:Hwf.
  - apply IH; [exact Hsds | exact Hnm' |].
    destruct Hex as [c [Hc [Hwc Hk]]].
    destruct (cube_sub_cover c (km_of d) k Hwc) as [c' [Hc' [Hwc' Hk']]].
    + apply wf_km_wfb. exact Hwf.
    + apply sane_mask32b. apply sane_spec in Hsd. destruct Hsd as [_ Hm]. exact Hm.
    + exact Hk.
    + apply Hnm. left. reflexivity.
    + exists c'. split; [| split; assumption].
      apply in_flat_map. exists c. split; assumption.
  - apply IH; assumption.
Qed.

Lemma default_routableb_spec : forall e, default_routableb e = true -> default_routable e.
Proof.
  intros e H. unfold default_routableb in H. apply existsb_exists in H.
  destruct H as [l [Hl Hc]]. apply andb_true_iff in Hc. destruct Hc as [Hs Hr].
  apply Z.eqb_eq in Hs. apply Z.eqb_eq in Hr.
  exists l. split; [| split; assumption].
  simpl in Hl. lia.
Qed.

Lemma routes_likeb_spec : forall e t, routes_likeb e t = true -> routes_like e t.
Proof.
  intros e t H. unfold routes_likeb, subsetb in H. apply andb_true_iff in H. destruct H as [Hr Hs].
  apply Z.eqb_eq in Hr. apply Z.eqb_eq in Hs. split; assumption.
Qed.

(* the outcome the property asks for key k, given O's entry e *)
Definition routed_like (e : entry) (T : table) (k : Z) : Prop :=
  match lookup T k with
  | Some e' => routes_like e e'
  | None => default_routable e
  end.

Lemma check_cube_cons : forall e t T' c,
  check_cube e (t :: T') c =
  if wf_km (km_of t) && intersect (fst c) (snd c) (e_key t) (e_mask t)
  then routes_likeb e t
       && forallb (check_cube e T') (cube_sub_bits bits32 (fst c) (snd c) (e_key t) (e_mask t))
  else check_cube e T' c.
Proof. reflexivity. Qed.

Lemma check_cube_sound : forall e T c k,
  Forall (fun t => sane t = true) T ->
  check_cube e T c = true -> wfb c -> inb c k -> routed_like e T k.
Proof.
  intros e T. induction T as [| t T' IH]; intros c k Hsane Hchk Hwc Hk; unfold routed_like, lookup in *.
  - simpl in *. apply default_routableb_spec. exact Hchk.
  - inversion Hsane as [| ? ? Hst HsT']; subst. rewrite check_cube_cons in Hchk.
    change (find (fun e0 => matches e0 k) (t :: T'))
      with (if matches t k then Some t else find (fun e0 => matches e0 k) T').
    destruct (wf_km (km_of t) && intersect (fst c) (snd c) (e_key t) (e_mask t)) eqn:Hcond.
    + apply andb_true_iff in Hcond. destruct Hcond as [Hwt Hi].
      apply andb_true_iff in Hchk. destruct Hchk as [Hrl Hall].
      destruct (matches t k) eqn:Hm.
      * apply routes_likeb_spec. exact Hrl.
      * destruct c as [ck cm]. cbn [fst snd] in *.
        destruct (cube_sub_bits_cover32 ck cm (e_key t) (e_mask t) k) as [c' [Hc' Hk']].
        -- exact Hwc.
        -- apply wf_km_wfb in Hwt. exact Hwt.
        -- apply sane_mask32b. apply sane_spec in Hst. destruct Hst as [_ H]. exact H.
        -- apply intersect_agree. exact Hi.
        -- exact Hk.
        -- exact Hm.
        -- rewrite forallb_forall in Hall.
           apply (IH c' k HsT' (Hall c' Hc')); [| exact Hk'].
           pose proof (cube_sub_bits_wf bits32 ck cm (e_key t) (e_mask t) bits32_nonneg Hwc) as Hf.
           rewrite Forall_forall in Hf. apply Hf. exact Hc'.
    + assert (Hm : matches t k = false).
      { apply andb_false_iff in Hcond. destruct Hcond as [Hwt | Hi].
        - apply matches_false_of_not_wf. exact Hwt.
        - destruct c as [ck cm]. unfold matches, km_of.
          apply (intersect_false_disjoint ck cm (e_key t) (e_mask t) k Hi).
          apply matches_inb; assumption. }
      rewrite Hm. apply (IH c k HsT' Hchk Hwc Hk).
Qed.

Lemma check_from_sound : forall O before T k e,
  Forall (fun t => sane t = true) before -> Forall (fun t => sane t = true) O ->
  Forall (fun t => sane t = true) T ->
  check_from before O T = true ->
  (forall d, In d before -> matches d k = false) ->
  lookup O k = Some e -> routed_like e T k.
Proof.
  induction O as [| e0 r IH]; intros before T k e Hsb HsO HsT Hchk Hnm Hl; unfold lookup in Hl; simpl in Hl.
  - discriminate.
  - inversion HsO as [| ? ? Hs0 Hsr]; subst.
    simpl in Hchk. apply andb_true_iff in Hchk. destruct Hchk as [Hhead Hrest].
    destruct (matches e0 k) eqn:Hm.
    + injection Hl as <-.
      assert (Hwf : wf_km (km_of e0) = true) by (apply (matches_wf _ k); exact Hm).
      rewrite Hwf in Hhead.
      destruct (region_cover before [km_of e0] k Hsb Hnm) as [c' [Hc' [Hwc' Hk']]].
      * exists (km_of e0). split; [left; reflexivity | split].
        -- apply wf_km_wfb. exact Hwf.
        -- apply matches_inb; [apply wf_km_wfb; exact Hwf | exact Hm].
      * rewrite forallb_forall in Hhead.
        apply (check_cube_sound e0 T c' k HsT (Hhead c' Hc') Hwc' Hk').
    + (* e0 does not match: it joins the entries above *)
      apply (IH (e0 :: before) T k e); try assumption.
      * constructor; assumption.
      * intros d [<- | Hd]; [exact Hm | apply Hnm; exact Hd].
Qed.

(* V: every `true` of the validator is a proof of route_eq for that pair of tables.  (The statement
   proved is for every integer key, which includes the 32-bit ones route_eq speaks of.) *)
Theorem check_route_eq_sound : forall O T, check_route_eq O T = true -> route_eq O T.
Proof.
  intros O T H k e _ Hl. unfold check_route_eq in H.
  apply andb_true_iff in H. destruct H as [H Hchk]. apply andb_true_iff in H. destruct H as [HsO HsT].
  rewrite forallb_forall in HsO, HsT.
  change (routed_like e T k).
  apply (check_from_sound O [] T k e); try assumption.
  - constructor.
  - apply Forall_forall. exact HsO.
  - apply Forall_forall. exact HsT.
  - intros d [].
Qed.
