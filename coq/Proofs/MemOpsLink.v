(* C07: reads and writes across a link -- whole-word chunks of at most (buffer & ~3) bytes on the
   neighbouring chip; guard buffer >= 4 (with less the loops never end: the model runs out of fuel). *)
From Coq Require Import ZArith List Bool Lia.
Require Import Rig.Generated.GenMemOps Rig.Generated.GenSCP Rig.Model.Base Rig.Model.Machine Rig.Model.MemOps
  Rig.Spec.MemOps Rig.Proofs.MemOpsArith Rig.Proofs.MemOps Rig.Proofs.MemOpsChunks Rig.Proofs.MemOpsExact.
Import ListNotations.
Open Scope Z_scope.
Ltac Zify.zify_post_hook ::= Z.to_euclidean_division_equations.

Lemma link_chunk_size : forall length buffer, 4 <= buffer -> 0 < length -> length mod 4 = 0 ->
  let s := Z.min length (Z.land buffer (Z.lnot 3)) in
  0 < s <= buffer /\ s <= length /\ s mod 4 = 0.
Proof.
  intros length buffer Hb Hl Hm. cbv zeta. rewrite land_lnot3. lia.
Qed.

Lemma decode_link_read : forall a n l d, decode_cmd SCPCommands_link_read a n l d = Some (CLinkRead a n l).
Proof. reflexivity. Qed.

Lemma decode_link_write : forall a n l d, decode_cmd SCPCommands_link_write a n l d = Some (CLinkWrite a n l d).
Proof. reflexivity. Qed.

(* ------------------------------------------------------------------ one link command *)
Lemma issue_lread : forall E M c core a n l,
  0 <= a < 2 ^ 32 -> 0 <= n <= e_buffer E -> n < 2 ^ 32 -> 0 <= l < 2 ^ 32 ->
  a mod 4 = 0 -> n mod 4 = 0 -> n + read_reply_data_offset <= e_rl E ->
  issue E M c core {| c_code := SCPCommands_link_read; c_arg1 := a; c_arg2 := n; c_arg3 := l; c_data := [] |} =
  Ok (M, {| rq_chip := c; rq_core := core; rq_cmd := CLinkRead a n l |}, mem_range (M (e_nbr E c l)) a n).
Proof.
  intros E M c core a n l Ha Hn Hn2 Hl Hma Hmn Hrl.
  unfold issue. cbn [c_code c_arg1 c_arg2 c_arg3 c_data].
  rewrite (u32_true a), (u32_true n), (u32_true l) by lia. cbn [andb].
  rewrite decode_link_read. unfold exec. cbn [rq_cmd rq_chip].
  destruct (n >? e_buffer E) eqn:Eb; [apply Z.gtb_lt in Eb; lia|].
  rewrite mem_read_aligned by (assumption || lia).
  rewrite recv_payload_all by (rewrite zlen_mem_range; lia). reflexivity.
Qed.

Lemma issue_lwrite : forall E M c core k,
  c_code k = SCPCommands_link_write ->
  0 <= c_arg1 k < 2 ^ 32 -> c_arg2 k = zlen (c_data k) -> c_arg2 k <= e_buffer E -> c_arg2 k < 2 ^ 32 ->
  0 <= c_arg3 k < 2 ^ 32 -> c_arg1 k mod 4 = 0 -> c_arg2 k mod 4 = 0 ->
  exists M', issue E M c core k =
    Ok (M', {| rq_chip := c; rq_core := core;
               rq_cmd := CLinkWrite (c_arg1 k) (c_arg2 k) (c_arg3 k) (c_data k) |}, []) /\
    stored_at M M' (e_nbr E c (c_arg3 k)) (c_arg1 k) (c_data k).
Proof.
  intros E M c core k Hcode Ha Hn Hb Htop Hl Hma Hmn.
  pose proof (zlen_nonneg _ (c_data k)) as Hnn.
  unfold issue. rewrite (u32_true (c_arg1 k)), (u32_true (c_arg2 k)), (u32_true (c_arg3 k)) by lia.
  cbn [andb]. rewrite Hcode, decode_link_write. unfold exec. cbn [rq_cmd rq_chip].
  destruct (c_arg2 k >? e_buffer E) eqn:Eb; [apply Z.gtb_lt in Eb; lia|].
  rewrite Hn. rewrite Z.eqb_refl. cbn [negb].
  unfold recv_payload. rewrite firstn_nil.
  eexists. split; [reflexivity|].
  intros c' x. rewrite set_chip_at.
  destruct (chip_eqb c' (e_nbr E c (c_arg3 k))) eqn:Ec; cbn [andb]; [|reflexivity].
  apply chip_eqb_eq in Ec. subst c'.
  apply mem_write_aligned; lia.
Qed.

(* ------------------------------------------------------------------ write_across_link: the chunk list *)
Fixpoint lwrite_tiles (cs : list (Z * call)) (address buffer link : Z) (data : list Z) (from : Z) : Prop :=
  match cs with
  | [] => from = zlen data
  | (core, k) :: rest =>
      core = 0 /\ from mod 4 = 0 /\ 0 < c_arg2 k <= buffer /\ c_arg2 k mod 4 = 0 /\
      from + c_arg2 k <= zlen data /\
      c_code k = SCPCommands_link_write /\ c_arg1 k = address + from /\ c_arg3 k = link /\
      c_data k = firstn (Z.to_nat (c_arg2 k)) (skipn (Z.to_nat from) data) /\
      lwrite_tiles rest address buffer link data (from + c_arg2 k)
  end.

Lemma lwrite_chunks_aux_tiles : forall fuel address buffer cur link data,
  4 <= buffer -> zlen data mod 4 = 0 -> 0 <= cur <= zlen data -> cur mod 4 = 0 ->
  (Z.to_nat (zlen data - cur) < fuel)%nat ->
  exists cs, lwrite_chunks_aux fuel (address + cur) buffer cur (zlen data - cur) link data = Ok cs /\
             lwrite_tiles cs address buffer link data cur.
Proof.
  induction fuel as [|f IH]; intros address buffer cur link data Hb Hmd Hc Hmc Hf; [lia|].
  cbn [lwrite_chunks_aux]. unfold lwrite_cond.
  destruct (zlen data - cur >? 0) eqn:Ec.
  - apply Z.gtb_lt in Ec. unfold lwrite_to_write.
    pose proof (link_chunk_size (zlen data - cur) buffer Hb Ec ltac:(lia)) as Hs. cbv zeta in Hs.
    set (s := Z.min (zlen data - cur) (Z.land buffer (Z.lnot 3))) in *.
    unfold lwrite_slice. cbv beta iota.
    rewrite py_slice_eq by lia. replace (Z.min s (zlen data - cur)) with s by lia.
    unfold lwrite_call, lwrite_next_address, lwrite_next_cur, lwrite_next_length. cbv beta iota.
    replace (address + cur + s) with (address + (cur + s)) by lia.
    replace (zlen data - cur - s) with (zlen data - (cur + s)) by lia.
    destruct (IH address buffer (cur + s) link data Hb Hmd ltac:(lia) ltac:(lia) ltac:(lia)) as (rest & Hr & Ht).
    rewrite Hr. cbn [bind]. eexists. split; [reflexivity|].
    cbn [lwrite_tiles c_code c_arg1 c_arg2 c_arg3 c_data].
    repeat split; try lia. exact Ht.
  - rewrite Z.gtb_ltb in Ec. rewrite Z.ltb_ge in Ec. exists []. split; [reflexivity|]. cbn [lwrite_tiles]. lia.
Qed.

Lemma lwrite_chunks_tiles : forall address buffer link data,
  4 <= buffer -> address mod 4 = 0 -> zlen data mod 4 = 0 ->
  exists cs, lwrite_chunks address buffer link data = Ok cs /\ lwrite_tiles cs address buffer link data 0.
Proof.
  intros address buffer link data Hb Hma Hmd. unfold lwrite_chunks, lwrite_guard_address, lwrite_guard_length, lwrite_cur0.
  rewrite Hma, Hmd. cbn [Z.eqb negb].
  pose proof (zlen_nonneg _ data) as Hn.
  destruct (lwrite_chunks_aux_tiles (S (length data)) address buffer 0 link data Hb Hmd ltac:(lia) ltac:(lia)
              ltac:(unfold zlen; lia)) as (cs & H & Ht).
  exists cs. split; [|assumption].
  replace (address + 0) with address in H by lia. replace (zlen data - 0) with (zlen data) in H by lia. exact H.
Qed.

Lemma lwrite_tiles_each : forall cs address buffer link data from core k,
  lwrite_tiles cs address buffer link data from -> 0 <= from -> In (core, k) cs ->
  exists pos, from <= pos /\ core = 0 /\ pos mod 4 = 0 /\ 0 < c_arg2 k <= buffer /\ c_arg2 k mod 4 = 0 /\
    pos + c_arg2 k <= zlen data /\ c_code k = SCPCommands_link_write /\ c_arg1 k = address + pos /\
    c_arg3 k = link /\ c_data k = firstn (Z.to_nat (c_arg2 k)) (skipn (Z.to_nat pos) data).
Proof.
  induction cs as [|[core0 k0] rest IH]; intros address buffer link data from core k Ht Hfrom Hin; [contradiction|].
  cbn [lwrite_tiles] in Ht. destruct Ht as (Hcore & Hmf & Hsz & Hm & Hend & Hc & Ha1 & Ha3 & Hd & Hrest).
  destruct Hin as [Heq | Hin].
  - inversion Heq; subst. exists from. repeat split; try assumption; lia.
  - destruct (IH _ _ _ _ _ _ _ Hrest ltac:(lia) Hin) as (pos & H1 & H2). exists pos. split; [lia | assumption].
Qed.

Lemma lwrite_tiles_cover : forall cs address buffer link data from i,
  lwrite_tiles cs address buffer link data from -> from <= i < zlen data ->
  exists core k, In (core, k) cs /\ c_arg1 k <= address + i < c_arg1 k + c_arg2 k.
Proof.
  induction cs as [|[core0 k0] rest IH]; intros address buffer link data from i Ht Hi; cbn [lwrite_tiles] in Ht.
  - lia.
  - destruct Ht as (_ & _ & Hsz & _ & Hend & _ & Ha1 & _ & _ & Hrest).
    destruct (Z_lt_dec i (from + c_arg2 k0)) as [Hlt | Hge].
    + exists core0, k0. split; [left; reflexivity | lia].
    + destruct (IH _ _ _ _ _ i Hrest ltac:(lia)) as (core & k & Hin & Hk).
      exists core, k. split; [right; assumption | assumption].
Qed.

Lemma lwrite_tiles_wgood : forall cs buffer nbr c address link data core k,
  0 <= address -> address mod 4 = 0 -> address + zlen data <= 2 ^ 32 -> 4 <= buffer < 2 ^ 32 ->
  0 <= link < 2 ^ 32 ->
  lwrite_tiles cs address buffer link data 0 -> In (core, k) cs ->
  wgood (mk_env buffer nbr) c (nbr c link) (fun x => nth (Z.to_nat (x - address)) data 0) (core, k).
Proof.
  intros cs buffer nbr c address link data core k Ha Hma Htop Hb Hl Ht Hin.
  destruct (lwrite_tiles_each _ _ _ _ _ _ _ _ Ht ltac:(lia) Hin)
    as (pos & Hpos & Hcore & Hmp & Hsz & Hm & Hend & Hc & Ha1 & Ha3 & Hd).
  assert (Hlen : zlen (c_data k) = c_arg2 k).
  { rewrite Hd. apply firstn_skipn_length; lia. }
  unfold wgood. cbn [fst snd]. split.
  - intros j Hj. rewrite Hd. rewrite firstn_skipn_nth by lia. f_equal. rewrite Ha1. lia.
  - intros M.
    assert (H1 : 0 <= c_arg1 k < 2 ^ 32) by lia.
    assert (H2 : c_arg2 k = zlen (c_data k)) by lia.
    assert (H3 : c_arg2 k <= e_buffer (mk_env buffer nbr)) by (cbn [mk_env e_buffer]; lia).
    assert (H4 : c_arg2 k < 2 ^ 32) by lia.
    assert (H5 : 0 <= c_arg3 k < 2 ^ 32) by lia.
    assert (H6 : c_arg1 k mod 4 = 0) by lia.
    destruct (issue_lwrite (mk_env buffer nbr) M c core k Hc H1 H2 H3 H4 H5 H6 Hm) as (M' & Hi & Hst).
    exists M'. eexists. split; [exact Hi|]. cbn [rq_cmd rq_chip]. split; [|split; [reflexivity|]].
    + unfold req_ok. cbn [rq_cmd mk_env e_buffer]. split.
      * unfold cmd_within, cmd_len. rewrite Hlen. lia.
      * cbn [cmd_aligned]. split; assumption.
    + cbn [mk_env e_nbr] in Hst. rewrite Ha3 in Hst. exact Hst.
Qed.

Lemma coveredb_lwrite_tiles : forall cs buffer address link data order x,
  lwrite_tiles cs address buffer link data 0 -> covers cs order ->
  (coveredb order x = true <-> address <= x < address + zlen data).
Proof.
  intros cs buffer address link data order x Ht [Hsub Hsup]. unfold coveredb. rewrite existsb_exists. split.
  - intros ([core k] & Hin & Hr).
    cbn [snd] in Hr. unfold inr in Hr. apply andb_true_iff in Hr. destruct Hr as [E1 E2].
    apply Z.leb_le in E1. apply Z.ltb_lt in E2.
    destruct (lwrite_tiles_each _ _ _ _ _ _ _ _ Ht ltac:(lia) (Hsub _ Hin))
      as (pos & Hpos & _ & _ & Hsz & _ & Hend & _ & Ha1 & _ & Hd).
    assert (Hlen : zlen (c_data k) = c_arg2 k) by (rewrite Hd; apply firstn_skipn_length; lia).
    lia.
  - intros Hx. destruct (lwrite_tiles_cover _ _ _ _ _ _ (x - address) Ht ltac:(lia)) as (core & k & Hin & Hk).
    exists (core, k). split; [apply Hsup; assumption|].
    destruct (lwrite_tiles_each _ _ _ _ _ _ _ _ Ht ltac:(lia) Hin)
      as (pos & Hpos & _ & _ & Hsz & _ & Hend & _ & Ha1 & _ & Hd).
    assert (Hlen : zlen (c_data k) = c_arg2 k) by (rewrite Hd; apply firstn_skipn_length; lia).
    cbn [snd]. unfold inr. apply andb_true_iff. split; [apply Z.leb_le | apply Z.ltb_lt]; lia.
Qed.

Lemma mc_write_link_order_exact : forall buffer nbr M c address link data
    (order : list (Z * call) -> list (Z * call)),
  4 <= buffer < 2 ^ 32 -> 0 <= address -> address mod 4 = 0 -> zlen data mod 4 = 0 ->
  address + zlen data <= 2 ^ 32 -> 0 <= link < 2 ^ 32 ->
  (forall cs, covers cs (order cs)) ->
  exists tr M', mc_write_link_order (mk_env buffer nbr) M c address link data order = Ok (tr, M') /\
                stored_exactly M M' (nbr c link) address data /\ trace_ok buffer tr /\
                Forall (fun r => rq_chip r = c) tr.
Proof.
  intros buffer nbr M c address link data order Hb Ha Hma Hmd Htop Hl Hord.
  unfold mc_write_link_order. cbn [mk_env e_buffer].
  destruct (lwrite_chunks_tiles address buffer link data ltac:(lia) Hma Hmd) as (cs & Hcs & Ht).
  rewrite Hcs. cbn [bind].
  destruct (corecall_run_writes (mk_env buffer nbr) c (nbr c link)
              (fun x => nth (Z.to_nat (x - address)) data 0) (order cs) M) as (tr & M' & Hrun & Htr & HM').
  - intros [core k] Hck. apply (lwrite_tiles_wgood cs); try assumption. apply (proj1 (Hord cs)). assumption.
  - exists tr, M'. split; [assumption|]. split; [|split].
    + apply (stored_exactly_of_pointwise M M' (nbr c link) address data (coveredb (order cs))).
      * intros x. apply (coveredb_lwrite_tiles cs buffer address link); [assumption | apply Hord].
      * exact HM'.
    + unfold trace_ok. eapply Forall_impl; [|exact Htr]. intros r ((H1 & H2) & _). split; assumption.
    + eapply Forall_impl; [|exact Htr]. intros r (_ & H). exact H.
Qed.

Lemma mc_write_link_exact : forall buffer nbr M c address link data,
  4 <= buffer < 2 ^ 32 -> 0 <= address -> address mod 4 = 0 -> zlen data mod 4 = 0 ->
  address + zlen data <= 2 ^ 32 -> 0 <= link < 2 ^ 32 ->
  exists tr M', mc_write_link (mk_env buffer nbr) M c address link data = Ok (tr, M') /\
                stored_exactly M M' (nbr c link) address data /\ trace_ok buffer tr /\
                Forall (fun r => rq_chip r = c) tr.
Proof.
  intros. unfold mc_write_link. apply mc_write_link_order_exact; auto.
  intros cs. split; apply incl_refl.
Qed.

(* the documented errors *)
Lemma mc_write_link_misaligned_address : forall E M c address link data,
  address mod 4 <> 0 -> mc_write_link E M c address link data = Failed 0.
Proof.
  intros E M c address link data H. unfold mc_write_link, mc_write_link_order, lwrite_chunks, lwrite_guard_address.
  destruct (address mod 4 =? 0) eqn:E0; [apply Z.eqb_eq in E0; contradiction|]. reflexivity.
Qed.

Lemma mc_write_link_misaligned_length : forall E M c address link data,
  address mod 4 = 0 -> zlen data mod 4 <> 0 -> mc_write_link E M c address link data = Failed 1.
Proof.
  intros E M c address link data Ha H.
  unfold mc_write_link, mc_write_link_order, lwrite_chunks, lwrite_guard_address, lwrite_guard_length.
  rewrite Ha. cbn [Z.eqb negb].
  destruct (zlen data mod 4 =? 0) eqn:E0; [apply Z.eqb_eq in E0; contradiction|]. reflexivity.
Qed.

(* ------------------------------------------------------------------ read_across_link *)
Lemma mem_range_app : forall m a n1 n2, 0 <= n1 -> 0 <= n2 ->
  mem_range m a n1 ++ mem_range m (a + n1) n2 = mem_range m a (n1 + n2).
Proof.
  intros m a n1 n2 H1 H2. apply range_ext; [|lia|].
  - rewrite zlen_app, !zlen_mem_range by lia. reflexivity.
  - intros i Hi. destruct (Z_lt_dec i n1) as [Hlt | Hge].
    + rewrite app_nth1 by (rewrite mem_range_length; lia). apply mem_range_nth. lia.
    + rewrite app_nth2 by (rewrite mem_range_length; lia). rewrite mem_range_length.
      replace (Z.to_nat i - Z.to_nat n1)%nat with (Z.to_nat (i - n1)) by lia.
      rewrite mem_range_nth by lia. f_equal. lia.
Qed.

Lemma lread_aux_exact : forall fuel buffer nbr M c address length link acc,
  4 <= buffer < 2 ^ 32 -> 0 <= address -> address mod 4 = 0 -> 0 <= length -> length mod 4 = 0 ->
  address + length <= 2 ^ 32 -> 0 <= link < 2 ^ 32 -> (Z.to_nat length < fuel)%nat ->
  exists tr, lread_aux fuel (mk_env buffer nbr) M c address length link acc =
               Ok (tr, acc ++ mem_range (M (nbr c link)) address length) /\
             trace_ok buffer tr /\ Forall (fun r => is_read_cmd (rq_cmd r)) tr /\
             Forall (fun r => rq_chip r = c) tr.
Proof.
  induction fuel as [|f IH]; intros buffer nbr M c address length link acc Hb Ha Hma Hl Hml Htop Hlk Hf; [lia|].
  cbn [lread_aux]. unfold lread_cond.
  destruct (length >? 0) eqn:Ec.
  - apply Z.gtb_lt in Ec. unfold lread_to_read. cbn [mk_env e_buffer].
    pose proof (link_chunk_size length buffer ltac:(lia) Ec Hml) as Hs. cbv zeta in Hs.
    set (s := Z.min length (Z.land buffer (Z.lnot 3))) in *.
    unfold lread_call. cbv beta iota.
    rewrite issue_lread; try lia.
    2:{ cbn [mk_env e_buffer]. lia. }
    2:{ cbn [mk_env e_rl]. apply receive_fits; lia. }
    cbn [bind mk_env e_nbr].
    rewrite zlen_mem_range by lia. replace (Z.max 0 (Z.min s length)) with s by lia. rewrite Z.eqb_refl.
    unfold lread_next_address, lread_next_length.
    destruct (IH buffer nbr M c (address + s) (length - s) link
                (acc ++ mem_range (M (nbr c link)) address s)) as (tr & Hr & Hok & Hrd & Hch); try lia.
    rewrite Hr. cbn [bind]. eexists. split; [|split; [|split]].
    + rewrite <- app_assoc. rewrite mem_range_app by lia. replace (s + (length - s)) with length by lia. reflexivity.
    + constructor; [|assumption]. cbn [rq_cmd]. split.
      * unfold cmd_within, cmd_len. lia.
      * cbn [cmd_aligned]. split; lia.
    + constructor; [exact I | assumption].
    + constructor; [reflexivity | assumption].
  - rewrite Z.gtb_ltb in Ec. rewrite Z.ltb_ge in Ec. assert (length = 0) by lia. subst length.
    exists []. split; [reflexivity|]. split; [constructor|]. split; constructor.
Qed.

Lemma mc_read_link_exact : forall buffer nbr M c address length link,
  4 <= buffer < 2 ^ 32 -> 0 <= address -> address mod 4 = 0 -> 0 <= length -> length mod 4 = 0 ->
  address + length <= 2 ^ 32 -> 0 <= link < 2 ^ 32 ->
  exists tr, mc_read_link (mk_env buffer nbr) M c address length link =
               Ok (tr, mem_range (M (nbr c link)) address length) /\
             trace_ok buffer tr /\ Forall (fun r => is_read_cmd (rq_cmd r)) tr /\
             Forall (fun r => rq_chip r = c) tr.
Proof.
  intros buffer nbr M c address length link Hb Ha Hma Hl Hml Htop Hlk.
  unfold mc_read_link, lread_guard_address, lread_guard_length. rewrite Hma, Hml. cbn [Z.eqb negb].
  destruct (length <? 0) eqn:E; [apply Z.ltb_lt in E; lia|].
  destruct (lread_aux_exact (S (Z.to_nat length)) buffer nbr M c address length link [] Hb Ha Hma Hl Hml Htop Hlk
              ltac:(lia)) as (tr & Hr & Hrest).
  exists tr. split; [exact Hr | exact Hrest].
Qed.

Lemma mc_read_link_misaligned_address : forall E M c address length link,
  address mod 4 <> 0 -> mc_read_link E M c address length link = Failed 0.
Proof.
  intros E M c address length link H. unfold mc_read_link, lread_guard_address.
  destruct (address mod 4 =? 0) eqn:E0; [apply Z.eqb_eq in E0; contradiction|]. reflexivity.
Qed.

Lemma mc_read_link_misaligned_length : forall E M c address length link,
  address mod 4 = 0 -> length mod 4 <> 0 -> mc_read_link E M c address length link = Failed 1.
Proof.
  intros E M c address length link Ha H. unfold mc_read_link, lread_guard_address, lread_guard_length.
  rewrite Ha. cbn [Z.eqb negb].
  destruct (length mod 4 =? 0) eqn:E0; [apply Z.eqb_eq in E0; contradiction|]. reflexivity.
Qed.
