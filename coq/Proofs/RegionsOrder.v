(* C12: order and shape of the emitted pairs (distinct region words, strictly increasing after
   sorted(), 32-bit words, non-empty 18-bit core masks), and the single-chip word. *)
From Coq Require Import ZArith List Bool Lia Sorted.
Require Import Rig.Generated.GenRegions Rig.Model.Base Rig.Model.Regions Rig.Spec.Regions.
Require Import Rig.Proofs.RegionsBits Rig.Proofs.RegionsLists Rig.Proofs.Regions.
Import ListNotations.
Open Scope Z_scope.
Ltac Zify.zify_post_hook ::= Z.to_euclidean_division_equations.

Lemma NoDup_map_inj : forall A B (h : A -> B) (l : list A),
  NoDup l -> (forall a b, In a l -> In b l -> h a = h b -> a = b) -> NoDup (map h l).
Proof.
  intros A B h l Hnd. induction Hnd as [|a l Hna Hnd IH]; intros Hinj; simpl; constructor.
  - intro Hin. apply in_map_iff in Hin. destruct Hin as [b [Hb1 Hb2]].
    assert (b = a) by (apply Hinj; [right; exact Hb2 | left; reflexivity | exact Hb1]).
    subst b. contradiction.
  - apply IH. intros a' b' Ha' Hb'. apply Hinj; right; assumption.
Qed.

Lemma map_flat_map : forall A B C (g : B -> C) (f : A -> list B) l,
  map g (flat_map f l) = flat_map (fun a => map g (f a)) l.
Proof.
  intros A B C g f l. induction l as [|a l IH]; [reflexivity|]. simpl. rewrite map_app, IH. reflexivity.
Qed.

(* the words emitted by a subtree of height n based at (bx, by): some level at or below the node's,
   a block inside the node's block *)
Definition word_in (n : nat) (bx by_ w : Z) : Prop :=
  exists n', (n' <= n)%nat /\ word_level w = level_of n' /\
    bx <= word_x w /\ word_x w + 4 * side n' <= bx + 4 * side n /\
    by_ <= word_y w /\ word_y w + 4 * side n' <= by_ + 4 * side n /\
    0 <= w < 2 ^ 32.

Lemma local_pairs_shape : forall n bx by_ sel, (n <= 3)%nat -> base_ok n bx by_ ->
  length sel = 18%nat -> Forall (fun m => 0 <= m < 65536) sel ->
  (forall rc, In rc (local_pairs (region_code bx by_ (level_of n)) sel) ->
     (exists m, 0 <= m < 65536 /\ fst rc = mkword bx by_ (level_of n) m) /\ 0 < snd rc < 2 ^ 18) /\
  NoDup (map fst (local_pairs (region_code bx by_ (level_of n)) sel)).
Proof.
  intros n bx by_ sel Hn Hb Hl Hs.
  destruct (group_all 0 0 sel) as [[Hnd Hok] _]. rewrite Hl in Hok.
  rewrite Forall_forall in Hs.
  assert (Hkey : forall e, In e (py_sorted (group 0 sel [])) -> 0 <= fst e < 65536 /\ 0 < snd e < 2 ^ 18).
  { intros e He. apply (proj1 (py_sorted_In _ _)) in He. destruct (Hok e He) as [_ [H1 H2]]. split; [apply Hs; exact H1 | exact H2]. }
  split.
  - intros rc Hrc. unfold local_pairs in Hrc. apply in_map_iff in Hrc. destruct Hrc as [e [<- He]].
    destruct (Hkey e He) as [H1 H2]. simpl. split; [|exact H2].
    exists (fst e). split; [exact H1|]. apply local_word; assumption.
  - unfold local_pairs. rewrite map_map. simpl.
    rewrite <- (map_map fst (fun m => Z.lor (region_code bx by_ (level_of n)) m)).
    apply NoDup_map_inj; [apply py_sorted_NoDup_fst; exact Hnd|].
    intros a b Ha Hb' E. apply in_map_iff in Ha. destruct Ha as [ea [<- Hea]].
    apply in_map_iff in Hb'. destruct Hb' as [eb [<- Heb]].
    destruct (Hkey ea Hea) as [Ra _]. destruct (Hkey eb Heb) as [Rb _].
    rewrite !local_word in E by assumption. unfold mkword in E. lia.
Qed.

Lemma word_in_local : forall n bx by_ m, (n <= 3)%nat -> base_ok n bx by_ -> 0 <= m < 65536 ->
  word_in n bx by_ (mkword bx by_ (level_of n) m).
Proof.
  intros n bx by_ m Hn Hb Hm. unfold base_ok in Hb.
  assert (Hl : 0 <= level_of n <= 3) by (unfold level_of; lia).
  assert (H4 : by_ mod 4 = 0 /\ 0 <= bx < 256 /\ 0 <= by_ < 256).
  { destruct (side_cases n Hn) as [Hs | [Hs | [Hs | Hs]]]; rewrite Hs in Hb; lia. }
  destruct (decode_word bx by_ (level_of n) m) as [D1 [D2 [D3 [_ D5]]]]; try lia.
  exists n. rewrite D1, D2, D3. repeat split; try lia; apply D5.
Qed.

Lemma word_in_child : forall k bx by_ j w, (S k <= 3)%nat -> base_ok (S k) bx by_ -> 0 <= j < 16 ->
  word_in k (cbx k bx j) (cby k by_ j) w -> word_in (S k) bx by_ w.
Proof.
  intros k bx by_ j w Hk Hb Hj [n' [Hn' [Hlv [Hx1 [Hx2 [Hy1 [Hy2 Hw]]]]]]].
  exists n'. split; [lia|]. split; [exact Hlv|].
  unfold cbx, cby, base_ok in *. rewrite side_S in *.
  destruct (side_cases k ltac:(lia)) as [Hs | [Hs | [Hs | Hs]]]; rewrite Hs in *;
    repeat split; lia.
Qed.

Lemma word_in_level : forall n bx by_ w, word_in n bx by_ w -> word_level w >= level_of n.
Proof. intros n bx by_ w [n' [Hn' [Hlv _]]]. rewrite Hlv. unfold level_of. lia. Qed.

Lemma word_in_children_disjoint : forall k bx by_ j1 j2 w, (S k <= 3)%nat ->
  0 <= j1 < 16 -> 0 <= j2 < 16 ->
  word_in k (cbx k bx j1) (cby k by_ j1) w -> word_in k (cbx k bx j2) (cby k by_ j2) w -> j1 = j2.
Proof.
  intros k bx by_ j1 j2 w Hk Hj1 Hj2 [n1 [_ [_ [A1 [A2 [A3 [A4 _]]]]]]] [n2 [_ [_ [B1 [B2 [B3 [B4 _]]]]]]].
  unfold cbx, cby in *. rewrite side_S in *.
  pose proof (side_pos n1). pose proof (side_pos n2).
  destruct (side_cases k ltac:(lia)) as [Hs | [Hs | [Hs | Hs]]]; rewrite Hs in *; lia.
Qed.

Lemma regions_shape : forall n, (n <= 3)%nat -> forall t : tree n, wf n t ->
  (forall rc, In rc (regions n t) -> word_in n (t_bx t) (t_by t) (fst rc) /\ 0 < snd rc < 2 ^ 18) /\
  NoDup (map fst (regions n t)).
Proof.
  induction n as [|k IH]; intros Hn t Hwf.
  - destruct Hwf as [Hb [Hl Hs]]. rewrite regions_O.
    destruct (local_pairs_shape O _ _ _ Hn Hb Hl Hs) as [H1 H2]. split; [|exact H2].
    intros rc Hrc. destruct (H1 rc Hrc) as [[m [Hm ->]] Hc]. split; [|exact Hc].
    apply word_in_local; assumption.
  - pose proof Hwf as [[Hb [Hl Hs]] [Hlen Hch]]. rewrite regions_S.
    destruct (local_pairs_shape (S k) _ _ _ Hn Hb Hl Hs) as [H1 H2].
    set (f := fun i : Z => match child k t i with Some c => regions k c | None => [] end).
    assert (Hf : forall j rc, In j child_order -> In rc (f j) ->
                 word_in k (cbx k (t_bx t) j) (cby k (t_by t) j) (fst rc) /\ 0 < snd rc < 2 ^ 18).
    { intros j rc Hj Hrc. apply child_order_range in Hj. unfold f in Hrc.
      destruct (child k t j) as [c|] eqn:Hc; [|destruct Hrc].
      destruct (Hch j c Hj Hc) as [Hwc [Hcx Hcy]].
      destruct (IH ltac:(lia) c Hwc) as [I1 _]. rewrite <- Hcx, <- Hcy. apply I1. exact Hrc. }
    split.
    + intros rc Hrc. apply in_app_or in Hrc. destruct Hrc as [Hrc | Hrc].
      * destruct (H1 rc Hrc) as [[m [Hm ->]] Hc]. split; [|exact Hc]. apply word_in_local; assumption.
      * apply in_flat_map in Hrc. destruct Hrc as [j [Hj Hrc]].
        destruct (Hf j rc Hj Hrc) as [F1 F2]. split; [|exact F2].
        apply (word_in_child k _ _ j); try assumption. apply child_order_range. exact Hj.
    + rewrite map_app. apply NoDup_app_intro; [exact H2 | |].
      * rewrite map_flat_map. apply NoDup_flat_map_intro; [apply child_order_NoDup | |].
        -- intros j Hj. apply child_order_range in Hj. unfold f.
           destruct (child k t j) as [c|] eqn:Hc; [|constructor].
           destruct (Hch j c Hj Hc) as [Hwc _]. apply (IH ltac:(lia) c Hwc).
        -- intros j1 j2 w Hj1 Hj2 Hne Hw1 Hw2.
           apply in_map_iff in Hw1. destruct Hw1 as [rc1 [<- Hrc1]].
           apply in_map_iff in Hw2. destruct Hw2 as [rc2 [E2 Hrc2]].
           destruct (Hf j1 rc1 Hj1 Hrc1) as [W1 _]. destruct (Hf j2 rc2 Hj2 Hrc2) as [W2 _].
           rewrite E2 in W2. apply Hne.
           apply (word_in_children_disjoint k (t_bx t) (t_by t) j1 j2 (fst rc1)); try assumption;
             apply child_order_range; assumption.
      * intros w Hw1 Hw2.
        apply in_map_iff in Hw1. destruct Hw1 as [rc1 [<- Hrc1]].
        apply in_map_iff in Hw2. destruct Hw2 as [rc2 [E2 Hrc2]].
        destruct (H1 rc1 Hrc1) as [[m [Hm E1]] _].
        apply in_flat_map in Hrc2. destruct Hrc2 as [j [Hj Hrc2]].
        destruct (Hf j rc2 Hj Hrc2) as [W2 _]. rewrite E2 in W2.
        apply word_in_level in W2.
        pose proof (word_in_local (S k) _ _ m Hn Hb Hm) as [n' [_ _]].
        assert (Hlv : word_level (fst rc1) = level_of (S k)).
        { rewrite E1. unfold base_ok in Hb.
          assert (H4 : t_by t mod 4 = 0 /\ 0 <= t_bx t < 256 /\ 0 <= t_by t < 256).
          { destruct (side_cases (S k) Hn) as [Hs' | [Hs' | [Hs' | Hs']]]; rewrite Hs' in Hb; lia. }
          destruct (decode_word (t_bx t) (t_by t) (level_of (S k)) m) as [D1 _]; try lia; try exact D1.
          unfold level_of. lia. }
        unfold level_of in *. lia.
Qed.

(* ------------------------------------------------------------------------------------------ *)
(* compress: strictly increasing, well-formed                                                   *)
(* ------------------------------------------------------------------------------------------ *)
Theorem compress_sorted : forall cs out, compress cs = Ok out ->
  StronglySorted (fun a b => fst a < fst b) out /\ Forall pair_well_formed out.
Proof.
  intros cs out Hout.
  assert (Hall : Forall in_space cs) by (apply compress_ok_iff; exists out; exact Hout).
  destruct (add_all_spec cs _ root_new Hall) as [t' [Hadd [[Hwf [_ [Hbx Hby]]] _]]].
  assert (E : out = py_sorted (regions 3 t')).
  { unfold compress in Hout. rewrite Hadd in Hout. cbn [bind] in Hout. congruence. }
  clear Hout Hadd. subst out.
  destruct (regions_shape 3 (le_n 3) t' Hwf) as [Hsh Hnd]. split.
  - apply sorted_strict; [apply py_sorted_sorted | apply py_sorted_NoDup_fst; exact Hnd].
  - apply Forall_forall. intros rc Hrc. apply (proj1 (py_sorted_In _ _)) in Hrc.
    destruct (Hsh rc Hrc) as [[n' [_ [_ [_ [_ [_ [_ Hw]]]]]]] Hc]. split; assumption.
Qed.

Lemma StronglySorted_weaken : forall A (R R' : A -> A -> Prop) (P : A -> Prop) l,
  StronglySorted R l -> Forall P l -> (forall a b, P a -> P b -> R a b -> R' a b) -> StronglySorted R' l.
Proof.
  intros A R R' P l Hs. induction Hs as [|a l Hs IH Ha]; intros HP Himp; [constructor|].
  inversion HP as [|? ? Pa Pl]; subst. constructor; [apply IH; assumption|].
  rewrite Forall_forall in *. intros b Hb. apply Himp; auto.
Qed.

Theorem compress_pairs_increasing : forall cs out, compress cs = Ok out ->
  StronglySorted pair_lt out /\ StronglySorted (fun a b => ffcs_key a < ffcs_key b) out.
Proof.
  intros cs out Hout. destruct (compress_sorted cs out Hout) as [Hs Hw]. split.
  - apply (StronglySorted_weaken _ _ _ _ _ Hs Hw). intros a b _ _ H. left. exact H.
  - apply (StronglySorted_weaken _ _ _ _ _ Hs Hw). intros a b [_ Ha] [_ Hb] H.
    unfold ffcs_key. change (2 ^ 18) with 262144 in *. lia.
Qed.

(* ------------------------------------------------------------------------------------------ *)
(* get_region_for_chip                                                                          *)
(* ------------------------------------------------------------------------------------------ *)
(* the word of chip (x, y) at level l selects exactly the chips of the sub-block of (x, y) *)
Theorem region_for_chip_selects : forall x y l x' y', 0 <= x < 256 -> 0 <= y < 256 -> 0 <= l <= 3 ->
  selects (get_region_for_chip x y l) x' y' = true
  <-> x' / sub_side l = x / sub_side l /\ y' / sub_side l = y / sub_side l.
Proof.
  intros x y l x' y' Hx Hy Hl. rewrite region_for_chip_digits by assumption.
  unfold expected_word.
  assert (Hcases : l = 0 \/ l = 1 \/ l = 2 \/ l = 3) by lia.
  destruct Hcases as [-> | [-> | [-> | ->]]];
  [ change (sub_side 0) with 64 | change (sub_side 1) with 16 | change (sub_side 2) with 4 | change (sub_side 3) with 1 ];
  match goal with |- selects (?A * 2 ^ 16 + 2 ^ ?i) _ _ = true <-> _ =>
    set (ii := i);
    assert (Hi : 0 <= ii < 16) by (unfold ii; lia);
    assert (Hm : 0 <= 2 ^ ii < 65536)
      by (split; [apply Z.pow_nonneg; lia | change 65536 with (2 ^ 16); apply Z.pow_lt_mono_r; lia])
  end;
  match goal with |- selects ((?bx * 256 + ?by_ + ?lv) * 2 ^ 16 + ?m) _ _ = true <-> _ =>
    change ((bx * 256 + by_ + lv) * 2 ^ 16 + m) with (mkword bx by_ lv m);
    destruct (decode_word bx by_ lv m) as [D1 [D2 [D3 [D4 _]]]]; try lia
  end;
  unfold selects; rewrite D1, D2, D3, D4;
  [ change (sub_side 0) with 64 | change (sub_side 1) with 16 | change (sub_side 2) with 4 | change (sub_side 3) with 1 ];
  rewrite Z.pow2_bits_eqb by lia; unfold ii;
  rewrite !andb_true_iff, !Z.eqb_eq; lia.
Qed.

Theorem region_for_chip_level3_single : forall x y x' y', 0 <= x < 256 -> 0 <= y < 256 ->
  selects (get_region_for_chip x y get_region_for_chip_default_level) x' y' = true
  <-> x' = x /\ y' = y.
Proof.
  intros x y x' y' Hx Hy. unfold get_region_for_chip_default_level.
  rewrite region_for_chip_selects by lia. change (sub_side 3) with 1. rewrite !Z.div_1_r. reflexivity.
Qed.

(* ------------------------------------------------------------------------------------------ *)
(* instances (non-vacuity)                                                                      *)
(* ------------------------------------------------------------------------------------------ *)
Definition ex_targets : list core :=
  [(4, 0, 4); (0, 0, 1); (0, 1, 2); (0, 0, 2); (1, 0, 3); (0, 0, 4); (0, 1, 1); (0, 1, 4); (1, 0, 2);
   (4, 0, 1); (4, 0, 2); (0, 0, 2)].

Lemma ex_targets_ok :
  Forall in_space ex_targets /\
  compress ex_targets = Ok [(196610, 8); (196625, 18); (196627, 4); (67305473, 22)].
Proof.
  split.
  - unfold ex_targets. repeat (constructor; [unfold in_space; lia|]). constructor.
  - vm_compute. reflexivity.
Qed.

Lemma ex_outside_ok :
  Exists (fun c => ~ in_space c) [(0, 0, 1); (256, 0, 1)] /\ compress [(0, 0, 1); (256, 0, 1)] = Failed 0.
Proof.
  split.
  - apply Exists_cons_tl. apply Exists_cons_hd. unfold in_space. lia.
  - vm_compute. reflexivity.
Qed.
