(* C12, around the core: (1) one RegionCoreTree used as an OBJECT -- add_core calls interleaved with complete
   traversals; (2) the entry point MachineController.flood_fill_aplx, which sends one flood-fill core select
   (FFCS) packet per pair of compress_flood_fill_regions(targets), in that order; (3) the targets of the re-load
   fill of MachineController.load_application.  The packet arguments and the enum values are regenerated from
   the source (Generated/GenRegionsFill.v, tools/dump_c12f.py, which also refuses any other shape of
   flood_fill_aplx, _send_ffcs and of the re-load loop).  Definitions only. *)
From Coq Require Import ZArith List Bool.
Require Import Rig.Generated.GenRegions Rig.Generated.GenRegionsFill Rig.Model.Base Rig.Model.Regions.
Import ListNotations.
Open Scope Z_scope.

(* ---------------------------------------------------------------- one tree object *)
Inductive tree_op : Type :=
| OpAdd (x y p : Z)         (* t.add_core(x, y, p) *)
| OpRead.                   (* list(t.get_regions_and_coremasks()) *)

(* get_regions_and_coremasks only reads the tree: the state after a read is the state before it *)
Fixpoint run_ops (n : nat) (t : tree n) (ops : list tree_op) (acc : list (list (Z * Z)))
  : result (list (list (Z * Z))) :=
  match ops with
  | [] => Ok (rev acc)
  | OpAdd x y p :: r => bind (add_core n t x y p) (fun tb => run_ops n (fst tb) r acc)
  | OpRead :: r => run_ops n t r (regions n t :: acc)
  end.

(* RegionCoreTree(level = 3 - n) followed by the operations; the traversals, in order *)
Definition tree_session (n : nat) (ops : list tree_op) : result (list (list (Z * Z))) :=
  run_ops n (new_tree n 0 0) ops [].

(* ---------------------------------------------------------------- flood_fill_aplx *)
(* the (arg1, arg2) of the nearest-neighbour SCP commands sent by `for region, cores in fills:
   self._send_ffcs(region, cores, fr)`, where fills = compress_flood_fill_regions(targets) *)
Definition ffcs_packets (cs : list core) : result (list (Z * Z)) :=
  bind (compress cs) (fun out => Ok (map (fun rc => (ffcs_arg1 (snd rc), ffcs_arg2 (fst rc))) out)).

(* ---------------------------------------------------------------- load_application, re-load *)
(* targets as the dict {(x, y): cores}: chips in dict order, each with its cores *)
Definition targets := list (chip * list Z).

Definition flatten_targets (ts : targets) : list core :=
  flat_map (fun e => map (fun p => (fst (fst e), snd (fst e), p)) (snd e)) ts.

(* unloaded_targets: per chip the cores whose cpu_state is not AppState.wait; chips with none are dropped.
   (The code collects them in a set; as a request a set and the filtered list denote the same cores.) *)
Definition reload_targets (state : Z -> Z -> Z -> Z) (ts : targets) : targets :=
  filter (fun e => negb (Nat.eqb (length (snd e)) 0))
         (map (fun e => (fst e, filter (fun p => negb (state (fst (fst e)) (snd (fst e)) p =? app_state_wait)) (snd e))) ts).
