"""Registry of translation units: which parts of /repo are regenerated into coq/Generated/*.v.

Each unit becomes one file coq/Generated/<Name>.v.  Two kinds:
  * functions=[spec, ...]  -- translated from the source text by tools/py2v.py (never imported/run);
  * dumper="dump_xxx.py", args=[...] -- printed from the live module objects (tables, enums, struct
    formats, signatures) by a script run under the repo's interpreter with PYTHONPATH=/repo.
The registry is the union of the UNITS dictionaries of every tools/units_*.py file.
"""
import glob
import importlib.util
import os

UNITS = {}
for _p in sorted(glob.glob(os.path.join(os.path.dirname(os.path.abspath(__file__)), "units_*.py"))):
    _s = importlib.util.spec_from_file_location(os.path.basename(_p)[:-3], _p)
    _m = importlib.util.module_from_spec(_s)
    _s.loader.exec_module(_m)
    for _k, _v in _m.UNITS.items():
        if _k in UNITS:
            raise RuntimeError("translation unit %s defined twice" % _k)
        UNITS[_k] = _v
