(* Proofs about the front ends of Model/TableFront.v, the error clause of ordered_covering(no_raise=False),
   and witnesses that the guards of the domain are necessary. *)
From Coq Require Import ZArith List Bool Lia.
Require Import Rig.Generated.GenTable Rig.Generated.GenTableEnums Rig.Generated.GenTableFront.
Require Import Rig.Model.Base Rig.Model.Table Rig.Model.TableFront Rig.Spec.Table.
Require Import Rig.Proofs.TableCheck Rig.Proofs.Table Rig.Proofs.TableIns Rig.Proofs.TableOC3.
Import ListNotations.
Open Scope Z_scope.

(* ------------------------------------------------------------------------------------------------ *)
(** * The dumped shape is the one Model/Table.v assumes *)

Lemma front_default_methods : default_method_ids = [MRde; MOc].
Proof. reflexivity. Qed.

Lemma identity_gen_eq : forall t tg, identity_gen t tg = identity_method t tg.
Proof. intros t [tl |]; reflexivity. Qed.

Lemma minimise_table_with_default : forall t tg,
  minimise_table_with default_method_ids t tg = minimise_table t tg.
Proof.
  intros t tg. unfold minimise_table_with, minimise_table, methods. rewrite front_default_methods.
  cbn [map run_method]. destruct tg as [tl |].
  - cbn [try_methods]. rewrite identity_gen_eq. reflexivity.
  - cbn [all_results]. rewrite identity_gen_eq. reflexivity.
Qed.

Lemma minimise_tables_go_with_ext : forall f g ts tg acc,
  (forall t tl, f t tl = g t tl) ->
  minimise_tables_go_with f ts tg acc = minimise_tables_go_with g ts tg acc.
Proof.
  intros f g ts tg. induction ts as [| [c t] ts IH]; intros acc H; simpl; [reflexivity |].
  destruct (target_for tg c) as [tl |]; [| reflexivity]. rewrite H.
  destruct (g t tl) as [[| e r] | | |]; try reflexivity; apply IH; exact H.
Qed.

Lemma minimise_tables_go_with_std : forall ts tg acc,
  minimise_tables_go_with minimise_table ts tg acc = minimise_tables_go ts tg acc.
Proof.
  induction ts as [| [c t] ts IH]; intros tg acc; simpl; [reflexivity |].
  destruct (target_for tg c) as [tl |]; [| reflexivity].
  destruct (minimise_table t tl) as [[| e r] | | |]; try reflexivity; apply IH.
Qed.

Lemma minimise_tables_with_default : forall ts tg,
  minimise_tables_with default_method_ids ts tg = minimise_tables ts tg.
Proof.
  intros ts tg. unfold minimise_tables_with, minimise_tables.
  rewrite (minimise_tables_go_with_ext _ minimise_table); [apply minimise_tables_go_with_std |].
  apply minimise_table_with_default.
Qed.

Lemma front_default_is_model :
  default_method_ids = [MRde; MOc]
  /\ (forall t tg, minimise_table_with default_method_ids t tg = minimise_table t tg)
  /\ (forall ts tg, minimise_tables_with default_method_ids ts tg = minimise_tables ts tg).
Proof. exact (conj front_default_methods (conj minimise_table_with_default minimise_tables_with_default)). Qed.

(* ------------------------------------------------------------------------------------------------ *)
(** * minimise_table with any list of methods *)

Lemma run_method_ok : forall m t, minimiser_domain t -> method_ok (run_method m) t.
Proof.
  intros [|] t H; simpl; [apply remove_default_method_ok | apply oc_minimise_spec; exact H].
Qed.

Lemma run_methods_ok : forall ms t, minimiser_domain t -> Forall (fun f => method_ok f t) (map run_method ms).
Proof.
  intros ms t H. induction ms as [| m ms IH]; simpl; constructor; [apply run_method_ok; exact H | exact IH].
Qed.

(* U: whatever list of the two minimisers the caller passes (repeats, any order, the empty list):
   the result routes like the input, is not longer and meets the target; or the error reports the best
   size reached by _identity and the methods, which is above the target as soon as one method is given
   (with NO method, _identity's strict `<` can reject a table that fits exactly: see the witness). *)
Theorem minimise_table_with_spec : forall ms t target,
  minimiser_domain t ->
  match minimise_table_with ms t target with
  | Ok r => route_eq t r /\ len r <= len t /\ (forall tl, target = Some tl -> len r <= tl)
  | Failed n =>
      exists tl, target = Some tl /\ n = best_size (map run_method ms) t (len t)
                 /\ tl <= n /\ (ms <> [] -> tl < n)
  | OtherError | OutOfFuel => False
  end.
Proof.
  intros ms t target Hdom. pose proof (run_methods_ok ms t Hdom) as Hok.
  unfold minimise_table_with. destruct target as [tl |].
  - destruct ms as [| m ms'].
    + cbn [map try_methods identity_gen]. unfold identity_accepts.
      destruct (len t <? tl) eqn:Hc.
      * apply Z.ltb_lt in Hc. split; [apply route_eq_refl | split; [lia |]]. intros tl' H. injection H as <-. lia.
      * apply Z.ltb_ge in Hc. rewrite Z.ltb_irrefl. exists tl. cbn [best_size].
        split; [reflexivity | split; [reflexivity | split; [exact Hc | intros H; contradiction]]].
    + assert (Hne : map run_method (m :: ms') <> []) by discriminate.
      pose proof (identity_then_methods_target (map run_method (m :: ms')) t tl Hok Hne) as H.
      assert (Heq : try_methods (identity_gen :: map run_method (m :: ms')) t tl (len t)
                    = try_methods (identity_method :: map run_method (m :: ms')) t tl (len t)).
      { cbn [try_methods]. rewrite identity_gen_eq. reflexivity. }
      rewrite Heq.
      destruct (try_methods (identity_method :: map run_method (m :: ms')) t tl (len t)) as [r | n | |];
        try exact H.
      * destruct H as [H1 [H2 H3]]. split; [exact H1 | split; [exact H2 |]]. intros tl' E. injection E as <-. exact H3.
      * destruct H as [-> Hlt]. exists tl. split; [reflexivity | split; [reflexivity | split; [lia |]]].
        intros _. exact Hlt.
  - destruct (identity_then_methods_none (map run_method ms) t Hok) as [rs [Hrs [H1 H2]]].
    assert (Heq : all_results (identity_gen :: map run_method ms) t
                  = all_results (identity_method :: map run_method ms) t).
    { cbn [all_results]. rewrite identity_gen_eq. reflexivity. }
    rewrite Heq, Hrs. cbn [bind]. split; [exact H1 | split; [exact H2 |]]. intros tl E. discriminate.
Qed.

(* R: with methods=() and a target equal to the table's length the front end raises
   MinimisationFailedError(target, final_length = target) although the table fits *)
Lemma minimise_table_no_methods_witness :
  exists t tl, minimiser_domain t /\ len t <= tl /\ minimise_table_with [] t (Some tl) = Failed tl.
Proof.
  exists ex_table, 3. split; [apply ex_table_domain | split; vm_compute; [discriminate | reflexivity]].
Qed.

(* ------------------------------------------------------------------------------------------------ *)
(** * minimise_tables with any list of methods *)

Fixpoint mts_spec_with (f : table -> option Z -> result table) (ts : list (chip * table)) (tg : targets)
  : tables_outcome :=
  match ts with
  | [] => TablesOk []
  | (c, t) :: ts' =>
      match target_for tg c with
      | None => TablesOther
      | Some tl =>
          match f t tl with
          | Ok r =>
              match mts_spec_with f ts' tg with
              | TablesOk o => TablesOk (match r with [] => o | _ => (c, r) :: o end)
              | x => x
              end
          | Failed fl => TablesFailed c fl
          | OtherError => TablesOther
          | OutOfFuel => TablesOutOfFuel
          end
      end
  end.

Lemma minimise_tables_go_with_spec : forall f ts tg acc,
  minimise_tables_go_with f ts tg acc =
  match mts_spec_with f ts tg with TablesOk o => TablesOk (rev acc ++ o) | x => x end.
Proof.
  intros f. induction ts as [| [c t] ts' IH]; intros tg acc; simpl.
  - rewrite app_nil_r. reflexivity.
  - destruct (target_for tg c) as [tl |]; [| reflexivity].
    destruct (f t tl) as [r | n | |]; try reflexivity.
    destruct r as [| e r'].
    + rewrite IH. destruct (mts_spec_with f ts' tg); reflexivity.
    + rewrite IH. simpl. destruct (mts_spec_with f ts' tg); try reflexivity.
      rewrite <- app_assoc. reflexivity.
Qed.

(* U: every chip's table of the result is what minimise_table (same methods, that chip's target)
   returns for it, empty results being dropped; a failure is the first failing chip's error *)
Theorem minimise_tables_with_spec : forall ms ts tg,
  NoDup (map fst ts) ->
  match minimise_tables_with ms ts tg with
  | TablesOk out =>
      forall c t, In (c, t) ts ->
        exists tl, target_for tg c = Some tl /\ minimise_table_with ms t tl = Ok (table_of out c)
  | TablesFailed c n =>
      exists t tl, In (c, t) ts /\ target_for tg c = Some tl /\ minimise_table_with ms t tl = Failed n
  | TablesOther =>
      exists c t, In (c, t) ts /\
                  (target_for tg c = None \/ exists tl, target_for tg c = Some tl /\ minimise_table_with ms t tl = OtherError)
  | TablesOutOfFuel =>
      exists c t tl, In (c, t) ts /\ target_for tg c = Some tl /\ minimise_table_with ms t tl = OutOfFuel
  end.
Proof.
  intros ms ts tg Hnd. unfold minimise_tables_with. rewrite minimise_tables_go_with_spec. simpl.
  set (f := minimise_table_with ms).
  assert (Hkeys : forall ts o c r, mts_spec_with f ts tg = TablesOk o -> In (c, r) o -> In c (map fst ts)).
  { induction ts0 as [| [c0 t0] ts' IH]; intros o c r H Hin; simpl in H.
    - injection H as <-. destruct Hin.
    - destruct (target_for tg c0) as [tl |]; [| discriminate].
      destruct (f t0 tl) as [r0 | | |]; try discriminate.
      destruct (mts_spec_with f ts' tg) as [o' | | |] eqn:Ho'; try discriminate.
      injection H as <-. simpl. destruct r0 as [| e r0'].
      + right. apply (IH o' c r eq_refl Hin).
      + destruct Hin as [Heq | Hin]; [left; congruence | right; apply (IH o' c r eq_refl Hin)]. }
  induction ts as [| [c0 t0] ts' IH]; simpl.
  - intros c t [].
  - inversion Hnd as [| ? ? Hnotin Hnd']; subst. specialize (IH Hnd').
    destruct (target_for tg c0) as [tl |] eqn:Htg.
    2:{ exists c0, t0. split; [left; reflexivity | left; exact Htg]. }
    destruct (f t0 tl) as [r0 | n | |] eqn:Hm.
    + destruct (mts_spec_with f ts' tg) as [o' | c' n' | |] eqn:Ho'.
      * intros c t [Heq | Hin].
        -- injection Heq as <- <-. exists tl. split; [exact Htg |]. fold f. rewrite Hm. f_equal.
           unfold table_of. destruct r0 as [| e r0'].
           ++ destruct (cassoc c0 o') as [r |] eqn:Hca; [| reflexivity]. exfalso. apply Hnotin.
              apply (Hkeys ts' o' c0 r Ho'). apply cassoc_In. exact Hca.
           ++ simpl. assert (Hr : chip_eqb c0 c0 = true) by (apply chip_eqb_eq; reflexivity). rewrite Hr. reflexivity.
        -- destruct (IH c t Hin) as [tl' [Ht1 Ht2]]. exists tl'. split; [exact Ht1 |]. rewrite Ht2. f_equal.
           destruct r0 as [| e r0']; [reflexivity |]. unfold table_of. simpl.
           destruct (chip_eqb c c0) eqn:Hc; [| reflexivity].
           apply chip_eqb_eq in Hc. subst c. exfalso. apply Hnotin.
           apply in_map_iff. exists (c0, t). split; [reflexivity | exact Hin].
      * destruct IH as [t [tl' [H1 H2]]]. exists t, tl'. split; [right; exact H1 | exact H2].
      * destruct IH as [c [t [H1 H2]]]. exists c, t. split; [right; exact H1 | exact H2].
      * destruct IH as [c [t [tl' [H1 H2]]]]. exists c, t, tl'. split; [right; exact H1 | exact H2].
    + exists t0, tl. split; [left; reflexivity | split; [exact Htg | exact Hm]].
    + exists c0, t0. split; [left; reflexivity | right; exists tl; split; [exact Htg | exact Hm]].
    + exists c0, t0, tl. split; [left; reflexivity | split; [exact Htg | exact Hm]].
Qed.

(* ------------------------------------------------------------------------------------------------ *)
(** * remove_default_routes.minimise(check_for_aliases=False) *)

(* U: without the alias check the routing is preserved on orthogonal tables ... *)
Theorem remove_default_nocheck_spec : forall t target,
  table32 t -> orthogonal t ->
  exists full,
    remove_default_nocheck t None = Ok full /\ route_eq t full /\ len full <= len t /\
    remove_default_nocheck t target =
      match target with
      | None => Ok full
      | Some tl => if tl <? len full then Failed (len full) else Ok full
      end.
Proof.
  intros t target H32 Ho. unfold remove_default_nocheck, remove_default_gen.
  exists (rd_go false t). split; [reflexivity | split; [| split]].
  - apply rd_go_route_eq. intros _. apply orthogonal_pairwise_disjoint; assumption.
  - apply rd_go_length.
  - destruct target; reflexivity.
Qed.

(* R: ... and not on tables with aliased entries, as its documentation says: 0000 -> E from W is dropped
   although the later XXXX -> N catches its keys *)
Definition ex_aliased : table := [mkEntry 1 0 15 8; mkEntry 4 0 0 16777216].

Lemma remove_default_nocheck_aliased_witness :
  table32 ex_aliased /\ sorted_by_generality ex_aliased /\ nonempty_sources ex_aliased
  /\ exists r, remove_default_nocheck ex_aliased None = Ok r /\ ~ route_eq ex_aliased r.
Proof.
  split; [| split; [| split]].
  - intros e [<- | [<- | []]]; vm_compute; repeat split; discriminate.
  - apply sortedz_sorted_by_generality. vm_compute.
    repeat split; intros y Hy; repeat (destruct Hy as [<- | Hy]); try discriminate; destruct Hy.
  - intros e [<- | [<- | []]]; vm_compute; discriminate.
  - eexists. split; [vm_compute; reflexivity |]. intro H.
    specialize (H 0 (mkEntry 1 0 15 8) ltac:(unfold key32; lia) eq_refl).
    vm_compute in H. destruct H as [H _]. discriminate.
Qed.

(* ------------------------------------------------------------------------------------------------ *)
(** * ordered_covering(..., no_raise=False): the error clause *)

Theorem ordered_covering_raise_spec : forall t target,
  minimiser_domain t ->
  exists T A, ordered_covering t target [] true = Ok (T, A)
    /\ route_eq_matched t T /\ len T <= len t
    /\ ordered_covering t target [] false =
         match target with
         | None => Ok (T, A)
         | Some tl => if len T >? tl then Failed (len T) else Ok (T, A)
         end.
Proof.
  intros t target Hdom.
  destruct (ordered_covering_route_eq t target (minimiser_domain_oc_domain t Hdom)) as [T [A [H [Hre Hlen]]]].
  exists T, A. split; [exact H | split; [exact Hre | split; [exact Hlen |]]].
  unfold ordered_covering in *.
  destruct (oc_loop (S (length t)) (sort_by_gen t) [] target) as [ta | | |]; cbn [bind] in *; try discriminate.
  destruct target as [tl |]; cbn [negb andb] in *; injection H as ->; reflexivity.
Qed.

(* ------------------------------------------------------------------------------------------------ *)
(** * The order guard is necessary *)

(* R: a table that is neither in increasing order of generality nor orthogonal (XXXX -> N listed above
   0000 -> E; every other clause of the domain holds): ordered covering sorts it, and key 0 changes route *)
Definition ex_unsorted : table := [mkEntry 4 0 0 16777216; mkEntry 1 0 15 16777216].

Lemma unsorted_overlapping_witness :
  table32 ex_unsorted /\ nonempty_sources ex_unsorted
  /\ exists r, oc_minimise ex_unsorted None = Ok r /\ minimise_table ex_unsorted None = Ok ex_unsorted
               /\ ~ route_eq ex_unsorted r.
Proof.
  split; [| split].
  - intros e [<- | [<- | []]]; vm_compute; repeat split; discriminate.
  - intros e [<- | [<- | []]]; vm_compute; discriminate.
  - eexists. split; [vm_compute; reflexivity | split; [vm_compute; reflexivity |]]. intro H.
    specialize (H 0 (mkEntry 4 0 0 16777216) ltac:(unfold key32; lia) eq_refl).
    vm_compute in H. destruct H as [H _]. discriminate.
Qed.

(* exact repeats of a key and mask ARE in the domain when the table is listed by generality (the first
   one wins; ordered covering keeps it first): the domain is inhabited by such a table *)
Definition ex_duplicates : table := [mkEntry 1 0 15 16777216; mkEntry 4 0 15 16777216; mkEntry 4 1 15 16777216].

Lemma duplicates_in_domain :
  minimiser_domain ex_duplicates
  /\ oc_minimise ex_duplicates None = Ok [mkEntry 1 0 15 16777216; mkEntry 4 0 14 16777216].
Proof.
  split; [| vm_compute; reflexivity]. split; [| split].
  - intros e [<- | [<- | [<- | []]]]; vm_compute; repeat split; discriminate.
  - intros e [<- | [<- | [<- | []]]]; vm_compute; discriminate.
  - left. apply sortedz_sorted_by_generality. vm_compute.
    repeat split; intros y Hy; repeat (destruct Hy as [<- | Hy]); try discriminate; destruct Hy.
Qed.

(* ------------------------------------------------------------------------------------------------ *)
(** * RoutingTableEntry.__new__ *)

Lemma bits_of_testbit : forall l j, (forall r, In r l -> 0 <= r) -> 0 <= j ->
  Z.testbit (bits_of l) j = existsb (fun r => r =? j) l.
Proof.
  intros l j Hl Hj. unfold bits_of.
  assert (Hgen : forall l a, (forall r, In r l -> 0 <= r) ->
            Z.testbit (fold_left Z.lor (map (Z.shiftl 1) l) a) j = Z.testbit a j || existsb (fun r => r =? j) l).
  { induction l0 as [| x l0 IH]; intros a H; simpl; [symmetry; apply orb_false_r |].
    rewrite IH by (intros r Hr; apply H; right; exact Hr).
    rewrite Z.lor_spec, Z.shiftl_1_l, Z.pow2_bits_eqb by (apply H; left; reflexivity).
    rewrite orb_assoc. reflexivity. }
  rewrite Hgen by exact Hl. rewrite Z.bits_0. reflexivity.
Qed.

(* frozenset(route) / set(sources): order and repetitions of the members do not matter *)
Theorem bits_of_set_semantics : forall l l',
  (forall r, In r l -> 0 <= r) -> (forall r, In r l' -> 0 <= r) ->
  (forall r, In r l <-> In r l') -> bits_of l = bits_of l'.
Proof.
  intros l l' Hl Hl' Heq. apply Z.bits_inj'. intros j Hj.
  rewrite !bits_of_testbit by assumption.
  destruct (existsb (fun r => r =? j) l) eqn:H1; destruct (existsb (fun r => r =? j) l') eqn:H2; try reflexivity.
  - apply existsb_exists in H1. destruct H1 as [r [Hr Hrj]].
    assert (H : existsb (fun r => r =? j) l' = true) by (apply existsb_exists; exists r; split; [apply Heq; exact Hr | exact Hrj]).
    congruence.
  - apply existsb_exists in H2. destruct H2 as [r [Hr Hrj]].
    assert (H : existsb (fun r => r =? j) l = true) by (apply existsb_exists; exists r; split; [apply Heq; exact Hr | exact Hrj]).
    congruence.
Qed.

(* an entry built without `sources` has the sources {None}: it is in the domain's "at least one source" *)
Lemma entry_new_default_sources_spec : forall route key mask,
  e_sources (entry_new route key mask None) = Z.shiftl 1 none_bit
  /\ e_sources (entry_new route key mask None) <> 0
  /\ e_key (entry_new route key mask None) = key /\ e_mask (entry_new route key mask None) = mask.
Proof. intros route key mask. repeat split. vm_compute. discriminate. Qed.

(* ------------------------------------------------------------------------------------------------ *)
(** * Audit follow-up: necessity of nonempty_sources, further non-vacuity examples *)

(* R: the "at least one source direction" guard is necessary for the property AS WORDED: an entry with
   the empty source set merges with a straight-through entry of the same route; the merged entry is
   default-routable and is removed; the first entry's key is then matched by nothing although that entry
   did not go straight through from a single link (it has no source at all, so no packet is affected) *)
Definition ex_nosrc : table := [mkEntry 4 0 4294967295 0; mkEntry 4 1 4294967295 32].

Lemma empty_sources_witness :
  table32 ex_nosrc /\ sorted_by_generality ex_nosrc
  /\ oc_minimise ex_nosrc None = Ok [] /\ minimise_table ex_nosrc None = Ok [] /\ ~ route_eq ex_nosrc [].
Proof.
  split; [| split; [| split; [vm_compute; reflexivity | split; [vm_compute; reflexivity |]]]].
  - intros e [<- | [<- | []]]; vm_compute; repeat split; discriminate.
  - apply sortedz_sorted_by_generality. vm_compute.
    repeat split; intros y Hy; repeat (destruct Hy as [<- | Hy]); try discriminate; destruct Hy.
  - intro H. specialize (H 0 (mkEntry 4 0 4294967295 0) ltac:(unfold key32; lia) eq_refl).
    cbn [lookup find] in H. destruct H as [l [Hl [Hs _]]]. cbn [e_sources] in Hs.
    assert (Hb : Z.testbit 0 l = Z.testbit (Z.shiftl 1 l) l) by (rewrite <- Hs; reflexivity).
    rewrite Z.bits_0, Z.shiftl_1_l, Z.pow2_bits_eqb, Z.eqb_refl in Hb by lia. discriminate.
Qed.

(* a table of the domain, listed by generality and genuinely overlapping (1000 lies inside X000, which
   has another route), on which refinement prunes the candidate merge: _get_all_merges proposes entries
   {0, 1, 2}; merging all three would put 1000 below X000, so the up-check removes it and the merge applied
   is {0, 1} -> 0XXX, inserted below X000 *)
Definition ex_overlap : table :=
  [mkEntry 4 3 4294967295 16777216; mkEntry 4 4 4294967295 16777216; mkEntry 4 8 4294967295 16777216;
   mkEntry 2 0 4294967287 16777216].

Lemma overlap_refined_example :
  minimiser_domain ex_overlap
  /\ (exists a b k, In a ex_overlap /\ In b ex_overlap /\ a <> b /\ matches a k = true /\ matches b k = true)
  /\ all_merges ex_overlap = [[0; 1; 2]%nat]
  /\ (exists m, best_merge ex_overlap [] = Ok m /\ m_entries m = [0; 1]%nat)
  /\ oc_minimise ex_overlap None
     = Ok [mkEntry 4 8 4294967295 16777216; mkEntry 2 0 4294967287 16777216; mkEntry 4 0 4294967288 16777216].
Proof.
  split; [| split; [| split; [vm_compute; reflexivity | split; [| vm_compute; reflexivity]]]].
  - split; [| split].
    + intros e [<- | [<- | [<- | [<- | []]]]]; vm_compute; repeat split; discriminate.
    + intros e [<- | [<- | [<- | [<- | []]]]]; vm_compute; discriminate.
    + left. apply sortedz_sorted_by_generality. vm_compute.
      repeat split; intros y Hy; repeat (destruct Hy as [<- | Hy]); try discriminate; destruct Hy.
  - exists (mkEntry 4 8 4294967295 16777216), (mkEntry 2 0 4294967287 16777216), 8.
    split; [right; right; left; reflexivity | split; [right; right; right; left; reflexivity |]].
    split; [discriminate | split; vm_compute; reflexivity].
  - eexists. split; [vm_compute; reflexivity | reflexivity].
Qed.

(* the empty table, and a failure with the default methods that reports the best size reached *)
Lemma front_end_examples :
  minimiser_domain [] /\ minimise_table [] None = Ok [] /\ minimise_tables [((0, 0), [])] TNone = TablesOk []
  /\ minimise_table ex_table (Some 0) = Failed 2
  /\ minimise_table ex_table (Some 2) = Ok [mkEntry 8 2 15 16777216; mkEntry 4 0 14 16777216].
Proof.
  split; [| repeat split; vm_compute; reflexivity].
  split; [intros e [] | split; [intros e [] |]]. left. intros i j a b _ Ha. destruct i; discriminate.
Qed.
