(* C07: SCPConnection.read / write as a whole, struct fields, per-core fields. *)
From Coq Require Import ZArith List Bool Lia String.
Require Import Rig.Generated.GenMemOps Rig.Generated.GenSCP Rig.Model.Base Rig.Model.Machine Rig.Model.MemOps
  Rig.Spec.MemOps Rig.Proofs.MemOpsArith Rig.Proofs.MemOps Rig.Proofs.MemOpsChunks Rig.Proofs.MemOpsExact.
Import ListNotations.
Open Scope Z_scope.

(* ------------------------------------------------------------------ read *)
Lemma sc_read_order_exact : forall buffer nbr M c core address length (order : list rchunk -> list rchunk),
  0 <= address -> 0 <= length -> address + length <= 2 ^ 32 -> 1 <= buffer < 2 ^ 32 ->
  (forall cs, covers cs (order cs)) ->
  exists tr, sc_read_order (mk_env buffer nbr) M c core address length order =
               Ok (tr, mem_range (M c) address length) /\
             trace_ok buffer tr /\ Forall (fun r => is_read_cmd (rq_cmd r)) tr /\
             Forall (fun r => rq_chip r = c /\ rq_core r = core) tr.
Proof.
  intros buffer nbr M c core address length order Ha Hl Htop Hb Hord.
  unfold sc_read_order.
  destruct (length <? 0) eqn:E; [apply Z.ltb_lt in E; lia|].
  cbn [mk_env e_buffer].
  destruct (read_chunks_tiles address length buffer ltac:(lia) Hl) as (cs & Hcs & Ht).
  rewrite Hcs. cbn [bind].
  apply (read_run_exact buffer nbr M c core address length cs); auto.
Qed.

Lemma sc_read_exact : forall buffer nbr M c core address length,
  0 <= address -> 0 <= length -> address + length <= 2 ^ 32 -> 1 <= buffer < 2 ^ 32 ->
  exists tr, sc_read (mk_env buffer nbr) M c core address length =
               Ok (tr, mem_range (M c) address length) /\
             trace_ok buffer tr /\ Forall (fun r => is_read_cmd (rq_cmd r)) tr /\
             Forall (fun r => rq_chip r = c /\ rq_core r = core) tr.
Proof.
  intros. unfold sc_read. apply sc_read_order_exact; auto.
  intros cs. split; apply incl_refl.
Qed.

(* ------------------------------------------------------------------ write *)
Lemma sc_write_order_exact : forall buffer nbr M c core address data (order : list call -> list call),
  0 <= address -> address + zlen data <= 2 ^ 32 -> 1 <= buffer < 2 ^ 32 ->
  (forall cs, covers cs (order cs)) ->
  exists tr M', sc_write_order (mk_env buffer nbr) M c core address data order = Ok (tr, M') /\
                stored_exactly M M' c address data /\ trace_ok buffer tr /\
                Forall (fun r => rq_chip r = c) tr.
Proof.
  intros buffer nbr M c core address data order Ha Htop Hb Hord.
  unfold sc_write_order. cbn [mk_env e_buffer].
  destruct (write_chunks_tiles address buffer data ltac:(lia)) as (cs & Hcs & Ht).
  rewrite Hcs. cbn [bind].
  apply (call_run_exact buffer nbr M c core address data cs); auto.
Qed.

Lemma sc_write_exact : forall buffer nbr M c core address data,
  0 <= address -> address + zlen data <= 2 ^ 32 -> 1 <= buffer < 2 ^ 32 ->
  exists tr M', sc_write (mk_env buffer nbr) M c core address data = Ok (tr, M') /\
                stored_exactly M M' c address data /\ trace_ok buffer tr /\
                Forall (fun r => rq_chip r = c) tr.
Proof.
  intros. unfold sc_write. apply sc_write_order_exact; auto.
  intros cs. split; apply incl_refl.
Qed.

(* ------------------------------------------------------------------ the struct tables *)
Lemma field_find_in : forall name t v, field_find name t = Some v -> exists n, In (n, v) t.
Proof.
  intros name t. induction t as [|[n w] t IH]; intros v H; cbn [field_find] in H; [discriminate|].
  destruct (String.eqb name n).
  - inversion H; subst. exists n. left. reflexivity.
  - destruct (IH v H) as (n' & Hin). exists n'. right. assumption.
Qed.

Definition field_in_range (base : Z) (f : string * (Z * Z)) : bool :=
  (0 <=? fst (snd f)) && (0 <=? snd (snd f)) && (base + fst (snd f) + snd (snd f) <=? 2 ^ 32).

Lemma sv_fields_checked : forallb (field_in_range sv_struct_base) sv_fields = true.
Proof. vm_compute. reflexivity. Qed.

Lemma sv_base_nonneg : 0 <= sv_struct_base.
Proof. vm_compute. discriminate. Qed.

Lemma sv_field_range : forall name off n, field_find name sv_fields = Some (off, n) ->
  0 <= off /\ 0 <= n /\ sv_struct_base + off + n <= 2 ^ 32.
Proof.
  intros name off n H. destruct (field_find_in _ _ _ H) as (nm & Hin).
  pose proof (proj1 (forallb_forall _ _) sv_fields_checked _ Hin) as Hc.
  unfold field_in_range in Hc. cbn [fst snd] in Hc.
  apply andb_true_iff in Hc. destruct Hc as [Hc H3]. apply andb_true_iff in Hc. destruct Hc as [H1 H2].
  apply Z.leb_le in H1. apply Z.leb_le in H2. apply Z.leb_le in H3. auto.
Qed.

Definition vcpu_field_ok (f : string * (Z * Z)) : bool := (0 <=? fst (snd f)) && (0 <=? snd (snd f)).

Lemma vcpu_fields_checked : forallb vcpu_field_ok vcpu_fields = true.
Proof. vm_compute. reflexivity. Qed.

Lemma vcpu_field_range : forall name off n, field_find name vcpu_fields = Some (off, n) -> 0 <= off /\ 0 <= n.
Proof.
  intros name off n H. destruct (field_find_in _ _ _ H) as (nm & Hin).
  pose proof (proj1 (forallb_forall _ _) vcpu_fields_checked _ Hin) as Hc.
  unfold vcpu_field_ok in Hc. cbn [fst snd] in Hc. apply andb_true_iff in Hc. destruct Hc as [H1 H2].
  apply Z.leb_le in H1. apply Z.leb_le in H2. auto.
Qed.

(* ------------------------------------------------------------------ struct fields *)
Lemma mc_read_struct_exact : forall buffer nbr M c core name off n,
  1 <= buffer < 2 ^ 32 -> field_find name sv_fields = Some (off, n) ->
  exists tr, mc_read_struct (mk_env buffer nbr) M c core name =
               Ok (tr, mem_range (M c) (sv_struct_base + off) n) /\
             trace_ok buffer tr /\ Forall (fun r => is_read_cmd (rq_cmd r)) tr /\
             Forall (fun r => rq_chip r = c /\ rq_core r = core) tr.
Proof.
  intros buffer nbr M c core name off n Hb Hf. unfold mc_read_struct. rewrite Hf.
  unfold struct_field_address.
  destruct (sv_field_range _ _ _ Hf) as (H1 & H2 & H3). pose proof sv_base_nonneg.
  apply sc_read_exact; lia.
Qed.

Lemma mc_write_struct_exact : forall buffer nbr M c core name off n data,
  1 <= buffer < 2 ^ 32 -> field_find name sv_fields = Some (off, n) -> zlen data = n ->
  exists tr M', mc_write_struct (mk_env buffer nbr) M c core name data = Ok (tr, M') /\
                stored_exactly M M' c (sv_struct_base + off) data /\ trace_ok buffer tr /\
                Forall (fun r => rq_chip r = c) tr.
Proof.
  intros buffer nbr M c core name off n data Hb Hf Hd. unfold mc_write_struct. rewrite Hf.
  unfold struct_field_address.
  destruct (sv_field_range _ _ _ Hf) as (H1 & H2 & H3). pose proof sv_base_nonneg.
  apply sc_write_exact; lia.
Qed.

(* ------------------------------------------------------------------ per-core fields *)
Lemma vcpu_base_field : field_find "vcpu_base" sv_fields = Some (sv_vcpu_base_offset, 4).
Proof. vm_compute. reflexivity. Qed.


Lemma mc_vcpu_address_ok : forall buffer nbr M c p name off n,
  1 <= buffer < 2 ^ 32 -> field_find name vcpu_fields = Some (off, n) ->
  exists tr, mc_vcpu_address (mk_env buffer nbr) M c p name = Ok (tr, vcpu_addr M c p off, n) /\
             trace_ok buffer tr /\ Forall (fun r => is_read_cmd (rq_cmd r)) tr /\
             Forall (fun r => rq_chip r = c) tr.
Proof.
  intros buffer nbr M c p name off n Hb Hf. unfold mc_vcpu_address. rewrite Hf.
  destruct (mc_read_struct_exact buffer nbr M c vcpu_access_core _ _ _ Hb vcpu_base_field)
    as (tr & Hr & Hok & Hrd & Hch).
  rewrite Hr. cbn [bind]. exists tr. split; [|split; [assumption | split; [assumption|]]].
  - unfold vcpu_addr, vcpu_field_address. reflexivity.
  - eapply Forall_impl; [|exact Hch]. intros r [H _]. exact H.
Qed.

Lemma mc_read_vcpu_exact : forall buffer nbr M c p name off n,
  1 <= buffer < 2 ^ 32 -> field_find name vcpu_fields = Some (off, n) ->
  0 <= vcpu_addr M c p off -> vcpu_addr M c p off + n <= 2 ^ 32 ->
  exists tr, mc_read_vcpu (mk_env buffer nbr) M c p name =
               Ok (tr, mem_range (M c) (vcpu_addr M c p off) n) /\
             trace_ok buffer tr /\ Forall (fun r => is_read_cmd (rq_cmd r)) tr /\
             Forall (fun r => rq_chip r = c) tr.
Proof.
  intros buffer nbr M c p name off n Hb Hf Ha Htop. unfold mc_read_vcpu.
  destruct (mc_vcpu_address_ok buffer nbr M c p name off n Hb Hf) as (tr1 & Hr1 & Hok1 & Hrd1 & Hch1).
  rewrite Hr1. cbn [bind].
  destruct (vcpu_field_range _ _ _ Hf) as (Hoff & Hn).
  destruct (sc_read_exact buffer nbr M c vcpu_access_core (vcpu_addr M c p off) n Ha Hn Htop Hb)
    as (tr2 & Hr2 & Hok2 & Hrd2 & Hch2).
  rewrite Hr2. cbn [bind]. exists (tr1 ++ tr2). split; [reflexivity|].
  split; [apply Forall_app; split; assumption|]. split; [apply Forall_app; split; assumption|].
  apply Forall_app. split; [assumption|]. eapply Forall_impl; [|exact Hch2]. intros r [H _]. exact H.
Qed.

Lemma mc_write_vcpu_exact : forall buffer nbr M c p name off n data,
  1 <= buffer < 2 ^ 32 -> field_find name vcpu_fields = Some (off, n) -> zlen data = n ->
  0 <= vcpu_addr M c p off -> vcpu_addr M c p off + n <= 2 ^ 32 ->
  exists tr M', mc_write_vcpu (mk_env buffer nbr) M c p name data = Ok (tr, M') /\
                stored_exactly M M' c (vcpu_addr M c p off) data /\ trace_ok buffer tr /\
                Forall (fun r => rq_chip r = c) tr.
Proof.
  intros buffer nbr M c p name off n data Hb Hf Hd Ha Htop. unfold mc_write_vcpu.
  destruct (mc_vcpu_address_ok buffer nbr M c p name off n Hb Hf) as (tr1 & Hr1 & Hok1 & Hrd1 & Hch1).
  rewrite Hr1. cbn [bind].
  destruct (sc_write_exact buffer nbr M c vcpu_access_core (vcpu_addr M c p off) data Ha ltac:(lia) Hb)
    as (tr2 & M' & Hr2 & Hst & Hok2 & Hch2).
  rewrite Hr2. cbn [bind]. exists (tr1 ++ tr2), M'. split; [reflexivity|]. split; [assumption|].
  split; apply Forall_app; split; assumption.
Qed.
