"""Drive rig's routing-table minimisers on JSON-described cases (runs under /venv/bin/python,
PYTHONPATH=/repo).

An entry is [route, key, mask, sources] with route a list of Routes values and sources a list of
Routes values or null (None).  Results carry entries as [route_bits, key, mask, sources_bits]
(bit r for Routes r, bit 24 for None)."""
import warnings
warnings.simplefilter("ignore")

from collections import OrderedDict  # noqa: E402

from rig.routing_table import (RoutingTableEntry, Routes, MinimisationFailedError,  # noqa: E402
                               minimise_table, minimise_tables)
from rig.routing_table import remove_default_routes, ordered_covering  # noqa: E402

NONE_BIT = 24

# Which refinement paths the cases of this batch exercised (reported by the pseudo-case {"op": "events"};
# observation only: the wrapped functions are called unchanged).
EVENTS = {}


def _count(key):
    EVENTS[key] = EVENTS.get(key, 0) + 1


def _instrument():
    oc = ordered_covering
    up, down, apply_ = oc._refine_upcheck, oc._refine_downcheck, oc._Merge.apply

    # the wrappers pass their arguments through untouched, whatever the signatures are
    def upcheck(*args, **kw):
        res = up(*args, **kw)
        try:
            new, changed = res
            _count("upcheck:" + ("emptied" if changed and not new.entries else
                                 "removed-entries" if changed else "unchanged"))
        except Exception:                                          # noqa
            pass
        return res

    def downcheck(*args, **kw):
        new = down(*args, **kw)
        try:
            merge, aliases = args[0], args[1]
            _count("downcheck:" + ("unchanged" if new.entries == merge.entries else
                                   "emptied" if not new.entries else "removed-entries"))
            if any(len(v) > 1 for v in aliases.values()):
                _count("downcheck:with-aliases")
        except Exception:                                          # noqa
            pass
        return new

    def apply(self, *args, **kw):
        try:
            _count("merge-applied")
            if self.insertion_index < len(self.routing_table) and \
                    oc._get_generality(self.routing_table[self.insertion_index].key,
                                       self.routing_table[self.insertion_index].mask) == self.generality:
                _count("merge-applied:above-equal-generality")
        except Exception:                                          # noqa
            pass
        return apply_(self, *args, **kw)
    oc._refine_upcheck, oc._refine_downcheck, oc._Merge.apply = upcheck, downcheck, apply


def entry(e):
    route, key, mask, sources = e
    return RoutingTableEntry(set(Routes(r) for r in route), key, mask,
                             set(None if s is None else Routes(s) for s in sources))


def bits(s):
    b = 0
    for x in s:
        b |= 1 << (NONE_BIT if x is None else int(x))
    return b


def out_table(t):
    return [[bits(e.route), e.key, e.mask, bits(e.sources)] for e in t]


def out_aliases(a):
    return sorted([[k, m], sorted([k2, m2] for k2, m2 in v)] for (k, m), v in a.items())


def in_aliases(a):
    return dict(((k, m), set((k2, m2) for k2, m2 in v)) for (k, m), v in a)


def guarded(f):
    try:
        return f()
    except MinimisationFailedError as exc:
        return ["fail", exc.final_length, exc.target_length,
                None if exc.chip is None else list(exc.chip)]
    except Exception as exc:                                   # noqa
        return ["other", type(exc).__name__]


def sizes(table):
    """What each method reaches when it is allowed to run to the end (target None)."""
    out = {}
    for name, f in (("rde", remove_default_routes.minimise), ("oc", ordered_covering.minimise)):
        try:
            out[name] = len(f(list(table), None))
        except Exception as exc:                               # noqa
            out[name] = type(exc).__name__
    return out


def run_case(c):
    op = c["op"]
    if op == "events":
        return ["events", dict(EVENTS)]
    if op == "new":
        # RoutingTableEntry.__new__: members given in any order with repeats; sources possibly omitted
        def go():
            route = [Routes(r) for r in c["route"]]
            if c["sources"] is None:
                e = RoutingTableEntry(route, c["key"], c["mask"])
            else:
                e = RoutingTableEntry(route, c["key"], c["mask"], [None if x is None else Routes(x) for x in c["sources"]])
            if type(e.route) is not frozenset or type(e.sources) is not set:
                return ["ok", ["types", type(e.route).__name__, type(e.sources).__name__]]
            return ["ok", [bits(e.route), e.key, e.mask, bits(e.sources)]]
        return guarded(go)
    METHODS = {1: remove_default_routes.minimise, 2: ordered_covering.minimise}
    if op == "mts":
        tables = OrderedDict((tuple(chip), [entry(e) for e in t]) for chip, t in c["tables"])
        tg = c["targets"]
        if isinstance(tg, list):
            tg = dict((tuple(chip), v) for chip, v in tg)
        kw = {} if c.get("methods") is None else dict(methods=tuple(METHODS[i] for i in c["methods"]))
        r = guarded(lambda: ["ok", [[list(chip), out_table(t)] for chip, t in
                                    minimise_tables(tables, tg, **kw).items()]])
        if r[0] == "fail":
            r.append({repr(list(chip)): sizes(t) for chip, t in tables.items()})
        return r
    if op == "seq":
        # several minimiser calls in this one interpreter; a later table is seeded with entries whose
        # key and mask are merge products of the earlier calls (with another route).  The tables actually
        # used are returned so that the oracle and the model see them.
        products, steps = [], []
        for st in c["steps"]:
            spec = list(st["table"])
            if st.get("seed_route") is not None:
                spec += [[st["seed_route"], k, m, st["seed_sources"]] for k, m in products[-st["seed_n"]:]]
            table = sorted((entry(e) for e in spec),
                           key=lambda e: bin(~e.key & ~e.mask & 0xffffffff).count("1"))
            f = ordered_covering.minimise if st["op"] == "oc_min" else minimise_table
            used = out_table(table)
            r = guarded(lambda: ["ok", out_table(f(table, st["target"]))])
            if r[0] == "ok":
                have = set((e[1], e[2]) for e in used)
                products += [[e[1], e[2]] for e in r[1] if (e[1], e[2]) not in have]
            elif r[0] == "fail":
                r.append(sizes(table))
            steps.append([used, r])
        return ["seq", steps]
    table = [entry(e) for e in c["table"]]
    target = c["target"]
    if op == "rde":
        r = guarded(lambda: ["ok", out_table(remove_default_routes.minimise(table, target))])
    elif op == "oc_min":
        r = guarded(lambda: ["ok", out_table(ordered_covering.minimise(table, target))])
    elif op == "rde_nc":
        r = guarded(lambda: ["ok", out_table(remove_default_routes.minimise(table, target, check_for_aliases=False))])
    elif op == "mt":
        kw = {} if c.get("methods") is None else dict(methods=[METHODS[i] for i in c["methods"]])
        r = guarded(lambda: ["ok", out_table(minimise_table(table, target, **kw))])
    elif op == "oc":
        # two rounds of ordered_covering, the second on the first result plus new entries with the
        # aliases dictionary of the first
        rounds = []
        al = in_aliases(c.get("aliases", []))
        cur = table
        for rnd in c["rounds"]:
            cur = cur + [entry(e) for e in rnd["extra"]]

            def go():
                t, a = ordered_covering.ordered_covering(cur, rnd["target"], aliases=al,
                                                         no_raise=rnd["no_raise"])
                return ["ok", out_table(t), out_aliases(a), t, a]
            r = guarded(go)
            if r[0] != "ok":
                rounds.append(r)
                break
            cur, al = r[3], r[4]
            rounds.append(r[:3])
        r = ["rounds", rounds]
    else:
        raise ValueError(op)
    if r[0] == "fail":
        r.append(sizes(table))
    return r


if __name__ == "__main__":
    import implutil
    _instrument()
    implutil.run_cases(run_case, per_case_s=20)
