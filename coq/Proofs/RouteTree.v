(* C03 -- lemmas about routing trees: induction principle, attach, attach_chain, truncate. *)
From Coq Require Import ZArith List Bool Lia Permutation.
Require Import Rig.Model.Base Rig.Model.Route Rig.Spec.Route Rig.Proofs.Route.
Import ListNotations.
Open Scope Z_scope.

(* ------------------------------------------------------------------------------------------------
   induction over the nested tree type *)
Lemma rtree_ind2 : forall P : rtree -> Prop,
    (forall v, P (RLeaf v)) ->
    (forall c kids, Forall (fun k => P (snd k)) kids -> P (RNode c kids)) ->
    forall t, P t.
Proof.
  intros P Hl Hn. fix IH 1. intros [c kids|v]; [|apply Hl].
  apply Hn. revert kids. fix IHk 1. intros [|k kids]; constructor; [apply IH | apply IHk].
Qed.

Definition chip_eq_dec : forall a b : chip, {a = b} + {a <> b}.
Proof. intros [a1 a2] [b1 b2]. destruct (Z.eq_dec a1 b1), (Z.eq_dec a2 b2); [left|right|right|right]; congruence. Defined.

(* number of tree nodes on chip x *)
Definition occ (x : chip) (t : rtree) : nat := count_occ chip_eq_dec (chips t) x.

Lemma occ_node : forall x c kids,
    occ x (RNode c kids) =
    ((if chip_eq_dec c x then 1 else 0) + fold_right (fun k acc => occ x (snd k) + acc) 0 kids)%nat.
Proof.
  intros x c kids. unfold occ. simpl chips. simpl count_occ.
  assert (H : count_occ chip_eq_dec (flat_map (fun k => chips (snd k)) kids) x =
              fold_right (fun k acc => (count_occ chip_eq_dec (chips (snd k)) x + acc)%nat) 0%nat kids).
  { induction kids as [|k kids IH]; simpl; [reflexivity|]. rewrite count_occ_app, IH. reflexivity. }
  rewrite H. destruct (chip_eq_dec c x); simpl; reflexivity.
Qed.

Lemma chip_eqb_dec : forall a b, chip_eqb a b = if chip_eq_dec a b then true else false.
Proof.
  intros a b. destruct (chip_eq_dec a b) as [E|E].
  - apply rt_chip_eqb_eq. exact E.
  - destruct (chip_eqb a b) eqn:H; [|reflexivity]. apply rt_chip_eqb_eq in H. contradiction.
Qed.

Lemma fold_occ_app : forall x (l1 l2 : list (option Z * rtree)),
    fold_right (fun k acc => (occ x (snd k) + acc)%nat) 0%nat (l1 ++ l2) =
    (fold_right (fun k acc => (occ x (snd k) + acc)%nat) 0%nat l1 +
     fold_right (fun k acc => (occ x (snd k) + acc)%nat) 0%nat l2)%nat.
Proof. intros x l1 l2. induction l1 as [|k l1 IH]; simpl; [reflexivity|]. rewrite IH. lia. Qed.

(* attaching k below every node on chip p adds occ p t copies of k *)
Lemma occ_attach : forall p k x t,
    occ x (attach p k t) = (occ x t + occ p t * occ x (snd k))%nat.
Proof.
  intros p k x. induction t as [v|c kids IH] using rtree_ind2.
  - simpl. unfold occ. simpl. reflexivity.
  - simpl attach.
    set (kids' := map (fun rk => (fst rk, attach p k (snd rk))) kids).
    assert (Hk : fold_right (fun k0 acc => (occ x (snd k0) + acc)%nat) 0%nat kids' =
                 (fold_right (fun k0 acc => (occ x (snd k0) + acc)%nat) 0%nat kids +
                  fold_right (fun k0 acc => (occ p (snd k0) + acc)%nat) 0%nat kids * occ x (snd k))%nat).
    { subst kids'. induction IH as [|k0 kids Hk0 _ IHk]; simpl; [reflexivity|].
      rewrite Hk0, IHk. lia. }
    rewrite (occ_node x c), (occ_node p c).
    rewrite chip_eqb_dec. destruct (chip_eq_dec c p) as [E|E].
    + rewrite occ_node, fold_occ_app, Hk. simpl. lia.
    + rewrite occ_node, Hk. simpl. lia.
Qed.

Lemma occ_in : forall x t, In x (chips t) <-> (1 <= occ x t)%nat.
Proof.
  intros x t. unfold occ. rewrite (count_occ_In chip_eq_dec). lia.
Qed.

Lemma nodup_occ : forall t, NoDup (chips t) <-> forall x, (occ x t <= 1)%nat.
Proof. intros t. unfold occ. apply (NoDup_count_occ chip_eq_dec). Qed.

Lemma root_chip_attach : forall p k t, root_chip (attach p k t) = root_chip t.
Proof. intros p k [c kids|v]; reflexivity. Qed.

(* tree_hops of a node, child by child *)
Definition hops_kid (c : chip) (k : option Z * rtree) : list (chip * option Z * chip) :=
  match snd k with
  | RNode c' _ => (c, fst k, c') :: tree_hops (snd k)
  | RLeaf _ => []
  end.

Lemma in_hops_node : forall e c kids,
    In e (tree_hops (RNode c kids)) <-> exists k, In k kids /\ In e (hops_kid c k).
Proof. intros e c kids. simpl. rewrite in_flat_map. reflexivity. Qed.

Lemma attach_node_eq : forall p k c kids,
    attach p k (RNode c kids) =
    RNode c (if chip_eqb c p then map (fun rk => (fst rk, attach p k (snd rk))) kids ++ [k]
             else map (fun rk => (fst rk, attach p k (snd rk))) kids).
Proof. reflexivity. Qed.

(* tree_hops of the tree after attaching a single new node *)
Lemma hops_attach_leafnode : forall p d c t e,
    In e (tree_hops (attach p (Some d, RNode c []) t)) -> In e (tree_hops t) \/ e = (p, Some d, c).
Proof.
  intros p d c. induction t as [v|c0 kids IH] using rtree_ind2; intros e H.
  - simpl in H. destruct H.
  - rewrite attach_node_eq in H. apply in_hops_node in H. destruct H as [k0 [Hk0 He]].
    assert (Hmap : In k0 (map (fun rk => (fst rk, attach p (Some d, RNode c []) (snd rk))) kids) ->
                   In e (tree_hops (RNode c0 kids)) \/ e = (p, Some d, c)).
    { intros Hin. apply in_map_iff in Hin. destruct Hin as [k1 [Heq Hk1]]. subst k0.
      rewrite Forall_forall in IH. specialize (IH k1 Hk1).
      destruct k1 as [r1 s1]. unfold hops_kid in He. simpl in He.
      destruct s1 as [c1 ks1|v1].
      - rewrite attach_node_eq in He. destruct He as [He|He].
        + left. apply in_hops_node. exists (r1, RNode c1 ks1). split; [exact Hk1|].
          unfold hops_kid. simpl. left. exact He.
        + rewrite <- attach_node_eq in He. apply IH in He. destruct He as [He|He]; [|right; exact He].
          left. apply in_hops_node. exists (r1, RNode c1 ks1). split; [exact Hk1|].
          unfold hops_kid. simpl snd. right. exact He.
      - simpl in He. destruct He. }
    destruct (chip_eqb c0 p) eqn:E.
    + apply in_app_or in Hk0. destruct Hk0 as [Hk0|Hk0]; [apply Hmap; exact Hk0|].
      destruct Hk0 as [Hk0|[]]. subst k0. unfold hops_kid in He. simpl in He.
      destruct He as [He|[]]. apply rt_chip_eqb_eq in E. subst c0. right. symmetry. exact He.
    + apply Hmap. exact Hk0.
Qed.

(* ------------------------------------------------------------------------------------------------
   dict_add, truncate *)
Lemma dict_add_in : forall c keys x, In x (dict_add c keys) <-> In x keys \/ x = c.
Proof.
  intros c keys x. unfold dict_add. destruct (chip_mem c keys) eqn:E.
  - apply rt_chip_mem_In in E. split; [auto|]. intros [H|H]; [exact H | subst; exact E].
  - rewrite in_app_iff. simpl. split; intros [H|H]; auto.
    + destruct H as [H|[]]. auto.
Qed.

(* The key lemma: cutting at the LAST point that is already a route node tree_leaves a remainder that does not
   touch the route; the new neighbour is a route node and is the point just before the remainder. *)
Lemma truncate_some : forall route path nb rest,
    truncate route path = Some (nb, rest) ->
    In nb route /\ (forall q, In q (map snd rest) -> ~ In q route) /\
    exists pre d, path = pre ++ (d, nb) :: rest.
Proof.
  intros route path. induction path as [|[d c] path IH]; intros nb rest H; simpl in H.
  - discriminate.
  - destruct (truncate route path) as [[nb' rest']|] eqn:E.
    + inversion H; subst. destruct (IH nb rest eq_refl) as [H1 [H2 [pre [d' H3]]]].
      split; [exact H1|]. split; [exact H2|]. exists ((d, c) :: pre), d'. rewrite H3. reflexivity.
    + destruct (chip_mem c route) eqn:Ec; [|discriminate]. inversion H; subst.
      split; [apply rt_chip_mem_In; exact Ec|]. split.
      * clear IH H Ec. induction rest as [|[d1 c1] rest IH]; intros q Hq; simpl in *; [destruct Hq|].
        destruct (truncate route rest) as [r|] eqn:E1; [discriminate|].
        destruct (chip_mem c1 route) eqn:E2; [discriminate|].
        destruct Hq as [Hq|Hq]; [subst; apply rt_chip_mem_false; exact E2 | apply IH; [reflexivity | exact Hq]].
      * exists [], d. reflexivity.
Qed.

Lemma truncate_none : forall route path,
    truncate route path = None -> forall q, In q (map snd path) -> ~ In q route.
Proof.
  intros route path. induction path as [|[d c] path IH]; intros H q Hq; simpl in *; [destruct Hq|].
  destruct (truncate route path) as [r|] eqn:E; [discriminate|].
  destruct (chip_mem c route) eqn:E2; [discriminate|].
  destruct Hq as [Hq|Hq]; [subst; apply rt_chip_mem_false; exact E2 | apply IH; [reflexivity | exact Hq]].
Qed.

(* ------------------------------------------------------------------------------------------------
   attaching a vertex (a leaf) *)
Definition leaves_kid (c : chip) (k : option Z * rtree) : list (chip * option Z * Z) :=
  match snd k with
  | RLeaf v => [(c, fst k, v)]
  | RNode _ _ => tree_leaves (snd k)
  end.

Lemma in_leaves_node : forall e c kids,
    In e (tree_leaves (RNode c kids)) <-> exists k, In k kids /\ In e (leaves_kid c k).
Proof. intros e c kids. simpl. rewrite in_flat_map. reflexivity. Qed.

Lemma occ_leaf : forall x v, occ x (RLeaf v) = 0%nat.
Proof. reflexivity. Qed.

Lemma occ_attach_leaf : forall p r v x t, occ x (attach p (r, RLeaf v) t) = occ x t.
Proof. intros. rewrite occ_attach. simpl snd. rewrite occ_leaf. lia. Qed.

Lemma hops_attach_leaf : forall p r v t e,
    In e (tree_hops (attach p (r, RLeaf v) t)) <-> In e (tree_hops t).
Proof.
  intros p r v. induction t as [v0|c0 kids IH] using rtree_ind2; intros e.
  - simpl. tauto.
  - rewrite attach_node_eq. rewrite !in_hops_node. rewrite Forall_forall in IH.
    set (f := fun rk : option Z * rtree => (fst rk, attach p (r, RLeaf v) (snd rk))).
    assert (Hkid : forall k, In k kids -> (In e (hops_kid c0 (f k)) <-> In e (hops_kid c0 k))).
    { intros [rk sk] Hk. unfold f, hops_kid. cbn [fst snd]. destruct sk as [c1 ks1|v1].
      - rewrite attach_node_eq. rewrite <- attach_node_eq. simpl.
        rewrite (IH _ Hk e). cbn [snd]. tauto.
      - simpl. tauto. }
    split.
    + intros [k [Hk He]].
      assert (Hk' : In k (map f kids) \/ (chip_eqb c0 p = true /\ k = (r, RLeaf v))).
      { destruct (chip_eqb c0 p); [apply in_app_or in Hk; destruct Hk as [Hk|[Hk|[]]]; [left; exact Hk | right; split; [reflexivity | symmetry; exact Hk]] | left; exact Hk]. }
      destruct Hk' as [Hk'|[_ Hk']].
      * apply in_map_iff in Hk'. destruct Hk' as [k1 [Heq Hk1]]. subst k. exists k1. split; [exact Hk1|].
        apply (Hkid k1 Hk1). exact He.
      * subst k. unfold hops_kid in He. simpl in He. destruct He.
    + intros [k [Hk He]]. exists (f k). split.
      * destruct (chip_eqb c0 p); [apply in_or_app; left|]; apply in_map; exact Hk.
      * apply (Hkid k Hk). exact He.
Qed.

Lemma leaves_attach_leaf : forall p r v t e,
    In e (tree_leaves (attach p (r, RLeaf v) t)) <->
    In e (tree_leaves t) \/ (In p (chips t) /\ e = (p, r, v)).
Proof.
  intros p r v. induction t as [v0|c0 kids IH] using rtree_ind2; intros e.
  - simpl. tauto.
  - rewrite attach_node_eq. rewrite !in_leaves_node. rewrite Forall_forall in IH.
    set (f := fun rk : option Z * rtree => (fst rk, attach p (r, RLeaf v) (snd rk))).
    assert (Hkid : forall k, In k kids ->
                             (In e (leaves_kid c0 (f k)) <->
                              In e (leaves_kid c0 k) \/ (In p (chips (snd k)) /\ e = (p, r, v)))).
    { intros [rk sk] Hk. unfold f, leaves_kid. cbn [fst snd]. destruct sk as [c1 ks1|v1].
      - rewrite attach_node_eq. rewrite <- attach_node_eq. apply (IH _ Hk e).
      - simpl. tauto. }
    split.
    + intros [k [Hk He]].
      assert (Hk' : In k (map f kids) \/ (chip_eqb c0 p = true /\ k = (r, RLeaf v))).
      { destruct (chip_eqb c0 p); [apply in_app_or in Hk; destruct Hk as [Hk|[Hk|[]]]; [left; exact Hk | right; split; [reflexivity | symmetry; exact Hk]] | left; exact Hk]. }
      destruct Hk' as [Hk'|[Hc Hk']].
      * apply in_map_iff in Hk'. destruct Hk' as [k1 [Heq Hk1]]. subst k.
        apply (Hkid k1 Hk1) in He. destruct He as [He|[Hp He]].
        -- left. exists k1. split; assumption.
        -- right. split; [|exact He]. simpl. right. apply in_flat_map. exists k1. split; assumption.
      * subst k. unfold leaves_kid in He. simpl in He. destruct He as [He|[]].
        apply rt_chip_eqb_eq in Hc. subst c0. right. split; [simpl; left; reflexivity | symmetry; exact He].
    + intros [[k [Hk He]]|[Hp He]].
      * exists (f k). split.
        -- destruct (chip_eqb c0 p); [apply in_or_app; left|]; apply in_map; exact Hk.
        -- apply (Hkid k Hk). left. exact He.
      * simpl in Hp. destruct Hp as [Hp|Hp].
        -- subst c0. rewrite rt_chip_eqb_refl. exists (r, RLeaf v). split.
           ++ apply in_or_app. right. left. reflexivity.
           ++ unfold leaves_kid. simpl. left. symmetry. exact He.
        -- apply in_flat_map in Hp. destruct Hp as [k1 [Hk1 Hp1]]. exists (f k1). split.
           ++ destruct (chip_eqb c0 p); [apply in_or_app; left|]; apply in_map; exact Hk1.
           ++ apply (Hkid k1 Hk1). right. split; assumption.
Qed.

(* a tree made of nodes only has no leaves; attaching a node does not create one *)
Lemma leaves_attach_node : forall p d c t e,
    In e (tree_leaves (attach p (Some d, RNode c []) t)) -> In e (tree_leaves t).
Proof.
  intros p d c. induction t as [v0|c0 kids IH] using rtree_ind2; intros e H.
  - simpl in H. destruct H.
  - rewrite attach_node_eq in H. apply in_leaves_node in H. destruct H as [k [Hk He]].
    rewrite Forall_forall in IH. apply in_leaves_node.
    assert (Hk' : In k (map (fun rk => (fst rk, attach p (Some d, RNode c []) (snd rk))) kids)
                  \/ k = (Some d, RNode c [])).
    { destruct (chip_eqb c0 p); [apply in_app_or in Hk; destruct Hk as [Hk|[Hk|[]]]; [left; exact Hk | right; symmetry; exact Hk] | left; exact Hk]. }
    destruct Hk' as [Hk'|Hk'].
    + apply in_map_iff in Hk'. destruct Hk' as [[rk sk] [Heq Hk1]]. subst k. exists (rk, sk). split; [exact Hk1|].
      unfold leaves_kid in *. cbn [fst snd] in *. destruct sk as [c1 ks1|v1].
      * rewrite attach_node_eq in He. rewrite <- attach_node_eq in He. apply (IH _ Hk1 e). exact He.
      * exact He.
    + subst k. unfold leaves_kid in He. simpl in He. destruct He.
Qed.
