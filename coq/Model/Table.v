(* Executable model of rig.routing_table: entries, first-match lookup, and the minimisers
     remove_default_routes.minimise, ordered_covering.{ordered_covering, minimise},
     minimise.{minimise_table, minimise_tables}.
   Definitions only; proofs are in Proofs/Table*.v.

   The integer kernels are NOT written here: [intersect], [get_generality], [merge_acc_init],
   [merge_acc_step], [merge_key_mask] are regenerated from the source text on every run
   (Generated/GenTable.v) and [routes_is_link], [routes_opposite], [routes_count] are dumped from the
   live Routes enumeration (Generated/GenTableEnums.v).

   INTERFACE used by other properties (C01, C10): [entry], [table], [matches], [lookup], [km], and
   the minimisers [remove_default], [oc_minimise], [minimise_table], [minimise_tables].

   Representation of Python values
   * RoutingTableEntry(route, key, mask, sources): [route] (a frozenset of Routes) is the bit set
     sum of 2^r over its members r (Routes are the integers 0..23); [sources] (a set of Routes and
     possibly None) is the same with None as bit [routes_count] = 24.  The minimisers only ever compare
     routes for equality, take unions of sources, and look at sets of size one, none of which depends on
     an iteration order, so bit sets lose nothing.  Domain: members of route are Routes, members of
     sources are Routes or None (anything else makes the Python code raise AttributeError).
   * key and mask are Python ints (Z).  Keys looked up are 32-bit.
   * A Python set of table indices is a strictly increasing [list nat]; the aliases dictionary is an
     association list keyed by (key, mask) whose values are duplicate-free lists; neither the order of
     the dictionary nor of the alias sets influences the tables returned (only the returned dictionary,
     which the harness compares as a mapping of sets). *)
From Coq Require Import ZArith List Bool.
Require Import Rig.Generated.GenTable Rig.Generated.GenTableEnums Rig.Model.Base.
Import ListNotations.
Open Scope Z_scope.

(* ------------------------------------------------------------------------------------------------ *)
(** * Entries, matching, first-match lookup *)

Record entry := mkEntry { e_route : Z; e_key : Z; e_mask : Z; e_sources : Z }.
Definition table := list entry.
Definition km := (Z * Z)%type.                         (* a (key, mask) pair *)
Definition km_of (e : entry) : km := (e_key e, e_mask e).
Definition km_eqb (a b : km) : bool := (fst a =? fst b) && (snd a =? snd b).
Definition entry_eqb (a b : entry) : bool :=
  (e_route a =? e_route b) && (e_key a =? e_key b) && (e_mask a =? e_mask b)
  && (e_sources a =? e_sources b).

(* the router's test: a 32-bit key k matches when  k & mask == key *)
Definition km_matches (c : km) (k : Z) : bool := Z.land k (snd c) =? fst c.
Definition matches (e : entry) (k : Z) : bool := km_matches (km_of e) k.
(* the entry that routes k: the first one that matches, as the hardware does *)
Definition lookup (t : table) (k : Z) : option entry := find (fun e => matches e k) t.

Definition intersects (a b : entry) : bool := intersect (e_key a) (e_mask a) (e_key b) (e_mask b).
Definition gen_of (e : entry) : Z := get_generality (e_key e) (e_mask e).

Definition len {A} (l : list A) : Z := Z.of_nat (length l).

(* bit of None in a sources set *)
Definition none_bit : Z := routes_count.

(* len(s) == 1 for a bit set s: the r with s = {r} *)
Definition singleton_of (s : Z) : option Z :=
  find (fun r => s =? Z.shiftl 1 r) (map Z.of_nat (seq 0 (S (Z.to_nat routes_count)))).

Definition route_is_link (r : Z) : bool :=
  match zassoc r routes_is_link with Some b => b | None => false end.

(* ------------------------------------------------------------------------------------------------ *)
(** * remove_default_routes *)

(* _is_defaultable(i, entry, table, check_for_aliases); [rest] is table[i+1:] *)
Definition is_defaultable (check : bool) (e : entry) (rest : table) : bool :=
  match singleton_of (e_sources e), singleton_of (e_route e) with
  | Some s, Some r =>
      negb (s =? none_bit)
      && (route_is_link s && route_is_link r)
      && (match zassoc s routes_opposite with Some o => o =? r | None => false end)
      && (negb check || negb (existsb (intersects e) rest))
  | _, _ => false
  end.

Fixpoint rd_go (check : bool) (t : table) : table :=
  match t with
  | [] => []
  | e :: rest => if is_defaultable check e rest then rd_go check rest else e :: rd_go check rest
  end.

Fixpoint zmem (x : Z) (l : list Z) : bool :=
  match l with [] => false | y :: l' => (x =? y) || zmem x l' end.
Fixpoint znodup (l : list Z) : bool :=
  match l with [] => true | x :: l' => negb (zmem x l') && znodup l' end.

(* len(set(e.mask for e in table)) == 1 and len(table) == len(set(e.key for e in table)) *)
Definition no_alias_shortcut (t : table) : bool :=
  match t with
  | [] => false
  | e :: r => forallb (fun e' => e_mask e' =? e_mask e) r && znodup (map e_key t)
  end.

(* remove_default_routes.minimise(table, target_length, check_for_aliases);
   MinimisationFailedError(target, final_length) is [Failed final_length] *)
Definition remove_default_gen (check_for_aliases : bool) (t : table) (target : option Z) : result table :=
  let check := if check_for_aliases then negb (no_alias_shortcut t) else false in
  let nt := rd_go check t in
  match target with
  | Some tl => if tl <? len nt then Failed (len nt) else Ok nt
  | None => Ok nt
  end.
Definition remove_default := remove_default_gen true.

(* ------------------------------------------------------------------------------------------------ *)
(** * ordered_covering *)

(* sorted(table, key=generality): Python's sort is stable *)
Fixpoint insert_by_gen (x : entry) (l : table) : table :=
  match l with
  | [] => [x]
  | y :: l' => if gen_of x <=? gen_of y then x :: y :: l' else y :: insert_by_gen x l'
  end.
Definition sort_by_gen (t : table) : table := fold_right insert_by_gen [] t.

(* the binary search of _get_insertion_index; [gens] are the generalities of the table, [g] is the
   decremented generality.  Every iteration shrinks top - bottom, so [length table] iterations suffice
   (Proofs: bsearch_fuel). *)
Fixpoint bsearch (fuel : nat) (gens : list Z) (g : Z) (bottom pos top : nat) : nat :=
  match fuel with
  | O => pos
  | S f =>
      let pg := nth pos gens 0 in
      if negb (pg =? g) && (Nat.ltb bottom pos && Nat.ltb pos top) then
        let bottom' := if pg <? g then pos else bottom in
        let top' := if pg <? g then top else pos in
        bsearch f gens g bottom' (bottom' + (top' - bottom') / 2)%nat top'
      else pos
  end.

(* while pos < len(table) and gg(table[pos]) <= generality: pos += 1   ([l] is gens[pos:]) *)
Fixpoint scan_le (l : list Z) (g : Z) (pos : nat) : nat :=
  match l with
  | [] => pos
  | x :: l' => if x <=? g then scan_le l' g (S pos) else pos
  end.

(* _get_insertion_index(routing_table, generality) *)
Definition insertion_index (gens : list Z) (generality : Z) : nat :=
  match gens with
  | [] => O
  | _ =>
      let g := generality - 1 in
      let n := length gens in
      let pos := bsearch n gens g 0 (n / 2)%nat n in
      scan_le (skipn pos gens) g pos
  end.

(* a _Merge against a fixed routing table (the table and its generalities are passed alongside) *)
Record merge := mkMerge {
  m_entries : list nat;        (* indices, increasing *)
  m_key : Z; m_mask : Z;
  m_gen : Z;
  m_goodness : Z;
  m_ins : nat;                 (* insertion_index *)
  m_sources : Z }.

(* the entries at the given indices, in index order *)
Definition members (t : table) (idxs : list nat) : table :=
  flat_map (fun i => match nth_error t i with Some e => [e] | None => [] end) idxs.

(* _Merge.__new__(routing_table, entries) *)
Definition mk_merge (t : table) (gens : list Z) (idxs : list nat) : merge :=
  let es := members t idxs in
  let acc := fold_left (fun acc e => let '(a, b, c) := acc in merge_acc_step a b c (e_key e) (e_mask e))
                       es merge_acc_init in
  let '(any_ones, all_ones, all_selected) := acc in
  let '(key, mask) := merge_key_mask any_ones all_ones all_selected in
  let g := get_generality key mask in
  {| m_entries := idxs; m_key := key; m_mask := mask; m_gen := g;
     m_goodness := len idxs - 1;
     m_ins := insertion_index gens g;
     m_sources := fold_left Z.lor (map e_sources es) 0 |}.

Fixpoint nmem (x : nat) (l : list nat) : bool :=
  match l with [] => false | y :: l' => Nat.eqb x y || nmem x l' end.
Definition ndiff (a b : list nat) : list nat := filter (fun x => negb (nmem x b)) a.

(* indices j >= start of the entries of [l] whose route equals r *)
Fixpoint same_route_from (r : Z) (l : table) (start : nat) : list nat :=
  match l with
  | [] => []
  | e :: l' => if e_route e =? r then start :: same_route_from r l' (S start)
               else same_route_from r l' (S start)
  end.

(* _get_all_merges: the index sets yielded, in order ([rest] = table[i:]) *)
Fixpoint all_merges_go (rest : table) (i : nat) (considered : list nat) : list (list nat) :=
  match rest with
  | [] => []
  | e :: rest' =>
      if nmem i considered then all_merges_go rest' (S i) considered
      else
        let m := i :: same_route_from (e_route e) rest' (S i) in
        let considered' := m ++ considered in
        if Nat.ltb 1 (length m) then m :: all_merges_go rest' (S i) considered'
        else all_merges_go rest' (S i) considered'
  end.
Definition all_merges (t : table) : list (list nat) := all_merges_go t O [].

(* the aliases dictionary *)
Definition aliases := list (km * list km).
Fixpoint alias_get (k : km) (a : aliases) : option (list km) :=
  match a with
  | [] => None
  | (k', v) :: a' => if km_eqb k k' then Some v else alias_get k a'
  end.
Fixpoint alias_remove (k : km) (a : aliases) : aliases :=
  match a with
  | [] => []
  | (k', v) :: a' => if km_eqb k k' then alias_remove k a' else (k', v) :: alias_remove k a'
  end.
Definition km_mem (k : km) (s : list km) : bool := existsb (km_eqb k) s.
(* set.update *)
Definition km_union (s add : list km) : list km :=
  fold_left (fun s k => if km_mem k s then s else s ++ [k]) add s.

(* _get_covered_keys_and_masks(merge, aliases) *)
Definition covered_kms (t : table) (a : aliases) (m : merge) : list km :=
  flat_map (fun e =>
              let kms := match alias_get (km_of e) a with Some s => s | None => [km_of e] end in
              filter (fun c => intersect (m_key m) (m_mask m) (fst c) (snd c)) kms)
           (skipn (m_ins m) t).

Definition bits32_desc : list Z := map Z.of_nat (rev (seq 0 32)).
Definition popcount32 (x : Z) : Z :=
  fold_right Z.add 0 (map (fun b => if Z.testbit x b then 1 else 0) bits32_desc).
Definition low32 : Z := 4294967295.

(* the scan of [covered] in _refine_downcheck: (most_stringent, bits wanted with value True,
   bits wanted with value False); the set bits_and_vals of (bit, bool) pairs is the pair of bit sets *)
Definition stringency (covered : list km) (merge_mask : Z) : Z * Z * Z :=
  fold_left (fun st c =>
               let '(ms, bt, bf) := st in
               let settable := Z.land (Z.land (snd c) (Z.lnot merge_mask)) low32 in
               let n := popcount32 settable in
               if n <=? ms then
                 let '(ms1, bt1, bf1) := if n <? ms then (n, 0, 0) else (ms, bt, bf) in
                 (ms1, Z.lor bt1 (Z.land settable (Z.lnot (fst c))),
                       Z.lor bf1 (Z.land settable (fst c)))
               else st)
            covered (33, 0, 0).

(* entries of the merge that have to go to set [bit] of the merged key to the value excluded by val:
   not entry.mask & bit  or  bool(entry.key & bit) is (not val) *)
Definition working_remove (t : table) (idxs : list nat) (b : Z) (val : bool) : list nat :=
  filter (fun i => match nth_error t i with
                   | Some e => negb (Z.testbit (e_mask e) b) || Bool.eqb (Z.testbit (e_key e) b) (negb val)
                   | None => false
                   end) idxs.

(* for bit, val in sorted(bits_and_vals, reverse=True): higher bits first, True before False *)
Definition choose_remove (t : table) (idxs : list nat) (bt bf : Z) : list nat :=
  fold_left (fun remove b =>
               let step (remove : list nat) (present : bool) (val : bool) :=
                 if present then
                   let w := working_remove t idxs b val in
                   match remove with
                   | [] => w
                   | _ => if Nat.ltb (length w) (length remove) then w else remove
                   end
                 else remove in
               step (step remove (Z.testbit bt b) true) (Z.testbit bf b) false)
            bits32_desc [].

(* _refine_downcheck(merge, aliases, min_goodness).  Every iteration that does not leave the loop
   removes at least one entry from the merge, so [length entries + 1] iterations suffice. *)
Fixpoint downcheck (fuel : nat) (t : table) (gens : list Z) (a : aliases) (min_goodness : Z)
         (m : merge) : result merge :=
  if m_goodness m <=? min_goodness then Ok (mk_merge t gens [])       (* while ... else *)
  else
    match fuel with
    | O => OutOfFuel
    | S f =>
        match covered_kms t a m with
        | [] => Ok m
        | covered =>
            let '(ms, bt, bf) := stringency covered (m_mask m) in
            if ms =? 0 then Ok (mk_merge t gens [])
            else
              let remove := choose_remove t (m_entries m) bt bf in
              downcheck f t gens a min_goodness (mk_merge t gens (ndiff (m_entries m) remove))
        end
    end.
Definition refine_downcheck (t : table) (gens : list Z) (a : aliases) (min_goodness : Z) (m : merge) :=
  downcheck (S (length (m_entries m))) t gens a min_goodness m.

(* table[i+1 : ins] *)
Definition slice_between (t : table) (i ins : nat) : table := firstn (ins - S i) (skipn (S i) t).

(* _refine_upcheck(merge, min_goodness) -> (merge, changed).  The loop runs over the entries of the
   merge it was given, highest index first; [stop] is the break. *)
Definition refine_upcheck (t : table) (gens : list Z) (min_goodness : Z) (m : merge) : merge * bool :=
  let '(m', changed, _) :=
    fold_left (fun st i =>
                 let '(cur, changed, stop) := st in
                 if (stop : bool) then st
                 else match nth_error t i with
                      | None => st
                      | Some e =>
                          if existsb (intersects e) (slice_between t i (m_ins cur)) then
                            let cur' := mk_merge t gens (ndiff (m_entries cur) [i]) in
                            if m_goodness cur' <=? min_goodness
                            then (mk_merge t gens [], true, true)
                            else (cur', true, false)
                          else st
                      end)
              (rev (m_entries m)) (m, false, false) in
  (m', changed).

(* _refine_merge(merge, aliases, min_goodness) *)
Definition refine_merge (t : table) (gens : list Z) (a : aliases) (min_goodness : Z) (m : merge)
  : result merge :=
  bind (refine_downcheck t gens a min_goodness m) (fun m1 =>
  if m_goodness m1 >? min_goodness then
    let '(m2, changed) := refine_upcheck t gens min_goodness m1 in
    if changed && (m_goodness m2 >? min_goodness)
    then refine_downcheck t gens a min_goodness m2
    else Ok m2
  else Ok m1).

(* _get_best_merge(routing_table, aliases) *)
Definition best_merge (t : table) (a : aliases) : result merge :=
  let gens := map gen_of t in
  fold_left (fun st idxs =>
               bind st (fun best =>
               let m := mk_merge t gens idxs in
               if m_goodness m <=? Z.max 0 (m_goodness best) then Ok best
               else bind (refine_merge t gens a (Z.max 0 (m_goodness best)) m) (fun m' =>
                    if m_goodness m' >? Z.max 0 (m_goodness best) then Ok m' else Ok best)))
            (all_merges t) (Ok (mk_merge t gens [])).
(* best_goodness starts at 0 with the empty merge (goodness -1) as best_merge and afterwards always
   equals best_merge.goodness > 0: it is max 0 (goodness of best). *)

(* the new table of _Merge.apply: [i] is the index of the head of [t] *)
Fixpoint apply_table (t : table) (i ins : nat) (entries : list nat) (new : entry) : table :=
  match t with
  | [] => if Nat.eqb ins i then [new] else []
  | e :: r =>
      (if Nat.eqb i ins then [new] else [])
        ++ (if nmem i entries then [] else [e])
        ++ apply_table r (S i) ins entries new
  end.

(* _Merge.apply(aliases) -> (new_table, new_aliases).
   aliases[(key, mask)] = our_aliases is made before the entries are walked; if an entry of the merge
   has the merged key and mask itself, aliases.pop removes that very set again ([live] = false) and the
   merged entry ends up without an aliases record. *)
Definition apply_merge (t : table) (a : aliases) (m : merge) : result (table * aliases) :=
  match members t (m_entries m) with
  | [] => OtherError                                 (* next(iter(frozenset())) : StopIteration *)
  | first :: _ =>
      let mkm := (m_key m, m_mask m) in
      let new := mkEntry (e_route first) (m_key m) (m_mask m) (m_sources m) in
      let '(a1, ours, live) :=
        fold_left (fun st e =>
                     let '(al, ours, live) := st in
                     let k := km_of e in
                     if km_eqb k mkm then
                       (if (live : bool) then (al, ours, false) else (al, km_union ours [k], false))
                     else match alias_get k al with
                          | Some s => (alias_remove k al, km_union ours s, live)
                          | None => (al, km_union ours [k], live)
                          end)
                  (members t (m_entries m)) (alias_remove mkm a, [], true) in
      Ok (apply_table t O (m_ins m) (m_entries m) new,
          if live then a1 ++ [(mkm, ours)] else a1)
  end.

Definition over_target (t : table) (target : option Z) : bool :=
  match target with None => true | Some tl => len t >? tl end.

(* the while loop of ordered_covering; every merge applied shortens the table *)
Fixpoint oc_loop (fuel : nat) (t : table) (a : aliases) (target : option Z) : result (table * aliases) :=
  if over_target t target then
    match fuel with
    | O => OutOfFuel
    | S f =>
        bind (best_merge t a) (fun m =>
        if m_goodness m <=? 0 then Ok (t, a)
        else bind (apply_merge t a m) (fun ta => oc_loop f (fst ta) (snd ta) target))
    end
  else Ok (t, a).

(* ordered_covering(routing_table, target_length, aliases, no_raise) *)
Definition ordered_covering (t : table) (target : option Z) (a : aliases) (no_raise : bool)
  : result (table * aliases) :=
  bind (oc_loop (S (length t)) (sort_by_gen t) a target) (fun ta =>
  match target with
  | Some tl => if negb no_raise && (len (fst ta) >? tl) then Failed (len (fst ta)) else Ok ta
  | None => Ok ta
  end).

(* ordered_covering.minimise(routing_table, target_length) *)
Definition oc_minimise (t : table) (target : option Z) : result table :=
  bind (ordered_covering t target [] true) (fun ta => remove_default (fst ta) target).

(* ------------------------------------------------------------------------------------------------ *)
(** * minimise_table / minimise_tables (default methods) *)

(* _identity(table, target_length): note the strict < *)
Definition identity_method (t : table) (target : option Z) : result table :=
  match target with
  | None => Ok t
  | Some tl => if len t <? tl then Ok t else Failed (len t)
  end.

Definition methods : list (table -> option Z -> result table) :=
  [identity_method; remove_default; oc_minimise].

(* the `for f in methods` loop with a target: first success wins, best_achieved is tracked *)
Fixpoint try_methods (ms : list (table -> option Z -> result table)) (t : table) (tl : Z) (best : Z)
  : result table :=
  match ms with
  | [] => Failed best
  | f :: ms' =>
      match f t (Some tl) with
      | Ok r => Ok r
      | Failed fl => try_methods ms' t tl (if fl <? best then fl else best)
      | OtherError => OtherError
      | OutOfFuel => OutOfFuel
      end
  end.

(* min(results, key=len): the first of the shortest *)
Fixpoint shortest (best : table) (l : list table) : table :=
  match l with
  | [] => best
  | x :: l' => if len x <? len best then shortest x l' else shortest best l'
  end.

Fixpoint all_results (ms : list (table -> option Z -> result table)) (t : table) : result (list table) :=
  match ms with
  | [] => Ok []
  | f :: ms' => bind (f t None) (fun r => bind (all_results ms' t) (fun rs => Ok (r :: rs)))
  end.

(* minimise_table(table, target_length) *)
Definition minimise_table (t : table) (target : option Z) : result table :=
  match target with
  | Some tl => try_methods methods t tl (len t)
  | None => bind (all_results methods t) (fun rs =>
            match rs with [] => OtherError | r :: rs' => Ok (shortest r rs') end)
  end.

(* target_lengths of minimise_tables: None, an int, or a dictionary chip -> int or None *)
Inductive targets :=
| TNone
| TInt (n : Z)
| TDict (d : list (chip * option Z)).

Inductive tables_outcome :=
| TablesOk (ts : list (chip * table))
| TablesFailed (c : chip) (final_length : Z)      (* MinimisationFailedError with exc.chip = c *)
| TablesOther                                      (* KeyError: chip missing from the dictionary *)
| TablesOutOfFuel.

Definition target_for (tg : targets) (c : chip) : option (option Z) :=
  match tg with
  | TNone => Some None
  | TInt n => Some (Some n)
  | TDict d => cassoc c d
  end.

(* minimise_tables(routing_tables, target_lengths): tables in dictionary order, empty results dropped *)
Fixpoint minimise_tables_go (ts : list (chip * table)) (tg : targets) (acc : list (chip * table))
  : tables_outcome :=
  match ts with
  | [] => TablesOk (rev acc)
  | (c, t) :: ts' =>
      match target_for tg c with
      | None => TablesOther
      | Some tl =>
          match minimise_table t tl with
          | Ok [] => minimise_tables_go ts' tg acc
          | Ok r => minimise_tables_go ts' tg ((c, r) :: acc)
          | Failed fl => TablesFailed c fl
          | OtherError => TablesOther
          | OutOfFuel => TablesOutOfFuel
          end
      end
  end.
Definition minimise_tables (ts : list (chip * table)) (tg : targets) : tables_outcome :=
  minimise_tables_go ts tg [].
