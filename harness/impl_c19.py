"""Drive rig's SpiNN-5 board geometry functions on JSON-described cases (run by /venv/bin/python,
PYTHONPATH=<repo>:/verif/harness).  No expectation is computed here: outputs only."""
from rig import geometry
from rig.links import Links


def enc_fpga(r):
    if r is None:
        return -1
    f, n = r
    return int(f) * 65536 + int(n)


def plain(v):
    """Return value -> JSON (tuples of ints, None)."""
    if v is None:
        return None
    return [int(a) for a in v]


def machine(c):
    w, h, rx, ry = c["w"], c["h"], c["rx"], c["ry"]
    root = () if c.get("defaults") else (rx, ry)
    out = []
    raw_fpga = []
    for x in range(w):
        for y in range(h):
            ex, ey = geometry.spinn5_local_eth_coord(x, y, w, h, *root)
            bx, by = geometry.spinn5_chip_coord(x, y, *root)
            out += [int(ex), int(ey), int(bx), int(by)]
            for l in Links:
                r = geometry.spinn5_fpga_link(x, y, l, *root)
                out.append(enc_fpga(r))
                if r is not None:
                    raw_fpga.append([x, y, int(l), plain(r)])
    eth = [plain(e) for e in geometry.spinn5_eth_coords(w, h, *root)]
    return ["ok", out, eth, raw_fpga]


def point(c):
    f, a = c["f"], c["args"]
    if f == "local":
        return ["ok", plain(geometry.spinn5_local_eth_coord(*a))]
    if f == "chip":
        return ["ok", plain(geometry.spinn5_chip_coord(*a))]
    if f == "fpga":
        x, y, l, rx, ry = a
        try:
            l = Links(l)            # callers pass enum members; other integers go in as they are
        except ValueError:
            pass
        return ["ok", plain(geometry.spinn5_fpga_link(x, y, l, rx, ry))]
    if f == "eth":
        return ["ok", [plain(e) for e in geometry.spinn5_eth_coords(*a)]]
    raise KeyError(f)


def dimsrange(c):
    out = []
    for k in range(c["lo"], c["hi"]):
        w, h = geometry.standard_system_dimensions(3 * k)
        out += [int(w), int(h)]
    return ["ok", out]


def history(c):
    """A sequence of calls in this one interpreter, including generators of spinn5_eth_coords that are
    abandoned or consumed piecemeal.  One result per operation; nothing is judged here."""
    gens = {}
    res = []
    for op in c["ops"]:
        kind, a = op[0], op[1:]
        try:
            if kind == "eth_full":
                res.append(["ok", [plain(e) for e in geometry.spinn5_eth_coords(*a)]])
            elif kind == "eth_take":                       # next() n times, then the generator is dropped
                g = geometry.spinn5_eth_coords(*a[:4])
                got = []
                for _ in range(a[4]):
                    try:
                        got.append(plain(next(g)))
                    except StopIteration:
                        break
                res.append(["ok", got])
            elif kind == "eth_in":                         # membership test stops at the first match
                res.append(["ok", (a[4], a[5]) in geometry.spinn5_eth_coords(*a[:4])])
            elif kind == "eth_break":                      # search loop left with break
                got = []
                for e in geometry.spinn5_eth_coords(*a[:4]):
                    got.append(plain(e))
                    if len(got) >= a[4]:
                        break
                res.append(["ok", got])
            elif kind == "eth_open":                       # a generator kept alive under a name
                gens[a[0]] = geometry.spinn5_eth_coords(*a[1:5])
                res.append(["ok", None])
            elif kind == "eth_next":
                got = []
                for _ in range(a[1]):
                    try:
                        got.append(plain(next(gens[a[0]])))
                    except StopIteration:
                        break
                res.append(["ok", got])
            elif kind == "eth_drain":
                res.append(["ok", [plain(e) for e in gens.pop(a[0])]])
            elif kind in ("local", "chip", "fpga"):
                res.append(point(dict(f=kind, args=a)))
            elif kind == "dims":
                res.append(["ok", plain(geometry.standard_system_dimensions(a[0]))])
            else:
                raise KeyError(kind)
        except ValueError:
            res.append(["fail", 0])
        except Exception as e:
            res.append(["other", type(e).__name__])
    return ["ok", res]


def run_case(c):
    try:
        if c["k"] == "history":
            return history(c)
        if c["k"] == "dimsrange":
            return dimsrange(c)
        if c["k"] == "machine":
            return machine(c)
        if c["k"] == "point":
            return point(c)
        if c["k"] == "dims":
            return ["ok", plain(geometry.standard_system_dimensions(c["n"]))]
    except ValueError:
        return ["fail", 0]
    except Exception as e:
        return ["other", type(e).__name__]
    raise KeyError(c["k"])


if __name__ == "__main__":
    import implutil
    implutil.run_cases(run_case, per_case_s=20)
